//! World R2: a store with a token map, custom price feeds, shared market vaults, several markets and
//! funded users, brought up through the REAL store / SPL instructions executed by the in-process
//! runtime, plus builders for the user-action instructions (deposit / withdrawal / order / shift).
//!
//! Real instructions: `initialize`, `enable_role`, `grant_role`, `initialize_token_map`, `set_token_map`,
//! `push_to_token_map(_synthetic)`, `initialize_market_vault`, `initialize_market`, `initialize_oracle`,
//! `initialize_price_feed`, `update_market_config`, `prepare_user`, SPL mint / ATA creation, and every
//! action instruction. Fabricated: the zeroed `Oracle` account (bigger than a CPI allocation may be;
//! `initialize_oracle` itself is real) and the PRICE written into the custom `PriceFeed` accounts (the
//! real writer `update_price_feed_with_chainlink` needs a signed Chainlink report and the verifier
//! program); prices are written with the `PriceFeed` verification hook `set_state`, so everything that
//! READS a price (`with_prices` -> `PriceFeed::check_and_get_price` -> `PriceValidator`) is real.
use anchor_lang::solana_program::{instruction::{AccountMeta, Instruction}, pubkey::Pubkey, system_program};
use gmsol_store::states::{
    common::action::Action, Deposit, Market, Oracle, Order, PriceFeed, PriceFeedPrice, PriceProviderKind, RoleKey, Seed, Shift,
    Store, Withdrawal,
};
use gmsol_utils::{price::PriceFlag, token_config::UpdateTokenConfigParams};

use crate::runtime::{
    keys::Labels,
    market::{market_pda, market_token_mint_pda, market_vault_pda},
    spl, store as st, Account, ExecResult, World,
};

pub const EXEC_LAMPORTS: u64 = 300_000;
/// the fee a keeper claims per execution: less than half of the unused part of EXEC_LAMPORTS, so that a (wrongly
/// accepted) second execution of the same action could be paid as well
pub const EXEC_FEE: u64 = 100_000;

#[derive(Clone, Debug)]
pub struct Tok {
    pub label: String,
    pub mint: Pubkey,
    pub decimals: u8,
    /// synthetic tokens have no mint and no vault
    pub synthetic: bool,
    pub feed: Pubkey,
    pub feed_id: Pubkey,
    pub vault: Pubkey,
    /// USD price (whole dollars) used by `refresh_prices`
    pub price: u64,
}

#[derive(Clone, Debug)]
pub struct Mkt {
    pub label: String,
    pub market: Pubkey,
    pub market_token: Pubkey,
    pub mt_vault: Pubkey,
    pub index: usize,
    pub long: usize,
    pub short: usize,
}

impl Mkt {
    pub fn is_pure(&self) -> bool {
        self.long == self.short
    }
}

#[derive(Clone)]
pub struct R2 {
    pub labels: Labels,
    pub admin: Pubkey,
    pub keeper: Pubkey,
    pub stranger: Pubkey,
    pub users: Vec<Pubkey>,
    pub store: Pubkey,
    pub store_wallet: Pubkey,
    pub token_map: Pubkey,
    pub oracle: Pubkey,
    pub toks: Vec<Tok>,
    pub mkts: Vec<Mkt>,
}

pub fn must(what: &str, r: ExecResult) -> ExecResult {
    assert!(r.ok, "{what} failed: {} {:?}\n{}", r.err_name, r.runtime_error, r.logs.join("\n"));
    r
}

/// (label, decimals, synthetic, usd price)
pub type TokSpec<'a> = (&'a str, u8, bool, u64);
/// (label, index token, long token, short token) by token label
pub type MktSpec<'a> = (&'a str, &'a str, &'a str, &'a str);

pub const DEFAULT_TOKS: [TokSpec<'static>; 4] = [("A", 2, false, 100), ("B", 2, false, 1), ("C", 2, false, 10), ("X", 4, true, 50)];
pub const DEFAULT_MKTS: [MktSpec<'static>; 4] =
    [("M1", "A", "A", "B"), ("M2", "X", "A", "B"), ("M3", "C", "C", "B"), ("MP", "B", "B", "B")];

impl R2 {
    /// Bring the world up. `users` get `funds` units of every real token (ATAs) and a prepared user account.
    pub fn build(w: &mut World, toks: &[TokSpec], mkts: &[MktSpec], n_users: usize, funds: u64) -> R2 {
        let mut labels = Labels::new();
        let admin = labels.key("admin");
        let keeper = labels.key("keeper");
        let stranger = labels.key("stranger");
        w.airdrop(&keeper, 1_000_000_000_000);
        w.airdrop(&stranger, 1_000_000_000_000);
        let roles = [RoleKey::MARKET_KEEPER, RoleKey::ORDER_KEEPER, RoleKey::PRICE_KEEPER, RoleKey::ORACLE_CONTROLLER];
        let grants: Vec<(&str, Pubkey)> = roles.iter().map(|r| (*r, keeper)).collect();
        let store = st::bootstrap(w, &admin, &roles, &grants);
        labels.bind(store, "store");
        let store_wallet = Pubkey::find_program_address(&[Store::WALLET_SEED, store.as_ref()], &gmsol_store::ID).0;
        labels.bind(store_wallet, "store_wallet");
        // token map
        let token_map = labels.key("token_map");
        must(
            "initialize_token_map",
            w.execute(
                &st::ix(
                    gmsol_store::accounts::InitializeTokenMap { payer: keeper, store, token_map, system_program: system_program::ID },
                    gmsol_store::instruction::InitializeTokenMap {},
                ),
                &[keeper, token_map],
            ),
        );
        must(
            "set_token_map",
            w.execute(
                &st::ix(gmsol_store::accounts::SetTokenMap { authority: keeper, store, token_map }, gmsol_store::instruction::SetTokenMap {}),
                &[keeper],
            ),
        );
        // oracle: zeroed account fabricated (too large for a CPI allocation), initialised by the real instruction
        let oracle = labels.key("oracle");
        w.set_account(
            oracle,
            Account { owner: gmsol_store::ID, lamports: 1_000_000_000, data: vec![0u8; 8 + std::mem::size_of::<Oracle>()], executable: false },
        );
        must(
            "initialize_oracle",
            w.execute(
                &st::ix(
                    gmsol_store::accounts::InitializeOracle { payer: keeper, authority: keeper, store, oracle, system_program: system_program::ID },
                    gmsol_store::instruction::InitializeOracle {},
                ),
                &[keeper],
            ),
        );
        // tokens
        let provider = PriceProviderKind::ChainlinkDataStreams;
        let mut tv: Vec<Tok> = Vec::new();
        for (i, (label, decimals, synthetic, price)) in toks.iter().enumerate() {
            let mint = labels.key(&format!("mint-{label}"));
            labels.bind(mint, label);
            let feed_id = labels.key(&format!("feedid-{label}"));
            let index = i as u16;
            let feed = Pubkey::find_program_address(
                &[PriceFeed::SEED, store.as_ref(), keeper.as_ref(), &index.to_le_bytes(), &[provider as u8], mint.as_ref()],
                &gmsol_store::ID,
            )
            .0;
            labels.bind(feed, &format!("feed-{label}"));
            let builder = UpdateTokenConfigParams::default()
                .update_price_feed(&provider, feed_id, None)
                .expect("feed slot")
                .with_expected_provider(provider)
                .with_heartbeat_duration(60);
            if *synthetic {
                must(
                    "push_to_token_map_synthetic",
                    w.execute(
                        &st::ix(
                            gmsol_store::accounts::PushToTokenMapSynthetic { authority: keeper, store, token_map, system_program: system_program::ID },
                            gmsol_store::instruction::PushToTokenMapSynthetic {
                                name: label.to_string(),
                                token: mint,
                                token_decimals: *decimals,
                                builder,
                                enable: true,
                                new: true,
                            },
                        ),
                        &[keeper],
                    ),
                );
            } else {
                must("create mint", spl::create_mint(w, &keeper, &mint, *decimals, &keeper));
                must(
                    "push_to_token_map",
                    w.execute(
                        &st::ix(
                            gmsol_store::accounts::PushToTokenMap { authority: keeper, store, token_map, token: mint, system_program: system_program::ID },
                            gmsol_store::instruction::PushToTokenMap { name: label.to_string(), builder, enable: true, new: true },
                        ),
                        &[keeper],
                    ),
                );
                must("initialize_market_vault", init_vault(w, &store, &keeper, &mint));
            }
            must(
                "initialize_price_feed",
                w.execute(
                    &st::ix(
                        gmsol_store::accounts::InitializePriceFeed { authority: keeper, store, price_feed: feed, system_program: system_program::ID },
                        gmsol_store::instruction::InitializePriceFeed { index, provider: provider as u8, token: mint, feed_id },
                    ),
                    &[keeper],
                ),
            );
            let vault = market_vault_pda(&store, &mint);
            if !*synthetic {
                labels.bind(vault, &format!("vault-{label}"));
            }
            tv.push(Tok { label: label.to_string(), mint, decimals: *decimals, synthetic: *synthetic, feed, feed_id, vault, price: *price });
        }
        // markets
        let ti = |l: &str| tv.iter().position(|t| t.label == l).unwrap_or_else(|| panic!("token {l}"));
        let mut mv: Vec<Mkt> = Vec::new();
        for (label, index, long, short) in mkts {
            let (index, long, short) = (ti(index), ti(long), ti(short));
            let market_token = market_token_mint_pda(&store, &tv[index].mint, &tv[long].mint, &tv[short].mint);
            let market = market_pda(&store, &market_token);
            labels.bind(market, label);
            labels.bind(market_token, &format!("mt-{label}"));
            must(
                "initialize_market",
                w.execute(
                    &st::ix(
                        gmsol_store::accounts::InitializeMarket {
                            authority: keeper,
                            store,
                            market_token_mint: market_token,
                            long_token_mint: tv[long].mint,
                            short_token_mint: tv[short].mint,
                            market,
                            token_map,
                            long_token_vault: tv[long].vault,
                            short_token_vault: tv[short].vault,
                            system_program: system_program::ID,
                            token_program: spl_token::ID,
                        },
                        gmsol_store::instruction::InitializeMarket { index_token_mint: tv[index].mint, name: label.to_string(), enable: true },
                    ),
                    &[keeper],
                ),
            );
            must("initialize_market_vault (market token)", init_vault(w, &store, &keeper, &market_token));
            let mt_vault = market_vault_pda(&store, &market_token);
            labels.bind(mt_vault, &format!("vault-mt-{label}"));
            mv.push(Mkt { label: label.to_string(), market, market_token, mt_vault, index, long, short });
        }
        // users
        let mut users = Vec::new();
        for i in 1..=n_users {
            let u = labels.key(&format!("u{i}"));
            w.airdrop(&u, 1_000_000_000_000);
            must("prepare_user", st::prepare_user(w, &store, &u).1);
            for t in tv.iter().filter(|t| !t.synthetic) {
                let (ata, r) = spl::create_ata(w, &keeper, &u, &t.mint);
                must("create ata", r);
                must("mint_to", spl::mint_to(w, &t.mint, &ata, &keeper, funds));
            }
            for m in &mv {
                must("create mt ata", spl::create_ata(w, &keeper, &u, &m.market_token).1);
            }
            users.push(u);
        }
        let r2 = R2 { labels, admin, keeper, stranger, users, store, store_wallet, token_map, oracle, toks: tv, mkts: mv };
        r2.refresh_prices(w);
        r2
    }

    pub fn tok(&self, label: &str) -> &Tok {
        self.toks.iter().find(|t| t.label == label).unwrap_or_else(|| panic!("token {label}"))
    }
    pub fn mkt(&self, label: &str) -> &Mkt {
        self.mkts.iter().find(|m| m.label == label).unwrap_or_else(|| panic!("market {label}"))
    }
    pub fn tok_by_mint(&self, mint: &Pubkey) -> Option<&Tok> {
        self.toks.iter().find(|t| t.mint == *mint)
    }
    pub fn mkt_by_token(&self, market_token: &Pubkey) -> Option<&Mkt> {
        self.mkts.iter().find(|m| m.market_token == *market_token)
    }
    pub fn mkt_by_key(&self, market: &Pubkey) -> Option<&Mkt> {
        self.mkts.iter().find(|m| m.market == *market)
    }
    pub fn user(&self, label: &str) -> Pubkey {
        match label {
            "keeper" => self.keeper,
            "stranger" => self.stranger,
            "admin" => self.admin,
            l => self.users[l[1..].parse::<usize>().expect("user label") - 1],
        }
    }
    pub fn ata(&self, owner: &Pubkey, mint: &Pubkey) -> Pubkey {
        spl::ata(owner, mint)
    }
    pub fn balance(&self, w: &World, account: &Pubkey) -> u64 {
        spl::token_balance(w, account).unwrap_or(0)
    }

    // ---------------------------------------------------------------- prices (fabricated writer)
    /// Write `price` (whole USD, spread `spread_bp` basis points around it) with timestamp `ts` / `slot`.
    pub fn set_price(&self, w: &mut World, tok: &Tok, price: u64, spread_bp: u64, ts: i64, slot: u64) {
        let mut acc = w.account(&tok.feed).expect("feed account").clone();
        let n = std::mem::size_of::<PriceFeed>();
        let mut pf: PriceFeed = bytemuck::pod_read_unaligned(&acc.data[8..8 + n]);
        let p = price as u128 * 100_000_000;
        let d = p * spread_bp as u128 / 10_000;
        let mut pr = PriceFeedPrice::new(8, ts, p, p - d, p + d, 0);
        pr.set_flag(PriceFlag::Open, true);
        gmsol_store::states::oracle::verif::feed::set_state(&mut pf, slot, ts, &pr);
        acc.data[8..8 + n].copy_from_slice(bytemuck::bytes_of(&pf));
        w.set_account(tok.feed, acc);
    }

    /// the USD price currently stored in the token's feed account (the nominal price before the first publication)
    pub fn current_price(&self, w: &World, tok: &Tok) -> u64 {
        let n = std::mem::size_of::<PriceFeed>();
        let stored = w
            .account(&tok.feed)
            .map(|acc| bytemuck::pod_read_unaligned::<PriceFeed>(&acc.data[8..8 + n]))
            .map(|pf| (*pf.price().price() / 100_000_000) as u64)
            .unwrap_or(0);
        if stored == 0 {
            tok.price
        } else {
            stored
        }
    }

    /// All feeds publish "now"; every token keeps the price and spread it last published (initially
    /// the nominal price without spread).
    pub fn refresh_prices(&self, w: &mut World) {
        let (ts, slot) = w.clock();
        let n = std::mem::size_of::<PriceFeed>();
        for t in &self.toks {
            let stored = w.account(&t.feed).map(|acc| bytemuck::pod_read_unaligned::<PriceFeed>(&acc.data[8..8 + n]));
            let (p, lo, hi) = match stored {
                Some(pf) if *pf.price().price() != 0 => (*pf.price().price(), *pf.price().min_price(), *pf.price().max_price()),
                _ => {
                    let p = t.price as u128 * 100_000_000;
                    (p, p, p)
                }
            };
            let spread_bp = ((hi - lo) * 10_000 / (2 * p)) as u64;
            self.set_price(w, t, (p / 100_000_000) as u64, spread_bp, ts, slot);
        }
    }

    /// the feed of token `ti` publishes price +- spread "now" (later `refresh_prices` keep both)
    pub fn set_token_price_spread(&self, w: &mut World, ti: usize, usd: u64, spread_bp: u64) {
        let (ts, slot) = w.clock();
        self.set_price(w, &self.toks[ti], usd, spread_bp, ts, slot);
    }

    /// the feed of token `ti` publishes a new price "now" (later `refresh_prices` keep it)
    pub fn set_token_price(&self, w: &mut World, ti: usize, usd: u64) {
        let (ts, slot) = w.clock();
        self.set_price(w, &self.toks[ti], usd, 0, ts, slot);
    }

    /// feed accounts for the (sorted) token list of a swap-params block, then the swap markets
    /// (unique, excluding the current market), as the execute instructions expect them
    fn exec_remaining(&self, tokens: &[Pubkey], path: &[Pubkey], current_market_token: &Pubkey) -> Vec<AccountMeta> {
        let mut v = Vec::new();
        for t in tokens {
            let feed = self.tok_by_mint(t).map(|t| t.feed).unwrap_or_default();
            v.push(AccountMeta::new_readonly(feed, false));
        }
        let mut seen = vec![*current_market_token];
        for mt in path {
            if !seen.contains(mt) {
                seen.push(*mt);
                v.push(AccountMeta::new(market_pda(&self.store, mt), false));
            }
        }
        v
    }

    pub fn market_state(&self, w: &World, m: &Mkt) -> Market {
        w.account_data::<Market>(&m.market).expect("market account")
    }

    // ---------------------------------------------------------------- market config
    pub fn update_market_config(&self, w: &mut World, m: &Mkt, key: &str, value: u128) -> ExecResult {
        w.execute(
            &st::ix(
                gmsol_store::accounts::UpdateMarketConfig { authority: self.keeper, store: self.store, market: m.market },
                gmsol_store::instruction::UpdateMarketConfig { key: key.to_string(), value },
            ),
            &[self.keeper],
        )
    }

    // ---------------------------------------------------------------- deposits
    pub fn deposit_pda(&self, owner: &Pubkey, nonce: &[u8; 32]) -> Pubkey {
        Pubkey::find_program_address(&[Deposit::SEED, self.store.as_ref(), owner.as_ref(), nonce], &gmsol_store::ID).0
    }

    /// The owner's preparation (escrow ATAs) + `create_deposit`, as ONE transaction.
    /// `long_in` / `short_in`: initial token (by index into `toks`) and amount; swap paths by market index.
    #[allow(clippy::too_many_arguments)]
    pub fn create_deposit(
        &self,
        w: &mut World,
        owner: &Pubkey,
        m: &Mkt,
        nonce: &[u8; 32],
        long_in: Option<(usize, u64)>,
        short_in: Option<(usize, u64)>,
        min_market_token: u64,
        long_path: &[usize],
        short_path: &[usize],
        exec_lamports: u64,
    ) -> ExecResult {
        let deposit = self.deposit_pda(owner, nonce);
        let mut ixs = vec![ata_ix(owner, &deposit, &m.market_token)];
        let lt = long_in.map(|(t, _)| self.toks[t].mint);
        let stk = short_in.map(|(t, _)| self.toks[t].mint);
        for t in [lt, stk].into_iter().flatten() {
            ixs.push(ata_ix(owner, &deposit, &t));
        }
        let mut ix = st::ix(
            gmsol_store::accounts::CreateDeposit {
                owner: *owner,
                receiver: *owner,
                store: self.store,
                market: m.market,
                deposit,
                market_token: m.market_token,
                initial_long_token: lt,
                initial_short_token: stk,
                market_token_escrow: spl::ata(&deposit, &m.market_token),
                initial_long_token_escrow: lt.map(|t| spl::ata(&deposit, &t)),
                initial_short_token_escrow: stk.map(|t| spl::ata(&deposit, &t)),
                market_token_ata: spl::ata(owner, &m.market_token),
                initial_long_token_source: lt.map(|t| spl::ata(owner, &t)),
                initial_short_token_source: stk.map(|t| spl::ata(owner, &t)),
                system_program: system_program::ID,
                token_program: spl_token::ID,
                associated_token_program: spl_associated_token_account::ID,
            },
            gmsol_store::instruction::CreateDeposit {
                nonce: *nonce,
                params: gmsol_store::ops::deposit::CreateDepositParams {
                    execution_lamports: exec_lamports,
                    long_token_swap_length: long_path.len() as u8,
                    short_token_swap_length: short_path.len() as u8,
                    initial_long_token_amount: long_in.map(|x| x.1).unwrap_or(0),
                    initial_short_token_amount: short_in.map(|x| x.1).unwrap_or(0),
                    min_market_token_amount: min_market_token,
                    should_unwrap_native_token: false,
                },
            },
        );
        for i in long_path.iter().chain(short_path.iter()) {
            ix.accounts.push(AccountMeta::new_readonly(self.mkts[*i].market, false));
        }
        ixs.push(ix);
        w.execute_tx(&ixs, &[*owner])
    }

    pub fn deposit(&self, w: &World, deposit: &Pubkey) -> Option<Deposit> {
        match w.account(deposit) {
            Some(a) if a.owner == gmsol_store::ID => w.account_data::<Deposit>(deposit),
            _ => None,
        }
    }

    /// `execute_deposit` as a keeper would build it from the deposit account. `wrong_vault`: pass the
    /// vault of another token (a hard failure).
    pub fn execute_deposit(&self, w: &mut World, executor: &Pubkey, deposit: &Pubkey, throw: bool, fee: u64) -> ExecResult {
        let ix = self.execute_deposit_ix(w, executor, deposit, throw, fee);
        w.execute(&ix, &[*executor])
    }

    pub fn execute_deposit_ix(&self, w: &World, executor: &Pubkey, deposit: &Pubkey, throw: bool, fee: u64) -> Instruction {
        let Some(d) = self.deposit(w, deposit) else {
            return self.execute_missing_ix(executor, deposit);
        };
        let lt = d.tokens().initial_long_token.token();
        let stk = d.tokens().initial_short_token.token();
        let mt = d.tokens().market_token();
        let m = self.mkt_by_token(&mt).expect("market of deposit");
        let mut ix = st::ix(
            gmsol_store::accounts::ExecuteDeposit {
                authority: *executor,
                store: self.store,
                token_map: self.token_map,
                oracle: self.oracle,
                market: m.market,
                deposit: *deposit,
                market_token: mt,
                initial_long_token: lt,
                initial_short_token: stk,
                market_token_escrow: d.tokens().market_token_account(),
                initial_long_token_escrow: d.tokens().initial_long_token.account(),
                initial_short_token_escrow: d.tokens().initial_short_token.account(),
                initial_long_token_vault: lt.map(|t| market_vault_pda(&self.store, &t)),
                initial_short_token_vault: stk.map(|t| market_vault_pda(&self.store, &t)),
                token_program: spl_token::ID,
                system_program: system_program::ID,
                chainlink_program: None,
                event_authority: st::event_authority(&gmsol_store::ID),
                program: gmsol_store::ID,
            },
            gmsol_store::instruction::ExecuteDeposit { execution_fee: fee, throw_on_execution_error: throw },
        );
        let path: Vec<Pubkey> = d.swap().iter().copied().collect();
        ix.accounts.extend(self.exec_remaining(d.swap().tokens(), &path, &mt));
        payer_writable(&mut ix, executor);
        ix
    }

    /// executing an action whose account does not exist (closed): a minimal instruction that must fail
    pub fn execute_missing_ix(&self, executor: &Pubkey, action: &Pubkey) -> Instruction {
        let m = &self.mkts[0];
        st::ix(
            gmsol_store::accounts::ExecuteDeposit {
                authority: *executor,
                store: self.store,
                token_map: self.token_map,
                oracle: self.oracle,
                market: m.market,
                deposit: *action,
                market_token: m.market_token,
                initial_long_token: None,
                initial_short_token: None,
                market_token_escrow: spl::ata(action, &m.market_token),
                initial_long_token_escrow: None,
                initial_short_token_escrow: None,
                initial_long_token_vault: None,
                initial_short_token_vault: None,
                token_program: spl_token::ID,
                system_program: system_program::ID,
                chainlink_program: None,
                event_authority: st::event_authority(&gmsol_store::ID),
                program: gmsol_store::ID,
            },
            gmsol_store::instruction::ExecuteDeposit { execution_fee: EXEC_FEE, throw_on_execution_error: false },
        )
    }

    /// `close_deposit` by `executor`. `owner` / tokens are what the creator remembers (a closed
    /// account cannot be read back).
    pub fn close_deposit(
        &self,
        w: &mut World,
        executor: &Pubkey,
        owner: &Pubkey,
        deposit: &Pubkey,
        m: &Mkt,
        lt: Option<Pubkey>,
        stk: Option<Pubkey>,
    ) -> ExecResult {
        let ix = st::ix(
            gmsol_store::accounts::CloseDeposit {
                executor: *executor,
                store: self.store,
                store_wallet: self.store_wallet,
                owner: *owner,
                receiver: *owner,
                market_token: m.market_token,
                initial_long_token: lt,
                initial_short_token: stk,
                deposit: *deposit,
                market_token_escrow: spl::ata(deposit, &m.market_token),
                initial_long_token_escrow: lt.map(|t| spl::ata(deposit, &t)),
                initial_short_token_escrow: stk.map(|t| spl::ata(deposit, &t)),
                market_token_ata: spl::ata(owner, &m.market_token),
                initial_long_token_ata: lt.map(|t| spl::ata(owner, &t)),
                initial_short_token_ata: stk.map(|t| spl::ata(owner, &t)),
                system_program: system_program::ID,
                token_program: spl_token::ID,
                associated_token_program: spl_associated_token_account::ID,
                event_authority: st::event_authority(&gmsol_store::ID),
                program: gmsol_store::ID,
            },
            gmsol_store::instruction::CloseDeposit { reason: "verif".into() },
        );
        w.execute(&ix, &[*executor])
    }

    // ---------------------------------------------------------------- withdrawals
    pub fn withdrawal_pda(&self, owner: &Pubkey, nonce: &[u8; 32]) -> Pubkey {
        Pubkey::find_program_address(&[Withdrawal::SEED, self.store.as_ref(), owner.as_ref(), nonce], &gmsol_store::ID).0
    }

    /// escrow ATAs + `create_withdrawal` in one transaction; final tokens by index into `toks`.
    #[allow(clippy::too_many_arguments)]
    pub fn create_withdrawal(
        &self,
        w: &mut World,
        owner: &Pubkey,
        m: &Mkt,
        nonce: &[u8; 32],
        market_token_amount: u64,
        final_long: usize,
        final_short: usize,
        min_long: u64,
        min_short: u64,
        long_path: &[usize],
        short_path: &[usize],
        exec_lamports: u64,
    ) -> ExecResult {
        let wd = self.withdrawal_pda(owner, nonce);
        let (fl, fs) = (self.toks[final_long].mint, self.toks[final_short].mint);
        let mut ixs = vec![ata_ix(owner, &wd, &m.market_token), ata_ix(owner, &wd, &fl)];
        if fs != fl {
            ixs.push(ata_ix(owner, &wd, &fs));
        }
        let mut ix = st::ix(
            gmsol_store::accounts::CreateWithdrawal {
                owner: *owner,
                receiver: *owner,
                store: self.store,
                market: m.market,
                withdrawal: wd,
                market_token: m.market_token,
                final_long_token: fl,
                final_short_token: fs,
                market_token_escrow: spl::ata(&wd, &m.market_token),
                final_long_token_escrow: spl::ata(&wd, &fl),
                final_short_token_escrow: spl::ata(&wd, &fs),
                market_token_source: spl::ata(owner, &m.market_token),
                system_program: system_program::ID,
                token_program: spl_token::ID,
                associated_token_program: spl_associated_token_account::ID,
            },
            gmsol_store::instruction::CreateWithdrawal {
                nonce: *nonce,
                params: gmsol_store::ops::withdrawal::CreateWithdrawalParams {
                    execution_lamports: exec_lamports,
                    long_token_swap_path_length: long_path.len() as u8,
                    short_token_swap_path_length: short_path.len() as u8,
                    market_token_amount,
                    min_long_token_amount: min_long,
                    min_short_token_amount: min_short,
                    should_unwrap_native_token: false,
                },
            },
        );
        for i in long_path.iter().chain(short_path.iter()) {
            ix.accounts.push(AccountMeta::new_readonly(self.mkts[*i].market, false));
        }
        ixs.push(ix);
        w.execute_tx(&ixs, &[*owner])
    }

    pub fn withdrawal(&self, w: &World, wd: &Pubkey) -> Option<Withdrawal> {
        match w.account(wd) {
            Some(a) if a.owner == gmsol_store::ID => w.account_data::<Withdrawal>(wd),
            _ => None,
        }
    }

    pub fn execute_withdrawal(&self, w: &mut World, executor: &Pubkey, wd: &Pubkey, throw: bool, fee: u64) -> ExecResult {
        let ix = self.execute_withdrawal_ix(w, executor, wd, throw, fee);
        w.execute(&ix, &[*executor])
    }

    pub fn execute_withdrawal_ix(&self, w: &World, executor: &Pubkey, wd: &Pubkey, throw: bool, fee: u64) -> Instruction {
        let Some(d) = self.withdrawal(w, wd) else {
            return self.execute_missing_ix(executor, wd);
        };
        let mt = d.tokens().market_token();
        let (fl, fs) = (d.tokens().final_long_token(), d.tokens().final_short_token());
        let m = self.mkt_by_token(&mt).expect("market of withdrawal");
        let mut ix = st::ix(
            gmsol_store::accounts::ExecuteWithdrawal {
                authority: *executor,
                store: self.store,
                token_map: self.token_map,
                oracle: self.oracle,
                market: m.market,
                withdrawal: *wd,
                market_token: mt,
                final_long_token: fl,
                final_short_token: fs,
                market_token_escrow: d.tokens().market_token_account(),
                final_long_token_escrow: d.tokens().final_long_token_account(),
                final_short_token_escrow: d.tokens().final_short_token_account(),
                market_token_vault: m.mt_vault,
                final_long_token_vault: market_vault_pda(&self.store, &fl),
                final_short_token_vault: market_vault_pda(&self.store, &fs),
                token_program: spl_token::ID,
                system_program: system_program::ID,
                chainlink_program: None,
                event_authority: st::event_authority(&gmsol_store::ID),
                program: gmsol_store::ID,
            },
            gmsol_store::instruction::ExecuteWithdrawal { execution_fee: fee, throw_on_execution_error: throw },
        );
        let path: Vec<Pubkey> = d.swap().iter().copied().collect();
        ix.accounts.extend(self.exec_remaining(d.swap().tokens(), &path, &mt));
        payer_writable(&mut ix, executor);
        ix
    }

    #[allow(clippy::too_many_arguments)]
    pub fn close_withdrawal(&self, w: &mut World, executor: &Pubkey, owner: &Pubkey, wd: &Pubkey, m: &Mkt, fl: Pubkey, fs: Pubkey) -> ExecResult {
        let ix = st::ix(
            gmsol_store::accounts::CloseWithdrawal {
                executor: *executor,
                store: self.store,
                store_wallet: self.store_wallet,
                owner: *owner,
                receiver: *owner,
                market_token: m.market_token,
                final_long_token: fl,
                final_short_token: fs,
                withdrawal: *wd,
                market_token_escrow: spl::ata(wd, &m.market_token),
                final_long_token_escrow: spl::ata(wd, &fl),
                final_short_token_escrow: spl::ata(wd, &fs),
                market_token_ata: spl::ata(owner, &m.market_token),
                final_long_token_ata: spl::ata(owner, &fl),
                final_short_token_ata: spl::ata(owner, &fs),
                system_program: system_program::ID,
                token_program: spl_token::ID,
                associated_token_program: spl_associated_token_account::ID,
                event_authority: st::event_authority(&gmsol_store::ID),
                program: gmsol_store::ID,
            },
            gmsol_store::instruction::CloseWithdrawal { reason: "verif".into() },
        );
        w.execute(&ix, &[*executor])
    }

    // ---------------------------------------------------------------- swap orders
    pub fn order_pda(&self, owner: &Pubkey, nonce: &[u8; 32]) -> Pubkey {
        Pubkey::find_program_address(&[Order::SEED, self.store.as_ref(), owner.as_ref(), nonce], &gmsol_store::ID).0
    }

    /// escrow ATAs + `create_order_v2(MarketSwap)` in one transaction. `path` (market indices) is passed
    /// as given; the order's market is `market` (a valid order uses the LAST market of the path).
    #[allow(clippy::too_many_arguments)]
    pub fn create_swap_order(
        &self,
        w: &mut World,
        owner: &Pubkey,
        market: &Mkt,
        nonce: &[u8; 32],
        token_in: usize,
        token_out: usize,
        amount: u64,
        min_output: u64,
        path: &[usize],
        exec_lamports: u64,
    ) -> ExecResult {
        let order = self.order_pda(owner, nonce);
        let (ti, to) = (self.toks[token_in].mint, self.toks[token_out].mint);
        let mut ixs = vec![ata_ix(owner, &order, &ti)];
        if to != ti {
            ixs.push(ata_ix(owner, &order, &to));
        }
        let is_collateral_long = self.toks[market.long].mint == to;
        let mut ix = st::ix(
            gmsol_store::accounts::CreateOrderV2 {
                owner: *owner,
                receiver: *owner,
                store: self.store,
                market: market.market,
                user: st::user_pda(&self.store, owner),
                order,
                position: None,
                initial_collateral_token: Some(ti),
                final_output_token: to,
                long_token: None,
                short_token: None,
                initial_collateral_token_escrow: Some(spl::ata(&order, &ti)),
                final_output_token_escrow: Some(spl::ata(&order, &to)),
                long_token_escrow: None,
                short_token_escrow: None,
                initial_collateral_token_source: Some(spl::ata(owner, &ti)),
                system_program: system_program::ID,
                token_program: spl_token::ID,
                associated_token_program: spl_associated_token_account::ID,
                callback_authority: None,
                callback_program: None,
                callback_shared_data_account: None,
                callback_partitioned_data_account: None,
                event_authority: st::event_authority(&gmsol_store::ID),
                program: gmsol_store::ID,
            },
            gmsol_store::instruction::CreateOrderV2 {
                nonce: *nonce,
                params: gmsol_store::ops::order::CreateOrderParams {
                    kind: gmsol_utils::order::OrderKind::MarketSwap,
                    decrease_position_swap_type: None,
                    execution_lamports: exec_lamports,
                    swap_path_length: path.len() as u8,
                    initial_collateral_delta_amount: amount,
                    size_delta_value: 0,
                    is_long: true,
                    is_collateral_long,
                    min_output: Some(min_output as u128),
                    trigger_price: None,
                    acceptable_price: None,
                    should_unwrap_native_token: false,
                    valid_from_ts: None,
                },
                callback_version: None,
            },
        );
        for i in path {
            ix.accounts.push(AccountMeta::new_readonly(self.mkts[*i].market, false));
        }
        ixs.push(ix);
        w.execute_tx(&ixs, &[*owner])
    }

    pub fn order(&self, w: &World, order: &Pubkey) -> Option<Order> {
        match w.account(order) {
            Some(a) if a.owner == gmsol_store::ID => w.account_data::<Order>(order),
            _ => None,
        }
    }

    /// `execute_increase_or_swap_order_v2` for a swap order, built from the order account.
    pub fn execute_swap_order(&self, w: &mut World, executor: &Pubkey, order: &Pubkey, throw: bool, fee: u64) -> ExecResult {
        let ix = self.execute_swap_order_ix(w, executor, order, throw, fee);
        w.execute(&ix, &[*executor])
    }

    pub fn execute_swap_order_ix(&self, w: &World, executor: &Pubkey, order: &Pubkey, throw: bool, fee: u64) -> Instruction {
        let Some(o) = self.order(w, order) else {
            return self.execute_missing_ix(executor, order);
        };
        let owner = *o.header().owner();
        let m = self.mkt_by_key(o.header().market()).expect("market of order");
        let ti = o.tokens().initial_collateral().token();
        let to = o.tokens().final_output_token().token();
        let mut ix = st::ix(
            gmsol_store::accounts::ExecuteIncreaseOrSwapOrderV2 {
                authority: *executor,
                store: self.store,
                token_map: self.token_map,
                oracle: self.oracle,
                market: m.market,
                owner,
                user: st::user_pda(&self.store, &owner),
                order: *order,
                position: None,
                event: None,
                initial_collateral_token: ti,
                final_output_token: to,
                long_token: None,
                short_token: None,
                initial_collateral_token_escrow: o.tokens().initial_collateral().account(),
                final_output_token_escrow: o.tokens().final_output_token().account(),
                long_token_escrow: None,
                short_token_escrow: None,
                initial_collateral_token_vault: ti.map(|t| market_vault_pda(&self.store, &t)),
                final_output_token_vault: to.map(|t| market_vault_pda(&self.store, &t)),
                long_token_vault: None,
                short_token_vault: None,
                token_program: spl_token::ID,
                system_program: system_program::ID,
                callback_authority: None,
                callback_program: None,
                callback_shared_data_account: None,
                callback_partitioned_data_account: None,
                event_authority: st::event_authority(&gmsol_store::ID),
                program: gmsol_store::ID,
            },
            gmsol_store::instruction::ExecuteIncreaseOrSwapOrderV2 {
                recent_timestamp: w.clock().0,
                execution_fee: fee,
                throw_on_execution_error: throw,
            },
        );
        let path: Vec<Pubkey> = o.swap().iter().copied().collect();
        ix.accounts.extend(self.exec_remaining(o.swap().tokens(), &path, &m.market_token));
        payer_writable(&mut ix, executor);
        ix
    }

    #[allow(clippy::too_many_arguments)]
    pub fn close_swap_order(&self, w: &mut World, executor: &Pubkey, owner: &Pubkey, order: &Pubkey, ti: Pubkey, to: Pubkey) -> ExecResult {
        let mut ix = st::ix(
            gmsol_store::accounts::CloseOrderV2 {
                executor: *executor,
                store: self.store,
                store_wallet: self.store_wallet,
                owner: *owner,
                receiver: *owner,
                rent_receiver: *owner,
                user: st::user_pda(&self.store, owner),
                referrer_user: None,
                order: *order,
                initial_collateral_token: Some(ti),
                final_output_token: Some(to),
                long_token: None,
                short_token: None,
                initial_collateral_token_escrow: Some(spl::ata(order, &ti)),
                final_output_token_escrow: Some(spl::ata(order, &to)),
                long_token_escrow: None,
                short_token_escrow: None,
                initial_collateral_token_ata: Some(spl::ata(owner, &ti)),
                final_output_token_ata: Some(spl::ata(owner, &to)),
                long_token_ata: None,
                short_token_ata: None,
                system_program: system_program::ID,
                token_program: spl_token::ID,
                associated_token_program: spl_associated_token_account::ID,
                callback_authority: None,
                callback_program: None,
                callback_shared_data_account: None,
                callback_partitioned_data_account: None,
                event_authority: st::event_authority(&gmsol_store::ID),
                program: gmsol_store::ID,
            },
            gmsol_store::instruction::CloseOrderV2 { reason: "verif".into() },
        );
        payer_writable(&mut ix, executor);
        w.execute(&ix, &[*executor])
    }

    // ---------------------------------------------------------------- shifts
    pub fn shift_pda(&self, owner: &Pubkey, nonce: &[u8; 32]) -> Pubkey {
        Pubkey::find_program_address(&[Shift::SEED, self.store.as_ref(), owner.as_ref(), nonce], &gmsol_store::ID).0
    }

    #[allow(clippy::too_many_arguments)]
    pub fn create_shift(&self, w: &mut World, owner: &Pubkey, from: &Mkt, to: &Mkt, nonce: &[u8; 32], amount: u64, min_to: u64, exec_lamports: u64) -> ExecResult {
        let shift = self.shift_pda(owner, nonce);
        let mut ixs = vec![ata_ix(owner, &shift, &from.market_token)];
        if to.market_token != from.market_token {
            ixs.push(ata_ix(owner, &shift, &to.market_token));
        }
        ixs.push(st::ix(
            gmsol_store::accounts::CreateShift {
                owner: *owner,
                receiver: *owner,
                store: self.store,
                from_market: from.market,
                to_market: to.market,
                shift,
                from_market_token: from.market_token,
                to_market_token: to.market_token,
                from_market_token_escrow: spl::ata(&shift, &from.market_token),
                to_market_token_escrow: spl::ata(&shift, &to.market_token),
                from_market_token_source: spl::ata(owner, &from.market_token),
                to_market_token_ata: spl::ata(owner, &to.market_token),
                system_program: system_program::ID,
                token_program: spl_token::ID,
                associated_token_program: spl_associated_token_account::ID,
            },
            gmsol_store::instruction::CreateShift {
                nonce: *nonce,
                params: gmsol_store::ops::shift::CreateShiftParams {
                    execution_lamports: exec_lamports,
                    from_market_token_amount: amount,
                    min_to_market_token_amount: min_to,
                },
            },
        ));
        w.execute_tx(&ixs, &[*owner])
    }

    pub fn shift(&self, w: &World, shift: &Pubkey) -> Option<Shift> {
        match w.account(shift) {
            Some(a) if a.owner == gmsol_store::ID => w.account_data::<Shift>(shift),
            _ => None,
        }
    }

    pub fn execute_shift(&self, w: &mut World, executor: &Pubkey, shift: &Pubkey, throw: bool, fee: u64) -> ExecResult {
        let ix = self.execute_shift_ix(w, executor, shift, throw, fee);
        w.execute(&ix, &[*executor])
    }

    pub fn execute_shift_ix(&self, w: &World, executor: &Pubkey, shift: &Pubkey, throw: bool, fee: u64) -> Instruction {
        let Some(s) = self.shift(w, shift) else {
            return self.execute_missing_ix(executor, shift);
        };
        let from = self.mkt_by_token(&s.tokens().from_market_token()).expect("from market");
        let to = self.mkt_by_token(&s.tokens().to_market_token()).expect("to market");
        let mut ix = st::ix(
            gmsol_store::accounts::ExecuteShift {
                authority: *executor,
                store: self.store,
                token_map: self.token_map,
                oracle: self.oracle,
                from_market: from.market,
                to_market: to.market,
                shift: *shift,
                from_market_token: from.market_token,
                to_market_token: to.market_token,
                from_market_token_escrow: s.tokens().from_market_token_account(),
                to_market_token_escrow: s.tokens().to_market_token_account(),
                from_market_token_vault: from.mt_vault,
                token_program: spl_token::ID,
                chainlink_program: None,
                event_authority: st::event_authority(&gmsol_store::ID),
                program: gmsol_store::ID,
            },
            gmsol_store::instruction::ExecuteShift { execution_lamports: fee, throw_on_execution_error: throw },
        );
        let mut tokens: Vec<Pubkey> = [from.index, from.long, from.short, to.index, to.long, to.short].iter().map(|i| self.toks[*i].mint).collect();
        tokens.sort();
        tokens.dedup();
        ix.accounts.extend(self.exec_remaining(&tokens, &[], &from.market_token));
        payer_writable(&mut ix, executor);
        ix
    }

    pub fn close_shift(&self, w: &mut World, executor: &Pubkey, owner: &Pubkey, shift: &Pubkey, from: &Mkt, to: &Mkt) -> ExecResult {
        let mut ix = st::ix(
            gmsol_store::accounts::CloseShift {
                executor: *executor,
                store: self.store,
                store_wallet: self.store_wallet,
                owner: *owner,
                receiver: *owner,
                shift: *shift,
                from_market_token: from.market_token,
                to_market_token: to.market_token,
                from_market_token_escrow: spl::ata(shift, &from.market_token),
                to_market_token_escrow: spl::ata(shift, &to.market_token),
                from_market_token_ata: spl::ata(owner, &from.market_token),
                to_market_token_ata: spl::ata(owner, &to.market_token),
                system_program: system_program::ID,
                token_program: spl_token::ID,
                associated_token_program: spl_associated_token_account::ID,
                event_authority: st::event_authority(&gmsol_store::ID),
                program: gmsol_store::ID,
            },
            gmsol_store::instruction::CloseShift { reason: "verif".into() },
        );
        payer_writable(&mut ix, executor);
        w.execute(&ix, &[*executor])
    }

    // ---------------------------------------------------------------- keeper / treasury transfers
    /// `claim_fees_from_market` by `authority` (the store's receiver) into the authority's ATA
    pub fn claim_fees(&self, w: &mut World, authority: &Pubkey, m: &Mkt, tok: &Tok) -> ExecResult {
        let (target, r) = spl::create_ata(w, authority, authority, &tok.mint);
        if !r.ok {
            return r;
        }
        w.execute(
            &st::ix(
                gmsol_store::accounts::ClaimFeesFromMarket {
                    authority: *authority,
                    store: self.store,
                    market: m.market,
                    token_mint: tok.mint,
                    vault: tok.vault,
                    target,
                    token_program: spl_token::ID,
                    event_authority: st::event_authority(&gmsol_store::ID),
                    program: gmsol_store::ID,
                },
                gmsol_store::instruction::ClaimFeesFromMarket {},
            ),
            &[*authority],
        )
    }

    /// `market_transfer_in` by the keeper (MARKET_KEEPER) from `from_owner`'s ATA
    pub fn market_transfer_in(&self, w: &mut World, from_owner: &Pubkey, m: &Mkt, tok: &Tok, amount: u64) -> ExecResult {
        w.execute(
            &st::ix(
                gmsol_store::accounts::MarketTransferIn {
                    authority: self.keeper,
                    store: self.store,
                    from_authority: *from_owner,
                    market: m.market,
                    from: spl::ata(from_owner, &tok.mint),
                    vault: tok.vault,
                    token_program: spl_token::ID,
                    event_authority: st::event_authority(&gmsol_store::ID),
                    program: gmsol_store::ID,
                },
                gmsol_store::instruction::MarketTransferIn { amount },
            ),
            &[self.keeper, *from_owner],
        )
    }

    /// action state of any action account (header is the first field of every action): 0 pending,
    /// 1 completed, 2 cancelled; None when the account does not exist / is not the store's
    pub fn action_state(&self, w: &World, action: &Pubkey) -> Option<u8> {
        use gmsol_store::states::common::action::{ActionHeader, ActionState};
        match w.account(action) {
            Some(a) if a.owner == gmsol_store::ID => w.account_data::<ActionHeader>(action).map(|h| match h.action_state() {
                Ok(ActionState::Pending) => 0,
                Ok(ActionState::Completed) => 1,
                Ok(ActionState::Cancelled) => 2,
                _ => 255,
            }),
            _ => None,
        }
    }
}

fn init_vault(w: &mut World, store: &Pubkey, keeper: &Pubkey, mint: &Pubkey) -> ExecResult {
    w.execute(
        &st::ix(
            gmsol_store::accounts::InitializeMarketVault {
                authority: *keeper,
                store: *store,
                mint: *mint,
                vault: market_vault_pda(store, mint),
                system_program: system_program::ID,
                token_program: spl_token::ID,
            },
            gmsol_store::instruction::InitializeMarketVault {},
        ),
        &[*keeper],
    )
}

/// The executor of a keeper instruction is the transaction's fee payer, which the Solana runtime always
/// loads writable whatever the instruction's meta says (the programs pay the execution fee to it).
pub fn payer_writable(ix: &mut Instruction, payer: &Pubkey) {
    for m in ix.accounts.iter_mut() {
        if m.pubkey == *payer && m.is_signer {
            m.is_writable = true;
        }
    }
}

/// idempotent creation of the associated token account of (`owner`, `mint`), paid by `payer`
pub fn ata_ix(payer: &Pubkey, owner: &Pubkey, mint: &Pubkey) -> Instruction {
    spl_associated_token_account::instruction::create_associated_token_account_idempotent(payer, owner, mint, &spl_token::ID)
}

/// hash of the market's economic state (pools, clocks, balances, trade count, funding factor, flags):
/// everything except the revertible buffer and the revision stamps, which every balance-neutral
/// transfer-in / transfer-out pair advances.
pub fn market_digest(m: &Market) -> u64 {
    use gmsol_model::{ClockKind, PoolKind};
    use std::hash::{Hash, Hasher};
    let mut h = std::collections::hash_map::DefaultHasher::new();
    for k in [
        PoolKind::Primary,
        PoolKind::SwapImpact,
        PoolKind::ClaimableFee,
        PoolKind::OpenInterestForLong,
        PoolKind::OpenInterestForShort,
        PoolKind::OpenInterestInTokensForLong,
        PoolKind::OpenInterestInTokensForShort,
        PoolKind::PositionImpact,
        PoolKind::BorrowingFactor,
        PoolKind::FundingAmountPerSizeForLong,
        PoolKind::FundingAmountPerSizeForShort,
        PoolKind::ClaimableFundingAmountPerSizeForLong,
        PoolKind::ClaimableFundingAmountPerSizeForShort,
        PoolKind::CollateralSumForLong,
        PoolKind::CollateralSumForShort,
        PoolKind::TotalBorrowing,
    ] {
        if let Some(p) = m.pool(k) {
            use gmsol_model::Balance;
            p.long_amount().unwrap_or(u128::MAX).hash(&mut h);
            p.short_amount().unwrap_or(u128::MAX).hash(&mut h);
        }
    }
    for c in [ClockKind::PriceImpactDistribution, ClockKind::Borrowing, ClockKind::Funding, ClockKind::AdlForLong, ClockKind::AdlForShort] {
        m.clock(c).hash(&mut h);
    }
    let o = m.state();
    o.long_token_balance_raw().hash(&mut h);
    o.short_token_balance_raw().hash(&mut h);
    o.trade_count().hash(&mut h);
    o.funding_factor_per_second().hash(&mut h);
    m.is_enabled().hash(&mut h);
    m.is_closed().hash(&mut h);
    h.finish()
}

// =====================================================================================================
// Flows: a user action driven from creation to close through the real instructions, every
// instruction wrapped by a `Recorder` (which projects state before / after and writes the trace).

/// One swap step reported by the program (`SwapExecuted` CPI event)
#[derive(Clone, Debug)]
pub struct HopEvent {
    pub market_token: Pubkey,
    pub is_token_in_long: bool,
    pub amount_in: u128,
    pub amount_out: u128,
}

/// decode the `SwapExecuted` events emitted (by event CPI) during an execution, in program order
pub fn swap_events(r: &ExecResult) -> Vec<HopEvent> {
    use anchor_lang::{AnchorDeserialize, Discriminator};
    use gmsol_store::events::SwapExecuted;
    let mut v = Vec::new();
    for e in &r.events {
        if e.program == gmsol_store::ID && e.discriminator[..] == SwapExecuted::DISCRIMINATOR[..] {
            if let Ok(ev) = SwapExecuted::try_from_slice(&e.data) {
                v.push(HopEvent {
                    market_token: ev.market_token,
                    is_token_in_long: ev.report.params().is_token_in_long(),
                    amount_in: *ev.report.params().token_in_amount(),
                    amount_out: *ev.report.token_out_amount(),
                });
            }
        }
    }
    v
}

/// what a recorded instruction is about (for the trace)
#[derive(Clone, Debug, Default)]
pub struct Info {
    /// instruction name: create_deposit, execute_deposit, close_deposit, ..., claim_fees, market_transfer_in
    pub op: String,
    /// market indices the instruction names (current market first, then the swap path markets)
    pub touched: Vec<usize>,
    /// "long" / "short" / "none"
    pub side: String,
    pub amt: u64,
    /// declared swap paths (market indices) and token ends, for executions with swaps
    pub path: Vec<usize>,
    pub path2: Vec<usize>,
    pub token_in: Option<usize>,
    pub token_in2: Option<usize>,
    pub token_out: Option<usize>,
    pub token_out2: Option<usize>,
    pub amt2: u64,
    /// "from" (withdrawal: out of the current market), "into" (deposit), "order"
    pub direction: String,
    pub current: Option<usize>,
    /// the action account an execute_* instruction executes (its state is logged after the instruction)
    pub action: Option<Pubkey>,
    /// the action's stored swap parameters were overwritten by the harness before this instruction
    pub forged: bool,
}

pub trait Recorder {
    fn exec(&mut self, w: &mut World, info: &Info, f: &mut dyn FnMut(&mut World) -> ExecResult) -> ExecResult;
}

/// a recorder that records nothing
pub struct NoRec;
impl Recorder for NoRec {
    fn exec(&mut self, w: &mut World, _info: &Info, f: &mut dyn FnMut(&mut World) -> ExecResult) -> ExecResult {
        f(w)
    }
}

fn touched(current: usize, paths: &[&[usize]]) -> Vec<usize> {
    let mut v = vec![current];
    for p in paths {
        for m in p.iter() {
            if !v.contains(m) {
                v.push(*m);
            }
        }
    }
    v
}

impl R2 {
    /// time passes (1 s, 1 slot) and every feed publishes its nominal price
    pub fn tick(&self, w: &mut World) {
        w.advance_clock(1, 1);
        self.refresh_prices(w);
    }

    /// create -> execute (keeper, throw_on_execution_error = false) -> close (owner) of a deposit.
    /// Returns the action state after the execution (1 completed, 2 cancelled) if it got that far.
    #[allow(clippy::too_many_arguments)]
    pub fn flow_deposit(
        &self,
        w: &mut World,
        rec: &mut dyn Recorder,
        user: &Pubkey,
        mi: usize,
        nonce: &[u8; 32],
        long_in: Option<(usize, u64)>,
        short_in: Option<(usize, u64)>,
        long_path: &[usize],
        short_path: &[usize],
        min: u64,
    ) -> Option<u8> {
        let m = self.mkts[mi].clone();
        let mut info = Info {
            op: "create_deposit".into(),
            touched: touched(mi, &[long_path, short_path]),
            side: "none".into(),
            amt: long_in.map(|x| x.1).unwrap_or(0),
            amt2: short_in.map(|x| x.1).unwrap_or(0),
            path: long_path.to_vec(),
            path2: short_path.to_vec(),
            // a side without an initial token account defaults to the market's own token
            token_in: long_in.map(|x| x.0).or(Some(m.long)),
            token_in2: short_in.map(|x| x.0).or(Some(m.short)),
            token_out: Some(m.long),
            token_out2: Some(m.short),
            direction: "into".into(),
            current: Some(mi),
            ..Default::default()
        };
        let r = rec.exec(w, &info, &mut |w: &mut World| self.create_deposit(w, user, &m, nonce, long_in, short_in, min, long_path, short_path, EXEC_LAMPORTS));
        if !r.ok {
            return None;
        }
        let d = self.deposit_pda(user, nonce);
        self.tick(w);
        info.op = "execute_deposit".into();
        info.action = Some(d);
        let keeper = self.keeper;
        rec.exec(w, &info, &mut |w: &mut World| self.execute_deposit(w, &keeper, &d, false, EXEC_FEE));
        let state = self.action_state(w, &d);
        info.op = "close_deposit".into();
        let (lt, stk) = (long_in.map(|x| self.toks[x.0].mint), short_in.map(|x| self.toks[x.0].mint));
        rec.exec(w, &info, &mut |w: &mut World| self.close_deposit(w, user, user, &d, &m, lt, stk));
        state
    }

    #[allow(clippy::too_many_arguments)]
    pub fn flow_withdrawal(
        &self,
        w: &mut World,
        rec: &mut dyn Recorder,
        user: &Pubkey,
        mi: usize,
        nonce: &[u8; 32],
        market_token_amount: u64,
        final_long: usize,
        final_short: usize,
        long_path: &[usize],
        short_path: &[usize],
    ) -> Option<u8> {
        let m = self.mkts[mi].clone();
        let mut info = Info {
            op: "create_withdrawal".into(),
            touched: touched(mi, &[long_path, short_path]),
            side: "none".into(),
            amt: 0,
            amt2: 0,
            path: long_path.to_vec(),
            path2: short_path.to_vec(),
            token_in: Some(m.long),
            token_in2: Some(m.short),
            token_out: Some(final_long),
            token_out2: Some(final_short),
            direction: "from".into(),
            current: Some(mi),
            ..Default::default()
        };
        let r = rec.exec(w, &info, &mut |w: &mut World| {
            self.create_withdrawal(w, user, &m, nonce, market_token_amount, final_long, final_short, 0, 0, long_path, short_path, EXEC_LAMPORTS)
        });
        if !r.ok {
            return None;
        }
        let wd = self.withdrawal_pda(user, nonce);
        self.tick(w);
        info.op = "execute_withdrawal".into();
        info.action = Some(wd);
        let keeper = self.keeper;
        rec.exec(w, &info, &mut |w: &mut World| self.execute_withdrawal(w, &keeper, &wd, false, EXEC_FEE));
        let state = self.action_state(w, &wd);
        info.op = "close_withdrawal".into();
        let (fl, fs) = (self.toks[final_long].mint, self.toks[final_short].mint);
        rec.exec(w, &info, &mut |w: &mut World| self.close_withdrawal(w, user, user, &wd, &m, fl, fs));
        state
    }

    /// MarketSwap order along `path`; the order's market is the last market of the path.
    #[allow(clippy::too_many_arguments)]
    pub fn flow_swap(
        &self,
        w: &mut World,
        rec: &mut dyn Recorder,
        user: &Pubkey,
        nonce: &[u8; 32],
        token_in: usize,
        token_out: usize,
        amount: u64,
        path: &[usize],
        order_market: usize,
    ) -> Option<u8> {
        let m = self.mkts[order_market].clone();
        let mut info = Info {
            op: "create_order".into(),
            touched: touched(order_market, &[path]),
            side: "none".into(),
            amt: amount,
            path: path.to_vec(),
            token_in: Some(token_in),
            token_out: Some(token_out),
            direction: "order".into(),
            current: Some(order_market),
            ..Default::default()
        };
        let r = rec.exec(w, &info, &mut |w: &mut World| self.create_swap_order(w, user, &m, nonce, token_in, token_out, amount, 0, path, EXEC_LAMPORTS));
        if !r.ok {
            return None;
        }
        let o = self.order_pda(user, nonce);
        self.tick(w);
        info.op = "execute_order".into();
        info.action = Some(o);
        let keeper = self.keeper;
        rec.exec(w, &info, &mut |w: &mut World| self.execute_swap_order(w, &keeper, &o, false, EXEC_FEE));
        let state = self.action_state(w, &o);
        info.op = "close_order".into();
        let (ti, to) = (self.toks[token_in].mint, self.toks[token_out].mint);
        rec.exec(w, &info, &mut |w: &mut World| self.close_swap_order(w, user, user, &o, ti, to));
        state
    }

    #[allow(clippy::too_many_arguments)]
    pub fn flow_shift(&self, w: &mut World, rec: &mut dyn Recorder, user: &Pubkey, nonce: &[u8; 32], from: usize, to: usize, amount: u64) -> Option<u8> {
        let (mf, mt) = (self.mkts[from].clone(), self.mkts[to].clone());
        let mut info = Info { op: "create_shift".into(), touched: vec![from, to], side: "none".into(), amt: 0, current: Some(from), direction: "shift".into(), ..Default::default() };
        let r = rec.exec(w, &info, &mut |w: &mut World| self.create_shift(w, user, &mf, &mt, nonce, amount, 0, EXEC_LAMPORTS));
        if !r.ok {
            return None;
        }
        let s = self.shift_pda(user, nonce);
        self.tick(w);
        info.op = "execute_shift".into();
        info.action = Some(s);
        let keeper = self.keeper;
        rec.exec(w, &info, &mut |w: &mut World| self.execute_shift(w, &keeper, &s, false, EXEC_FEE));
        let state = self.action_state(w, &s);
        info.op = "close_shift".into();
        rec.exec(w, &info, &mut |w: &mut World| self.close_shift(w, user, user, &s, &mf, &mt));
        state
    }

    pub fn flow_claim_fees(&self, w: &mut World, rec: &mut dyn Recorder, mi: usize, side_long: bool) -> ExecResult {
        let m = self.mkts[mi].clone();
        let tok = self.toks[if side_long { m.long } else { m.short }].clone();
        let admin = self.admin;
        // the receiver's token account is created outside the recorded instruction
        let _ = spl::create_ata(w, &admin, &admin, &tok.mint);
        let info = Info { op: "claim_fees".into(), touched: vec![mi], side: if side_long { "long" } else { "short" }.into(), current: Some(mi), ..Default::default() };
        rec.exec(w, &info, &mut |w: &mut World| self.claim_fees(w, &admin, &m, &tok))
    }

    pub fn flow_transfer_in(&self, w: &mut World, rec: &mut dyn Recorder, user: &Pubkey, mi: usize, side_long: bool, amount: u64) -> ExecResult {
        let m = self.mkts[mi].clone();
        let tok = self.toks[if side_long { m.long } else { m.short }].clone();
        let info =
            Info { op: "market_transfer_in".into(), touched: vec![mi], side: if side_long { "long" } else { "short" }.into(), amt: amount, current: Some(mi), ..Default::default() };
        rec.exec(w, &info, &mut |w: &mut World| self.market_transfer_in(w, user, &m, &tok, amount))
    }

    /// somebody sends tokens straight to a vault (plain SPL transfer, not a store instruction)
    pub fn flow_donate(&self, w: &mut World, rec: &mut dyn Recorder, user: &Pubkey, ti: usize, amount: u64) -> ExecResult {
        let tok = self.toks[ti].clone();
        let info = Info { op: "donate".into(), touched: vec![], side: "none".into(), amt: amount, ..Default::default() };
        let from = spl::ata(user, &tok.mint);
        let ix = spl_token::instruction::transfer(&spl_token::ID, &from, &tok.vault, user, &[], amount).unwrap();
        rec.exec(w, &info, &mut |w: &mut World| w.execute(&ix, &[*user]))
    }

    /// Vaults state (specs/Vaults.tla) read back from the market accounts and the vault token accounts
    pub fn vaults_state(&self, w: &World) -> serde_json::Value {
        use gmsol_model::{Balance, PoolKind};
        use serde_json::{json, Map, Value};
        let n = |x: gmsol_model::Result<u128>| -> Value {
            let v = x.unwrap_or(u128::MAX);
            if v < (1u128 << 31) {
                json!(v as u64)
            } else {
                json!(-1)
            }
        };
        let (mut bal, mut liq, mut imp, mut fee, mut col) = (Map::new(), Map::new(), Map::new(), Map::new(), Map::new());
        for m in &self.mkts {
            let ms = self.market_state(w, m);
            let pool = |k: PoolKind| ms.pool(k).expect("pool");
            let two = |k: PoolKind| json!({"long": n(pool(k).long_amount()), "short": n(pool(k).short_amount())});
            bal.insert(m.label.clone(), json!({"long": ms.state().long_token_balance_raw(), "short": ms.state().short_token_balance_raw()}));
            liq.insert(m.label.clone(), two(PoolKind::Primary));
            imp.insert(m.label.clone(), two(PoolKind::SwapImpact));
            fee.insert(m.label.clone(), two(PoolKind::ClaimableFee));
            let (cl, cs) = (pool(PoolKind::CollateralSumForLong), pool(PoolKind::CollateralSumForShort));
            let add = |a: gmsol_model::Result<u128>, b: gmsol_model::Result<u128>| n(a.and_then(|a| b.map(|b| a + b)));
            col.insert(m.label.clone(), json!({"long": add(cl.long_amount(), cs.long_amount()), "short": add(cl.short_amount(), cs.short_amount())}));
        }
        let mut vault = Map::new();
        for t in self.toks.iter().filter(|t| !t.synthetic) {
            vault.insert(t.label.clone(), json!(self.balance(w, &t.vault)));
        }
        json!({"bal": bal, "liq": liq, "imp": imp, "fee": fee, "col": col, "vault": vault})
    }

    /// [market -> [long, short]] token labels
    pub fn meta_json(&self) -> serde_json::Value {
        let mut m = serde_json::Map::new();
        for k in &self.mkts {
            m.insert(k.label.clone(), serde_json::json!({"long": self.toks[k.long].label, "short": self.toks[k.short].label}));
        }
        serde_json::Value::Object(m)
    }

    /// world R2 with swap fees and swap impact configured on the two-token markets and initial
    /// liquidity in every market, provided by every user through real deposits
    pub fn build_funded(w: &mut World, n_users: usize) -> R2 {
        let r2 = R2::build(w, &DEFAULT_TOKS, &DEFAULT_MKTS, n_users, 100_000_000);
        for m in r2.mkts.clone().iter().filter(|m| !m.is_pure()) {
            for (k, v) in [
                ("swap_fee_factor_for_positive_impact", 300_000_000_000_000_000u128),
                ("swap_fee_factor_for_negative_impact", 500_000_000_000_000_000u128),
                ("swap_impact_exponent", 200_000_000_000_000_000_000u128),
                ("swap_impact_positive_factor", 10_000_000_000_000u128),
                ("swap_impact_negative_factor", 20_000_000_000_000u128),
            ] {
                must("update_market_config", r2.update_market_config(w, m, k, v));
            }
        }
        let mut n = 0u8;
        for u in r2.users.clone() {
            for (mi, m) in r2.mkts.clone().iter().enumerate() {
                n += 1;
                let mut nonce = [0u8; 32];
                nonce[0] = 100 + n;
                // about $20k per side
                let per = |t: usize| 2_000_000u64 / r2.toks[t].price;
                let (li, si) = if m.is_pure() { (Some((m.long, per(m.long))), None) } else { (Some((m.long, per(m.long))), Some((m.short, per(m.short)))) };
                let st = r2.flow_deposit(w, &mut NoRec, &u, mi, &nonce, li, si, &[], &[], 0);
                assert_eq!(st, Some(1), "initial liquidity deposit into {} must complete", m.label);
            }
        }
        r2
    }
}

// =====================================================================================================
// Abstract operations (scripts printed by TLC / drawn at random) and the trace recorder shared by the
// C22 and C44 drivers.

#[derive(Clone, Debug, Default)]
pub struct AbsOp {
    /// deposit | withdraw | swap | swap2 | shift | claim | transfer_in | donate | deposit_path |
    /// withdraw_path | swap_path | collateral_in | collateral_out (the last two: specification only)
    pub op: String,
    pub m: usize,
    pub m2: usize,
    pub side_long: bool,
    pub a: u64,
    pub user: usize,
    pub path: Vec<usize>,
    pub path2: Vec<usize>,
    pub tok: usize,
    pub tok_out: Option<usize>,
}

pub struct TraceRec<'a> {
    pub r2: &'a R2,
    pub sink: &'a mut crate::util::Sink,
    pub reset: bool,
    pub step: String,
    pub instructions: usize,
    pub ok_instructions: usize,
    pub classes: std::collections::BTreeMap<String, usize>,
    pub hops_seen: usize,
}

impl<'a> TraceRec<'a> {
    pub fn new(r2: &'a R2, sink: &'a mut crate::util::Sink) -> Self {
        TraceRec { r2, sink, reset: true, step: String::new(), instructions: 0, ok_instructions: 0, classes: Default::default(), hops_seen: 0 }
    }
}

impl Recorder for TraceRec<'_> {
    fn exec(&mut self, w: &mut World, info: &Info, f: &mut dyn FnMut(&mut World) -> ExecResult) -> ExecResult {
        use serde_json::json;
        let r2 = self.r2;
        let pre = r2.vaults_state(w);
        let r = f(w);
        let post = r2.vaults_state(w);
        let lab = |v: &Vec<usize>| v.iter().map(|i| r2.mkts[*i].label.clone()).collect::<Vec<_>>();
        let tl = |t: Option<usize>| t.map(|i| r2.toks[i].label.clone()).unwrap_or_else(|| "none".into());
        let hops: Vec<serde_json::Value> = swap_events(&r)
            .iter()
            .map(|h| {
                let m = r2.mkt_by_token(&h.market_token);
                let (ml, tin, tout) = match m {
                    Some(m) => {
                        let (i, o) = if h.is_token_in_long { (m.long, m.short) } else { (m.short, m.long) };
                        (m.label.clone(), r2.toks[i].label.clone(), r2.toks[o].label.clone())
                    }
                    None => ("?".into(), "?".into(), "?".into()),
                };
                let small = |x: u128| if x < (1u128 << 31) { x as i64 } else { -1 };
                json!({"m": ml, "tin": tin, "tout": tout, "ain": small(h.amount_in), "aout": small(h.amount_out)})
            })
            .collect();
        self.instructions += 1;
        if r.ok {
            self.ok_instructions += 1;
        }
        self.hops_seen += hops.len();
        *self.classes.entry(format!("{}/{}", info.op, r.label())).or_insert(0) += 1;
        self.sink.emit(json!({
            "op": info.op, "step": self.step, "side": info.side, "amt": info.amt, "amt2": info.amt2,
            "ok": r.ok, "err": r.label(), "panic": r.panic, "reset": self.reset,
            "meta": r2.meta_json(), "touched": lab(&info.touched),
            "path": lab(&info.path), "path2": lab(&info.path2),
            "tin": tl(info.token_in), "tin2": tl(info.token_in2), "tout": tl(info.token_out), "tout2": tl(info.token_out2),
            "dir": info.direction, "current": info.current.map(|i| r2.mkts[i].label.clone()).unwrap_or_else(|| "none".into()),
            "hops": hops, "pre": pre, "post": post,
            "astate": match info.action.and_then(|a| r2.action_state(w, &a)) { Some(0) => "pending", Some(1) => "completed", Some(2) => "cancelled", Some(_) => "unknown", None => "none" },
            "forged": info.forged,
        }));
        self.reset = false;
        r
    }
}

impl R2 {
    /// units of token `t` worth `usd` dollars at the nominal price
    pub fn units(&self, t: usize, usd: u64) -> u64 {
        let tok = &self.toks[t];
        usd * 10u64.pow(tok.decimals as u32) / tok.price
    }

    /// the token reached by walking `path` from `tok` (None when a step does not trade that token)
    pub fn walk(&self, tok: usize, path: &[usize]) -> Option<usize> {
        let mut cur = tok;
        for mi in path {
            let m = &self.mkts[*mi];
            cur = if cur == m.long {
                m.short
            } else if cur == m.short {
                m.long
            } else {
                return None;
            };
        }
        Some(cur)
    }

    /// run one abstract operation through the real instructions; `ctr` numbers the action nonces
    pub fn run_op(&self, w: &mut World, rec: &mut dyn Recorder, o: &AbsOp, ctr: &mut u64) {
        *ctr += 1;
        let mut nonce = [0u8; 32];
        nonce[..8].copy_from_slice(&ctr.to_le_bytes());
        nonce[31] = 7;
        let user = self.users[o.user % self.users.len()];
        let m = &self.mkts[o.m];
        let side_tok = if o.side_long { m.long } else { m.short };
        let usd = o.a * 500;
        let mt_share = |w: &World, mi: usize| self.balance(w, &spl::ata(&user, &self.mkts[mi].market_token)) / 10 * o.a.min(5);
        match o.op.as_str() {
            "deposit" => {
                let x = Some((side_tok, self.units(side_tok, usd)));
                let (li, si) = if o.side_long || m.is_pure() { (x, None) } else { (None, x) };
                self.flow_deposit(w, rec, &user, o.m, &nonce, li, si, &[], &[], 0);
            }
            "withdraw" => {
                let amt = mt_share(w, o.m);
                self.flow_withdrawal(w, rec, &user, o.m, &nonce, amt, m.long, m.short, &[], &[]);
            }
            "swap" => {
                let out = if o.side_long { m.short } else { m.long };
                self.flow_swap(w, rec, &user, &nonce, side_tok, out, self.units(side_tok, usd), &[o.m], o.m);
            }
            "swap2" => {
                self.flow_swap(w, rec, &user, &nonce, side_tok, side_tok, self.units(side_tok, usd), &[o.m, o.m2], o.m2);
            }
            "shift" => {
                let amt = mt_share(w, o.m);
                self.flow_shift(w, rec, &user, &nonce, o.m, o.m2, amt);
            }
            "claim" => {
                self.flow_claim_fees(w, rec, o.m, o.side_long);
            }
            "transfer_in" => {
                self.flow_transfer_in(w, rec, &user, o.m, o.side_long, self.units(side_tok, usd));
            }
            "donate" => {
                self.flow_donate(w, rec, &user, o.tok, self.units(o.tok, usd));
            }
            "deposit_path" => {
                // `tok` is deposited for the chosen side through `path`
                let x = Some((o.tok, self.units(o.tok, usd)));
                if o.side_long {
                    self.flow_deposit(w, rec, &user, o.m, &nonce, x, None, &o.path, &[], 0);
                } else {
                    self.flow_deposit(w, rec, &user, o.m, &nonce, None, x, &[], &o.path, 0);
                }
            }
            "deposit_both" => {
                let x = Some((o.tok, self.units(o.tok, usd)));
                self.flow_deposit(w, rec, &user, o.m, &nonce, x, x, &o.path, &o.path2, 0);
            }
            "withdraw_path" => {
                let amt = mt_share(w, o.m);
                let fl = self.walk(m.long, &o.path).unwrap_or(m.long);
                let fs = self.walk(m.short, &o.path2).unwrap_or(m.short);
                self.flow_withdrawal(w, rec, &user, o.m, &nonce, amt, fl, fs, &o.path, &o.path2);
            }
            "increase" | "decrease" => {
                // collateral on the chosen side, position side from the parity of `a`; leverage 2
                let inc = o.op == "increase";
                let (mut is_long, mut col_long) = (o.a % 2 == 1, o.side_long);
                let mut col = self.units(side_tok, usd);
                let mut size = (usd as u128) * 2 * 100_000_000_000_000_000_000u128;
                let mut pos_user = user;
                if !inc {
                    // decrease an existing position of this user in this market, if there is one:
                    // half of it (odd `a`) or all of it (even `a`)
                    for (u, l, c) in self.users.iter().flat_map(|u| [(true, true), (true, false), (false, true), (false, false)].map(|(l, c)| (*u, l, c))) {
                        let ct = self.toks[if c { m.long } else { m.short }].mint;
                        let pda = self.position_pda(&u, m, &ct, l);
                        let pos: Option<gmsol_store::states::Position> = match w.account(&pda) {
                            Some(a) if a.owner == gmsol_store::ID => w.account_data(&pda),
                            _ => None,
                        };
                        if let Some(p) = pos {
                            if p.state.size_in_usd > 0 {
                                pos_user = u;
                                is_long = l;
                                col_long = c;
                                let half = o.a % 2 == 1;
                                size = if half { p.state.size_in_usd / 2 } else { p.state.size_in_usd };
                                col = if half { (p.state.collateral_amount / 4) as u64 } else { 0 };
                                break;
                            }
                        }
                    }
                }
                self.flow_position(w, rec, &pos_user, o.m, &nonce, inc, is_long, col_long, col, size);
            }
            "price" => {
                // the price of token `tok` moves by (a - 3) * 5 %, kept within [60 %, 150 %] of nominal
                let t = &self.toks[o.tok];
                let p = self.current_price(w, t);
                let q = (p as i64 + p as i64 * (o.a as i64 - 3) * 5 / 100).clamp(t.price as i64 * 6 / 10, t.price as i64 * 15 / 10).max(1) as u64;
                self.set_token_price(w, o.tok, q);
            }
            "liquidate" | "adl" => {
                // attempt to cut some open position in market m (most attempts are rejected: not liquidatable / ADL not enabled)
                for (u, l, c) in self.users.iter().flat_map(|u| [(true, true), (true, false), (false, true), (false, false)].map(|(l, c)| (*u, l, c))) {
                    if let Some((_, size)) = self.open_position(w, &u, o.m, l, c) {
                        if o.op == "adl" {
                            self.flow_update_adl(w, rec, o.m, l);
                        }
                        self.flow_cut(w, rec, &u, o.m, l, c, &nonce, if o.op == "adl" { Some(size) } else { None });
                        break;
                    }
                }
            }
            "cut_scenario" => {
                // a: bit 0 = adl, bit 1 = the PnL -> collateral swap fails; position side / collateral side from the op
                self.cut_scenario(w, rec, &user, o.m, o.side_long, o.tok_out.is_some(), o.a & 1 == 1, o.a & 2 == 2, ctr);
            }
            "swap_path" => {
                let out = o.tok_out.or_else(|| self.walk(o.tok, &o.path)).unwrap_or(o.tok);
                let om = o.path.last().copied().unwrap_or(o.m);
                self.flow_swap(w, rec, &user, &nonce, o.tok, out, self.units(o.tok, usd), &o.path, if o.m2 == usize::MAX { om } else { o.m2 });
            }
            _ => {}
        }
    }
}

/// a random abstract operation over the default world (markets M1, M2, M3, MP; tokens A, B, C)
pub fn random_op(r2: &R2, rng: &mut crate::util::Rng) -> AbsOp {
    let mi = |r2: &R2, l: &str| r2.mkts.iter().position(|m| m.label == l).unwrap_or(0);
    let nm = r2.mkts.len();
    let two: Vec<usize> = (0..nm).filter(|i| !r2.mkts[*i].is_pure()).collect();
    let m = rng.below(nm as u64) as usize;
    let mut o = AbsOp { m, m2: usize::MAX, side_long: rng.chance(1, 2), a: 1 + rng.below(4), user: rng.below(2) as usize, ..Default::default() };
    let (m1, m2, m3) = (mi(r2, "M1"), mi(r2, "M2"), mi(r2, "M3"));
    let (ta, tb, tc) = (0usize, 1usize, 2usize);
    match rng.below(23) {
        18 => {
            o.op = "price".into();
            o.tok = [0usize, 2, 3][rng.below(3) as usize];
            o.a = 1 + rng.below(5);
        }
        19 => {
            o.op = if rng.chance(1, 2) { "liquidate" } else { "adl" }.into();
            o.m = *rng.pick(&two);
        }
        20 | 21 | 22 => {
            o.op = "cut_scenario".into();
            o.m = *rng.pick(&two);
            o.a = rng.below(4);
            o.tok_out = if rng.chance(1, 2) { Some(0) } else { None };
        }
        14 | 15 => {
            o.op = "increase".into();
            o.m = *rng.pick(&two);
        }
        16 | 17 => {
            o.op = "decrease".into();
            o.m = *rng.pick(&two);
        }
        0 | 1 => o.op = "deposit".into(),
        2 => o.op = "withdraw".into(),
        3 | 4 => {
            o.op = "swap".into();
            o.m = *rng.pick(&two);
        }
        5 => {
            o.op = "swap2".into();
            o.m = if rng.chance(1, 2) { m1 } else { m2 };
            o.m2 = if o.m == m1 { m2 } else { m1 };
        }
        6 => {
            o.op = "shift".into();
            o.m = if rng.chance(1, 2) { m1 } else { m2 };
            o.m2 = if o.m == m1 { m2 } else { m1 };
        }
        7 => {
            o.op = "claim".into();
        }
        8 => o.op = "transfer_in".into(),
        9 => {
            o.op = "donate".into();
            o.tok = rng.below(3) as usize;
        }
        10 => {
            // deposit C into M1 / M2: long side via [M3, Mx], short side via [M3]
            o.op = "deposit_path".into();
            o.m = if rng.chance(1, 2) { m1 } else { m2 };
            let other = if o.m == m1 { m2 } else { m1 };
            o.tok = tc;
            o.path = if o.side_long { vec![m3, other] } else { vec![m3] };
        }
        11 => {
            // withdraw from M1 / M2 / M3 with output swap paths
            o.op = "withdraw_path".into();
            match rng.below(4) {
                0 => {
                    // M1 / M2: the long side swapped to C and / or the short side to A
                    o.m = if rng.chance(1, 2) { m1 } else { m2 };
                    let other = if o.m == m1 { m2 } else { m1 };
                    if rng.chance(1, 2) {
                        o.path = vec![other, m3];
                    }
                    if rng.chance(1, 2) {
                        o.path2 = vec![other];
                    }
                }
                1 => {
                    // two hops ending in a token of the FIRST market of the path, back in the current
                    // market: long A -> B -> A, short B -> A -> B
                    o.m = if rng.chance(1, 2) { m1 } else { m2 };
                    let other = if o.m == m1 { m2 } else { m1 };
                    if rng.chance(2, 3) {
                        o.path = vec![other, o.m];
                    }
                    if rng.chance(2, 3) {
                        o.path2 = vec![other, o.m];
                    }
                }
                2 => {
                    // M3 (C/B): the short side B -> A -> B through the two A/B markets
                    o.m = m3;
                    o.path2 = if rng.chance(1, 2) { vec![m1, m2] } else { vec![m2, m1] };
                }
                _ => {
                    // M1 / M2: the long side A -> B -> C -> B ... three hops A -> B (other) -> C (M3)? no:
                    // long A -> B (current) -> A (other): the current market first, another market last
                    o.m = if rng.chance(1, 2) { m1 } else { m2 };
                    let other = if o.m == m1 { m2 } else { m1 };
                    o.path = vec![o.m, other];
                    o.path2 = vec![o.m, other];
                }
            }
        }
        12 => {
            // three hops C -> B -> A -> B, or two hops A -> B -> C
            o.op = "swap_path".into();
            if rng.chance(1, 2) {
                o.tok = tc;
                o.path = vec![m3, m1, m2];
            } else {
                o.tok = ta;
                o.path = vec![if rng.chance(1, 2) { m1 } else { m2 }, m3];
            }
        }
        _ => {
            // deposit A on both sides of M3 (C/B): long via [Mx (A->B), M3 (B->C)], short via [My (A->B)]
            o.op = "deposit_both".into();
            o.m = m3;
            o.tok = ta;
            o.path = vec![m1, m3];
            o.path2 = vec![m2];
            let _ = tb;
        }
    }
    o
}


impl TraceRec<'_> {
    /// a direct call (no instruction): same keys as an instruction event, state unchanged
    pub fn emit_direct(&mut self, w: &World, op: &str, path: &[String], path2: &[String], ok: bool, err: &str) {
        use serde_json::json;
        let st = self.r2.vaults_state(w);
        let none: Vec<String> = Vec::new();
        self.sink.emit(json!({
            "op": op, "step": "direct", "side": "none", "amt": 0, "amt2": 0,
            "ok": ok, "err": err, "panic": false, "reset": true,
            "meta": self.r2.meta_json(), "touched": none,
            "path": path, "path2": path2,
            "tin": "none", "tin2": "none", "tout": "none", "tout2": "none",
            "dir": "direct", "current": "none",
            "hops": Vec::<serde_json::Value>::new(), "pre": st.clone(), "post": st,
            "astate": "none", "forged": false,
        }));
        *self.classes.entry(format!("{op}/{err}")).or_insert(0) += 1;
    }
}

impl R2 {
    /// Harness-side fabrication: overwrite the swap paths stored in an action account (the byte image
    /// of its current `SwapActionParams` is located in the account data and replaced). Token list and
    /// current market token are kept. Returns false when the image is not found.
    pub fn forge_swap_path(&self, w: &mut World, action: &Pubkey, old: &gmsol_utils::swap::SwapActionParams, primary: &[usize], secondary: &[usize]) -> bool {
        let Some(acc) = w.account(action).cloned() else { return false };
        let image = bytemuck::bytes_of(old);
        let Some(pos) = acc.data.windows(image.len()).position(|win| win == image) else { return false };
        let mut new = *old;
        new.primary_length = primary.len() as u8;
        new.secondary_length = secondary.len() as u8;
        for (i, m) in primary.iter().chain(secondary.iter()).enumerate() {
            new.paths[i] = self.mkts[*m].market_token;
        }
        let mut acc = acc;
        acc.data[pos..pos + image.len()].copy_from_slice(bytemuck::bytes_of(&new));
        w.set_account(*action, acc);
        true
    }
}

// =====================================================================================================
// Position orders (MarketIncrease / MarketDecrease) - gives the markets non-zero position collateral.
impl R2 {
    pub fn position_pda(&self, owner: &Pubkey, m: &Mkt, collateral: &Pubkey, is_long: bool) -> Pubkey {
        use gmsol_store::states::Position;
        let kind: u8 = if is_long { 1 } else { 2 };
        Pubkey::find_program_address(
            &[Position::SEED, self.store.as_ref(), owner.as_ref(), m.market_token.as_ref(), collateral.as_ref(), &[kind]],
            &gmsol_store::ID,
        )
        .0
    }

    pub fn trade_buffer(&self, authority: &Pubkey, index: u16) -> Pubkey {
        use gmsol_store::events::TradeData;
        Pubkey::find_program_address(&[TradeData::SEED, self.store.as_ref(), authority.as_ref(), &index.to_le_bytes()], &gmsol_store::ID).0
    }

    pub fn claimable_pda(&self, w: &World, mint: &Pubkey, owner: &Pubkey, ts: i64) -> Pubkey {
        let store: Store = w.account_data(&self.store).expect("store");
        let key = store.claimable_time_key(ts).expect("time key");
        Pubkey::find_program_address(
            &[gmsol_store::constants::CLAIMABLE_ACCOUNT_SEED, self.store.as_ref(), mint.as_ref(), owner.as_ref(), &key],
            &gmsol_store::ID,
        )
        .0
    }

    fn position_order_params(
        kind: gmsol_utils::order::OrderKind,
        is_long: bool,
        is_collateral_long: bool,
        collateral_amount: u64,
        size_usd: u128,
    ) -> gmsol_store::ops::order::CreateOrderParams {
        use gmsol_model::action::decrease_position::DecreasePositionSwapType;
        let decrease = matches!(kind, gmsol_utils::order::OrderKind::MarketDecrease);
        gmsol_store::ops::order::CreateOrderParams {
            kind,
            decrease_position_swap_type: if decrease { Some(DecreasePositionSwapType::NoSwap) } else { None },
            execution_lamports: EXEC_LAMPORTS,
            swap_path_length: 0,
            initial_collateral_delta_amount: collateral_amount,
            size_delta_value: size_usd,
            is_long,
            is_collateral_long,
            min_output: None,
            trigger_price: None,
            acceptable_price: None,
            should_unwrap_native_token: false,
            valid_from_ts: None,
        }
    }

    /// prepare_position + escrow ATAs + create_order_v2 (MarketIncrease / MarketDecrease) as one transaction
    #[allow(clippy::too_many_arguments)]
    pub fn create_position_order(
        &self,
        w: &mut World,
        owner: &Pubkey,
        m: &Mkt,
        nonce: &[u8; 32],
        increase: bool,
        is_long: bool,
        is_collateral_long: bool,
        collateral_amount: u64,
        size_usd: u128,
    ) -> ExecResult {
        use gmsol_utils::order::OrderKind;
        let kind = if increase { OrderKind::MarketIncrease } else { OrderKind::MarketDecrease };
        let params = Self::position_order_params(kind, is_long, is_collateral_long, collateral_amount, size_usd);
        let (lt, stk) = (self.toks[m.long].mint, self.toks[m.short].mint);
        let c = if is_collateral_long { lt } else { stk };
        let order = self.order_pda(owner, nonce);
        let position = self.position_pda(owner, m, &c, is_long);
        let mut ixs = vec![
            st::ix(
                gmsol_store::accounts::PreparePosition { owner: *owner, store: self.store, market: m.market, position, system_program: system_program::ID },
                gmsol_store::instruction::PreparePosition { params: params.clone() },
            ),
            ata_ix(owner, &order, &lt),
            ata_ix(owner, &order, &stk),
        ];
        ixs.push(st::ix(
            gmsol_store::accounts::CreateOrderV2 {
                owner: *owner,
                receiver: *owner,
                store: self.store,
                market: m.market,
                user: st::user_pda(&self.store, owner),
                order,
                position: Some(position),
                initial_collateral_token: if increase { Some(c) } else { None },
                final_output_token: c,
                long_token: Some(lt),
                short_token: Some(stk),
                initial_collateral_token_escrow: if increase { Some(spl::ata(&order, &c)) } else { None },
                final_output_token_escrow: if increase { None } else { Some(spl::ata(&order, &c)) },
                long_token_escrow: Some(spl::ata(&order, &lt)),
                short_token_escrow: Some(spl::ata(&order, &stk)),
                initial_collateral_token_source: if increase { Some(spl::ata(owner, &c)) } else { None },
                system_program: system_program::ID,
                token_program: spl_token::ID,
                associated_token_program: spl_associated_token_account::ID,
                callback_authority: None,
                callback_program: None,
                callback_shared_data_account: None,
                callback_partitioned_data_account: None,
                event_authority: st::event_authority(&gmsol_store::ID),
                program: gmsol_store::ID,
            },
            gmsol_store::instruction::CreateOrderV2 { nonce: *nonce, params, callback_version: None },
        ));
        w.execute_tx(&ixs, &[*owner])
    }

    /// keeper preparation outside the recorded instruction: trade event buffer (index 0) and, for a
    /// decrease, the three claimable accounts of the current time window
    pub fn prepare_keeper_accounts(&self, w: &mut World, owner: &Pubkey, m: &Mkt, decrease: bool, pnl_long: bool) {
        let keeper = self.keeper;
        let event = self.trade_buffer(&keeper, 0);
        must(
            "prepare_trade_event_buffer",
            w.execute(
                &st::ix(
                    gmsol_store::accounts::PrepareTradeEventBuffer { authority: keeper, store: self.store, event, system_program: system_program::ID },
                    gmsol_store::instruction::PrepareTradeEventBuffer { index: 0 },
                ),
                &[keeper],
            ),
        );
        if decrease {
            let ts = w.clock().0;
            let store: Store = w.account_data(&self.store).expect("store");
            let holding = *store.holding();
            let (lt, stk) = (self.toks[m.long].mint, self.toks[m.short].mint);
            let pnl = if pnl_long { lt } else { stk };
            for (mint, who) in [(lt, *owner), (stk, *owner), (pnl, holding)] {
                let account = self.claimable_pda(w, &mint, &who, ts);
                must(
                    "use_claimable_account",
                    w.execute(
                        &st::ix(
                            gmsol_store::accounts::UseClaimableAccount {
                                authority: keeper,
                                store: self.store,
                                mint,
                                owner: who,
                                account,
                                system_program: system_program::ID,
                                token_program: spl_token::ID,
                            },
                            gmsol_store::instruction::UseClaimableAccount { timestamp: ts, amount: 0 },
                        ),
                        &[keeper],
                    ),
                );
            }
        }
    }

    pub fn execute_position_order_ix(&self, w: &World, executor: &Pubkey, order: &Pubkey, throw: bool) -> Instruction {
        let Some(o) = self.order(w, order) else {
            return self.execute_missing_ix(executor, order);
        };
        let owner = *o.header().owner();
        let m = self.mkt_by_key(o.header().market()).expect("market of order");
        let (lt, stk) = (self.toks[m.long].mint, self.toks[m.short].mint);
        let position = *o.params().position().expect("position of order");
        let increase = matches!(o.params().kind(), Ok(gmsol_utils::order::OrderKind::MarketIncrease));
        let event = self.trade_buffer(executor, 0);
        let ts = w.clock().0;
        let mut ix = if increase {
            let c = o.tokens().initial_collateral().token().expect("collateral");
            st::ix(
                gmsol_store::accounts::ExecuteIncreaseOrSwapOrderV2 {
                    authority: *executor,
                    store: self.store,
                    token_map: self.token_map,
                    oracle: self.oracle,
                    market: m.market,
                    owner,
                    user: st::user_pda(&self.store, &owner),
                    order: *order,
                    position: Some(position),
                    event: Some(event),
                    initial_collateral_token: Some(c),
                    final_output_token: None,
                    long_token: Some(lt),
                    short_token: Some(stk),
                    initial_collateral_token_escrow: o.tokens().initial_collateral().account(),
                    final_output_token_escrow: None,
                    long_token_escrow: o.tokens().long_token().account(),
                    short_token_escrow: o.tokens().short_token().account(),
                    initial_collateral_token_vault: Some(market_vault_pda(&self.store, &c)),
                    final_output_token_vault: None,
                    long_token_vault: Some(market_vault_pda(&self.store, &lt)),
                    short_token_vault: Some(market_vault_pda(&self.store, &stk)),
                    token_program: spl_token::ID,
                    system_program: system_program::ID,
                    callback_authority: None,
                    callback_program: None,
                    callback_shared_data_account: None,
                    callback_partitioned_data_account: None,
                    event_authority: st::event_authority(&gmsol_store::ID),
                    program: gmsol_store::ID,
                },
                gmsol_store::instruction::ExecuteIncreaseOrSwapOrderV2 { recent_timestamp: ts, execution_fee: EXEC_FEE, throw_on_execution_error: throw },
            )
        } else {
            let c = o.tokens().final_output_token().token().expect("final output token");
            let store: Store = w.account_data(&self.store).expect("store");
            let holding = *store.holding();
            let pos: gmsol_store::states::Position = w.account_data(&position).expect("position");
            let pnl = if pos.kind == 1 { lt } else { stk };
            st::ix(
                gmsol_store::accounts::ExecuteDecreaseOrderV2 {
                    authority: *executor,
                    store: self.store,
                    token_map: self.token_map,
                    oracle: self.oracle,
                    market: m.market,
                    owner,
                    user: st::user_pda(&self.store, &owner),
                    order: *order,
                    position,
                    event,
                    final_output_token: c,
                    long_token: lt,
                    short_token: stk,
                    final_output_token_escrow: o.tokens().final_output_token().account().expect("escrow"),
                    long_token_escrow: o.tokens().long_token().account().expect("escrow"),
                    short_token_escrow: o.tokens().short_token().account().expect("escrow"),
                    final_output_token_vault: market_vault_pda(&self.store, &c),
                    long_token_vault: market_vault_pda(&self.store, &lt),
                    short_token_vault: market_vault_pda(&self.store, &stk),
                    claimable_long_token_account_for_user: self.claimable_pda(w, &lt, &owner, ts),
                    claimable_short_token_account_for_user: self.claimable_pda(w, &stk, &owner, ts),
                    claimable_pnl_token_account_for_holding: self.claimable_pda(w, &pnl, &holding, ts),
                    token_program: spl_token::ID,
                    system_program: system_program::ID,
                    callback_authority: None,
                    callback_program: None,
                    callback_shared_data_account: None,
                    callback_partitioned_data_account: None,
                    event_authority: st::event_authority(&gmsol_store::ID),
                    program: gmsol_store::ID,
                },
                gmsol_store::instruction::ExecuteDecreaseOrderV2 { recent_timestamp: ts, execution_fee: EXEC_FEE, throw_on_execution_error: throw },
            )
        };
        let path: Vec<Pubkey> = o.swap().iter().copied().collect();
        ix.accounts.extend(self.exec_remaining(o.swap().tokens(), &path, &m.market_token));
        payer_writable(&mut ix, executor);
        ix
    }

    pub fn close_position_order(&self, w: &mut World, executor: &Pubkey, owner: &Pubkey, order: &Pubkey, m: &Mkt, increase: bool, collateral: Pubkey) -> ExecResult {
        let (lt, stk) = (self.toks[m.long].mint, self.toks[m.short].mint);
        let c = collateral;
        let mut ix = st::ix(
            gmsol_store::accounts::CloseOrderV2 {
                executor: *executor,
                store: self.store,
                store_wallet: self.store_wallet,
                owner: *owner,
                receiver: *owner,
                rent_receiver: *owner,
                user: st::user_pda(&self.store, owner),
                referrer_user: None,
                order: *order,
                initial_collateral_token: if increase { Some(c) } else { None },
                final_output_token: if increase { None } else { Some(c) },
                long_token: Some(lt),
                short_token: Some(stk),
                initial_collateral_token_escrow: if increase { Some(spl::ata(order, &c)) } else { None },
                final_output_token_escrow: if increase { None } else { Some(spl::ata(order, &c)) },
                long_token_escrow: Some(spl::ata(order, &lt)),
                short_token_escrow: Some(spl::ata(order, &stk)),
                initial_collateral_token_ata: if increase { Some(spl::ata(owner, &c)) } else { None },
                final_output_token_ata: if increase { None } else { Some(spl::ata(owner, &c)) },
                long_token_ata: Some(spl::ata(owner, &lt)),
                short_token_ata: Some(spl::ata(owner, &stk)),
                system_program: system_program::ID,
                token_program: spl_token::ID,
                associated_token_program: spl_associated_token_account::ID,
                callback_authority: None,
                callback_program: None,
                callback_shared_data_account: None,
                callback_partitioned_data_account: None,
                event_authority: st::event_authority(&gmsol_store::ID),
                program: gmsol_store::ID,
            },
            gmsol_store::instruction::CloseOrderV2 { reason: "verif".into() },
        );
        payer_writable(&mut ix, executor);
        w.execute(&ix, &[*executor])
    }

    /// create -> execute -> close of a MarketIncrease (increase = true) or MarketDecrease order.
    /// A decrease closes `size_usd` of the position (capped by the program) and withdraws `collateral_amount`.
    #[allow(clippy::too_many_arguments)]
    pub fn flow_position(
        &self,
        w: &mut World,
        rec: &mut dyn Recorder,
        user: &Pubkey,
        mi: usize,
        nonce: &[u8; 32],
        increase: bool,
        is_long: bool,
        is_collateral_long: bool,
        collateral_amount: u64,
        size_usd: u128,
    ) -> Option<u8> {
        let m = self.mkts[mi].clone();
        let c = self.toks[if is_collateral_long { m.long } else { m.short }].mint;
        let mut info = Info {
            op: if increase { "create_increase" } else { "create_decrease" }.into(),
            touched: vec![mi],
            side: if is_collateral_long { "long" } else { "short" }.into(),
            amt: collateral_amount,
            direction: "position".into(),
            current: Some(mi),
            ..Default::default()
        };
        let r = rec.exec(w, &info, &mut |w: &mut World| self.create_position_order(w, user, &m, nonce, increase, is_long, is_collateral_long, collateral_amount, size_usd));
        if !r.ok {
            return None;
        }
        let o = self.order_pda(user, nonce);
        self.tick(w);
        self.prepare_keeper_accounts(w, user, &m, !increase, is_long);
        info.op = if increase { "execute_increase" } else { "execute_decrease" }.into();
        info.action = Some(o);
        let keeper = self.keeper;
        rec.exec(w, &info, &mut |w: &mut World| {
            let ix = self.execute_position_order_ix(w, &keeper, &o, false);
            w.execute(&ix, &[keeper])
        });
        let state = self.action_state(w, &o);
        info.op = if increase { "close_increase" } else { "close_decrease" }.into();
        rec.exec(w, &info, &mut |w: &mut World| self.close_position_order(w, user, user, &o, &m, increase, c));
        state
    }
}

// =====================================================================================================
// Position cuts: liquidate / update_adl_state / auto_deleverage, and recorded config / price changes.
impl R2 {
    /// keeper preparation for a position cut (not recorded): trade event buffer, the three claimable
    /// accounts of the current time window, the escrow accounts of the order the cut will create
    pub fn prepare_cut_accounts(&self, w: &mut World, owner: &Pubkey, m: &Mkt, nonce: &[u8; 32], pnl_long: bool) {
        self.prepare_keeper_accounts(w, owner, m, true, pnl_long);
        let keeper = self.keeper;
        let order = self.order_pda(&keeper, nonce);
        for t in [m.long, m.short] {
            must("cut escrow", w.execute(&ata_ix(&keeper, &order, &self.toks[t].mint), &[keeper]));
        }
    }

    /// `liquidate` (adl_size = None) or `auto_deleverage` of `position` by the keeper
    pub fn cut_ix(&self, w: &World, owner: &Pubkey, m: &Mkt, position: &Pubkey, pnl_long: bool, nonce: &[u8; 32], adl_size: Option<u128>) -> Instruction {
        let keeper = self.keeper;
        let (lt, stk) = (self.toks[m.long].mint, self.toks[m.short].mint);
        let order = self.order_pda(&keeper, nonce);
        let ts = w.clock().0;
        let store: Store = w.account_data(&self.store).expect("store");
        let holding = *store.holding();
        let pnl = if pnl_long { lt } else { stk };
        let accounts = gmsol_store::accounts::PositionCut {
            authority: keeper,
            owner: *owner,
            user: st::user_pda(&self.store, owner),
            store: self.store,
            token_map: self.token_map,
            oracle: self.oracle,
            market: m.market,
            order,
            position: *position,
            event: self.trade_buffer(&keeper, 0),
            long_token: lt,
            short_token: stk,
            long_token_escrow: spl::ata(&order, &lt),
            short_token_escrow: spl::ata(&order, &stk),
            long_token_vault: market_vault_pda(&self.store, &lt),
            short_token_vault: market_vault_pda(&self.store, &stk),
            claimable_long_token_account_for_user: self.claimable_pda(w, &lt, owner, ts),
            claimable_short_token_account_for_user: self.claimable_pda(w, &stk, owner, ts),
            claimable_pnl_token_account_for_holding: self.claimable_pda(w, &pnl, &holding, ts),
            system_program: system_program::ID,
            token_program: spl_token::ID,
            associated_token_program: spl_associated_token_account::ID,
            chainlink_program: None,
            event_authority: st::event_authority(&gmsol_store::ID),
            program: gmsol_store::ID,
        };
        let mut ix = match adl_size {
            None => st::ix(accounts, gmsol_store::instruction::Liquidate { nonce: *nonce, recent_timestamp: ts, execution_fee: EXEC_FEE }),
            Some(size) => st::ix(
                accounts,
                gmsol_store::instruction::AutoDeleverage { nonce: *nonce, recent_timestamp: ts, size_delta_in_usd: size, execution_fee: EXEC_FEE },
            ),
        };
        let mut tokens = vec![self.toks[m.index].mint, lt, stk];
        tokens.sort();
        tokens.dedup();
        ix.accounts.extend(self.exec_remaining(&tokens, &[], &m.market_token));
        ix
    }

    /// the position of `owner` in market `mi` (side, collateral side): (address, size in usd) if it is open
    pub fn open_position(&self, w: &World, owner: &Pubkey, mi: usize, is_long: bool, col_long: bool) -> Option<(Pubkey, u128)> {
        let m = &self.mkts[mi];
        let ct = self.toks[if col_long { m.long } else { m.short }].mint;
        let pda = self.position_pda(owner, m, &ct, is_long);
        let pos: Option<gmsol_store::states::Position> = match w.account(&pda) {
            Some(a) if a.owner == gmsol_store::ID => w.account_data(&pda),
            _ => None,
        };
        pos.filter(|p| p.state.size_in_usd > 0).map(|p| (pda, p.state.size_in_usd))
    }

    /// liquidate / auto_deleverage + close of the order the cut created (by the keeper)
    #[allow(clippy::too_many_arguments)]
    pub fn flow_cut(&self, w: &mut World, rec: &mut dyn Recorder, owner: &Pubkey, mi: usize, is_long: bool, col_long: bool, nonce: &[u8; 32], adl_size: Option<u128>) -> ExecResult {
        let m = self.mkts[mi].clone();
        let ct = self.toks[if col_long { m.long } else { m.short }].mint;
        let position = self.position_pda(owner, &m, &ct, is_long);
        self.tick(w);
        self.prepare_cut_accounts(w, owner, &m, nonce, is_long);
        let keeper = self.keeper;
        let order = self.order_pda(&keeper, nonce);
        let mut info = Info {
            op: if adl_size.is_some() { "auto_deleverage" } else { "liquidate" }.into(),
            touched: vec![mi],
            side: if col_long { "long" } else { "short" }.into(),
            direction: "cut".into(),
            current: Some(mi),
            action: Some(order),
            ..Default::default()
        };
        let r = rec.exec(w, &info, &mut |w: &mut World| {
            let ix = self.cut_ix(w, owner, &m, &position, is_long, nonce, adl_size);
            w.execute(&ix, &[keeper])
        });
        if r.ok {
            // the order exists now (completed): the keeper closes it, the outputs go to the owner
            let rent_receiver = self.order(w, &order).map(|o| *o.header().rent_receiver()).unwrap_or(*owner);
            let (lt, stk) = (self.toks[m.long].mint, self.toks[m.short].mint);
            info.op = "close_cut_order".into();
            rec.exec(w, &info, &mut |w: &mut World| {
                let mut ix = st::ix(
                    gmsol_store::accounts::CloseOrderV2 {
                        executor: keeper,
                        store: self.store,
                        store_wallet: self.store_wallet,
                        owner: *owner,
                        receiver: *owner,
                        rent_receiver,
                        user: st::user_pda(&self.store, owner),
                        referrer_user: None,
                        order,
                        initial_collateral_token: None,
                        final_output_token: Some(ct),
                        long_token: Some(lt),
                        short_token: Some(stk),
                        initial_collateral_token_escrow: None,
                        final_output_token_escrow: Some(spl::ata(&order, &ct)),
                        long_token_escrow: Some(spl::ata(&order, &lt)),
                        short_token_escrow: Some(spl::ata(&order, &stk)),
                        initial_collateral_token_ata: None,
                        final_output_token_ata: Some(spl::ata(owner, &ct)),
                        long_token_ata: Some(spl::ata(owner, &lt)),
                        short_token_ata: Some(spl::ata(owner, &stk)),
                        system_program: system_program::ID,
                        token_program: spl_token::ID,
                        associated_token_program: spl_associated_token_account::ID,
                        callback_authority: None,
                        callback_program: None,
                        callback_shared_data_account: None,
                        callback_partitioned_data_account: None,
                        event_authority: st::event_authority(&gmsol_store::ID),
                        program: gmsol_store::ID,
                    },
                    gmsol_store::instruction::CloseOrderV2 { reason: "verif".into() },
                );
                payer_writable(&mut ix, &keeper);
                w.execute(&ix, &[keeper])
            });
        }
        r
    }

    pub fn update_adl_ix(&self, mi: usize, is_long: bool) -> Instruction {
        let m = &self.mkts[mi];
        let mut ix = st::ix(
            gmsol_store::accounts::UpdateAdlState { authority: self.keeper, store: self.store, token_map: self.token_map, oracle: self.oracle, market: m.market, chainlink_program: None },
            gmsol_store::instruction::UpdateAdlState { is_long },
        );
        let mut tokens = vec![self.toks[m.index].mint, self.toks[m.long].mint, self.toks[m.short].mint];
        tokens.sort();
        tokens.dedup();
        ix.accounts.extend(self.exec_remaining(&tokens, &[], &m.market_token));
        ix
    }

    pub fn flow_update_adl(&self, w: &mut World, rec: &mut dyn Recorder, mi: usize, is_long: bool) -> ExecResult {
        self.tick(w);
        let keeper = self.keeper;
        let info = Info { op: "update_adl_state".into(), touched: vec![mi], side: "none".into(), direction: "cut".into(), current: Some(mi), ..Default::default() };
        let ix = self.update_adl_ix(mi, is_long);
        rec.exec(w, &info, &mut |w: &mut World| w.execute(&ix, &[keeper]))
    }

    /// recorded `update_market_config`
    pub fn flow_config(&self, w: &mut World, rec: &mut dyn Recorder, mi: usize, key: &str, value: u128) -> ExecResult {
        let m = self.mkts[mi].clone();
        let info = Info { op: "update_market_config".into(), touched: vec![mi], side: "none".into(), direction: "config".into(), current: Some(mi), ..Default::default() };
        rec.exec(w, &info, &mut |w: &mut World| self.update_market_config(w, &m, key, value))
    }

    /// A position is opened, the index price moves in its favour, the market is configured so that the
    /// position can be cut, and it is liquidated (`adl` = false) or auto-deleveraged.  `swap_fails`: the
    /// pool of the PnL token is capped so that the cut's PnL -> collateral swap fails and the profit is
    /// paid out as secondary output in the PnL token.
    #[allow(clippy::too_many_arguments)]
    pub fn cut_scenario(&self, w: &mut World, rec: &mut dyn Recorder, user: &Pubkey, mi: usize, is_long: bool, col_long: bool, adl: bool, swap_fails: bool, ctr: &mut u64) {
        const USD: u128 = 100_000_000_000_000_000_000;
        let m = self.mkts[mi].clone();
        let mut nonce = |tag: u8| {
            *ctr += 1;
            let mut n = [0u8; 32];
            n[..8].copy_from_slice(&ctr.to_le_bytes());
            n[31] = tag;
            n
        };
        let ct = if col_long { m.long } else { m.short };
        let st = self.flow_position(w, rec, user, mi, &nonce(9), true, is_long, col_long, self.units(ct, 500), 1000 * USD);
        if st != Some(1) {
            return;
        }
        // the index price moves 10% in favour of the position
        let p = self.current_price(w, &self.toks[m.index]);
        self.set_token_price(w, m.index, if is_long { p * 11 / 10 } else { p * 9 / 10 });
        if adl {
            let (k1, k2) = if is_long { ("max_pnl_factor_for_long_adl", "min_pnl_factor_after_long_adl") } else { ("max_pnl_factor_for_short_adl", "min_pnl_factor_after_short_adl") };
            self.flow_config(w, rec, mi, k2, 0);
            self.flow_config(w, rec, mi, k1, 100_000_000_000_000); // 1e-6
            self.flow_update_adl(w, rec, mi, is_long);
        } else {
            self.flow_config(w, rec, mi, "min_collateral_factor_for_liquidation", 2 * USD);
        }
        if swap_fails {
            self.flow_config(w, rec, mi, if is_long { "max_pool_amount_for_long_token" } else { "max_pool_amount_for_short_token" }, 1);
        }
        let size = self.open_position(w, user, mi, is_long, col_long).map(|x| x.1).unwrap_or(0);
        self.flow_cut(w, rec, user, mi, is_long, col_long, &nonce(10), if adl { Some(size) } else { None });
    }
}

// =====================================================================================================
// GLV: initialize_glv, market config, GLV deposits / withdrawals (GLV token = Token-2022 mint).
pub const TOKEN_2022: Pubkey = anchor_spl::token_2022::spl_token_2022::ID;

#[derive(Clone, Debug)]
pub struct GlvEnv {
    pub index: u16,
    pub glv: Pubkey,
    pub glv_token: Pubkey,
    /// market indices (into R2::mkts) in the order the GLV stores them (sorted by market token address)
    pub markets: Vec<usize>,
}

pub fn ata22(owner: &Pubkey, mint: &Pubkey) -> Pubkey {
    spl_associated_token_account::get_associated_token_address_with_program_id(owner, mint, &TOKEN_2022)
}
pub fn ata22_ix(payer: &Pubkey, owner: &Pubkey, mint: &Pubkey) -> Instruction {
    spl_associated_token_account::instruction::create_associated_token_account_idempotent(payer, owner, mint, &TOKEN_2022)
}
/// balance of a Token-2022 account
pub fn balance22(w: &World, account: &Pubkey) -> u64 {
    use anchor_lang::solana_program::program_pack::Pack;
    w.account_bytes(account).and_then(|d| spl_token::state::Account::unpack(d.get(..spl_token::state::Account::LEN)?).ok()).map(|a| a.amount).unwrap_or(0)
}

impl R2 {
    pub fn glv_addresses(&self, index: u16) -> (Pubkey, Pubkey) {
        use gmsol_store::states::Glv;
        let glv_token = Pubkey::find_program_address(&[Glv::GLV_TOKEN_SEED, self.store.as_ref(), &index.to_le_bytes()], &gmsol_store::ID).0;
        let glv = Pubkey::find_program_address(&[Glv::SEED, glv_token.as_ref()], &gmsol_store::ID).0;
        (glv, glv_token)
    }

    /// `initialize_glv(index)` over the given markets (by index into `mkts`)
    pub fn initialize_glv_ix(&self, index: u16, markets: &[usize]) -> (Instruction, GlvEnv) {
        let (glv, glv_token) = self.glv_addresses(index);
        let mut sorted: Vec<usize> = markets.to_vec();
        sorted.sort_by_key(|i| self.mkts[*i].market_token);
        let mut ix = st::ix(
            gmsol_store::accounts::InitializeGlv {
                authority: self.keeper,
                store: self.store,
                glv_token,
                glv,
                system_program: system_program::ID,
                token_program: TOKEN_2022,
                market_token_program: spl_token::ID,
                associated_token_program: spl_associated_token_account::ID,
            },
            gmsol_store::instruction::InitializeGlv { index, length: markets.len() as u16 },
        );
        // markets (as given), then market tokens and vaults in the GLV's (sorted) order
        for i in markets {
            ix.accounts.push(AccountMeta::new_readonly(self.mkts[*i].market, false));
        }
        for i in &sorted {
            ix.accounts.push(AccountMeta::new_readonly(self.mkts[*i].market_token, false));
        }
        for i in &sorted {
            ix.accounts.push(AccountMeta::new(spl::ata(&glv, &self.mkts[*i].market_token), false));
        }
        (ix, GlvEnv { index, glv, glv_token, markets: sorted })
    }

    pub fn glv_market_config_ix(&self, g: &GlvEnv, mi: usize, max_amount: Option<u64>, max_value: Option<u128>) -> Instruction {
        st::ix(
            gmsol_store::accounts::UpdateGlvMarketConfig { authority: self.keeper, store: self.store, glv: g.glv, market_token: self.mkts[mi].market_token },
            gmsol_store::instruction::UpdateGlvMarketConfig { max_amount, max_value },
        )
    }

    pub fn glv_market_flag_ix(&self, g: &GlvEnv, mi: usize, flag: &str, enable: bool) -> Instruction {
        st::ix(
            gmsol_store::accounts::UpdateGlvMarketConfig { authority: self.keeper, store: self.store, glv: g.glv, market_token: self.mkts[mi].market_token },
            gmsol_store::instruction::ToggleGlvMarketFlag { flag: flag.to_string(), enable },
        )
    }

    /// `insert_glv_market` of market `mi`
    pub fn insert_glv_market_ix(&self, g: &GlvEnv, mi: usize) -> Instruction {
        let m = &self.mkts[mi];
        st::ix(
            gmsol_store::accounts::InsertGlvMarket {
                authority: self.keeper,
                store: self.store,
                glv: g.glv,
                market_token: m.market_token,
                market: m.market,
                vault: spl::ata(&g.glv, &m.market_token),
                system_program: system_program::ID,
                token_program: spl_token::ID,
                associated_token_program: spl_associated_token_account::ID,
            },
            gmsol_store::instruction::InsertGlvMarket {},
        )
    }

    /// remaining accounts of execute_glv_*: N markets, N market tokens (GLV order), feeds of the tokens
    /// (long, short and every market's index token, sorted), no swap markets
    fn glv_remaining(&self, g: &GlvEnv) -> Vec<AccountMeta> {
        let mut v = Vec::new();
        for i in &g.markets {
            v.push(AccountMeta::new(self.mkts[*i].market, false));
        }
        for i in &g.markets {
            v.push(AccountMeta::new_readonly(self.mkts[*i].market_token, false));
        }
        let mut tokens: Vec<Pubkey> = Vec::new();
        for i in &g.markets {
            let m = &self.mkts[*i];
            for t in [m.index, m.long, m.short] {
                tokens.push(self.toks[t].mint);
            }
        }
        tokens.sort();
        tokens.dedup();
        for t in tokens {
            v.push(AccountMeta::new_readonly(self.tok_by_mint(&t).map(|t| t.feed).unwrap_or_default(), false));
        }
        v
    }

    pub fn glv_deposit_pda(&self, owner: &Pubkey, nonce: &[u8; 32]) -> Pubkey {
        use gmsol_store::states::GlvDeposit;
        Pubkey::find_program_address(&[GlvDeposit::SEED, self.store.as_ref(), owner.as_ref(), nonce], &gmsol_store::ID).0
    }
    pub fn glv_withdrawal_pda(&self, owner: &Pubkey, nonce: &[u8; 32]) -> Pubkey {
        use gmsol_store::states::GlvWithdrawal;
        Pubkey::find_program_address(&[GlvWithdrawal::SEED, self.store.as_ref(), owner.as_ref(), nonce], &gmsol_store::ID).0
    }

    /// escrow accounts + `create_glv_deposit`: `market_token_amount` market tokens of market `mi` and / or
    /// `long_amount` / `short_amount` of the market's long / short token (which the execution first deposits into the market)
    #[allow(clippy::too_many_arguments)]
    pub fn create_glv_deposit(&self, w: &mut World, owner: &Pubkey, g: &GlvEnv, mi: usize, nonce: &[u8; 32], market_token_amount: u64, long_amount: u64, short_amount: u64, min_glv: u64) -> ExecResult {
        let m = &self.mkts[mi];
        let d = self.glv_deposit_pda(owner, nonce);
        let (lt, stk) = (self.toks[m.long].mint, self.toks[m.short].mint);
        let ixs = vec![
            ata22_ix(owner, &d, &g.glv_token),
            ata_ix(owner, &d, &m.market_token),
            ata_ix(owner, &d, &lt),
            ata_ix(owner, &d, &stk),
            st::ix(
                gmsol_store::accounts::CreateGlvDeposit {
                    owner: *owner,
                    receiver: *owner,
                    store: self.store,
                    market: m.market,
                    glv: g.glv,
                    glv_deposit: d,
                    glv_token: g.glv_token,
                    market_token: m.market_token,
                    initial_long_token: Some(lt),
                    initial_short_token: Some(stk),
                    market_token_source: Some(spl::ata(owner, &m.market_token)),
                    initial_long_token_source: Some(spl::ata(owner, &lt)),
                    initial_short_token_source: Some(spl::ata(owner, &stk)),
                    glv_token_escrow: ata22(&d, &g.glv_token),
                    market_token_escrow: spl::ata(&d, &m.market_token),
                    initial_long_token_escrow: Some(spl::ata(&d, &lt)),
                    initial_short_token_escrow: Some(spl::ata(&d, &stk)),
                    system_program: system_program::ID,
                    token_program: spl_token::ID,
                    glv_token_program: TOKEN_2022,
                    associated_token_program: spl_associated_token_account::ID,
                },
                gmsol_store::instruction::CreateGlvDeposit {
                    nonce: *nonce,
                    params: gmsol_store::ops::glv::CreateGlvDepositParams {
                        execution_lamports: EXEC_LAMPORTS,
                        long_token_swap_length: 0,
                        short_token_swap_length: 0,
                        initial_long_token_amount: long_amount,
                        initial_short_token_amount: short_amount,
                        market_token_amount,
                        min_market_token_amount: 0,
                        min_glv_token_amount: min_glv,
                        should_unwrap_native_token: false,
                    },
                },
            ),
        ];
        w.execute_tx(&ixs, &[*owner])
    }

    pub fn execute_glv_deposit_ix(&self, g: &GlvEnv, mi: usize, d: &Pubkey, throw: bool) -> Instruction {
        let m = &self.mkts[mi];
        let (lt, stk) = (self.toks[m.long].mint, self.toks[m.short].mint);
        let mut ix = st::ix(
            gmsol_store::accounts::ExecuteGlvDeposit {
                authority: self.keeper,
                store: self.store,
                token_map: self.token_map,
                oracle: self.oracle,
                glv: g.glv,
                market: m.market,
                glv_deposit: *d,
                glv_token: g.glv_token,
                market_token: m.market_token,
                initial_long_token: Some(lt),
                initial_short_token: Some(stk),
                glv_token_escrow: ata22(d, &g.glv_token),
                market_token_escrow: spl::ata(d, &m.market_token),
                initial_long_token_escrow: Some(spl::ata(d, &lt)),
                initial_short_token_escrow: Some(spl::ata(d, &stk)),
                initial_long_token_vault: Some(market_vault_pda(&self.store, &lt)),
                initial_short_token_vault: Some(market_vault_pda(&self.store, &stk)),
                market_token_vault: spl::ata(&g.glv, &m.market_token),
                token_program: spl_token::ID,
                glv_token_program: TOKEN_2022,
                system_program: system_program::ID,
                chainlink_program: None,
                event_authority: st::event_authority(&gmsol_store::ID),
                program: gmsol_store::ID,
            },
            gmsol_store::instruction::ExecuteGlvDeposit { execution_lamports: EXEC_FEE, throw_on_execution_error: throw },
        );
        ix.accounts.extend(self.glv_remaining(g));
        payer_writable(&mut ix, &self.keeper);
        ix
    }

    pub fn close_glv_deposit(&self, w: &mut World, executor: &Pubkey, owner: &Pubkey, g: &GlvEnv, mi: usize, d: &Pubkey) -> ExecResult {
        let m = &self.mkts[mi];
        let (lt, stk) = (self.toks[m.long].mint, self.toks[m.short].mint);
        let mut ixs = vec![ata22_ix(executor, owner, &g.glv_token)];
        let mut ix = st::ix(
            gmsol_store::accounts::CloseGlvDeposit {
                executor: *executor,
                store: self.store,
                store_wallet: self.store_wallet,
                owner: *owner,
                receiver: *owner,
                glv_deposit: *d,
                market_token: m.market_token,
                initial_long_token: Some(lt),
                initial_short_token: Some(stk),
                glv_token: g.glv_token,
                market_token_escrow: spl::ata(d, &m.market_token),
                initial_long_token_escrow: Some(spl::ata(d, &lt)),
                initial_short_token_escrow: Some(spl::ata(d, &stk)),
                glv_token_escrow: ata22(d, &g.glv_token),
                market_token_ata: spl::ata(owner, &m.market_token),
                initial_long_token_ata: Some(spl::ata(owner, &lt)),
                initial_short_token_ata: Some(spl::ata(owner, &stk)),
                glv_token_ata: ata22(owner, &g.glv_token),
                system_program: system_program::ID,
                token_program: spl_token::ID,
                glv_token_program: TOKEN_2022,
                associated_token_program: spl_associated_token_account::ID,
                event_authority: st::event_authority(&gmsol_store::ID),
                program: gmsol_store::ID,
            },
            gmsol_store::instruction::CloseGlvDeposit { reason: "verif".into() },
        );
        payer_writable(&mut ix, executor);
        ixs.push(ix);
        w.execute_tx(&ixs, &[*executor])
    }

    /// escrow accounts + `create_glv_withdrawal` of `glv_amount` GLV tokens through market `mi`
    pub fn create_glv_withdrawal(&self, w: &mut World, owner: &Pubkey, g: &GlvEnv, mi: usize, nonce: &[u8; 32], glv_amount: u64) -> ExecResult {
        let m = &self.mkts[mi];
        let wd = self.glv_withdrawal_pda(owner, nonce);
        let (lt, stk) = (self.toks[m.long].mint, self.toks[m.short].mint);
        let ixs = vec![
            ata22_ix(owner, &wd, &g.glv_token),
            ata_ix(owner, &wd, &m.market_token),
            ata_ix(owner, &wd, &lt),
            ata_ix(owner, &wd, &stk),
            st::ix(
                gmsol_store::accounts::CreateGlvWithdrawal {
                    owner: *owner,
                    receiver: *owner,
                    store: self.store,
                    market: m.market,
                    glv: g.glv,
                    glv_withdrawal: wd,
                    glv_token: g.glv_token,
                    market_token: m.market_token,
                    final_long_token: lt,
                    final_short_token: stk,
                    glv_token_source: ata22(owner, &g.glv_token),
                    glv_token_escrow: ata22(&wd, &g.glv_token),
                    market_token_escrow: spl::ata(&wd, &m.market_token),
                    final_long_token_escrow: spl::ata(&wd, &lt),
                    final_short_token_escrow: spl::ata(&wd, &stk),
                    system_program: system_program::ID,
                    token_program: spl_token::ID,
                    glv_token_program: TOKEN_2022,
                    associated_token_program: spl_associated_token_account::ID,
                },
                gmsol_store::instruction::CreateGlvWithdrawal {
                    nonce: *nonce,
                    params: gmsol_store::ops::glv::CreateGlvWithdrawalParams {
                        execution_lamports: EXEC_LAMPORTS,
                        long_token_swap_length: 0,
                        short_token_swap_length: 0,
                        glv_token_amount: glv_amount,
                        min_final_long_token_amount: 0,
                        min_final_short_token_amount: 0,
                        should_unwrap_native_token: false,
                    },
                },
            ),
        ];
        w.execute_tx(&ixs, &[*owner])
    }

    pub fn execute_glv_withdrawal_ix(&self, g: &GlvEnv, mi: usize, wd: &Pubkey, throw: bool) -> Instruction {
        let m = &self.mkts[mi];
        let (lt, stk) = (self.toks[m.long].mint, self.toks[m.short].mint);
        let mut ix = st::ix(
            gmsol_store::accounts::ExecuteGlvWithdrawal {
                authority: self.keeper,
                store: self.store,
                token_map: self.token_map,
                oracle: self.oracle,
                glv: g.glv,
                market: m.market,
                glv_withdrawal: *wd,
                glv_token: g.glv_token,
                market_token: m.market_token,
                final_long_token: lt,
                final_short_token: stk,
                glv_token_escrow: ata22(wd, &g.glv_token),
                market_token_escrow: spl::ata(wd, &m.market_token),
                final_long_token_escrow: spl::ata(wd, &lt),
                final_short_token_escrow: spl::ata(wd, &stk),
                market_token_withdrawal_vault: m.mt_vault,
                final_long_token_vault: market_vault_pda(&self.store, &lt),
                final_short_token_vault: market_vault_pda(&self.store, &stk),
                market_token_vault: spl::ata(&g.glv, &m.market_token),
                token_program: spl_token::ID,
                glv_token_program: TOKEN_2022,
                system_program: system_program::ID,
                chainlink_program: None,
                event_authority: st::event_authority(&gmsol_store::ID),
                program: gmsol_store::ID,
            },
            gmsol_store::instruction::ExecuteGlvWithdrawal { execution_lamports: EXEC_FEE, throw_on_execution_error: throw },
        );
        ix.accounts.extend(self.glv_remaining(g));
        payer_writable(&mut ix, &self.keeper);
        ix
    }

    pub fn close_glv_withdrawal(&self, w: &mut World, executor: &Pubkey, owner: &Pubkey, g: &GlvEnv, mi: usize, wd: &Pubkey) -> ExecResult {
        let m = &self.mkts[mi];
        let (lt, stk) = (self.toks[m.long].mint, self.toks[m.short].mint);
        let mut ix = st::ix(
            gmsol_store::accounts::CloseGlvWithdrawal {
                executor: *executor,
                store: self.store,
                store_wallet: self.store_wallet,
                owner: *owner,
                receiver: *owner,
                glv_withdrawal: *wd,
                market_token: m.market_token,
                final_long_token: lt,
                final_short_token: stk,
                glv_token: g.glv_token,
                market_token_escrow: spl::ata(wd, &m.market_token),
                final_long_token_escrow: spl::ata(wd, &lt),
                final_short_token_escrow: spl::ata(wd, &stk),
                market_token_ata: spl::ata(owner, &m.market_token),
                final_long_token_ata: spl::ata(owner, &lt),
                final_short_token_ata: spl::ata(owner, &stk),
                glv_token_escrow: ata22(wd, &g.glv_token),
                glv_token_ata: ata22(owner, &g.glv_token),
                system_program: system_program::ID,
                token_program: spl_token::ID,
                glv_token_program: TOKEN_2022,
                associated_token_program: spl_associated_token_account::ID,
                event_authority: st::event_authority(&gmsol_store::ID),
                program: gmsol_store::ID,
            },
            gmsol_store::instruction::CloseGlvWithdrawal { reason: "verif".into() },
        );
        payer_writable(&mut ix, executor);
        w.execute(&ix, &[*executor])
    }
}
