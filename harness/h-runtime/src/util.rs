//! Shared helpers: deterministic RNG, ndjson sink, panic capture, CLI argument access.
use std::fs::File;
use std::io::{BufWriter, Write};
use std::panic::{catch_unwind, AssertUnwindSafe};

pub struct Rng(pub u64);
impl Rng {
    pub fn new(seed: u64) -> Self {
        Rng(seed.wrapping_mul(0x9E3779B97F4A7C15) ^ 0xD1B54A32D192ED03)
    }
    pub fn next(&mut self) -> u64 {
        // splitmix64
        self.0 = self.0.wrapping_add(0x9E3779B97F4A7C15);
        let mut z = self.0;
        z = (z ^ (z >> 30)).wrapping_mul(0xBF58476D1CE4E5B9);
        z = (z ^ (z >> 27)).wrapping_mul(0x94D049BB133111EB);
        z ^ (z >> 31)
    }
    pub fn below(&mut self, n: u64) -> u64 {
        if n == 0 { 0 } else { self.next() % n }
    }
    pub fn range(&mut self, lo: i64, hi: i64) -> i64 {
        lo + self.below((hi - lo + 1) as u64) as i64
    }
    pub fn pick<'a, T>(&mut self, xs: &'a [T]) -> &'a T {
        &xs[self.below(xs.len() as u64) as usize]
    }
    pub fn chance(&mut self, num: u64, den: u64) -> bool {
        self.below(den) < num
    }
    pub fn next128(&mut self) -> u128 {
        ((self.next() as u128) << 64) | self.next() as u128
    }
}

pub struct Sink {
    w: BufWriter<File>,
    pub n: usize,
}
impl Sink {
    pub fn create(path: &str) -> Self {
        Sink { w: BufWriter::new(File::create(path).expect("create trace file")), n: 0 }
    }
    pub fn emit(&mut self, v: serde_json::Value) {
        serde_json::to_writer(&mut self.w, &v).unwrap();
        self.w.write_all(b"\n").unwrap();
        self.n += 1;
    }
    pub fn finish(mut self) -> usize {
        self.w.flush().unwrap();
        self.n
    }
}

/// Run code under test; a panic is data (`Err(())`), never a crash of the harness.
pub fn guarded<T>(f: impl FnOnce() -> T) -> Result<T, ()> {
    catch_unwind(AssertUnwindSafe(f)).map_err(|_| ())
}

pub fn quiet_panics() {
    std::panic::set_hook(Box::new(|_| {}));
}

pub struct Args(pub Vec<String>);
impl Args {
    /// (mode, remaining args) from the process arguments: `<bin> <mode> [--key value ...]`
    pub fn from_env() -> (String, Args) {
        let argv: Vec<String> = std::env::args().collect();
        if argv.len() < 2 {
            eprintln!("usage: {} <mode> [--key value ...]", argv[0]);
            std::process::exit(2);
        }
        (argv[1].clone(), Args(argv[2..].to_vec()))
    }
    pub fn get(&self, key: &str) -> Option<&str> {
        let k = format!("--{key}");
        self.0.iter().position(|a| *a == k).and_then(|i| self.0.get(i + 1)).map(|s| s.as_str())
    }
    pub fn num(&self, key: &str, default: u64) -> u64 {
        self.get(key).and_then(|s| s.parse().ok()).unwrap_or(default)
    }
    pub fn str(&self, key: &str, default: &str) -> String {
        self.get(key).unwrap_or(default).to_string()
    }
}
