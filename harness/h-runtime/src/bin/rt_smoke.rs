//! Smoke test of the in-process runtime: real store instructions through `entry()`.
use anchor_lang::solana_program::{pubkey::Pubkey, system_program};
use gmsol_store::states::{
    user::{ReferralCodeV2, UserHeader},
    RoleKey, Store,
};
use h_runtime::runtime::{keys::key, spl, store as st, ExecResult, World};

fn show(what: &str, r: &ExecResult) {
    println!(
        "{what:<42} ok={} err={} code={:?} changed={} cpis={} events={}{}",
        r.ok,
        r.label(),
        r.err_code,
        r.changed.len(),
        r.cpis.len(),
        r.events.len(),
        r.runtime_error.as_ref().map(|e| format!(" runtime_error={e}")).unwrap_or_default()
    );
}

fn must(what: &str, r: &ExecResult) {
    show(what, r);
    if !r.ok {
        for l in &r.logs {
            println!("    {l}");
        }
        panic!("{what} failed");
    }
}

fn main() {
    let mut w = World::new();
    let admin = key("admin");
    let stranger = key("stranger");
    let keeper = key("keeper");
    let (u1, u2) = (key("u1"), key("u2"));
    for k in [&admin, &stranger, &keeper, &u1, &u2] {
        w.airdrop(k, 100_000_000_000);
    }

    // initialize
    let (store, r) = st::init_store(&mut w, &admin);
    must("initialize", &r);
    let s: Store = w.account_data(&store).expect("store account");
    assert_eq!(w.account(&store).unwrap().owner, gmsol_store::ID);
    println!("  store {} bytes, has_admin_role(admin)={:?}", w.account_bytes(&store).unwrap().len(), s.has_admin_role(&admin));
    // second initialize must fail (account already in use) and leave everything unchanged
    let d0 = w.digest();
    let (_, r) = st::init_store(&mut w, &admin);
    show("initialize (again, must fail)", &r);
    assert!(!r.ok && w.digest() == d0);

    // roles
    must("enable_role MARKET_KEEPER", &st::enable_role(&mut w, &store, &admin, RoleKey::MARKET_KEEPER));
    must("grant_role keeper MARKET_KEEPER", &st::grant_role(&mut w, &store, &admin, &keeper, RoleKey::MARKET_KEEPER));
    let (v, r) = st::check_role(&mut w, &store, &keeper, RoleKey::MARKET_KEEPER);
    must("check_role keeper", &r);
    assert_eq!(v, Some(true));
    let (v, r) = st::check_role(&mut w, &store, &stranger, RoleKey::MARKET_KEEPER);
    show("check_role stranger (non-member: error)", &r);
    assert!(v.is_none());

    // a stranger may not enable roles; nothing may change
    let d0 = w.digest();
    let r = st::enable_role(&mut w, &store, &stranger, "ORDER_KEEPER");
    show("enable_role by stranger (must fail)", &r);
    assert!(!r.ok && r.err_name == "NotAnAdmin" && r.err_code == Some(6003), "{:?}", r.logs);
    assert!(!r.changed_before_rollback && w.digest() == d0);
    // forged signer flag is refused by the runtime itself
    let ix = st::ix(
        gmsol_store::accounts::EnableRole { authority: admin, store },
        gmsol_store::instruction::EnableRole { role: "ORDER_KEEPER".into() },
    );
    let r = w.execute(&ix, &[stranger]);
    show("enable_role, admin meta w/o signature", &r);
    assert!(!r.ok && w.digest() == d0);

    // token map (keypair-style account created by Anchor `init` through the System CPI)
    let token_map = key("token_map");
    let r = w.execute(
        &st::ix(
            gmsol_store::accounts::InitializeTokenMap { payer: admin, store, token_map, system_program: system_program::ID },
            gmsol_store::instruction::InitializeTokenMap {},
        ),
        &[admin, token_map],
    );
    must("initialize_token_map", &r);
    assert_eq!(w.account(&token_map).unwrap().owner, gmsol_store::ID);

    // users and referral
    let (user1, r) = st::prepare_user(&mut w, &store, &u1);
    must("prepare_user u1", &r);
    let (user2, r) = st::prepare_user(&mut w, &store, &u2);
    must("prepare_user u2", &r);
    let (_, r) = st::prepare_user(&mut w, &store, &u2);
    must("prepare_user u2 (idempotent)", &r);
    let code: [u8; 8] = *b"CODE0001";
    let code_pda = st::referral_code_pda(&store, &code);
    let r = w.execute(
        &st::ix(
            gmsol_store::accounts::InitializeReferralCode {
                owner: u1,
                store,
                referral_code: code_pda,
                user: user1,
                system_program: system_program::ID,
            },
            gmsol_store::instruction::InitializeReferralCode { code },
        ),
        &[u1],
    );
    must("initialize_referral_code u1", &r);
    let set_referrer = |w: &mut World, owner: Pubkey, user: Pubkey, referrer_user: Pubkey| {
        w.execute(
            &st::ix(
                gmsol_store::accounts::SetReferrer { owner, store, user, referral_code: code_pda, referrer_user },
                gmsol_store::instruction::SetReferrer { code },
            ),
            &[owner],
        )
    };
    let r = set_referrer(&mut w, u1, user1, user1);
    show("set_referrer u1 -> u1 (must fail)", &r);
    assert!(!r.ok && r.err_name == "SelfReferral", "{:?}", r.logs);
    must("set_referrer u2 -> u1", &set_referrer(&mut w, u2, user2, user1));
    let r = set_referrer(&mut w, u2, user2, user1);
    show("set_referrer u2 -> u1 again (must fail)", &r);
    assert!(!r.ok && r.err_name == "ReferrerHasBeenSet", "{:?}", r.logs);
    let h2: UserHeader = w.account_data(&user2).unwrap();
    let c: ReferralCodeV2 = w.account_data(&code_pda).unwrap();
    assert_eq!(h2.referral().referrer(), Some(&u1));
    assert_eq!(c.owner, u1);
    println!("  user2.referrer = u1, code.owner = u1, code.next_owner = {}", if *c.next_owner() == u1 { "u1" } else { "?" });

    // SPL through the real processors
    let mint = key("mint");
    must("spl: create mint", &spl::create_mint(&mut w, &admin, &mint, 6, &admin));
    let (ata, r) = spl::create_ata(&mut w, &admin, &u1, &mint);
    must("spl: create ATA (ATA -> token + system CPIs)", &r);
    must("spl: mint_to", &spl::mint_to(&mut w, &mint, &ata, &admin, 1_234));
    assert_eq!(spl::token_balance(&w, &ata), Some(1_234));
    assert_eq!(spl::mint_supply(&w, &mint), Some(1_234));
    let r = spl::mint_to(&mut w, &mint, &ata, &stranger, 1);
    show("spl: mint_to by non-authority (must fail)", &r);
    assert!(!r.ok);

    // clock and restart slot reach the programs
    w.set_last_restart_slot(7);
    let (v, r) = st::check_role(&mut w, &store, &keeper, RoleKey::MARKET_KEEPER);
    show("check_role after cluster restart", &r);
    assert!(v.is_none() && !r.ok, "store must be outdated after a restart");
    w.set_last_restart_slot(0);
    // a market through the real instructions (token map, mints, vaults, initialize_market)
    let m = h_runtime::runtime::market::setup_market(&mut w, &store, &admin, &keeper, "a");
    let mk: gmsol_store::states::Market = w.account_data(&m.market).unwrap();
    println!("  market {} bytes, store matches = {}, name = {:?}", w.account_bytes(&m.market).unwrap().len(), mk.store == store, mk.name());
    println!("rt_smoke: all good");
}
