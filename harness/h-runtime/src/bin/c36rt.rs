//! C36, instruction-level binding on the in-process runtime: the REAL timelock program
//! (`initialize_executor`, `initialize_config`, `create_instruction_buffer`, `approve_instruction(s)`,
//! `cancel_instruction(s)`, `execute_instruction`, `increase_delay`, `revoke_role`) together with the REAL
//! store program (role checks by CPI `check_role` + return data, authority hand-over to the executor
//! wallet) and a PROBE program, registered with `World::register_program`, that records the exact
//! instruction it receives (program id, metas with the signer / writable flags the callee sees, data).
//!
//! mode  run --seed S --n N [--len L] --out trace.ndjson      scripted scenarios, then random histories
//! event (same schema as harness/h-aux c36, judged by Trace_TimelockRt which EXTENDS TimelockProps):
//!   {op, b, x, ok, panic, err, reset, via, pre, post, buffered, delivered, wallet}
//!   pre/post = {buf: [{st, approver, at, shape}..], delay, now, holds: [approver ids]}
//! Read from account bytes: approved flag, approver, approved_at (InstructionHeader getters), delay
//! (TimelockConfig::delay), holds (Store::has_role of the approvers). Remembered by the driver: whether a
//! closed buffer was executed or cancelled, and the shape id of a buffered instruction.
use anchor_lang::solana_program::{
    account_info::AccountInfo, instruction::{AccountMeta, Instruction}, pubkey::Pubkey, system_program,
};
use gmsol_store::states::{Seed, Store};
use gmsol_timelock::states::{Executor, InstructionHeader, TimelockConfig};
use h_runtime::runtime::{keys::key, store as st, ExecResult, World};
use h_runtime::util::{Args, Rng, Sink};
use serde_json::{json, Value};
use std::{cell::RefCell, rc::Rc};

const ROLE: &str = "MARKET_KEEPER"; // executor role; approvers hold __TLD_MARKET_KEEPER
const NB: usize = 2; // buffers
const NA: usize = 2; // approvers

type Recorded = (Pubkey, Vec<(Pubkey, bool, bool)>, Vec<u8>);

struct Env {
    store: Pubkey,
    keeper: Pubkey,
    tl_admin: Pubkey,
    boot: Pubkey,
    approvers: Vec<Pubkey>,
    bufs: Vec<Pubkey>,
    executor: Pubkey,
    wallet: Pubkey,
    admin_executor: Pubkey,
    probe: Pubkey,
    acc_x: Pubkey,
    acc_y: Pubkey,
    received: Rc<RefCell<Vec<Recorded>>>,
}

/// driver memory per buffer: (closed state, shape id, buffered instruction)
#[derive(Clone)]
struct Ghost {
    closed: &'static str,
    shape: i64,
    buffered: Value,
}

fn executor_pda(store: &Pubkey, role: &str) -> Pubkey {
    let name = gmsol_utils::fixed_str::fixed_str_to_bytes::<32>(role).unwrap();
    Pubkey::find_program_address(&[Executor::SEED, store.as_ref(), &name], &gmsol_timelock::ID).0
}
fn wallet_pda(executor: &Pubkey) -> Pubkey {
    Pubkey::find_program_address(&[Executor::WALLET_SEED, executor.as_ref()], &gmsol_timelock::ID).0
}
fn config_pda(store: &Pubkey) -> Pubkey {
    Pubkey::find_program_address(&[TimelockConfig::SEED, store.as_ref()], &gmsol_timelock::ID).0
}
fn tl_ix(accounts: impl anchor_lang::ToAccountMetas, args: impl anchor_lang::InstructionData) -> Instruction {
    st::ix_for(gmsol_timelock::ID, accounts, args)
}
fn must(what: &str, r: ExecResult) {
    assert!(r.ok, "{what} failed: {} {:?}\n{}", r.err_name, r.runtime_error, r.logs.join("\n"));
}

impl Env {
    fn new(w: &mut World, delay: u32) -> Env {
        let admin = key("admin");
        let tld_role = gmsol_timelock::roles::timelocked_role(ROLE);
        let roles = [
            gmsol_timelock::roles::TIMELOCK_ADMIN,
            gmsol_timelock::roles::TIMELOCK_KEEPER,
            gmsol_timelock::roles::TIMELOCKED_ADMIN,
            tld_role.as_str(),
        ];
        let store = st::bootstrap(w, &admin, &roles, &[]);
        let (keeper, tl_admin, boot) = (key("tl-keeper"), key("tl-admin"), key("tl-boot"));
        let approvers: Vec<Pubkey> = (1..=NA).map(|i| key(&format!("approver{i}"))).collect();
        for k in [keeper, tl_admin, boot].iter().chain(approvers.iter()) {
            w.airdrop(k, 1_000_000_000_000);
        }
        must("grant keeper", st::grant_role(w, &store, &admin, &keeper, gmsol_timelock::roles::TIMELOCK_KEEPER));
        must("grant tl admin", st::grant_role(w, &store, &admin, &tl_admin, gmsol_timelock::roles::TIMELOCK_ADMIN));
        for r in [gmsol_timelock::roles::TIMELOCK_ADMIN, gmsol_timelock::roles::TIMELOCK_KEEPER, gmsol_timelock::roles::TIMELOCKED_ADMIN] {
            must("grant boot", st::grant_role(w, &store, &admin, &boot, r));
        }
        for a in &approvers {
            must("grant approver", st::grant_role(w, &store, &admin, a, &tld_role));
        }
        // executors (open), authority hand-over to the ADMIN executor wallet, timelock config
        let admin_executor = executor_pda(&store, "ADMIN");
        let executor = executor_pda(&store, ROLE);
        for (role, ex) in [("ADMIN", admin_executor), (ROLE, executor)] {
            must(
                "initialize_executor",
                w.execute(
                    &tl_ix(
                        gmsol_timelock::accounts::InitializeExecutor { payer: keeper, store, executor: ex, wallet: wallet_pda(&ex), system_program: system_program::ID },
                        gmsol_timelock::instruction::InitializeExecutor { role: role.to_string() },
                    ),
                    &[keeper],
                ),
            );
        }
        must(
            "transfer_store_authority",
            w.execute(
                &st::ix(
                    gmsol_store::accounts::TransferStoreAuthority { authority: admin, store, next_authority: wallet_pda(&admin_executor) },
                    gmsol_store::instruction::TransferStoreAuthority {},
                ),
                &[admin],
            ),
        );
        must(
            "timelock initialize_config",
            w.execute(
                &tl_ix(
                    gmsol_timelock::accounts::InitializeConfig {
                        authority: boot,
                        store,
                        timelock_config: config_pda(&store),
                        executor: admin_executor,
                        wallet: wallet_pda(&admin_executor),
                        store_program: gmsol_store::ID,
                        system_program: system_program::ID,
                    },
                    gmsol_timelock::instruction::InitializeConfig { delay },
                ),
                &[boot],
            ),
        );
        let s: Store = w.account_data(&store).unwrap();
        assert!(s.has_admin_role(&wallet_pda(&admin_executor)).unwrap_or(false), "store authority was not handed to the timelock");
        // probe program
        let probe = key("probe-program");
        let received: Rc<RefCell<Vec<Recorded>>> = Rc::new(RefCell::new(Vec::new()));
        let sink = received.clone();
        w.register_program(
            probe,
            Rc::new(move |pid: &Pubkey, accounts: &'static [AccountInfo<'static>], data: &[u8]| {
                sink.borrow_mut().push((*pid, accounts.iter().map(|a| (*a.key, a.is_signer, a.is_writable)).collect(), data.to_vec()));
                Ok(())
            }),
        );
        let wallet = wallet_pda(&executor);
        w.airdrop(&wallet, 1_000_000_000);
        w.airdrop(&wallet_pda(&admin_executor), 1_000_000_000);
        let (acc_x, acc_y) = (key("probe-acc-x"), key("probe-acc-y"));
        w.airdrop(&acc_x, 1_000_000);
        w.airdrop(&acc_y, 1_000_000);
        w.set_clock(1000, 1000);
        Env {
            store,
            keeper,
            tl_admin,
            boot,
            approvers,
            bufs: (1..=NB).map(|i| key(&format!("ixbuf{i}"))).collect(),
            executor,
            wallet,
            admin_executor,
            probe,
            acc_x,
            acc_y,
            received,
        }
    }

    fn name(&self, k: &Pubkey) -> String {
        if *k == self.wallet {
            "wallet".into()
        } else if *k == self.acc_x {
            "x".into()
        } else if *k == self.acc_y {
            "y".into()
        } else if *k == self.probe {
            "probe".into()
        } else {
            format!("?{}", &k.to_string()[..6])
        }
    }

    /// instruction shapes of the model: 1 = only the executor wallet signs, 2 = nobody signs,
    /// 3 = another account is flagged signer (must be refused at creation)
    /// Further ids 10 * variant + class (same classes): the wallet as READ-ONLY signer, as read-only
    /// non-signer, no accounts at all, empty data (acc_y stays read-only, acc_x at most writable: the
    /// remaining accounts passed to execute_instruction carry exactly those privileges).
    fn shape(&self, sh: i64) -> (Vec<(Pubkey, bool, bool)>, Vec<u8>) {
        let (w, x, y) = (self.wallet, self.acc_x, self.acc_y);
        match sh {
            11 => (vec![(w, true, false), (x, false, true), (y, false, false)], vec![1]),
            12 => (vec![(w, false, false), (y, false, false)], vec![0]),
            13 => (vec![(y, true, false)], vec![3]),
            21 => (vec![(w, true, false), (x, false, false)], vec![2, 2]),
            22 => (vec![], vec![5]),
            23 => (vec![(w, true, true), (y, true, false)], vec![]),
            31 => (vec![(x, false, true), (w, true, false), (y, false, false)], vec![]),
            32 => (vec![], vec![]),
            33 => (vec![(x, true, false), (w, false, false)], vec![4]),
            _ => {
                let metas = vec![(w, sh == 1, true), (x, sh == 3, true), (y, false, false)];
                (metas, vec![0xC3, 0x60, sh as u8, 7, 7])
            }
        }
    }
    fn ix_json(&self, prog: &Pubkey, metas: &[(Pubkey, bool, bool)], data: &[u8]) -> Value {
        json!({"prog": self.name(prog),
               "metas": metas.iter().map(|(k, s, w)| json!({"key": self.name(k), "signer": s, "writable": w})).collect::<Vec<_>>(),
               "data": data})
    }
    fn approver_id(&self, k: &Pubkey) -> i64 {
        self.approvers.iter().position(|a| a == k).map(|i| i as i64 + 1).unwrap_or(99)
    }

    fn project(&self, w: &World, ghost: &[Ghost]) -> Value {
        let mut bufs = Vec::new();
        for (i, b) in self.bufs.iter().enumerate() {
            let h: Option<InstructionHeader> = match w.account(b) {
                Some(a) if a.owner == gmsol_timelock::ID => w.account_data(b),
                _ => None,
            };
            match h {
                Some(h) => bufs.push(json!({
                    "st": if h.is_approved() { "approved" } else { "created" },
                    "approver": h.apporver().map(|a| self.approver_id(a)).unwrap_or(0),
                    "at": h.approved_at().unwrap_or(0),
                    "shape": ghost[i].shape})),
                None => bufs.push(json!({"st": ghost[i].closed, "approver": 0, "at": 0, "shape": 0})),
            }
        }
        let cfg: TimelockConfig = w.account_data(&config_pda(&self.store)).unwrap();
        let s: Store = w.account_data(&self.store).unwrap();
        let tld = gmsol_timelock::roles::timelocked_role(ROLE);
        let holds: Vec<i64> = self
            .approvers
            .iter()
            .enumerate()
            .filter(|(_, a)| s.has_role(a, &tld).unwrap_or(false))
            .map(|(i, _)| i as i64 + 1)
            .collect();
        // delays beyond TLC's integers are logged as decimal strings (judged through `cmp`, see event)
        let delay = if cfg.delay() > i32::MAX as u32 { json!(cfg.delay().to_string()) } else { json!(cfg.delay()) };
        json!({"buf": bufs, "delay": delay, "now": w.clock().0, "holds": holds})
    }

    /// execute one abstract operation through the real instruction(s)
    fn exec(&self, w: &mut World, op: &str, b: usize, x: i64, batch: bool) -> ExecResult {
        let store = self.store;
        let buf = if b >= 1 { self.bufs[b - 1] } else { Pubkey::default() };
        match op {
            "create" => {
                let (metas, data) = self.shape(x);
                let mut ix = tl_ix(
                    gmsol_timelock::accounts::CreateInstructionBuffer {
                        authority: self.keeper,
                        store,
                        executor: self.executor,
                        instruction_buffer: buf,
                        instruction_program: self.probe,
                        store_program: gmsol_store::ID,
                        system_program: system_program::ID,
                    },
                    gmsol_timelock::instruction::CreateInstructionBuffer {
                        num_accounts: metas.len() as u16,
                        data_len: data.len() as u16,
                        data: data.clone(),
                        signers: metas.iter().enumerate().filter(|(_, m)| m.1).map(|(i, _)| i as u16).collect(),
                    },
                );
                for (k, _s, wr) in &metas {
                    ix.accounts.push(AccountMeta { pubkey: *k, is_signer: false, is_writable: *wr });
                }
                w.execute(&ix, &[self.keeper, buf])
            }
            "approve" => {
                let a = self.approvers[(x as usize - 1) % NA];
                if batch {
                    let mut ix = tl_ix(
                        gmsol_timelock::accounts::ApproveInstructions { authority: a, store, executor: self.executor, store_program: gmsol_store::ID },
                        gmsol_timelock::instruction::ApproveInstructions { role: ROLE.into() },
                    );
                    ix.accounts.push(AccountMeta::new(buf, false));
                    w.execute(&ix, &[a])
                } else {
                    w.execute(
                        &tl_ix(
                            gmsol_timelock::accounts::ApproveInstruction { authority: a, store, executor: self.executor, instruction: buf, store_program: gmsol_store::ID },
                            gmsol_timelock::instruction::ApproveInstruction { role: ROLE.into() },
                        ),
                        &[a],
                    )
                }
            }
            "cancel" => {
                if batch {
                    let mut ix = tl_ix(
                        gmsol_timelock::accounts::CancelInstructions { authority: self.tl_admin, store, executor: self.executor, rent_receiver: self.keeper, store_program: gmsol_store::ID },
                        gmsol_timelock::instruction::CancelInstructions {},
                    );
                    ix.accounts.push(AccountMeta::new(buf, false));
                    w.execute(&ix, &[self.tl_admin])
                } else {
                    w.execute(
                        &tl_ix(
                            gmsol_timelock::accounts::CancelInstruction {
                                authority: self.tl_admin,
                                store,
                                executor: self.executor,
                                rent_receiver: self.keeper,
                                instruction: buf,
                                store_program: gmsol_store::ID,
                            },
                            gmsol_timelock::instruction::CancelInstruction {},
                        ),
                        &[self.tl_admin],
                    )
                }
            }
            "execute" => {
                let mut ix = tl_ix(
                    gmsol_timelock::accounts::ExecuteInstruction {
                        authority: self.keeper,
                        store,
                        timelock_config: config_pda(&store),
                        executor: self.executor,
                        wallet: self.wallet,
                        rent_receiver: self.keeper,
                        instruction: buf,
                        store_program: gmsol_store::ID,
                    },
                    gmsol_timelock::instruction::ExecuteInstruction {},
                );
                // remaining accounts as a client would pass them: the buffered metas (nobody can sign for
                // the wallet at transaction level) and the callee program
                let (metas, _) = self.shape(1);
                for (k, _s, wr) in &metas {
                    ix.accounts.push(AccountMeta { pubkey: *k, is_signer: false, is_writable: *wr });
                }
                ix.accounts.push(AccountMeta::new_readonly(self.probe, false));
                w.execute(&ix, &[self.keeper])
            }
            "increase_delay" => w.execute(
                &tl_ix(
                    gmsol_timelock::accounts::IncreaseDelay { authority: self.tl_admin, store, timelock_config: config_pda(&store), store_program: gmsol_store::ID },
                    gmsol_timelock::instruction::IncreaseDelay { delta: x as u32 },
                ),
                &[self.tl_admin],
            ),
            // the store authority is the ADMIN executor wallet now: roles are revoked through the real
            // timelock `revoke_role` (signed by a __TLD_ADMIN holder, CPI signed by the wallet)
            "revoke" => {
                let a = self.approvers[(x as usize - 1) % NA];
                w.execute(
                    &tl_ix(
                        gmsol_timelock::accounts::RevokeRole {
                            authority: self.boot,
                            store,
                            executor: self.admin_executor,
                            wallet: wallet_pda(&self.admin_executor),
                            user: a,
                            store_program: gmsol_store::ID,
                        },
                        gmsol_timelock::instruction::RevokeRole { role: gmsol_timelock::roles::timelocked_role(ROLE) },
                    ),
                    &[self.boot],
                )
            }
            // granting needs the store ADMIN (a timelocked instruction of its own): written with the
            // real Store::grant on the account bytes
            "grant" => {
                let a = self.approvers[(x as usize - 1) % NA];
                let ok = st::fab_grant_role(w, &store, &a, &gmsol_timelock::roles::timelocked_role(ROLE));
                let mut r = w.execute_tx(&[], &[]);
                if !ok {
                    r.ok = false;
                    r.err_name = "PreconditionsAreNotMet".into();
                }
                r
            }
            "tick" => {
                w.advance_clock(x, x as u64);
                w.execute_tx(&[], &[])
            }
            other => panic!("unknown op {other}"),
        }
    }

    #[allow(clippy::too_many_arguments)]
    fn event(&self, w: &mut World, ghost: &mut [Ghost], op: &str, b: usize, x: i64, batch: bool, reset: bool, sink: &mut Sink) -> bool {
        let none_ix = json!({"prog": "", "metas": [], "data": []});
        let pre = self.project(w, ghost);
        self.received.borrow_mut().clear();
        let r = self.exec(w, op, b, x, batch);
        let mut buffered = none_ix.clone();
        let mut delivered = none_ix.clone();
        match op {
            "create" => {
                let (metas, data) = self.shape(x);
                buffered = self.ix_json(&self.probe, &metas, &data);
                if r.ok {
                    ghost[b - 1] = Ghost { closed: "none", shape: x, buffered: buffered.clone() };
                }
            }
            "execute" => {
                buffered = ghost[b - 1].buffered.clone();
                if r.ok {
                    let rec = self.received.borrow();
                    delivered = match rec.last() {
                        Some((p, m, d)) if rec.len() == 1 => self.ix_json(p, m, d),
                        _ => json!({"prog": format!("probe calls: {}", rec.len()), "metas": [], "data": []}),
                    };
                    ghost[b - 1] = Ghost { closed: "executed", shape: 0, buffered: none_ix.clone() };
                }
            }
            "cancel" if r.ok => ghost[b - 1] = Ghost { closed: "cancelled", shape: 0, buffered: none_ix.clone() },
            _ => {}
        }
        let post = self.project(w, ghost);
        if op == "increase_delay" && pre["delay"].is_string() {
            // increase_delay on a delay above 2^31 - 1: cmp = sign(post - pre), fits = no u32 overflow, exact = post = pre + delta
            let num = |v: &Value| v["delay"].as_str().map(|t| t.parse::<u64>().unwrap()).or(v["delay"].as_u64()).unwrap();
            let (d0, d1) = (num(&pre), num(&post));
            sink.emit(json!({"op": "increase_delay_big", "b": 0, "x": 0, "xs": x.to_string(), "ok": r.ok, "panic": r.panic, "err": r.label(),
                "reset": reset, "via": "single", "pre": pre, "post": post, "buffered": buffered, "delivered": delivered, "wallet": "wallet",
                "cmp": (d1 as i64 - d0 as i64).signum(), "fits": x != 0 && d0 + x as u64 <= u32::MAX as u64, "exact": d0 + x as u64 == d1}));
            return r.ok;
        }
        sink.emit(json!({"op": op, "b": b, "x": x, "ok": r.ok, "panic": r.panic, "err": r.label(), "reset": reset,
            "via": if batch { "batch" } else { "single" }, "pre": pre, "post": post,
            "buffered": buffered, "delivered": delivered, "wallet": "wallet"}));
        r.ok
    }
}

fn run(args: &Args) {
    let mut rng = Rng::new(args.num("seed", 1));
    let n = args.num("n", 3000) as usize;
    let len = args.num("len", 40) as usize;
    let mut sink = Sink::create(&args.str("out", "trace.ndjson"));
    let mut worlds = Vec::new();
    // short delays and delays above 30 days (30 days + 1 s, 90 days)
    for delay in [1u32, 2, 30 * 86_400 + 1, 90 * 86_400] {
        let mut w = World::new();
        let env = Env::new(&mut w, delay);
        worlds.push((w, env));
    }
    let fresh = || vec![Ghost { closed: "none", shape: 0, buffered: json!({"prog": "", "metas": [], "data": []}) }; NB];
    // scripted scenarios: (op, b, x)
    let scripts: Vec<Vec<(&str, usize, i64)>> = vec![
        // the happy path, then nothing may run again
        vec![("create", 1, 1), ("execute", 1, 0), ("approve", 1, 1), ("approve", 1, 2), ("execute", 1, 0), ("tick", 0, 1), ("tick", 0, 1),
             ("execute", 1, 0), ("execute", 1, 0), ("approve", 1, 1), ("cancel", 1, 0), ("create", 1, 2), ("execute", 1, 0)],
        // approver loses the role before execution, gets it back
        vec![("create", 1, 2), ("approve", 1, 1), ("tick", 0, 5), ("revoke", 0, 1), ("execute", 1, 0), ("grant", 0, 1), ("execute", 1, 0)],
        // approval without the role; cancellation; shape with a foreign signer
        vec![("create", 2, 3), ("create", 2, 1), ("revoke", 0, 2), ("approve", 2, 2), ("approve", 2, 1), ("cancel", 2, 0), ("tick", 0, 5),
             ("execute", 2, 0), ("cancel", 2, 0), ("approve", 2, 1)],
        // the delay grows while an approval is pending
        vec![("create", 1, 1), ("approve", 1, 2), ("increase_delay", 0, 0), ("increase_delay", 0, 3), ("tick", 0, 2), ("execute", 1, 0),
             ("tick", 0, 2), ("execute", 1, 0), ("tick", 0, 1), ("execute", 1, 0)],
        // every further instruction shape is buffered, approved and executed (read-only signer wallet, no accounts, no data ..)
        vec![("create", 1, 11), ("create", 2, 12), ("approve", 1, 1), ("approve", 2, 1), ("tick", 0, 3), ("execute", 1, 0), ("execute", 2, 0),
             ("create", 1, 21), ("create", 2, 22), ("approve", 1, 2), ("approve", 2, 2), ("tick", 0, 3), ("execute", 1, 0), ("execute", 2, 0),
             ("create", 1, 31), ("create", 2, 32), ("approve", 1, 1), ("approve", 2, 2), ("tick", 0, 3), ("execute", 1, 0), ("execute", 2, 0),
             ("create", 1, 13), ("create", 1, 23), ("create", 2, 33)],
        // long waits and a day-sized increase while an approval is pending (executes in the 90-day world only at the end)
        vec![("create", 1, 11), ("approve", 1, 1), ("increase_delay", 0, 86_400), ("tick", 0, 90 * 86_400), ("execute", 1, 0), ("increase_delay", 0, 1),
             ("tick", 0, 86_400), ("execute", 1, 0), ("tick", 0, 1), ("execute", 1, 0), ("increase_delay", 0, 0), ("increase_delay", 0, 30 * 86_400)],
        // exactly at the boundary: now = approved_at + delay - 1, then = approved_at + delay
        vec![("create", 1, 1), ("create", 2, 2), ("approve", 1, 1), ("approve", 2, 2), ("execute", 1, 0), ("tick", 0, 1), ("execute", 1, 0),
             ("execute", 2, 0), ("tick", 0, 1), ("execute", 1, 0), ("execute", 2, 0)],
    ];
    let mut histories = 0usize;
    for (w0, env) in &worlds {
        for (k, sc) in scripts.iter().enumerate() {
            for batch in [false, true] {
                let (mut w, mut ghost) = (w0.clone(), fresh());
                histories += 1;
                for (i, (op, b, x)) in sc.iter().enumerate() {
                    env.event(&mut w, &mut ghost, op, *b, *x, batch && (k + i) % 2 == 0, i == 0, &mut sink);
                }
            }
        }
    }
    // delays up to u32::MAX: only increase_delay (increments 0, 1, one day, overflowing ones: must fail and change nothing)
    for delay in [u32::MAX, u32::MAX - 10, u32::MAX - 86_400, 3_000_000_000] {
        let mut w = World::new();
        let env = Env::new(&mut w, delay);
        let mut ghost = fresh();
        histories += 1;
        for (i, d) in [0i64, 1, 86_400, 1, 4_000_000_000, u32::MAX as i64, 10, 86_400].iter().enumerate() {
            env.event(&mut w, &mut ghost, "increase_delay", 0, *d, false, i == 0, &mut sink);
        }
    }
    while sink.n < n {
        let (w0, env) = &worlds[rng.below(worlds.len() as u64) as usize];
        let (mut w, mut ghost) = (w0.clone(), fresh());
        histories += 1;
        for i in 0..len {
            let b = 1 + rng.below(NB as u64) as usize;
            let a = 1 + rng.below(NA as u64) as i64;
            let (op, b, x) = match rng.below(20) {
                0..=3 => ("create", b, *rng.pick(&[1i64, 1, 2, 2, 3, 11, 11, 12, 13, 21, 22, 23, 31, 31, 32, 33])),
                4..=7 => ("approve", b, a),
                8..=12 => ("execute", b, 0),
                13 => ("cancel", b, 0),
                14 => ("increase_delay", 0, *rng.pick(&[0i64, 1, 1, 2, 86_400])),
                15 => ("revoke", 0, a),
                16 => ("grant", 0, a),
                _ => ("tick", 0, *rng.pick(&[1i64, 1, 2, 3])),
            };
            env.event(&mut w, &mut ghost, op, b, x, rng.below(2) == 0, i == 0, &mut sink);
        }
    }
    let n = sink.finish();
    println!("{}", json!({"events": n, "histories": histories}));
}

/// End to end: a REAL store instruction (`grant_role`, which needs the store authority = the ADMIN executor
/// wallet as `Signer`) buffered, approved, and executed through the timelock into the real store program.
fn e2e() {
    let mut w = World::new();
    let env = Env::new(&mut w, 1);
    let store = env.store;
    let wallet = wallet_pda(&env.admin_executor);
    let buf = key("e2e-buffer");
    let target = st::ix(
        gmsol_store::accounts::GrantRole { authority: wallet, store },
        gmsol_store::instruction::GrantRole { user: key("e2e-user"), role: gmsol_timelock::roles::TIMELOCK_KEEPER.into() },
    );
    let mut ix = tl_ix(
        gmsol_timelock::accounts::CreateInstructionBuffer {
            authority: env.keeper,
            store,
            executor: env.admin_executor,
            instruction_buffer: buf,
            instruction_program: gmsol_store::ID,
            store_program: gmsol_store::ID,
            system_program: system_program::ID,
        },
        gmsol_timelock::instruction::CreateInstructionBuffer {
            num_accounts: target.accounts.len() as u16,
            data_len: target.data.len() as u16,
            data: target.data.clone(),
            signers: target.accounts.iter().enumerate().filter(|(_, m)| m.is_signer).map(|(i, _)| i as u16).collect(),
        },
    );
    for m in &target.accounts {
        ix.accounts.push(AccountMeta { pubkey: m.pubkey, is_signer: false, is_writable: m.is_writable });
    }
    let r = w.execute(&ix, &[env.keeper, buf]);
    println!("create buffer for store.grant_role: ok={} {}", r.ok, r.label());
    let r = w.execute(
        &tl_ix(
            gmsol_timelock::accounts::ApproveInstruction { authority: env.boot, store, executor: env.admin_executor, instruction: buf, store_program: gmsol_store::ID },
            gmsol_timelock::instruction::ApproveInstruction { role: "ADMIN".into() },
        ),
        &[env.boot],
    );
    println!("approve by a __TLD_ADMIN holder: ok={} {}", r.ok, r.label());
    w.advance_clock(10, 10);
    let mut ix = tl_ix(
        gmsol_timelock::accounts::ExecuteInstruction {
            authority: env.keeper,
            store,
            timelock_config: config_pda(&store),
            executor: env.admin_executor,
            wallet,
            rent_receiver: env.keeper,
            instruction: buf,
            store_program: gmsol_store::ID,
        },
        gmsol_timelock::instruction::ExecuteInstruction {},
    );
    for m in &target.accounts {
        ix.accounts.push(AccountMeta { pubkey: m.pubkey, is_signer: false, is_writable: m.is_writable });
    }
    let r = w.execute(&ix, &[env.keeper]);
    println!("execute: ok={} err={} runtime_error={:?}", r.ok, r.label(), r.runtime_error);
    for c in &r.cpis {
        if c.caller == gmsol_timelock::ID && c.program == gmsol_store::ID && c.data == target.data {
            println!("delivered to the store program: metas (key, signer, writable) = {:?}", c.accounts.iter().map(|(k, s, wr)| (*k == wallet, *s, *wr)).collect::<Vec<_>>());
        }
    }
    for l in r.logs.iter().rev().take(6).rev() {
        println!("    {l}");
    }
    let s: Store = w.account_data(&store).unwrap();
    println!("e2e-user holds TIMELOCK_KEEPER afterwards: {:?}", s.has_role(&key("e2e-user"), gmsol_timelock::roles::TIMELOCK_KEEPER).unwrap_or(false));
}

fn main() {
    let (mode, args) = Args::from_env();
    match mode.as_str() {
        "run" => run(&args),
        "e2e" => e2e(),
        _ => {
            eprintln!("modes: run");
            std::process::exit(2);
        }
    }
}
