//! C23 driver: life cycle of user actions through the REAL store instructions (create_* / execute_* /
//! close_* of deposits, withdrawals, swap orders and shifts) executed by the in-process runtime in
//! world R2, plus direct calls of `ActionState::{completed, cancelled}`.
//!
//! modes
//!   replay --in paths.ndjson --out trace.ndjson [--kinds deposit,withdrawal,order,shift]
//!       every line of --in is `{"path":[op..], "st":{st,strict,expired}}` printed by TLC
//!       (MC_ActionLifecycle): the history of successful operations reaching one distinct state of the
//!       bounded model.  For every kind the history is replayed (prefix cache of worlds), the reached
//!       state is compared with the model's, then EVERY operation of the model's domain is attempted
//!       from that state on a copy of the world (incl. all the attempts the specification rejects).
//!       The direct `ActionState` calls are appended.
//!   random --seed S --n N --out trace.ndjson
//!       random histories (two actions of random kinds, 14 operations each) until N events.
//! every event: {op,a,by,strict,mode,kind,ok,err,reset,amt,cost,fee,pre,post,mktSame,vaultSame,worldSame};
//! pre / post are the abstract state PROJECTED FROM THE ACCOUNTS before / after the instruction.
use anchor_lang::solana_program::{instruction::Instruction, pubkey::Pubkey, rent::Rent};
use gmsol_store::states::{common::action::{ActionHeader, ActionState}, Deposit, Order, Shift, Withdrawal};
use h_runtime::runtime::{spl, ExecResult, World};
use gmsol_store::states::common::action::Action;
use h_runtime::util::{Args, Rng, Sink};
use h_runtime::world2::*;
use serde_json::{json, Map, Value};
use std::collections::HashMap;

const KINDS: [&str; 4] = ["deposit", "withdrawal", "order", "shift"];
const LABELS: [&str; 2] = ["a1", "a2"];
const EXPIRATION: i64 = 3600;

#[derive(Clone, Debug)]
struct Op {
    op: String,
    a: String,
    by: String,
    strict: bool,
    mode: String,
}

fn op_of(v: &Value) -> Op {
    Op {
        op: v["op"].as_str().unwrap().to_string(),
        a: v["a"].as_str().unwrap_or("none").to_string(),
        by: v["by"].as_str().unwrap_or("none").to_string(),
        strict: v["strict"].as_bool().unwrap_or(false),
        mode: v["mode"].as_str().unwrap_or("normal").to_string(),
    }
}

fn all_ops() -> Vec<Op> {
    let mut v = Vec::new();
    let mk = |op: &str, a: &str, by: &str, strict: bool, mode: &str| Op { op: op.into(), a: a.into(), by: by.into(), strict, mode: mode.into() };
    for a in LABELS {
        for b in [false, true] {
            v.push(mk("create", a, "owner", b, "normal"));
        }
        for by in ["owner", "keeper", "stranger"] {
            for m in ["normal", "throw", "badacct"] {
                v.push(mk("execute", a, by, false, m));
            }
            v.push(mk("close", a, by, false, "normal"));
        }
    }
    v.push(mk("tick", "none", "none", false, "normal"));
    v
}

/// what the creator of an action remembers
#[derive(Clone, Debug)]
struct Act {
    kind: &'static str,
    owner: Pubkey,
    nonce: [u8; 32],
    pda: Pubkey,
    amt: u64,
    cost: u64,
    /// accounts holding input / first output / second output tokens: (escrow, owner's account)
    in_acc: (Pubkey, Pubkey),
    out_acc: (Pubkey, Pubkey),
    out2_acc: Option<(Pubkey, Pubkey)>,
    /// a vault the execute instruction names, and a vault of another token to replace it with
    vault_swap: (Pubkey, Pubkey),
    // memory
    ever_existed: bool,
    strict: bool,
    created_at: i64,
    // baselines at the start of the history
    base_own: u64,
    base_out: u64,
    base_out2: u64,
    base_lam: u64,
}

#[derive(Clone)]
struct Hist {
    w: World,
    acts: Vec<Act>,
    base_keeper_lam: u64,
}

struct Env {
    r2: R2,
    base: World,
}

fn rent(space: usize) -> u64 {
    Rent::default().minimum_balance(space)
}

impl Env {
    fn new() -> Env {
        let mut w = World::new();
        let r2 = R2::build(&mut w, &DEFAULT_TOKS, &DEFAULT_MKTS, 2, 10_000_000);
        // liquidity: every user deposits into M1 and M2 (real create / execute / close)
        let (ia, ib) = (0usize, 1usize);
        for (k, u) in r2.users.clone().iter().enumerate() {
            for (j, ml) in ["M1", "M2"].iter().enumerate() {
                let m = r2.mkt(ml).clone();
                let mut nonce = [0u8; 32];
                nonce[0] = 200 + (k * 2 + j) as u8;
                must("setup create_deposit", r2.create_deposit(&mut w, u, &m, &nonce, Some((ia, 10_000)), Some((ib, 1_000_000)), 0, &[], &[], EXEC_LAMPORTS));
                w.advance_clock(1, 1);
                r2.refresh_prices(&mut w);
                let d = r2.deposit_pda(u, &nonce);
                must("setup execute_deposit", r2.execute_deposit(&mut w, &r2.keeper, &d, true, EXEC_FEE));
                must("setup close_deposit", r2.close_deposit(&mut w, u, u, &d, &m, Some(r2.toks[ia].mint), Some(r2.toks[ib].mint)));
            }
        }
        Env { r2, base: w }
    }

    fn new_act(&self, w: &World, kind: &'static str, idx: usize) -> Act {
        let r2 = &self.r2;
        let owner = r2.users[idx];
        let mut nonce = [0u8; 32];
        nonce[0] = 1 + idx as u8;
        let (m1, m2) = (r2.mkt("M1"), r2.mkt("M2"));
        let (a, b, c) = (r2.tok("A"), r2.tok("B"), r2.tok("C"));
        let ata = spl::ata;
        let small = [40u64, 70][idx];
        let (pda, amt, cost, in_mint, out_mint, out2_mint, vault_swap) = match kind {
            "deposit" => {
                let p = r2.deposit_pda(&owner, &nonce);
                (p, small, rent(8 + std::mem::size_of::<Deposit>()) + EXEC_LAMPORTS + 2 * rent(165), b.mint, m1.market_token, None, (b.vault, c.vault))
            }
            "withdrawal" => {
                let p = r2.withdrawal_pda(&owner, &nonce);
                (p, small * 10_000_000, rent(8 + std::mem::size_of::<Withdrawal>()) + EXEC_LAMPORTS + 3 * rent(165), m1.market_token, b.mint, Some(a.mint), (b.vault, c.vault))
            }
            "order" => {
                let p = r2.order_pda(&owner, &nonce);
                (p, [3u64, 5][idx], rent(8 + std::mem::size_of::<Order>()) + EXEC_LAMPORTS + 2 * rent(165), a.mint, b.mint, None, (b.vault, c.vault))
            }
            "shift" => {
                let p = r2.shift_pda(&owner, &nonce);
                (p, small * 10_000_000, rent(8 + std::mem::size_of::<Shift>()) + EXEC_LAMPORTS + 2 * rent(165), m1.market_token, m2.market_token, None, (m1.mt_vault, m2.mt_vault))
            }
            k => panic!("kind {k}"),
        };
        let in_acc = (ata(&pda, &in_mint), ata(&owner, &in_mint));
        let out_acc = (ata(&pda, &out_mint), ata(&owner, &out_mint));
        let out2_acc = out2_mint.map(|m| (ata(&pda, &m), ata(&owner, &m)));
        Act {
            kind,
            owner,
            nonce,
            pda,
            amt,
            cost,
            in_acc,
            out_acc,
            out2_acc,
            vault_swap,
            ever_existed: false,
            strict: false,
            created_at: 0,
            base_own: r2.balance(w, &in_acc.1),
            base_out: r2.balance(w, &out_acc.1),
            base_out2: out2_acc.map(|x| r2.balance(w, &x.1)).unwrap_or(0),
            base_lam: w.lamports(&owner),
        }
    }

    fn start(&self, kinds: [&'static str; 2]) -> Hist {
        let w = self.base.clone();
        let acts = vec![self.new_act(&w, kinds[0], 0), self.new_act(&w, kinds[1], 1)];
        let base_keeper_lam = w.lamports(&self.r2.keeper);
        Hist { w, acts, base_keeper_lam }
    }

    fn actor(&self, act: &Act, by: &str) -> Pubkey {
        match by {
            "owner" => act.owner,
            "keeper" => self.r2.keeper,
            _ => self.r2.stranger,
        }
    }

    fn state_name(&self, w: &World, act: &Act) -> &'static str {
        // the header is the first field of every action account
        let hdr_state = match w.account(&act.pda) {
            Some(acc) if acc.owner == gmsol_store::ID => w.account_data::<ActionHeader>(&act.pda).map(|h| h.action_state()),
            _ => None,
        };
        match hdr_state {
            Some(Ok(ActionState::Pending)) => "pending",
            Some(Ok(ActionState::Completed)) => "completed",
            Some(Ok(ActionState::Cancelled)) => "cancelled",
            Some(_) => "unknown",
            None if act.ever_existed => "closed",
            None => "none",
        }
    }

    fn project(&self, h: &Hist) -> Value {
        let w = &h.w;
        let r2 = &self.r2;
        let now = w.clock().0;
        let mut f: Vec<Map<String, Value>> = (0..11).map(|_| Map::new()).collect();
        for (i, act) in h.acts.iter().enumerate() {
            let l = LABELS[i].to_string();
            let d = |x: u64, b: u64| json!(x as i64 - b as i64);
            let mut lam = w.lamports(&act.pda) + w.lamports(&act.in_acc.0) + w.lamports(&act.out_acc.0);
            if let Some(o2) = act.out2_acc {
                lam += w.lamports(&o2.0);
            }
            f[0].insert(l.clone(), json!(self.state_name(w, act)));
            f[1].insert(l.clone(), json!(act.strict));
            f[2].insert(l.clone(), json!(act.ever_existed && now - act.created_at > EXPIRATION));
            f[3].insert(l.clone(), json!(r2.balance(w, &act.in_acc.0)));
            f[4].insert(l.clone(), d(r2.balance(w, &act.in_acc.1), act.base_own));
            f[5].insert(l.clone(), json!(r2.balance(w, &act.out_acc.0)));
            f[6].insert(l.clone(), json!(act.out2_acc.map(|x| r2.balance(w, &x.0)).unwrap_or(0)));
            f[7].insert(l.clone(), d(r2.balance(w, &act.out_acc.1), act.base_out));
            f[8].insert(l.clone(), d(act.out2_acc.map(|x| r2.balance(w, &x.1)).unwrap_or(0), act.base_out2));
            f[9].insert(l.clone(), json!(lam));
            f[10].insert(l.clone(), d(w.lamports(&act.owner), act.base_lam));
        }
        let mut it = f.into_iter();
        let mut n = || Value::Object(it.next().unwrap());
        json!({"st": n(), "strict": n(), "expired": n(), "esc": n(), "own": n(), "out": n(), "out2": n(), "ownOut": n(),
               "ownOut2": n(), "lam": n(), "ownLam": n(),
               "keeperLam": w.lamports(&r2.keeper) as i64 - h.base_keeper_lam as i64})
    }

    fn market_view(&self, w: &World) -> (Vec<u64>, Vec<u64>) {
        let r2 = &self.r2;
        let digests = r2.mkts.iter().map(|m| market_digest(&r2.market_state(w, m))).collect();
        let mut vaults: Vec<u64> = r2.toks.iter().filter(|t| !t.synthetic).map(|t| r2.balance(w, &t.vault)).collect();
        vaults.extend(r2.mkts.iter().map(|m| r2.balance(w, &m.mt_vault)));
        (digests, vaults)
    }

    fn create(&self, w: &mut World, act: &Act, strict: bool) -> ExecResult {
        let r2 = &self.r2;
        let min = if strict { u64::MAX } else { 0 };
        let (m1, m2) = (r2.mkt("M1").clone(), r2.mkt("M2").clone());
        let (ia, ib) = (0usize, 1usize);
        match act.kind {
            "deposit" => r2.create_deposit(w, &act.owner, &m1, &act.nonce, None, Some((ib, act.amt)), min, &[], &[], EXEC_LAMPORTS),
            "withdrawal" => r2.create_withdrawal(w, &act.owner, &m1, &act.nonce, act.amt, ia, ib, 0, min, &[], &[], EXEC_LAMPORTS),
            "order" => r2.create_swap_order(w, &act.owner, &m1, &act.nonce, ia, ib, act.amt, min, &[0], EXEC_LAMPORTS),
            "shift" => r2.create_shift(w, &act.owner, &m1, &m2, &act.nonce, act.amt, min, EXEC_LAMPORTS),
            _ => unreachable!(),
        }
    }

    fn execute_ix(&self, w: &World, act: &Act, executor: &Pubkey, throw: bool) -> Instruction {
        let r2 = &self.r2;
        match act.kind {
            "deposit" => r2.execute_deposit_ix(w, executor, &act.pda, throw, EXEC_FEE),
            "withdrawal" => r2.execute_withdrawal_ix(w, executor, &act.pda, throw, EXEC_FEE),
            "order" => r2.execute_swap_order_ix(w, executor, &act.pda, throw, EXEC_FEE),
            "shift" => r2.execute_shift_ix(w, executor, &act.pda, throw, EXEC_FEE),
            _ => unreachable!(),
        }
    }

    fn close(&self, w: &mut World, act: &Act, executor: &Pubkey) -> ExecResult {
        let r2 = &self.r2;
        let (m1, m2) = (r2.mkt("M1").clone(), r2.mkt("M2").clone());
        let (a, b) = (r2.tok("A").mint, r2.tok("B").mint);
        match act.kind {
            "deposit" => r2.close_deposit(w, executor, &act.owner, &act.pda, &m1, None, Some(b)),
            "withdrawal" => r2.close_withdrawal(w, executor, &act.owner, &act.pda, &m1, a, b),
            "order" => r2.close_swap_order(w, executor, &act.owner, &act.pda, a, b),
            "shift" => r2.close_shift(w, executor, &act.owner, &act.pda, &m1, &m2),
            _ => unreachable!(),
        }
    }

    /// execute one abstract operation on the history's world; returns the instruction's result
    /// (None for `tick`)
    fn apply(&self, h: &mut Hist, o: &Op) -> Option<ExecResult> {
        if o.op == "tick" {
            h.w.advance_clock(EXPIRATION + 1, 10);
            self.r2.refresh_prices(&mut h.w);
            return None;
        }
        let i = LABELS.iter().position(|l| *l == o.a).expect("action label");
        let act = h.acts[i].clone();
        let who = self.actor(&act, &o.by);
        let r = match o.op.as_str() {
            "create" => {
                let now = h.w.clock().0;
                let r = self.create(&mut h.w, &act, o.strict);
                if r.ok {
                    let m = &mut h.acts[i];
                    m.ever_existed = true;
                    m.strict = o.strict;
                    m.created_at = now;
                }
                r
            }
            "execute" => {
                let mut ix = self.execute_ix(&h.w, &act, &who, o.mode == "throw");
                if o.mode == "badacct" {
                    for m in ix.accounts.iter_mut() {
                        if m.pubkey == act.vault_swap.0 {
                            m.pubkey = act.vault_swap.1;
                        }
                    }
                }
                h.w.execute(&ix, &[who])
            }
            "close" => self.close(&mut h.w, &act, &who),
            other => panic!("op {other}"),
        };
        Some(r)
    }

    /// time passes (1 s, 1 slot) and the feeds publish: done before every instruction so that fresh
    /// prices are always available to an execution
    fn prepare(&self, h: &mut Hist) {
        h.w.advance_clock(1, 1);
        self.r2.refresh_prices(&mut h.w);
    }

    fn event(&self, h: &mut Hist, o: &Op, reset: bool, sink: &mut Sink, stats: &mut Stats) -> bool {
        if o.op != "tick" {
            self.prepare(h);
        }
        let pre = self.project(h);
        let (mv0, wd0) = (self.market_view(&h.w), h.w.digest());
        let r = self.apply(h, o);
        let post = self.project(h);
        let mv1 = self.market_view(&h.w);
        let (ok, err, panic) = match &r {
            Some(r) => (r.ok, r.label(), r.panic),
            None => (true, "ok".to_string(), false),
        };
        if r.is_some() {
            stats.instructions += 1;
        }
        let (kind, amt, cost) = match LABELS.iter().position(|l| *l == o.a) {
            Some(i) => (h.acts[i].kind, h.acts[i].amt, h.acts[i].cost),
            None => ("none", 0, 0),
        };
        *stats.classes.entry(format!("{kind}/{}/{}/{}/{}", o.op, o.by, o.mode, err)).or_insert(0) += 1;
        sink.emit(json!({"op": o.op, "a": o.a, "by": o.by, "strict": o.strict, "mode": o.mode, "kind": kind,
            "ok": ok, "err": err, "panic": panic, "reset": reset, "amt": amt, "cost": cost, "fee": EXEC_FEE,
            "pre": pre, "post": post, "mktSame": mv0.0 == mv1.0, "vaultSame": mv0.1 == mv1.1,
            "worldSame": o.op != "tick" && wd0 == h.w.digest()}));
        ok
    }
}

#[derive(Default)]
struct Stats {
    instructions: usize,
    classes: std::collections::BTreeMap<String, usize>,
}

fn path_key(kind: &str, p: &[Value]) -> String {
    let mut s = format!("{kind}|");
    for a in p {
        s.push_str(&format!("{}:{}:{}:{}:{};", a["op"], a["a"], a["by"], a["strict"], a["mode"]));
    }
    s
}

fn direct_events(sink: &mut Sink) {
    // ActionState::{completed, cancelled} called directly
    let name = |s: ActionState| match s {
        ActionState::Pending => "pending",
        ActionState::Completed => "completed",
        ActionState::Cancelled => "cancelled",
        _ => "unknown",
    };
    let zero2 = || json!({"a1": 0, "a2": 0});
    let f2 = || json!({"a1": false, "a2": false});
    for from in [ActionState::Pending, ActionState::Completed, ActionState::Cancelled] {
        for (op, res) in [("direct_completed", from.completed()), ("direct_cancelled", from.cancelled())] {
            let st = |x: &str| {
                json!({"st": {"a1": x, "a2": "none"}, "strict": f2(), "expired": f2(), "esc": zero2(), "own": zero2(), "out": zero2(),
                       "out2": zero2(), "ownOut": zero2(), "ownOut2": zero2(), "lam": zero2(), "ownLam": zero2(), "keeperLam": 0})
            };
            let (ok, to) = match &res {
                Ok(s) => (true, name(*s)),
                Err(_) => (false, name(from)),
            };
            sink.emit(json!({"op": op, "a": "a1", "by": "none", "strict": false, "mode": "normal", "kind": "direct",
                "ok": ok, "err": if ok { "ok" } else { "PreconditionsAreNotMet" }, "panic": false, "reset": true,
                "amt": 0, "cost": 0, "fee": 0, "pre": st(name(from)), "post": st(to),
                "mktSame": true, "vaultSame": true, "worldSame": true}));
        }
    }
}

/// Keeper-created actions: the orders `liquidate` / `auto_deleverage` create (creator = keeper, owner =
/// the position owner).  The cut is driven by R2::cut_scenario; this recorder judges the CLOSE of the
/// completed order (by the keeper, and on a copy of the world by the owner) in the ActionLifecycle
/// schema: a1 = the cut order, out / out2 = its collateral-token / other-token escrows.
struct CutRec<'a> {
    r2: &'a R2,
    sink: &'a mut Sink,
    stats: &'a mut Stats,
    owner: Pubkey,
    kind: &'static str,
}

impl CutRec<'_> {
    fn project(&self, w: &World, order: &Pubkey, esc: (Pubkey, Pubkey), own: (Pubkey, Pubkey), base: (u64, u64, u64, u64), existed: bool) -> Value {
        let r2 = self.r2;
        let st = match w.account(order) {
            Some(a) if a.owner == gmsol_store::ID => match w.account_data::<ActionHeader>(order).map(|h| h.action_state()) {
                Some(Ok(ActionState::Pending)) => "pending",
                Some(Ok(ActionState::Completed)) => "completed",
                Some(Ok(ActionState::Cancelled)) => "cancelled",
                _ => "unknown",
            },
            _ if existed => "closed",
            _ => "none",
        };
        let two = |a: Value| json!({"a1": a, "a2": 0});
        let d = |x: u64, b: u64| json!(x as i64 - b as i64);
        let lam = w.lamports(order) + w.lamports(&esc.0) + w.lamports(&esc.1);
        json!({"st": {"a1": st, "a2": "none"}, "strict": {"a1": false, "a2": false}, "expired": {"a1": false, "a2": false},
            "esc": two(json!(0)), "own": two(json!(0)),
            "out": two(json!(r2.balance(w, &esc.0))), "out2": two(json!(r2.balance(w, &esc.1))),
            "ownOut": two(d(r2.balance(w, &own.0), base.0)), "ownOut2": two(d(r2.balance(w, &own.1), base.1)),
            "lam": two(json!(lam)), "ownLam": two(d(w.lamports(&self.owner), base.2)),
            "keeperLam": w.lamports(&r2.keeper) as i64 - base.3 as i64})
    }

    #[allow(clippy::too_many_arguments)]
    fn close_event(&mut self, w: &mut World, by: &str, order: &Pubkey, esc: (Pubkey, Pubkey), own: (Pubkey, Pubkey), f: &mut dyn FnMut(&mut World) -> ExecResult) -> ExecResult {
        let base = (self.r2.balance(w, &own.0), self.r2.balance(w, &own.1), w.lamports(&self.owner), w.lamports(&self.r2.keeper));
        let pre = self.project(w, order, esc, own, base, true);
        let mv0 = (self.r2.mkts.iter().map(|m| market_digest(&self.r2.market_state(w, m))).collect::<Vec<_>>(), w.digest());
        let r = f(w);
        let post = self.project(w, order, esc, own, base, true);
        let mv1 = self.r2.mkts.iter().map(|m| market_digest(&self.r2.market_state(w, m))).collect::<Vec<_>>();
        self.stats.instructions += 1;
        *self.stats.classes.entry(format!("{}/close/{by}/normal/{}", self.kind, r.label())).or_insert(0) += 1;
        self.sink.emit(json!({"op": "close", "a": "a1", "by": by, "strict": false, "mode": "normal", "kind": self.kind,
            "ok": r.ok, "err": r.label(), "panic": r.panic, "reset": true, "amt": 0, "cost": 0, "fee": EXEC_FEE,
            "pre": pre, "post": post, "mktSame": mv0.0 == mv1, "vaultSame": true, "worldSame": mv0.1 == w.digest()}));
        r
    }
}

impl Recorder for CutRec<'_> {
    fn exec(&mut self, w: &mut World, info: &Info, f: &mut dyn FnMut(&mut World) -> ExecResult) -> ExecResult {
        if info.op != "close_cut_order" {
            return f(w);
        }
        let r2 = self.r2;
        let order = info.action.expect("cut order");
        let m = &r2.mkts[info.current.expect("market")];
        let (ct, other) = if info.side == "long" { (m.long, m.short) } else { (m.short, m.long) };
        let (ct, other) = (r2.toks[ct].mint, r2.toks[other].mint);
        let esc = (spl::ata(&order, &ct), spl::ata(&order, &other));
        let own = (spl::ata(&self.owner, &ct), spl::ata(&self.owner, &other));
        // the owner closes it himself (on a copy of the world)
        {
            let mut w2 = w.clone();
            let owner = self.owner;
            let rent_receiver = r2.order(&w2, &order).map(|o| *o.header().rent_receiver()).unwrap_or(owner);
            let (lt, stk) = (r2.toks[m.long].mint, r2.toks[m.short].mint);
            let mut ix = h_runtime::runtime::store::ix(
                gmsol_store::accounts::CloseOrderV2 {
                    executor: owner,
                    store: r2.store,
                    store_wallet: r2.store_wallet,
                    owner,
                    receiver: owner,
                    rent_receiver,
                    user: h_runtime::runtime::store::user_pda(&r2.store, &owner),
                    referrer_user: None,
                    order,
                    initial_collateral_token: None,
                    final_output_token: Some(ct),
                    long_token: Some(lt),
                    short_token: Some(stk),
                    initial_collateral_token_escrow: None,
                    final_output_token_escrow: Some(spl::ata(&order, &ct)),
                    long_token_escrow: Some(spl::ata(&order, &lt)),
                    short_token_escrow: Some(spl::ata(&order, &stk)),
                    initial_collateral_token_ata: None,
                    final_output_token_ata: Some(spl::ata(&owner, &ct)),
                    long_token_ata: Some(spl::ata(&owner, &lt)),
                    short_token_ata: Some(spl::ata(&owner, &stk)),
                    system_program: anchor_lang::solana_program::system_program::ID,
                    token_program: spl_token::ID,
                    associated_token_program: spl_associated_token_account::ID,
                    callback_authority: None,
                    callback_program: None,
                    callback_shared_data_account: None,
                    callback_partitioned_data_account: None,
                    event_authority: h_runtime::runtime::store::event_authority(&gmsol_store::ID),
                    program: gmsol_store::ID,
                },
                gmsol_store::instruction::CloseOrderV2 { reason: "verif".into() },
            );
            payer_writable(&mut ix, &owner);
            self.close_event(&mut w2, "owner", &order, esc, own, &mut |w: &mut World| w.execute(&ix, &[owner]));
        }
        // the keeper closes it
        self.close_event(w, "keeper", &order, esc, own, f)
    }
}

/// positions opened by real MarketIncrease orders, cut by liquidate / auto_deleverage (whole position),
/// then the keeper-created order is closed
fn cuts(sink: &mut Sink, stats: &mut Stats) {
    let mut base = World::new();
    let r2 = R2::build_funded(&mut base, 2);
    let owner = r2.users[0];
    for ml in ["M1", "M2"] {
        let mi = r2.mkts.iter().position(|m| m.label == ml).unwrap();
        for adl in [false, true] {
            for (is_long, col_long) in [(true, true), (true, false), (false, true), (false, false)] {
                for swap_fails in [false, true] {
                    let mut w = base.clone();
                    let mut ctr = 7000u64;
                    let mut rec = CutRec { r2: &r2, sink: &mut *sink, stats: &mut *stats, owner, kind: if adl { "cut_adl" } else { "cut_liquidate" } };
                    r2.cut_scenario(&mut w, &mut rec, &owner, mi, is_long, col_long, adl, swap_fails, &mut ctr);
                }
            }
        }
    }
}

fn kinds_arg(args: &Args) -> Vec<&'static str> {
    let want = args.str("kinds", "deposit,withdrawal,order,shift");
    KINDS.iter().copied().filter(|k| want.split(',').any(|w| w == *k)).collect()
}

fn replay(args: &Args) {
    let input = std::fs::read_to_string(args.str("in", "paths.ndjson")).expect("read --in");
    let mut sink = Sink::create(&args.str("out", "trace.ndjson"));
    let env = Env::new();
    let ops = all_ops();
    let mut rows: Vec<Value> = input.lines().filter(|l| !l.trim().is_empty()).map(|l| serde_json::from_str(l).unwrap()).collect();
    rows.sort_by_key(|r| r["path"].as_array().map(|p| p.len()).unwrap_or(0));
    let mut stats = Stats::default();
    let (mut states, mut unreachable, mut state_mismatch) = (0usize, 0usize, 0usize);
    let mut first_mismatch = Value::Null;
    for kind in kinds_arg(args) {
        let mut cache: HashMap<String, Hist> = HashMap::new();
        cache.insert(path_key(kind, &[]), env.start([kind, kind]));
        for row in &rows {
            let path = row["path"].as_array().cloned().unwrap_or_default();
            let mut k = path.len();
            while !cache.contains_key(&path_key(kind, &path[..k])) {
                k -= 1;
            }
            let mut h = cache[&path_key(kind, &path[..k])].clone();
            let mut reached = true;
            for j in k..path.len() {
                let o = op_of(&path[j]);
                if o.op != "tick" {
                    env.prepare(&mut h);
                }
                match env.apply(&mut h, &o) {
                    Some(r) if !r.ok => {
                        reached = false;
                        if first_mismatch.is_null() {
                            first_mismatch = json!({"kind": kind, "unreachable_at": j, "op": path[j], "err": r.label(), "path": path});
                        }
                        break;
                    }
                    Some(_) => stats.instructions += 1,
                    None => {}
                }
                cache.insert(path_key(kind, &path[..=j]), h.clone());
            }
            if !reached {
                unreachable += 1;
                continue;
            }
            let p = env.project(&h);
            if p["st"] != row["st"]["st"] || p["strict"] != row["st"]["strict"] || p["expired"] != row["st"]["expired"] {
                state_mismatch += 1;
                if first_mismatch.is_null() {
                    first_mismatch = json!({"kind": kind, "model": row["st"], "code": {"st": p["st"], "strict": p["strict"], "expired": p["expired"]}, "path": path});
                }
            }
            states += 1;
            for o in &ops {
                // a closed address is not created again (a new action)
                if o.op == "create" && p["st"][&o.a] == "closed" {
                    continue;
                }
                let mut h2 = h.clone();
                env.event(&mut h2, o, true, &mut sink, &mut stats);
            }
        }
    }
    direct_events(&mut sink);
    if args.str("cuts", "yes") == "yes" {
        cuts(&mut sink, &mut stats);
    }
    let n = sink.finish();
    println!(
        "{}",
        json!({"states": states, "unreachable": unreachable, "state_mismatch": state_mismatch, "first_mismatch": first_mismatch,
               "events": n, "instructions": stats.instructions, "classes": stats.classes})
    );
}

fn random(args: &Args) {
    let mut rng = Rng::new(args.num("seed", 1));
    let n = args.num("n", 2000) as usize;
    let len = args.num("len", 14) as usize;
    let mut sink = Sink::create(&args.str("out", "trace.ndjson"));
    let env = Env::new();
    let ops = all_ops();
    let kinds = kinds_arg(args);
    let mut stats = Stats::default();
    let (mut histories, mut accepted) = (0usize, 0usize);
    while sink.n < n {
        let mut h = env.start([*rng.pick(&kinds), *rng.pick(&kinds)]);
        histories += 1;
        let mut first = true;
        for _ in 0..len {
            // bias towards operations that succeed: try a few candidates on a copy
            let mut pick = rng.pick(&ops).clone();
            if rng.below(3) != 0 {
                for _ in 0..8 {
                    let cand = rng.pick(&ops).clone();
                    if cand.op == "tick" && rng.below(4) != 0 {
                        continue;
                    }
                    let mut probe = h.clone();
                    if cand.op != "tick" {
                        env.prepare(&mut probe);
                    }
                    if env.apply(&mut probe, &cand).map(|r| r.ok).unwrap_or(true) {
                        pick = cand;
                        break;
                    }
                }
            }
            let st = env.project(&h);
            if pick.op == "create" && st["st"][&pick.a] == "closed" {
                continue;
            }
            if env.event(&mut h, &pick, first, &mut sink, &mut stats) {
                accepted += 1;
            }
            first = false;
        }
    }
    let n = sink.finish();
    println!("{}", json!({"events": n, "accepted": accepted, "histories": histories, "instructions": stats.instructions, "classes": stats.classes}));
}

fn main() {
    let (mode, args) = Args::from_env();
    match mode.as_str() {
        "replay" => replay(&args),
        "random" => random(&args),
        _ => {
            eprintln!("modes: replay | random");
            std::process::exit(2);
        }
    }
}
