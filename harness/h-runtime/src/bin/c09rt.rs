//! C09 runtime binding: the program-level guards of liquidation and auto-deleveraging, exercised by the
//! REAL `liquidate`, `update_adl_state`, `auto_deleverage` instructions in world R2.
//!
//! run --out trace.ndjson
//!   liquidation grid: for 2 markets (M1: index = long token; M2: synthetic index) x position side x
//!   collateral side: open a position ($1000, collateral $500) by a real MarketIncrease order, then on
//!   copies of that world set the index price to 50..200 % and `min_collateral_factor_for_liquidation`
//!   to {default, 0.3, 2} and attempt `liquidate`.
//!   ADL cases: price moved 10 % in the position's favour; auto_deleverage without / with
//!   update_adl_state, with ForAdl exceeded (1e-6) or not (default), half / full size, after the price
//!   moved back (no longer exceeded), and with MinAfterAdl above the factor an ADL would leave.
//! every event = ONE instruction; liquidatability and pnl factors are computed by the model crate's
//! functions on the Position / Market accounts loaded from the world (the program's own trait impls).
use anchor_lang::prelude::Pubkey;
use gmsol_model::{price::{Price, Prices}, BaseMarketExt, PnlFactorKind, PositionExt};
use gmsol_model::BaseMarket;
use gmsol_store::states::{Market, Position};
use h_runtime::runtime::{ExecResult, World};
use h_runtime::util::{Args, Sink};
use h_runtime::world2::*;
use serde_json::{json, Value};

const USD: u128 = 100_000_000_000_000_000_000;

fn big(v: i128) -> Value {
    let mut m = v.unsigned_abs();
    let mut l = [0u32; 7];
    for i in (0..7).rev() {
        l[i] = (m & 0xF_FFFF) as u32;
        m >>= 20;
    }
    assert!(m == 0);
    json!({"s": v.to_string(), "neg": v < 0, "l": l})
}
fn bigu(v: u128) -> Value {
    big(i128::try_from(v).expect("fits i128"))
}

struct Rt<'a> {
    r2: &'a R2,
    sink: &'a mut Sink,
    classes: std::collections::BTreeMap<String, usize>,
    instructions: usize,
}

struct Case {
    label: String,
    mi: usize,
    owner: Pubkey,
    is_long: bool,
    col_long: bool,
}

impl Rt<'_> {
    fn prices(&self, w: &World, m: &Mkt) -> Prices<u128> {
        let unit = |t: usize| {
            let tok = &self.r2.toks[t];
            let p = self.r2.current_price(w, tok) as u128 * USD / 10u128.pow(tok.decimals as u32);
            Price { min: p, max: p }
        };
        Prices { index_token_price: unit(m.index), long_token_price: unit(m.long), short_token_price: unit(m.short) }
    }

    fn position(&self, w: &World, c: &Case) -> (Pubkey, Option<Position>) {
        let m = &self.r2.mkts[c.mi];
        let ct = self.r2.toks[if c.col_long { m.long } else { m.short }].mint;
        let pda = self.r2.position_pda(&c.owner, m, &ct, c.is_long);
        let pos = match w.account(&pda) {
            Some(a) if a.owner == gmsol_store::ID => w.account_data::<Position>(&pda),
            _ => None,
        };
        (pda, pos)
    }

    fn pos_json(p: &Option<Position>) -> Value {
        match p {
            Some(p) => json!({"exists": true, "size": bigu(p.state.size_in_usd), "tokens": bigu(p.state.size_in_tokens), "col": bigu(p.state.collateral_amount)}),
            None => json!({"exists": false, "size": bigu(0), "tokens": bigu(0), "col": bigu(0)}),
        }
    }

    /// observations made with the model crate on the loaded accounts
    fn observe(&self, w: &World, c: &Case) -> (Value, bool, bool, i128, u128, u128) {
        let m = &self.r2.mkts[c.mi];
        let market: Market = self.r2.market_state(w, m);
        let prices = self.prices(w, m);
        let (_, pos) = self.position(w, c);
        let liq = match &pos {
            Some(p) if p.state.size_in_usd > 0 => {
                let ap = p.as_position(&market).expect("as_position");
                ap.check_liquidatable(&prices, true, true).expect("check_liquidatable").is_some()
            }
            _ => false,
        };
        let factor = market.pnl_factor(&prices, c.is_long, true).expect("pnl_factor");
        let max_adl = market.pnl_factor_config(PnlFactorKind::ForAdl, c.is_long).expect("config");
        let min_after = market.pnl_factor_config(PnlFactorKind::MinAfterAdl, c.is_long).expect("config");
        (Self::pos_json(&pos), liq, market.is_adl_enabled(c.is_long), factor, max_adl, min_after)
    }

    /// run one instruction and log it with the observations before / after
    fn step(&mut self, w: &mut World, c: &Case, op: &str, tag: &str, size_delta: u128, f: &mut dyn FnMut(&mut World) -> ExecResult) -> ExecResult {
        let (pre, liq, adl_pre, f_pre, max_adl, min_after) = self.observe(w, c);
        let d0 = w.digest();
        let r = f(w);
        let (post, _, adl_post, f_post, _, _) = self.observe(w, c);
        self.instructions += 1;
        *self.classes.entry(format!("{op}/{tag}/{}", r.label())).or_insert(0) += 1;
        self.sink.emit(json!({
            "op": op, "case": format!("{}:{}", c.label, tag), "mkt": self.r2.mkts[c.mi].label, "isLong": c.is_long, "colLong": c.col_long,
            "ok": r.ok, "err": r.label(), "reset": true,
            "liqBefore": liq, "pre": pre, "post": post,
            "adlPre": adl_pre, "adlPost": adl_post,
            "factorPre": big(f_pre), "factorPost": big(f_post), "maxAdl": bigu(max_adl), "minAfter": bigu(min_after),
            "sizeDelta": bigu(size_delta), "worldSame": d0 == w.digest(),
        }));
        r
    }

    fn liquidate(&mut self, w: &mut World, c: &Case, tag: &str, nonce: &[u8; 32]) -> ExecResult {
        let r2 = self.r2;
        let m = r2.mkts[c.mi].clone();
        r2.tick(w);
        r2.prepare_cut_accounts(w, &c.owner, &m, nonce, c.is_long);
        let (pda, _) = self.position(w, c);
        let keeper = r2.keeper;
        self.step(w, c, "liquidate", tag, 0, &mut |w: &mut World| {
            let ix = r2.cut_ix(w, &c.owner, &m, &pda, c.is_long, nonce, None);
            w.execute(&ix, &[keeper])
        })
    }

    fn adl(&mut self, w: &mut World, c: &Case, tag: &str, nonce: &[u8; 32], size: u128) -> ExecResult {
        let r2 = self.r2;
        let m = r2.mkts[c.mi].clone();
        r2.tick(w);
        r2.prepare_cut_accounts(w, &c.owner, &m, nonce, c.is_long);
        let (pda, _) = self.position(w, c);
        let keeper = r2.keeper;
        self.step(w, c, "auto_deleverage", tag, size, &mut |w: &mut World| {
            let ix = r2.cut_ix(w, &c.owner, &m, &pda, c.is_long, nonce, Some(size));
            w.execute(&ix, &[keeper])
        })
    }

    fn update_adl(&mut self, w: &mut World, c: &Case, tag: &str) -> ExecResult {
        let r2 = self.r2;
        r2.tick(w);
        let ix = r2.update_adl_ix(c.mi, c.is_long);
        let keeper = r2.keeper;
        self.step(w, c, "update_adl_state", tag, 0, &mut |w: &mut World| w.execute(&ix, &[keeper]))
    }
}

fn nonce(n: u64) -> [u8; 32] {
    let mut x = [0u8; 32];
    x[..8].copy_from_slice(&n.to_le_bytes());
    x[31] = 9;
    x
}

fn run(args: &Args) {
    let mut sink = Sink::create(&args.str("out", "trace.ndjson"));
    let mut base = World::new();
    let r2 = R2::build_funded(&mut base, 2);
    let mut rt = Rt { r2: &r2, sink: &mut sink, classes: Default::default(), instructions: 0 };
    let mut n = 0u64;
    let mut next = || {
        n += 1;
        nonce(n)
    };
    let cfg = |w: &mut World, mi: usize, key: &str, v: u128| {
        must("update_market_config", r2.update_market_config(w, &r2.mkts[mi], key, v));
    };
    for ml in ["M1", "M2"] {
        let mi = r2.mkts.iter().position(|m| m.label == ml).unwrap();
        let m = r2.mkts[mi].clone();
        for (is_long, col_long) in [(true, true), (true, false), (false, true), (false, false)] {
            let c = Case { label: format!("{ml}-{}-{}", if is_long { "long" } else { "short" }, if col_long { "colL" } else { "colS" }), mi, owner: r2.users[0], is_long, col_long };
            // the position: size $1000, collateral $500, opened by a real MarketIncrease order
            let mut w0 = base.clone();
            let ct = if col_long { m.long } else { m.short };
            let st = r2.flow_position(&mut w0, &mut NoRec, &c.owner, mi, &next(), true, is_long, col_long, r2.units(ct, 500), 1000 * USD);
            assert_eq!(st, Some(1), "position {} must open", c.label);
            let p0 = r2.current_price(&w0, &r2.toks[m.index]);
            // a healthy, just opened position cannot be liquidated
            {
                let mut w = w0.clone();
                rt.liquidate(&mut w, &c, "fresh", &next());
            }
            // ---- liquidation grid: index price x liquidation threshold
            for pct in [50u64, 70, 85, 100, 115, 130, 160, 200] {
                for thr in [None, Some(30u128), Some(200u128)] {
                    let mut w = w0.clone();
                    r2.set_token_price(&mut w, m.index, (p0 * pct / 100).max(1));
                    if let Some(t) = thr {
                        cfg(&mut w, mi, "min_collateral_factor_for_liquidation", t * USD / 100);
                    }
                    let tag = format!("p{pct}-t{}", thr.map(|t| t.to_string()).unwrap_or_else(|| "def".into()));
                    let r = rt.liquidate(&mut w, &c, &tag, &next());
                    if r.ok {
                        // a second liquidation of the removed position must fail
                        rt.liquidate(&mut w, &c, &format!("{tag}-again"), &next());
                    }
                }
            }
            // ---- ADL: the price moved 10 % in the position's favour
            let fav = if is_long { p0 * 11 / 10 } else { p0 * 9 / 10 };
            let size = 1000 * USD;
            let (kmax, kmin) = if is_long { ("max_pnl_factor_for_long_adl", "min_pnl_factor_after_long_adl") } else { ("max_pnl_factor_for_short_adl", "min_pnl_factor_after_short_adl") };
            let mut w1 = w0.clone();
            r2.set_token_price(&mut w1, m.index, fav);
            // (a) default limits: ForAdl not exceeded
            {
                let mut w = w1.clone();
                rt.adl(&mut w, &c, "default-no-update", &next(), size);
                rt.update_adl(&mut w, &c, "default");
                rt.adl(&mut w, &c, "default-not-exceeded", &next(), size);
            }
            // tight limit: ForAdl = 1e-6, MinAfterAdl = 0
            let mut w2 = w1.clone();
            cfg(&mut w2, mi, kmin, 0);
            cfg(&mut w2, mi, kmax, 100_000_000_000_000);
            // (b) exceeded but the switch was never set by update_adl_state
            {
                let mut w = w2.clone();
                rt.adl(&mut w, &c, "exceeded-no-update", &next(), size);
            }
            let mut w3 = w2.clone();
            rt.update_adl(&mut w3, &c, "exceeded");
            // (c) half, then the rest
            {
                let mut w = w3.clone();
                rt.adl(&mut w, &c, "half", &next(), size / 2);
                rt.adl(&mut w, &c, "rest", &next(), size);
                rt.adl(&mut w, &c, "removed", &next(), size);
            }
            // (d) full size at once
            {
                let mut w = w3.clone();
                rt.adl(&mut w, &c, "full", &next(), size);
            }
            // (e) enabled, but the price moved back: the factor is no longer exceeded
            {
                let mut w = w3.clone();
                r2.set_token_price(&mut w, m.index, p0);
                rt.adl(&mut w, &c, "price-back", &next(), size);
                rt.update_adl(&mut w, &c, "price-back");
                rt.adl(&mut w, &c, "switched-off", &next(), size);
            }
            // (f) enabled and exceeded, but the ADL would push the factor below MinAfterAdl (50 %)
            {
                let mut w = w3.clone();
                cfg(&mut w, mi, kmin, 50 * USD / 100);
                rt.adl(&mut w, &c, "below-min", &next(), size);
                rt.adl(&mut w, &c, "below-min-half", &next(), size / 2);
            }
        }
    }
    let out = json!({"instructions": rt.instructions, "classes": rt.classes});
    let n = sink.finish();
    println!("{}", json!({"events": n, "stats": out}));
}

fn main() {
    let (mode, args) = Args::from_env();
    match mode.as_str() {
        "run" => run(&args),
        _ => {
            eprintln!("modes: run");
            std::process::exit(2);
        }
    }
}
