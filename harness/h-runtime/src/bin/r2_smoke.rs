//! Bring-up smoke test of world R2 (not a property driver).
use h_runtime::runtime::{ExecResult, World};
use h_runtime::world2::*;

fn show(what: &str, r: &ExecResult) {
    println!("{what:<40} ok={} err={} events={} cpis={} {}", r.ok, r.label(), r.events.len(), r.cpis.len(), r.runtime_error.clone().unwrap_or_default());
    if !r.ok || std::env::var("R2_LOGS").is_ok() {
        for l in &r.logs {
            println!("    {l}");
        }
    }
}

fn main() {
    let mut w = World::new();
    let t0 = std::time::Instant::now();
    let r2 = R2::build(&mut w, &DEFAULT_TOKS, &DEFAULT_MKTS, 2, 10_000_000);
    println!("world built in {:?}; {} accounts", t0.elapsed(), w.keys().count());
    let u1 = r2.users[0];
    let m1 = r2.mkt("M1").clone();
    let (a, b) = (r2.tok("A").clone(), r2.tok("B").clone());
    let (ia, ib) = (0usize, 1usize);
    let bal = |w: &World, who: &anchor_lang::prelude::Pubkey| {
        format!(
            "A={} B={} mt={} lamports={}",
            r2.balance(w, &r2.ata(who, &a.mint)),
            r2.balance(w, &r2.ata(who, &b.mint)),
            r2.balance(w, &r2.ata(who, &m1.market_token)),
            w.lamports(who)
        )
    };
    println!("u1: {}", bal(&w, &u1));
    let n1 = [1u8; 32];
    let r = r2.create_deposit(&mut w, &u1, &m1, &n1, Some((ia, 100_000)), Some((ib, 5_000_000)), 0, &[], &[], EXEC_LAMPORTS);
    show("create_deposit", &r);
    let d1 = r2.deposit_pda(&u1, &n1);
    println!("u1: {}  state={:?}", bal(&w, &u1), r2.action_state(&w, &d1));
    w.advance_clock(2, 2);
    r2.refresh_prices(&mut w);
    let dg0 = market_digest(&r2.market_state(&w, &m1));
    let r = r2.execute_deposit(&mut w, &r2.stranger, &d1, false, EXEC_FEE);
    show("execute_deposit by stranger", &r);
    let r = r2.execute_deposit(&mut w, &r2.keeper, &d1, false, EXEC_FEE);
    show("execute_deposit", &r);
    println!("u1: {}  state={:?} digest changed={}", bal(&w, &u1), r2.action_state(&w, &d1), dg0 != market_digest(&r2.market_state(&w, &m1)));
    let ms = r2.market_state(&w, &m1);
    println!("M1 balances: long={} short={}", ms.state().long_token_balance_raw(), ms.state().short_token_balance_raw());
    println!("vault A={} vault B={}", r2.balance(&w, &a.vault), r2.balance(&w, &b.vault));
    let r = r2.close_deposit(&mut w, &r2.stranger, &u1, &d1, &m1, Some(a.mint), Some(b.mint));
    show("close_deposit by stranger", &r);
    let r = r2.close_deposit(&mut w, &r2.keeper, &u1, &d1, &m1, Some(a.mint), Some(b.mint));
    show("close_deposit by keeper", &r);
    println!("u1: {}  state={:?}", bal(&w, &u1), r2.action_state(&w, &d1));
    // slippage soft failure
    let n2 = [2u8; 32];
    let r = r2.create_deposit(&mut w, &u1, &m1, &n2, Some((ia, 1_000)), None, u64::MAX, &[], &[], EXEC_LAMPORTS);
    show("create_deposit (min = MAX)", &r);
    let d2 = r2.deposit_pda(&u1, &n2);
    w.advance_clock(2, 2);
    r2.refresh_prices(&mut w);
    let dg0 = market_digest(&r2.market_state(&w, &m1));
    let r = r2.execute_deposit(&mut w, &r2.keeper, &d2, true, EXEC_FEE);
    show("execute_deposit (throw)", &r);
    let r = r2.execute_deposit(&mut w, &r2.keeper, &d2, false, EXEC_FEE);
    show("execute_deposit (soft)", &r);
    println!("u1: {}  state={:?} digest changed={}", bal(&w, &u1), r2.action_state(&w, &d2), dg0 != market_digest(&r2.market_state(&w, &m1)));
    let r = r2.close_deposit(&mut w, &u1, &u1, &d2, &m1, Some(a.mint), None);
    show("close_deposit by owner", &r);
    println!("u1: {}  state={:?}", bal(&w, &u1), r2.action_state(&w, &d2));
    // withdrawal
    let n3 = [3u8; 32];
    let mt_bal = r2.balance(&w, &r2.ata(&u1, &m1.market_token));
    let r = r2.create_withdrawal(&mut w, &u1, &m1, &n3, mt_bal / 2, ia, ib, 0, 0, &[], &[], EXEC_LAMPORTS);
    show("create_withdrawal", &r);
    let w3 = r2.withdrawal_pda(&u1, &n3);
    w.advance_clock(2, 2);
    r2.refresh_prices(&mut w);
    let r = r2.execute_withdrawal(&mut w, &r2.keeper, &w3, false, EXEC_FEE);
    show("execute_withdrawal", &r);
    println!("u1: {}  state={:?}", bal(&w, &u1), r2.action_state(&w, &w3));
    let r = r2.close_withdrawal(&mut w, &u1, &u1, &w3, &m1, a.mint, b.mint);
    show("close_withdrawal", &r);
    println!("u1: {}", bal(&w, &u1));
    let ms = r2.market_state(&w, &m1);
    println!("M1 balances: long={} short={}", ms.state().long_token_balance_raw(), ms.state().short_token_balance_raw());
    println!("vault A={} vault B={}", r2.balance(&w, &a.vault), r2.balance(&w, &b.vault));
    println!("r2_smoke done");
}
