//! C19 driver: measures which signers each privileged instruction accepts, by executing the REAL
//! instruction through the in-process runtime with a valid account set, once per signer class:
//!   "admin" (store authority), "none" (no role at all), "role:<R>" for every role R of the pool (a
//!   signer holding exactly R), and for owner-gated instructions "owner" (the address recorded in the
//!   account the instruction acts on). Every attempt runs on a fresh copy of a prepared world.
//!
//! mode  measure --out trace.ndjson
//! event {instr, class, ok, err, code, panic, changed_before_rollback, db_changed, world}
//! `db_changed` = the account database digest differs after the attempt (must be false when rejected).
use anchor_lang::solana_program::{instruction::Instruction, pubkey::Pubkey, system_program};
use gmsol_store::states::{Market, RoleKey, Seed, Store};
use gmsol_utils::token_config::UpdateTokenConfigParams;
use h_runtime::runtime::{keys::key, market as mk, spl, store as st, Account, ExecResult, World};
use h_runtime::world2::{self, R2};
use h_runtime::util::{Args, Sink};
use serde_json::json;
use std::collections::HashMap;

const STORE_ROLES: [&str; 10] = [
    RoleKey::MARKET_KEEPER,
    RoleKey::MARKET_CONFIG_KEEPER,
    RoleKey::ORDER_KEEPER,
    RoleKey::CONFIG_KEEPER,
    RoleKey::FEATURE_KEEPER,
    RoleKey::GT_CONTROLLER,
    RoleKey::ORACLE_CONTROLLER,
    RoleKey::PRICE_KEEPER,
    RoleKey::MIGRATION_KEEPER,
    RoleKey::RESTART_ADMIN,
];
const OTHER_ROLES: [&str; 8] = [
    gmsol_treasury::roles::TREASURY_OWNER,
    gmsol_treasury::roles::TREASURY_ADMIN,
    gmsol_treasury::roles::TREASURY_KEEPER,
    gmsol_treasury::roles::TREASURY_WITHDRAWER,
    gmsol_timelock::roles::TIMELOCK_ADMIN,
    gmsol_timelock::roles::TIMELOCK_KEEPER,
    gmsol_timelock::roles::TIMELOCKED_ADMIN,
    gmsol_timelock::roles::TIMELOCKED_MARKET_KEEPER,
];

struct Env {
    worlds: HashMap<&'static str, World>,
    store: Pubkey,
    admin: Pubkey,
    m: mk::MarketEnv,
    token_map2: Pubkey,
    mint_x: Pubkey,
    mint_y: Pubkey,
    u1: Pubkey,
    code1: [u8; 8],
    /// (class label, signer key)
    classes: Vec<(String, Pubkey)>,
    /// world R2 (markets with liquidity, pending / completed actions, positions); None if it could not be built
    r2: Option<R2Env>,
}

#[derive(Clone)]
struct R2Env {
    r2: R2,
    u1: Pubkey,
    u2: Pubkey,
    recv: Pubkey,
    dep1: Pubkey,
    wd1: Pubkey,
    sw1: Pubkey,
    sh1: Pubkey,
    inc1: Pubkey,
    dec1: Pubkey,
}

type Run = Box<dyn Fn(&Env, &mut World, Pubkey) -> ExecResult>;
type Prep = Box<dyn Fn(&Env, &mut World, Pubkey)>;

struct Case {
    name: &'static str,
    world: &'static str,
    /// owner-gated instructions: the key that owns / is named by the target account
    owner: Option<Pubkey>,
    /// per-signer preparation with OPEN instructions (escrow accounts, event buffers ..), not measured
    prep: Option<Prep>,
    /// builds the instruction for the signer under test and executes it
    run: Run,
}

fn must(what: &str, r: ExecResult) {
    assert!(r.ok, "{what} failed: {} {:?}\n{}", r.err_name, r.runtime_error, r.logs.join("\n"));
}

fn oracle_of(authority: &Pubkey) -> Pubkey {
    key(&format!("oracle-{authority}"))
}

fn buffer_of(authority: &Pubkey) -> Pubkey {
    key(&format!("buffer-{authority}"))
}

fn treasury_config(store: &Pubkey) -> Pubkey {
    Pubkey::find_program_address(&[gmsol_treasury::states::Config::SEED, store.as_ref()], &gmsol_treasury::ID).0
}
fn treasury_receiver(config: &Pubkey) -> Pubkey {
    Pubkey::find_program_address(&[gmsol_treasury::constants::RECEIVER_SEED, config.as_ref()], &gmsol_treasury::ID).0
}
fn tl_executor(store: &Pubkey, role: &str) -> Pubkey {
    let name = gmsol_utils::fixed_str::fixed_str_to_bytes::<32>(role).unwrap();
    Pubkey::find_program_address(&[gmsol_timelock::states::Executor::SEED, store.as_ref(), &name], &gmsol_timelock::ID).0
}
fn tl_wallet(executor: &Pubkey) -> Pubkey {
    Pubkey::find_program_address(&[gmsol_timelock::states::Executor::WALLET_SEED, executor.as_ref()], &gmsol_timelock::ID).0
}
fn tl_config(store: &Pubkey) -> Pubkey {
    Pubkey::find_program_address(&[gmsol_timelock::states::TimelockConfig::SEED, store.as_ref()], &gmsol_timelock::ID).0
}
fn vi_swaps(store: &Pubkey, index: u32) -> Pubkey {
    Pubkey::find_program_address(
        &[gmsol_store::states::market::virtual_inventory::VIRTUAL_INVENTORY_FOR_SWAPS_SEED, store.as_ref(), &index.to_le_bytes()],
        &gmsol_store::ID,
    )
    .0
}
fn vi_positions(store: &Pubkey, index_token: &Pubkey) -> Pubkey {
    Pubkey::find_program_address(
        &[gmsol_store::states::market::virtual_inventory::VIRTUAL_INVENTORY_FOR_POSITIONS_SEED, store.as_ref(), index_token.as_ref()],
        &gmsol_store::ID,
    )
    .0
}

impl Env {
    fn new() -> Env {
        let mut w = World::new();
        let admin = key("admin");
        let all_roles: Vec<&str> = STORE_ROLES.iter().chain(OTHER_ROLES.iter()).copied().collect();
        // The role table is written with the real `Store` methods, not with the enable_role / grant_role
        // instructions, and every set-up instruction below is signed by the store authority while it
        // temporarily holds EVERY role: a weakened or changed access check on a set-up instruction
        // therefore cannot break the construction of the world (it shows up in the measurement).
        let mut empty = w.clone();
        let (store, init_ok) = st::bootstrap_fab(&mut w, &admin, &all_roles, &[]);
        if !init_ok {
            eprintln!("note: `initialize` was rejected for the store authority; store fabricated with Store::init");
        }
        for r in &all_roles {
            assert!(st::fab_grant_role(&mut w, &store, &admin, r), "Store::grant {r} to admin");
        }
        let mut classes = vec![("admin".to_string(), admin), ("none".to_string(), key("signer-none"))];
        for r in &all_roles {
            let k = key(&format!("signer-{r}"));
            assert!(st::fab_grant_role(&mut w, &store, &k, r), "Store::grant {r}");
            classes.push((format!("role:{r}"), k));
        }
        for k in ["owner-next-auth", "owner-recv", "owner-recv2", "owner-buf", "u1", "u2", "stranger"] {
            w.airdrop(&key(k), 1_000_000_000_000);
        }
        for (_, k) in &classes {
            w.airdrop(k, 1_000_000_000_000);
        }
        let creator = admin;
        let m = mk::setup_market(&mut w, &store, &admin, &creator, "c19");
        // a second token map, spare mints (x: in the token map with a vault, y: fresh)
        let token_map2 = key("token_map2");
        must(
            "initialize_token_map 2",
            w.execute(
                &st::ix(
                    gmsol_store::accounts::InitializeTokenMap { payer: creator, store, token_map: token_map2, system_program: system_program::ID },
                    gmsol_store::instruction::InitializeTokenMap {},
                ),
                &[creator, token_map2],
            ),
        );
        let (mint_x, mint_y) = (key("mint-x"), key("mint-y"));
        must("mint x", spl::create_mint(&mut w, &creator, &mint_x, 8, &creator));
        must("mint y", spl::create_mint(&mut w, &creator, &mint_y, 6, &creator));
        must(
            "push x",
            w.execute(
                &st::ix(
                    gmsol_store::accounts::PushToTokenMap { authority: creator, store, token_map: m.token_map, token: mint_x, system_program: system_program::ID },
                    gmsol_store::instruction::PushToTokenMap { name: "X".into(), builder: UpdateTokenConfigParams::default(), enable: true, new: true },
                ),
                &[creator],
            ),
        );
        must(
            "vault x",
            w.execute(
                &st::ix(
                    gmsol_store::accounts::InitializeMarketVault {
                        authority: creator,
                        store,
                        mint: mint_x,
                        vault: mk::market_vault_pda(&store, &mint_x),
                        system_program: system_program::ID,
                        token_program: spl_token::ID,
                    },
                    gmsol_store::instruction::InitializeMarketVault {},
                ),
                &[creator],
            ),
        );
        // one oracle per signer (the oracle names its authority)
        let oracle_len = 8 + std::mem::size_of::<gmsol_store::states::Oracle>();
        let mut oracle_signers: Vec<Pubkey> = classes.iter().map(|(_, k)| *k).collect();
        oracle_signers.push(key("stranger"));
        for k in oracle_signers {
            let o = oracle_of(&k);
            w.set_account(o, Account { owner: gmsol_store::ID, lamports: 1_000_000_000, data: vec![0; oracle_len], executable: false });
            must(
                "initialize_oracle",
                w.execute(
                    &st::ix(
                        gmsol_store::accounts::InitializeOracle { payer: creator, authority: k, store, oracle: o, system_program: system_program::ID },
                        gmsol_store::instruction::InitializeOracle {},
                    ),
                    &[creator],
                ),
            );
        }
        // users, a referral code owned by u1, u2 referred by nobody
        let (u1, u2) = (key("u1"), key("u2"));
        must("prepare u1", st::prepare_user(&mut w, &store, &u1).1);
        must("prepare u2", st::prepare_user(&mut w, &store, &u2).1);
        for (_, k) in classes.clone() {
            must("prepare signer user", st::prepare_user(&mut w, &store, &k).1);
        }
        let code1 = *b"c19code1";
        must(
            "code1",
            w.execute(
                &st::ix(
                    gmsol_store::accounts::InitializeReferralCode {
                        owner: u1,
                        store,
                        referral_code: st::referral_code_pda(&store, &code1),
                        user: st::user_pda(&store, &u1),
                        system_program: system_program::ID,
                    },
                    gmsol_store::instruction::InitializeReferralCode { code: code1 },
                ),
                &[u1],
            ),
        );
        let mut worlds: HashMap<&'static str, World> = HashMap::new();
        worlds.insert("pre_gt", w.clone());
        must(
            "initialize_gt",
            w.execute(
                &st::ix(
                    gmsol_store::accounts::InitializeGt { authority: creator, store, system_program: system_program::ID },
                    gmsol_store::instruction::InitializeGt {
                        decimals: 7,
                        initial_minting_cost: 100_000_000_000_000_000_000,
                        grow_factor: 101_000_000_000_000_000_000,
                        grow_step: 10_000_000,
                        ranks: vec![1_000, 10_000, 100_000],
                    },
                ),
                &[creator],
            ),
        );
        must(
            "vi swaps 0",
            w.execute(
                &st::ix(
                    gmsol_store::accounts::CreateVirtualInventoryForSwaps {
                        authority: creator,
                        store,
                        virtual_inventory: vi_swaps(&store, 0),
                        system_program: system_program::ID,
                    },
                    gmsol_store::instruction::CreateVirtualInventoryForSwaps { index: 0, long_amount_decimals: 9, short_amount_decimals: 6 },
                ),
                &[creator],
            ),
        );
        worlds.insert("base", w.clone());
        let env0 = Env { worlds: HashMap::new(), store, admin, m: m.clone(), token_map2, mint_x, mint_y, u1, code1, classes: classes.clone(), r2: None };
        // authority hand-over pending
        {
            let mut x = w.clone();
            must("transfer_store_authority", x.execute(&ix_transfer_store_authority(&env0, admin, key("owner-next-auth")), &[admin]));
            worlds.insert("auth_pending", x);
        }
        // receiver moved away from the admin; and a receiver hand-over pending
        {
            let mut x = w.clone();
            must("transfer_receiver", x.execute(&ix_transfer_receiver(&env0, admin, key("owner-recv")), &[admin]));
            must("accept_receiver", x.execute(&ix_accept_receiver(&env0, key("owner-recv")), &[key("owner-recv")]));
            worlds.insert("receiver_moved", x.clone());
            must("transfer_receiver 2", x.execute(&ix_transfer_receiver(&env0, key("owner-recv"), key("owner-recv2")), &[key("owner-recv")]));
            worlds.insert("receiver_pending", x);
        }
        // a market config buffer owned by owner-buf
        {
            let mut x = w.clone();
            let (owner, buffer) = (key("owner-buf"), key("buffer"));
            must(
                "init buffer",
                x.execute(
                    &st::ix(
                        gmsol_store::accounts::InitializeMarketConfigBuffer { authority: owner, store, buffer, system_program: system_program::ID },
                        gmsol_store::instruction::InitializeMarketConfigBuffer { expire_after_secs: 3600 },
                    ),
                    &[owner, buffer],
                ),
            );
            // and one buffer per signer class (update_market_config_with_buffer also requires the
            // signer to be the buffer's authority)
            for (_, k) in &classes {
                let b = buffer_of(k);
                must(
                    "init buffer (per signer)",
                    x.execute(
                        &st::ix(
                            gmsol_store::accounts::InitializeMarketConfigBuffer { authority: *k, store, buffer: b, system_program: system_program::ID },
                            gmsol_store::instruction::InitializeMarketConfigBuffer { expire_after_secs: 3600 },
                        ),
                        &[*k, b],
                    ),
                );
                must(
                    "push buffer (per signer)",
                    x.execute(
                        &st::ix(
                            gmsol_store::accounts::PushToMarketConfigBuffer { authority: *k, buffer: b, system_program: system_program::ID },
                            gmsol_store::instruction::PushToMarketConfigBuffer {
                                new_configs: vec![gmsol_store::states::market::config::EntryArgs { key: "swap_impact_exponent".into(), value: 3 }],
                            },
                        ),
                        &[*k],
                    ),
                );
            }
            worlds.insert("buffer", x);
        }
        // a referral code transfer u1 -> u2 pending
        {
            let mut x = w.clone();
            must("transfer code", x.execute(&ix_transfer_code(&env0, u1, u1, u2), &[u1]));
            worlds.insert("code_pending", x);
        }
        // treasury config initialised
        {
            let mut x = w.clone();
            let config = treasury_config(&store);
            must("transfer_receiver -> treasury", x.execute(&ix_transfer_receiver(&env0, admin, treasury_receiver(&config)), &[admin]));
            worlds.insert("treasury_pre", x.clone());
            must("treasury initialize_config", x.execute(&ix_treasury_init_config(&env0, creator), &[creator]));
            worlds.insert("treasury", x);
        }
        // timelock: ADMIN executor exists; and config initialised by a three-role signer
        {
            let mut x = w.clone();
            must("initialize_executor", x.execute(&ix_tl_init_executor(&env0, creator, "ADMIN"), &[creator]));
            let wallet = tl_wallet(&tl_executor(&store, "ADMIN"));
            must("transfer_store_authority -> timelock", x.execute(&ix_transfer_store_authority(&env0, admin, wallet), &[admin]));
            worlds.insert("timelock_pre", x.clone());
            let boot = key("tl-boot");
            x.airdrop(&boot, 1_000_000_000_000);
            for r in [gmsol_timelock::roles::TIMELOCK_ADMIN, gmsol_timelock::roles::TIMELOCK_KEEPER, gmsol_timelock::roles::TIMELOCKED_ADMIN] {
                assert!(st::fab_grant_role(&mut x, &store, &boot, r), "Store::grant {r} to tl-boot");
            }
            let r = x.execute(&ix_tl_init_config(&env0, boot), &[boot]);
            if r.ok {
                worlds.insert("timelock", x);
            } else {
                eprintln!("note: timelock initialize_config bootstrap failed: {} {:?}", r.err_name, r.runtime_error);
            }
        }
        extra_worlds(&env0, &mut worlds, &classes, creator);
        // measurement worlds: the store authority holds no role any more
        for x in worlds.values_mut() {
            for r in &all_roles {
                let _ = st::fab_revoke_role(x, &store, &admin, r);
            }
        }
        for (_, k) in &classes {
            empty.airdrop(k, 1_000_000_000_000);
        }
        worlds.insert("empty", empty);
        // world R2 (agentK's multi-market world): if it cannot be brought up (e.g. because the access check
        // of one of ITS set-up instructions was changed) its cases are skipped, everything else is measured
        let classes2 = classes.clone();
        let roles2: Vec<String> = all_roles.iter().map(|r| r.to_string()).collect();
        let r2 = match std::panic::catch_unwind(move || build_r2(&classes2, &roles2)) {
            Ok((r2env, r2worlds)) => {
                worlds.extend(r2worlds);
                Some(r2env)
            }
            Err(_) => {
                eprintln!("note: world R2 could not be built; its instructions are not measured in this run");
                None
            }
        };
        Env { worlds, r2, ..env0 }
    }
}

// ---- instruction builders shared by set-up and cases
fn ix_transfer_store_authority(e: &Env, authority: Pubkey, next: Pubkey) -> Instruction {
    st::ix(
        gmsol_store::accounts::TransferStoreAuthority { authority, store: e.store, next_authority: next },
        gmsol_store::instruction::TransferStoreAuthority {},
    )
}
fn ix_transfer_receiver(e: &Env, authority: Pubkey, next: Pubkey) -> Instruction {
    st::ix(
        gmsol_store::accounts::TransferReceiver { authority, store: e.store, next_receiver: next },
        gmsol_store::instruction::TransferReceiver {},
    )
}
fn ix_accept_receiver(e: &Env, next: Pubkey) -> Instruction {
    st::ix(gmsol_store::accounts::AcceptReceiver { next_receiver: next, store: e.store }, gmsol_store::instruction::AcceptReceiver {})
}
fn ix_transfer_code(e: &Env, signer: Pubkey, code_owner: Pubkey, receiver: Pubkey) -> Instruction {
    st::ix(
        gmsol_store::accounts::TransferReferralCode {
            owner: signer,
            store: e.store,
            user: st::user_pda(&e.store, &code_owner),
            referral_code: st::referral_code_pda(&e.store, &e.code1),
            receiver_user: st::user_pda(&e.store, &receiver),
        },
        gmsol_store::instruction::TransferReferralCode {},
    )
}
fn ix_treasury_init_config(e: &Env, payer: Pubkey) -> Instruction {
    let config = treasury_config(&e.store);
    st::ix_for(
        gmsol_treasury::ID,
        gmsol_treasury::accounts::InitializeConfig {
            payer,
            store: e.store,
            config,
            receiver: treasury_receiver(&config),
            store_program: gmsol_store::ID,
            system_program: system_program::ID,
        },
        gmsol_treasury::instruction::InitializeConfig {},
    )
}
fn ix_tl_init_executor(e: &Env, payer: Pubkey, role: &str) -> Instruction {
    let executor = tl_executor(&e.store, role);
    st::ix_for(
        gmsol_timelock::ID,
        gmsol_timelock::accounts::InitializeExecutor { payer, store: e.store, executor, wallet: tl_wallet(&executor), system_program: system_program::ID },
        gmsol_timelock::instruction::InitializeExecutor { role: role.to_string() },
    )
}
fn ix_tl_init_config(e: &Env, authority: Pubkey) -> Instruction {
    let executor = tl_executor(&e.store, "ADMIN");
    st::ix_for(
        gmsol_timelock::ID,
        gmsol_timelock::accounts::InitializeConfig {
            authority,
            store: e.store,
            timelock_config: tl_config(&e.store),
            executor,
            wallet: tl_wallet(&executor),
            store_program: gmsol_store::ID,
            system_program: system_program::ID,
        },
        gmsol_timelock::instruction::InitializeConfig { delay: 3600 },
    )
}

macro_rules! case {
    ($v:expr, $name:expr, $world:expr, $owner:expr, |$e:ident, $a:ident| $body:expr) => {
        $v.push(Case {
            name: $name,
            world: $world,
            owner: $owner,
            prep: None,
            run: Box::new(move |$e: &Env, w: &mut World, $a: Pubkey| {
                let (ix, extra): (Instruction, Vec<Pubkey>) = $body;
                let mut signers = vec![$a];
                signers.extend(extra);
                w.execute(&ix, &signers)
            }),
        });
    };
}

/// run-style case: the closure executes the instruction itself (world R2 helpers)
macro_rules! caser {
    ($v:expr, $name:expr, $world:expr, $owner:expr, |$e:ident, $w:ident, $a:ident| $body:expr) => {
        $v.push(Case { name: $name, world: $world, owner: $owner, prep: None, run: Box::new(move |$e: &Env, $w: &mut World, $a: Pubkey| $body) });
    };
    ($v:expr, $name:expr, $world:expr, $owner:expr, prep |$pe:ident, $pw:ident, $pa:ident| $prep:expr, |$e:ident, $w:ident, $a:ident| $body:expr) => {
        $v.push(Case {
            name: $name,
            world: $world,
            owner: $owner,
            prep: Some(Box::new(move |$pe: &Env, $pw: &mut World, $pa: Pubkey| $prep)),
            run: Box::new(move |$e: &Env, $w: &mut World, $a: Pubkey| $body),
        });
    };
}

fn cases(env: &Env) -> Vec<Case> {
    use gmsol_store::accounts as A;
    use gmsol_store::instruction as I;
    let mut v: Vec<Case> = Vec::new();
    let sys = system_program::ID;
    // ---- open set-up instructions (anyone, by design)
    case!(v, "store.initialize", "empty", None, |_e, a| (
        st::ix(
            A::Initialize { payer: a, authority: None, receiver: None, holding: None, store: st::store_pda(""), system_program: sys },
            I::Initialize { key: String::new() }
        ),
        vec![]
    ));
    case!(v, "store.initialize_token_map", "base", None, |e, a| {
        let tm = key(&format!("tm-{a}"));
        (st::ix(A::InitializeTokenMap { payer: a, store: e.store, token_map: tm, system_program: sys }, I::InitializeTokenMap {}), vec![tm])
    });
    case!(v, "store.prepare_user", "base", None, |e, a| (
        st::ix(A::PrepareUser { owner: a, store: e.store, user: st::user_pda(&e.store, &a), system_program: sys }, I::PrepareUser {}),
        vec![]
    ));
    case!(v, "store.initialize_market_config_buffer", "base", None, |e, a| {
        let b = key(&format!("newbuf-{a}"));
        (
            st::ix(A::InitializeMarketConfigBuffer { authority: a, store: e.store, buffer: b, system_program: sys }, I::InitializeMarketConfigBuffer { expire_after_secs: 60 }),
            vec![b],
        )
    });
    // ---- store / roles (Admin)
    case!(v, "store.update_last_restarted_slot", "base", None, |e, a| (st::ix(A::UpdateLastRestartedSlot { authority: a, store: e.store }, I::UpdateLastRestartedSlot {}), vec![]));
    case!(v, "store.transfer_store_authority", "base", None, |e, a| (ix_transfer_store_authority(e, a, key("someone")), vec![]));
    case!(v, "store.accept_store_authority", "auth_pending", Some(key("owner-next-auth")), |e, a| (
        st::ix(A::AcceptStoreAuthority { next_authority: a, store: e.store }, I::AcceptStoreAuthority {}),
        vec![]
    ));
    case!(v, "store.transfer_receiver", "receiver_moved", Some(key("owner-recv")), |e, a| (ix_transfer_receiver(e, a, key("someone")), vec![]));
    case!(v, "store.accept_receiver", "receiver_pending", Some(key("owner-recv2")), |e, a| (ix_accept_receiver(e, a), vec![]));
    case!(v, "store.set_token_map", "base", None, |e, a| (st::ix(A::SetTokenMap { authority: a, store: e.store, token_map: e.token_map2 }, I::SetTokenMap {}), vec![]));
    case!(v, "store.enable_role", "base", None, |e, a| (st::ix(A::EnableRole { authority: a, store: e.store }, I::EnableRole { role: "NEW_ROLE".into() }), vec![]));
    case!(v, "store.disable_role", "base", None, |e, a| (st::ix(A::DisableRole { authority: a, store: e.store }, I::DisableRole { role: RoleKey::PRICE_KEEPER.into() }), vec![]));
    case!(v, "store.grant_role", "base", None, |e, a| (
        st::ix(A::GrantRole { authority: a, store: e.store }, I::GrantRole { user: key("stranger"), role: RoleKey::ORDER_KEEPER.into() }),
        vec![]
    ));
    case!(v, "store.revoke_role", "base", None, |e, a| (
        st::ix(A::RevokeRole { authority: a, store: e.store }, I::RevokeRole { user: key(&format!("signer-{}", RoleKey::PRICE_KEEPER)), role: RoleKey::PRICE_KEEPER.into() }),
        vec![]
    ));
    // ---- store config
    case!(v, "store.insert_amount", "base", None, |e, a| (st::ix(A::InsertConfig { authority: a, store: e.store }, I::InsertAmount { key: "oracle_max_age".into(), amount: 77 }), vec![]));
    case!(v, "store.insert_factor", "base", None, |e, a| (st::ix(A::InsertConfig { authority: a, store: e.store }, I::InsertFactor { key: "oracle_ref_price_deviation".into(), factor: 77 }), vec![]));
    case!(v, "store.insert_address", "base", None, |e, a| (st::ix(A::InsertConfig { authority: a, store: e.store }, I::InsertAddress { key: "holding".into(), address: key("someone") }), vec![]));
    case!(v, "store.insert_order_fee_discount_for_referred_user", "base", None, |e, a| (
        st::ix(A::InsertConfig { authority: a, store: e.store }, I::InsertOrderFeeDiscountForReferredUser { factor: 77 }),
        vec![]
    ));
    case!(v, "store.toggle_feature", "base", None, |e, a| (
        st::ix(A::ToggleFeature { authority: a, store: e.store }, I::ToggleFeature { domain: "deposit".into(), action: "create".into(), enable: false }),
        vec![]
    ));
    // ---- token map maintenance
    case!(v, "store.push_to_token_map", "base", None, |e, a| (
        st::ix(
            A::PushToTokenMap { authority: a, store: e.store, token_map: e.m.token_map, token: e.mint_y, system_program: sys },
            I::PushToTokenMap { name: "Y".into(), builder: UpdateTokenConfigParams::default(), enable: true, new: true }
        ),
        vec![]
    ));
    case!(v, "store.push_to_token_map_synthetic", "base", None, |e, a| (
        st::ix(
            A::PushToTokenMapSynthetic { authority: a, store: e.store, token_map: e.m.token_map, system_program: sys },
            I::PushToTokenMapSynthetic { name: "SYN".into(), token: key("synthetic-token"), token_decimals: 8, builder: UpdateTokenConfigParams::default(), enable: true, new: true }
        ),
        vec![]
    ));
    case!(v, "store.toggle_token_config", "base", None, |e, a| (
        st::ix(A::ToggleTokenConfig { authority: a, store: e.store, token_map: e.m.token_map }, I::ToggleTokenConfig { token: e.mint_x, enable: false }),
        vec![]
    ));
    case!(v, "store.toggle_token_price_adjustment", "base", None, |e, a| (
        st::ix(A::ToggleTokenConfig { authority: a, store: e.store, token_map: e.m.token_map }, I::ToggleTokenPriceAdjustment { token: e.mint_x, enable: true }),
        vec![]
    ));
    case!(v, "store.set_feed_config_market_status_flag", "base", None, |e, a| (
        st::ix(
            A::SetFeedConfigMarketStatusFlag { authority: a, store: e.store, token_map: e.m.token_map, token: e.mint_x },
            I::SetFeedConfigMarketStatusFlag { provider: 0, flag: 0, enable: true }
        ),
        vec![]
    ));
    case!(v, "store.set_expected_provider", "base", None, |e, a| (
        st::ix(A::SetExpectedProvider { authority: a, store: e.store, token_map: e.m.token_map }, I::SetExpectedProvider { token: e.mint_x, provider: 1 }),
        vec![]
    ));
    case!(v, "store.set_feed_config_v2", "base", None, |e, a| (
        st::ix(
            A::SetFeedConfig { authority: a, store: e.store, token_map: e.m.token_map },
            I::SetFeedConfigV2 { token: e.mint_x, provider: 1, feed: Some(key("feed")), timestamp_adjustment: Some(1), max_deviation_factor: None }
        ),
        vec![]
    ));
    // ---- oracle
    case!(v, "store.clear_all_prices", "base", None, |e, a| (st::ix(A::ClearAllPrices { authority: a, store: e.store, oracle: oracle_of(&a) }, I::ClearAllPrices {}), vec![]));
    case!(v, "store.set_prices_from_price_feed", "base", None, |e, a| (
        st::ix(
            A::SetPricesFromPriceFeed { authority: a, store: e.store, oracle: oracle_of(&a), token_map: e.m.token_map, chainlink_program: None },
            I::SetPricesFromPriceFeed { tokens: vec![] }
        ),
        vec![]
    ));
    case!(v, "store.initialize_price_feed", "base", None, |e, a| {
        let (index, provider, token) = (0u16, 0u8, e.mint_x);
        let pf = Pubkey::find_program_address(
            &[
                <gmsol_store::states::PriceFeed as gmsol_store::states::Seed>::SEED,
                e.store.as_ref(),
                a.as_ref(),
                &index.to_le_bytes(),
                &[provider],
                token.as_ref(),
            ],
            &gmsol_store::ID,
        )
        .0;
        (
            st::ix(
                A::InitializePriceFeed { authority: a, store: e.store, price_feed: pf, system_program: sys },
                I::InitializePriceFeed { index, provider, token, feed_id: key("feed-id") },
            ),
            vec![],
        )
    });
    // ---- market
    case!(v, "store.initialize_market", "base", None, |e, a| {
        let (index, long, short) = (e.m.long_mint, e.mint_x, e.m.short_mint);
        let mt = mk::market_token_mint_pda(&e.store, &index, &long, &short);
        (
            st::ix(
                A::InitializeMarket {
                    authority: a,
                    store: e.store,
                    market_token_mint: mt,
                    long_token_mint: long,
                    short_token_mint: short,
                    market: mk::market_pda(&e.store, &mt),
                    token_map: e.m.token_map,
                    long_token_vault: mk::market_vault_pda(&e.store, &long),
                    short_token_vault: mk::market_vault_pda(&e.store, &short),
                    system_program: sys,
                    token_program: spl_token::ID,
                },
                I::InitializeMarket { index_token_mint: index, name: "M2".into(), enable: true },
            ),
            vec![],
        )
    });
    case!(v, "store.toggle_market", "base", None, |e, a| (st::ix(A::ToggleMarket { authority: a, store: e.store, market: e.m.market }, I::ToggleMarket { enable: false }), vec![]));
    case!(v, "store.update_market_config", "base", None, |e, a| (
        st::ix(A::UpdateMarketConfig { authority: a, store: e.store, market: e.m.market }, I::UpdateMarketConfig { key: "swap_impact_exponent".into(), value: 5 }),
        vec![]
    ));
    case!(v, "store.update_market_config_flag", "base", None, |e, a| (
        st::ix(
            A::UpdateMarketConfig { authority: a, store: e.store, market: e.m.market },
            I::UpdateMarketConfigFlag { key: "ignore_open_interest_for_usage_factor".into(), value: true }
        ),
        vec![]
    ));
    case!(v, "store.set_market_config_updatable", "base", None, |e, a| (
        st::ix(
            A::SetMarketConfigUpdatable { authority: a, store: e.store },
            I::SetMarketConfigUpdatable { is_flag: false, key: "swap_impact_exponent".into(), updatable: true }
        ),
        vec![]
    ));
    case!(v, "store.toggle_gt_minting", "base", None, |e, a| (st::ix(A::ToggleGTMinting { authority: a, store: e.store, market: e.m.market }, I::ToggleGtMinting { enable: true }), vec![]));
    case!(v, "store.initialize_market_vault", "base", None, |e, a| (
        st::ix(
            A::InitializeMarketVault {
                authority: a,
                store: e.store,
                mint: e.mint_y,
                vault: mk::market_vault_pda(&e.store, &e.mint_y),
                system_program: sys,
                token_program: spl_token::ID
            },
            I::InitializeMarketVault {}
        ),
        vec![]
    ));
    // buffer instructions: owner-gated
    case!(v, "store.push_to_market_config_buffer", "buffer", Some(key("owner-buf")), |_e, a| (
        st::ix(
            A::PushToMarketConfigBuffer { authority: a, buffer: key("buffer"), system_program: sys },
            I::PushToMarketConfigBuffer { new_configs: vec![gmsol_store::states::market::config::EntryArgs { key: "swap_impact_exponent".into(), value: 3 }] }
        ),
        vec![]
    ));
    case!(v, "store.set_market_config_buffer_authority", "buffer", Some(key("owner-buf")), |_e, a| (
        st::ix(A::SetMarketConfigBufferAuthority { authority: a, buffer: key("buffer") }, I::SetMarketConfigBufferAuthority { new_authority: key("someone") }),
        vec![]
    ));
    case!(v, "store.close_market_config_buffer", "buffer", Some(key("owner-buf")), |_e, a| (
        st::ix(A::CloseMarketConfigBuffer { authority: a, buffer: key("buffer"), receiver: a }, I::CloseMarketConfigBuffer {}),
        vec![]
    ));
    case!(v, "store.update_market_config_with_buffer", "buffer", None, |e, a| (
        st::ix(A::UpdateMarketConfigWithBuffer { authority: a, store: e.store, market: e.m.market, buffer: buffer_of(&a) }, I::UpdateMarketConfigWithBuffer {}),
        vec![]
    ));
    // ---- claimable accounts
    case!(v, "store.use_claimable_account", "base", None, |e, a| {
        let (owner, ts) = (key("someone"), 1_700_000_000i64);
        let s: Store = e.worlds["base"].account_data(&e.store).unwrap();
        let tk = s.claimable_time_key(ts).unwrap();
        let acc = Pubkey::find_program_address(
            &[gmsol_store::constants::CLAIMABLE_ACCOUNT_SEED, e.store.as_ref(), e.m.long_mint.as_ref(), owner.as_ref(), &tk],
            &gmsol_store::ID,
        )
        .0;
        (
            st::ix(
                A::UseClaimableAccount { authority: a, store: e.store, mint: e.m.long_mint, owner, account: acc, system_program: sys, token_program: spl_token::ID },
                I::UseClaimableAccount { timestamp: ts, amount: 0 },
            ),
            vec![],
        )
    });
    // ---- GT
    case!(v, "store.initialize_gt", "pre_gt", None, |e, a| (
        st::ix(
            A::InitializeGt { authority: a, store: e.store, system_program: sys },
            I::InitializeGt { decimals: 7, initial_minting_cost: 100_000_000_000_000_000_000, grow_factor: 101_000_000_000_000_000_000, grow_step: 10_000_000, ranks: vec![1_000, 10_000] }
        ),
        vec![]
    ));
    case!(v, "store.gt_set_order_fee_discount_factors", "base", None, |e, a| (
        st::ix(A::ConfigureGt { authority: a, store: e.store }, I::GtSetOrderFeeDiscountFactors { factors: vec![0, 1, 2, 3] }),
        vec![]
    ));
    case!(v, "store.gt_set_referral_reward_factors", "base", None, |e, a| (
        st::ix(A::ConfigureGt { authority: a, store: e.store }, I::GtSetReferralRewardFactors { factors: vec![0, 1, 2, 3] }),
        vec![]
    ));
    case!(v, "store.gt_set_exchange_time_window", "base", None, |e, a| (
        st::ix(A::ConfigureGt { authority: a, store: e.store }, I::GtSetExchangeTimeWindow { window: 7200 }),
        vec![]
    ));
    case!(v, "store.update_gt_cumulative_inv_cost_factor", "base", None, |e, a| (
        st::ix(A::UpdateGtCumulativeInvCostFactor { authority: a, store: e.store }, I::UpdateGtCumulativeInvCostFactor {}),
        vec![]
    ));
    case!(v, "store.mint_gt_reward", "base", None, |e, a| (
        st::ix(
            A::MintGtReward {
                authority: a,
                store: e.store,
                user: st::user_pda(&e.store, &e.u1),
                event_authority: st::event_authority(&gmsol_store::ID),
                program: gmsol_store::ID
            },
            I::MintGtReward { amount: 5 }
        ),
        vec![]
    ));
    // ---- virtual inventories
    case!(v, "store.create_virtual_inventory_for_swaps", "base", None, |e, a| (
        st::ix(
            A::CreateVirtualInventoryForSwaps { authority: a, store: e.store, virtual_inventory: vi_swaps(&e.store, 1), system_program: sys },
            I::CreateVirtualInventoryForSwaps { index: 1, long_amount_decimals: 9, short_amount_decimals: 6 }
        ),
        vec![]
    ));
    case!(v, "store.create_virtual_inventory_for_positions", "base", None, |e, a| (
        st::ix(
            A::CreateVirtualInventoryForPositions {
                authority: a,
                store: e.store,
                index_token: e.m.index_mint,
                virtual_inventory: vi_positions(&e.store, &e.m.index_mint),
                system_program: sys
            },
            I::CreateVirtualInventoryForPositions {}
        ),
        vec![]
    ));
    case!(v, "store.join_virtual_inventory_for_swaps", "base", None, |e, a| (
        st::ix(
            A::JoinVirtualInventoryForSwaps { authority: a, store: e.store, token_map: e.m.token_map, virtual_inventory: vi_swaps(&e.store, 0), market: e.m.market },
            I::JoinVirtualInventoryForSwaps {}
        ),
        vec![]
    ));
    case!(v, "store.disable_virtual_inventory", "base", None, |e, a| (
        st::ix(A::DisableVirtualInventory { authority: a, store: e.store, virtual_inventory: vi_swaps(&e.store, 0) }, I::DisableVirtualInventory {}),
        vec![]
    ));
    case!(v, "store.close_virtual_inventory", "base", None, |e, a| {
        let wallet = Pubkey::find_program_address(&[Store::WALLET_SEED, e.store.as_ref()], &gmsol_store::ID).0;
        (
            st::ix(
                A::CloseVirtualInventory { authority: a, store: e.store, store_wallet: wallet, virtual_inventory: vi_swaps(&e.store, 0) },
                I::CloseVirtualInventory {},
            ),
            vec![],
        )
    });
    // ---- referral: acts on the signer's own user account (owner-gated by has_one / seeds)
    case!(v, "store.initialize_referral_code", "base", Some(key("u2")), |e, a| {
        let code = *b"c19code2";
        (
            st::ix(
                A::InitializeReferralCode {
                    owner: a,
                    store: e.store,
                    referral_code: st::referral_code_pda(&e.store, &code),
                    user: st::user_pda(&e.store, &key("u2")),
                    system_program: sys,
                },
                I::InitializeReferralCode { code },
            ),
            vec![],
        )
    });
    case!(v, "store.set_referrer", "base", Some(key("u2")), |e, a| (
        st::ix(
            A::SetReferrer {
                owner: a,
                store: e.store,
                user: st::user_pda(&e.store, &key("u2")),
                referral_code: st::referral_code_pda(&e.store, &e.code1),
                referrer_user: st::user_pda(&e.store, &e.u1)
            },
            I::SetReferrer { code: e.code1 }
        ),
        vec![]
    ));
    case!(v, "store.set_builder_fee_factor", "base", Some(key("u2")), |e, a| (
        st::ix(
            A::SetBuilderFeeFactor {
                owner: a,
                store: e.store,
                user: st::user_pda(&e.store, &key("u2")),
                event_authority: st::event_authority(&gmsol_store::ID),
                program: gmsol_store::ID
            },
            I::SetBuilderFeeFactor { factor: 0 }
        ),
        vec![]
    ));
    case!(v, "store.transfer_referral_code", "base", Some(key("u1")), |e, a| (ix_transfer_code(e, a, e.u1, key("u2")), vec![]));
    case!(v, "store.cancel_referral_code_transfer", "code_pending", Some(key("u1")), |e, a| (
        st::ix(
            A::CancelReferralCodeTransfer { owner: a, store: e.store, user: st::user_pda(&e.store, &e.u1), referral_code: st::referral_code_pda(&e.store, &e.code1) },
            I::CancelReferralCodeTransfer {}
        ),
        vec![]
    ));
    case!(v, "store.accept_referral_code", "code_pending", Some(key("u2")), |e, a| (
        st::ix(
            A::AcceptReferralCode {
                next_owner: a,
                store: e.store,
                user: st::user_pda(&e.store, &e.u1),
                referral_code: st::referral_code_pda(&e.store, &e.code1),
                receiver_user: st::user_pda(&e.store, &key("u2"))
            },
            I::AcceptReferralCode {}
        ),
        vec![]
    ));
    // ---- treasury
    {
        use gmsol_treasury::accounts as TA;
        use gmsol_treasury::instruction as TI;
        let tid = gmsol_treasury::ID;
        case!(v, "treasury.set_gt_factor", "treasury", None, |e, a| (
            st::ix_for(tid, TA::UpdateConfig { authority: a, store: e.store, config: treasury_config(&e.store), store_program: gmsol_store::ID }, TI::SetGtFactor { factor: 5 }),
            vec![]
        ));
        case!(v, "treasury.set_buyback_factor", "treasury", None, |e, a| (
            st::ix_for(tid, TA::UpdateConfig { authority: a, store: e.store, config: treasury_config(&e.store), store_program: gmsol_store::ID }, TI::SetBuybackFactor { factor: 5 }),
            vec![]
        ));
        case!(v, "treasury.initialize_treasury_vault_config", "treasury", None, |e, a| {
            let config = treasury_config(&e.store);
            let tvc = Pubkey::find_program_address(
                &[gmsol_treasury::states::TreasuryVaultConfig::SEED, config.as_ref(), &0u16.to_le_bytes()],
                &tid,
            )
            .0;
            (
                st::ix_for(
                    tid,
                    TA::InitializeTreasuryVaultConfig { authority: a, store: e.store, config, treasury_vault_config: tvc, store_program: gmsol_store::ID, system_program: system_program::ID },
                    TI::InitializeTreasuryVaultConfig { index: 0 },
                ),
                vec![],
            )
        });
        case!(v, "treasury.set_referral_reward", "treasury", None, |e, a| (
            st::ix_for(
                tid,
                TA::SetReferralReward { authority: a, store: e.store, config: treasury_config(&e.store), store_program: gmsol_store::ID },
                TI::SetReferralReward { factors: vec![0, 1, 2, 3] }
            ),
            vec![]
        ));
        case!(v, "treasury.transfer_receiver", "treasury", None, |e, a| {
            let config = treasury_config(&e.store);
            (
                st::ix_for(
                    tid,
                    TA::TransferReceiver {
                        authority: a,
                        store: e.store,
                        config,
                        receiver: treasury_receiver(&config),
                        next_receiver: key("someone"),
                        store_program: gmsol_store::ID,
                        system_program: system_program::ID,
                    },
                    TI::TransferReceiver {},
                ),
                vec![],
            )
        });
    }
    // ---- timelock
    {
        use gmsol_timelock::accounts as LA;
        use gmsol_timelock::instruction as LI;
        let lid = gmsol_timelock::ID;
        case!(v, "timelock.initialize_config", "timelock_pre", None, |e, a| (ix_tl_init_config(e, a), vec![]));
        if env.worlds.contains_key("timelock") {
            case!(v, "timelock.increase_delay", "timelock", None, |e, a| (
                st::ix_for(
                    lid,
                    LA::IncreaseDelay { authority: a, store: e.store, timelock_config: tl_config(&e.store), store_program: gmsol_store::ID },
                    LI::IncreaseDelay { delta: 60 }
                ),
                vec![]
            ));
        }
    }
    v
}


// =====================================================================================================
// World R2: execution / maintenance / user-owned instructions with valid account sets

fn nonce(tag: u8) -> [u8; 32] {
    let mut n = [0u8; 32];
    n[0] = tag;
    n[31] = 0xC1;
    n
}

fn prepare_trade_buffer(w: &mut World, store: &Pubkey, r2: &R2, authority: &Pubkey, index: u16) -> ExecResult {
    w.execute(
        &st::ix(
            gmsol_store::accounts::PrepareTradeEventBuffer { authority: *authority, store: *store, event: r2.trade_buffer(authority, index), system_program: system_program::ID },
            gmsol_store::instruction::PrepareTradeEventBuffer { index },
        ),
        &[*authority],
    )
}

/// feeds of the market's tokens as the oracle-consuming instructions expect them (sorted by token)
fn feed_metas(r2: &R2, m: &world2::Mkt) -> Vec<anchor_lang::solana_program::instruction::AccountMeta> {
    let mut tokens = vec![r2.toks[m.index].mint, r2.toks[m.long].mint, r2.toks[m.short].mint];
    tokens.sort();
    tokens.dedup();
    tokens.iter().map(|t| anchor_lang::solana_program::instruction::AccountMeta::new_readonly(r2.tok_by_mint(t).unwrap().feed, false)).collect()
}

fn build_r2(classes: &[(String, Pubkey)], all_roles: &[String]) -> (R2Env, HashMap<&'static str, World>) {
    const USD: u128 = 100_000_000_000_000_000_000;
    let mut w = World::new();
    let r2 = R2::build_funded(&mut w, 2);
    let (store, keeper) = (r2.store, r2.keeper);
    let (u1, u2) = (r2.users[0], r2.users[1]);
    // every role of the pool exists; one signer per role (Store methods on the account bytes)
    for r in all_roles {
        let _ = st::fab_enable_role(&mut w, &store, r);
    }
    for (label, k) in classes {
        w.airdrop(k, 1_000_000_000_000);
        if let Some(r) = label.strip_prefix("role:") {
            assert!(st::fab_grant_role(&mut w, &store, k, r), "Store::grant {r}");
        }
    }
    // the class "admin" is R2's store authority
    let classes: Vec<(String, Pubkey)> = classes.iter().map(|(l, k)| (l.clone(), if l == "admin" { r2.admin } else { *k })).collect();
    // every signer is a user with funds, market tokens of M1 and a trade event buffer (all open instructions)
    let (m1, m2) = (r2.mkts[0].clone(), r2.mkts[1].clone());
    let (ia, ib) = (m1.long, m1.short);
    for (i, (_, k)) in classes.iter().enumerate() {
        w.airdrop(k, 1_000_000_000_000);
        let _ = st::prepare_user(&mut w, &store, k);
        for t in r2.toks.clone().iter().filter(|t| !t.synthetic) {
            let (ata, r) = spl::create_ata(&mut w, &keeper, k, &t.mint);
            must("ata", r);
            must("mint_to", spl::mint_to(&mut w, &t.mint, &ata, &keeper, 10_000_000));
        }
        for m in r2.mkts.clone() {
            must("mt ata", spl::create_ata(&mut w, &keeper, k, &m.market_token).1);
        }
        let stt = r2.flow_deposit(&mut w, &mut world2::NoRec, k, 0, &nonce(200 + i as u8), Some((ia, 1_000)), Some((ib, 100_000)), &[], &[], 0);
        assert_eq!(stt, Some(1), "seed deposit of a signer");
        must("trade buffer", prepare_trade_buffer(&mut w, &store, &r2, k, 0));
    }
    must("trade buffer keeper", prepare_trade_buffer(&mut w, &store, &r2, &keeper, 0));
    // the fee receiver is moved away from the store authority
    let recv = key("owner-recv");
    w.airdrop(&recv, 1_000_000_000_000);
    must(
        "transfer_receiver",
        w.execute(
            &st::ix(gmsol_store::accounts::TransferReceiver { authority: r2.admin, store, next_receiver: recv }, gmsol_store::instruction::TransferReceiver {}),
            &[r2.admin],
        ),
    );
    must(
        "accept_receiver",
        w.execute(&st::ix(gmsol_store::accounts::AcceptReceiver { next_receiver: recv, store }, gmsol_store::instruction::AcceptReceiver {}), &[recv]),
    );
    // u2 opens a position in M1 (long, long collateral); some swap volume so that fees accrue
    let stt = r2.flow_position(&mut w, &mut world2::NoRec, &u2, 0, &nonce(1), true, true, true, r2.units(ia, 500), 1000 * USD);
    assert_eq!(stt, Some(1), "open position of u2");
    let _ = r2.flow_swap(&mut w, &mut world2::NoRec, &u1, &nonce(2), ia, ib, r2.units(ia, 100), &[0], 0);
    // pending actions of u1 (and a decrease order of u2)
    let mt = r2.balance(&w, &r2.ata(&u1, &m1.market_token));
    must("create_deposit", r2.create_deposit(&mut w, &u1, &m1, &nonce(11), Some((ia, 1_000)), Some((ib, 100_000)), 0, &[], &[], world2::EXEC_LAMPORTS));
    must("create_withdrawal", r2.create_withdrawal(&mut w, &u1, &m1, &nonce(12), mt / 10, ia, ib, 0, 0, &[], &[], world2::EXEC_LAMPORTS));
    must("create_swap_order", r2.create_swap_order(&mut w, &u1, &m1, &nonce(13), ia, ib, 1_000, 0, &[0], world2::EXEC_LAMPORTS));
    must("create_shift", r2.create_shift(&mut w, &u1, &m1, &m2, &nonce(14), mt / 10, 0, world2::EXEC_LAMPORTS));
    must("create increase order", r2.create_position_order(&mut w, &u1, &m1, &nonce(15), true, true, true, r2.units(ia, 200), 400 * USD));
    must("create decrease order", r2.create_position_order(&mut w, &u2, &m1, &nonce(16), false, true, true, 0, 300 * USD));
    let env = R2Env {
        dep1: r2.deposit_pda(&u1, &nonce(11)),
        wd1: r2.withdrawal_pda(&u1, &nonce(12)),
        sw1: r2.order_pda(&u1, &nonce(13)),
        sh1: r2.shift_pda(&u1, &nonce(14)),
        inc1: r2.order_pda(&u1, &nonce(15)),
        dec1: r2.order_pda(&u2, &nonce(16)),
        u1,
        u2,
        recv,
        r2: r2.clone(),
    };
    r2.tick(&mut w);
    r2.prepare_keeper_accounts(&mut w, &u2, &m1, true, true);
    r2.prepare_keeper_accounts(&mut w, &u1, &m1, true, true);
    let mut worlds: HashMap<&'static str, World> = HashMap::new();
    worlds.insert("r2", w.clone());
    // the same actions executed by the keeper, not yet closed
    {
        let mut x = w.clone();
        must("execute_deposit", r2.execute_deposit(&mut x, &keeper, &env.dep1, true, world2::EXEC_FEE));
        must("execute_withdrawal", r2.execute_withdrawal(&mut x, &keeper, &env.wd1, true, world2::EXEC_FEE));
        must("execute_swap_order", r2.execute_swap_order(&mut x, &keeper, &env.sw1, true, world2::EXEC_FEE));
        must("execute_shift", r2.execute_shift(&mut x, &keeper, &env.sh1, true, world2::EXEC_FEE));
        worlds.insert("r2_done", x);
    }
    // u1's (still empty) position closed by its owner: the pending increase order refers to no position
    {
        let mut x = w.clone();
        let pos = r2.position_pda(&u1, &m1, &r2.toks[m1.long].mint, true);
        let r = x.execute(
            &st::ix(gmsol_store::accounts::CloseEmptyPosition { owner: u1, store, position: pos }, gmsol_store::instruction::CloseEmptyPosition {}),
            &[u1],
        );
        if r.ok {
            worlds.insert("r2_nopos", x);
        } else {
            eprintln!("note: close_empty_position set-up failed: {}", r.err_name);
        }
    }
    // the position of u2 becomes liquidatable / auto-deleveragable (as in R2::cut_scenario)
    {
        let mut x = w.clone();
        let p = r2.current_price(&x, &r2.toks[m1.index]);
        r2.set_token_price(&mut x, m1.index, p * 11 / 10);
        let mut l = x.clone();
        must("config liq", r2.update_market_config(&mut l, &m1, "min_collateral_factor_for_liquidation", 2 * USD));
        r2.tick(&mut l);
        r2.prepare_keeper_accounts(&mut l, &u2, &m1, true, true);
        worlds.insert("r2_liq", l);
        must("config adl 1", r2.update_market_config(&mut x, &m1, "min_pnl_factor_after_long_adl", 0));
        must("config adl 2", r2.update_market_config(&mut x, &m1, "max_pnl_factor_for_long_adl", 100_000_000_000_000));
        r2.tick(&mut x);
        worlds.insert("r2_adl_pre", x.clone());
        let r = r2.flow_update_adl(&mut x, &mut world2::NoRec, 0, true);
        must("update_adl_state", r);
        r2.tick(&mut x);
        r2.prepare_keeper_accounts(&mut x, &u2, &m1, true, true);
        worlds.insert("r2_adl", x);
    }
    (env, worlds)
}

/// what a keeper prepares (with OPEN instructions) before a position cut signed by `a`
fn prep_cut(e: &Env, w: &mut World, a: Pubkey, n: &[u8; 32]) {
    let x = e.r2.as_ref().unwrap();
    let m = x.r2.mkts[0].clone();
    let order = x.r2.order_pda(&a, n);
    for t in [m.long, m.short] {
        let _ = w.execute(&world2::ata_ix(&a, &order, &x.r2.toks[t].mint), &[a]);
    }
}

fn r2_cases(v: &mut Vec<Case>, env: &Env) {
    use gmsol_store::accounts as A;
    use gmsol_store::instruction as I;
    let Some(x0) = env.r2.clone() else { return };
    let sys = system_program::ID;
    let (u1, u2, recv) = (x0.u1, x0.u2, x0.recv);
    macro_rules! x {
        ($e:ident) => {
            $e.r2.as_ref().unwrap()
        };
    }
    // ---- keeper-gated execution
    caser!(v, "store.execute_deposit", "r2", None, |e, w, a| x!(e).r2.execute_deposit(w, &a, &x!(e).dep1, true, world2::EXEC_FEE));
    caser!(v, "store.execute_withdrawal", "r2", None, |e, w, a| x!(e).r2.execute_withdrawal(w, &a, &x!(e).wd1, true, world2::EXEC_FEE));
    caser!(v, "store.execute_shift", "r2", None, |e, w, a| x!(e).r2.execute_shift(w, &a, &x!(e).sh1, true, world2::EXEC_FEE));
    caser!(v, "store.execute_increase_or_swap_order_v2", "r2", None, |e, w, a| {
        let ix = x!(e).r2.execute_position_order_ix(w, &a, &x!(e).inc1, true);
        w.execute(&ix, &[a])
    });
    caser!(v, "store.execute_decrease_order_v2", "r2", None, |e, w, a| {
        let ix = x!(e).r2.execute_position_order_ix(w, &a, &x!(e).dec1, true);
        w.execute(&ix, &[a])
    });
    caser!(v, "store.liquidate", "r2_liq", None, prep |e, w, a| prep_cut(e, w, a, &nonce(30)), |e, w, a| {
        let mut r = x!(e).r2.clone();
        r.keeper = a;
        let m = r.mkts[0].clone();
        let pos = r.position_pda(&x!(e).u2, &m, &r.toks[m.long].mint, true);
        let ix = r.cut_ix(w, &x!(e).u2, &m, &pos, true, &nonce(30), None);
        w.execute(&ix, &[a])
    });
    caser!(v, "store.auto_deleverage", "r2_adl", None, prep |e, w, a| prep_cut(e, w, a, &nonce(31)), |e, w, a| {
        let mut r = x!(e).r2.clone();
        r.keeper = a;
        let m = r.mkts[0].clone();
        let pos = r.position_pda(&x!(e).u2, &m, &r.toks[m.long].mint, true);
        let size = r.open_position(w, &x!(e).u2, 0, true, true).map(|p| p.1).unwrap_or(0);
        let ix = r.cut_ix(w, &x!(e).u2, &m, &pos, true, &nonce(31), Some(size));
        w.execute(&ix, &[a])
    });
    caser!(v, "store.update_adl_state", "r2_adl_pre", None, |e, w, a| {
        let r = &x!(e).r2;
        let m = r.mkts[0].clone();
        let mut ix = st::ix(
            A::UpdateAdlState { authority: a, store: r.store, token_map: r.token_map, oracle: r.oracle, market: m.market, chainlink_program: None },
            I::UpdateAdlState { is_long: true },
        );
        ix.accounts.extend(feed_metas(r, &m));
        w.execute(&ix, &[a])
    });
    caser!(v, "store.update_closed_state", "r2", None, |e, w, a| {
        let r = &x!(e).r2;
        let m = r.mkts[0].clone();
        let mut ix = st::ix(A::UpdateClosedState { authority: a, store: r.store, token_map: r.token_map, oracle: r.oracle, market: m.market }, I::UpdateClosedState {});
        ix.accounts.extend(feed_metas(r, &m));
        w.execute(&ix, &[a])
    });
    caser!(v, "store.update_fees_state", "r2", None, |e, w, a| {
        let r = &x!(e).r2;
        let m = r.mkts[0].clone();
        let mut ix = st::ix(
            A::UpdateFeesState {
                authority: a,
                store: r.store,
                token_map: r.token_map,
                oracle: r.oracle,
                market: m.market,
                event_authority: st::event_authority(&gmsol_store::ID),
                program: gmsol_store::ID,
            },
            I::UpdateFeesState {},
        );
        ix.accounts.extend(feed_metas(r, &m));
        w.execute(&ix, &[a])
    });
    caser!(v, "store.cancel_order_if_no_position", "r2_nopos", None, |e, w, a| {
        let r = &x!(e).r2;
        let m = r.mkts[0].clone();
        let pos = r.position_pda(&x!(e).u1, &m, &r.toks[m.long].mint, true);
        w.execute(&st::ix(A::CancelOrderIfNoPosition { authority: a, store: r.store, order: x!(e).inc1, position: pos }, I::CancelOrderIfNoPosition {}), &[a])
    });
    caser!(v, "store.close_empty_claimable_account", "r2", None, |e, w, a| {
        let r = &x!(e).r2;
        let (mint, ts) = (r.toks[r.mkts[0].long].mint, w.clock().0);
        let account = r.claimable_pda(w, &mint, &x!(e).u2, ts);
        w.execute(
            &st::ix(
                A::CloseEmptyClaimableAccount { authority: a, store: r.store, mint, owner: x!(e).u2, account, system_program: sys, token_program: spl_token::ID },
                I::CloseEmptyClaimableAccount { timestamp: ts },
            ),
            &[a],
        )
    });
    // ---- market maintenance
    caser!(v, "store.market_transfer_in", "r2", None, |e, w, a| {
        let r = &x!(e).r2;
        let (m, t) = (r.mkts[0].clone(), r.toks[r.mkts[0].long].clone());
        w.execute(
            &st::ix(
                A::MarketTransferIn {
                    authority: a,
                    store: r.store,
                    from_authority: x!(e).u1,
                    market: m.market,
                    from: spl::ata(&x!(e).u1, &t.mint),
                    vault: t.vault,
                    token_program: spl_token::ID,
                    event_authority: st::event_authority(&gmsol_store::ID),
                    program: gmsol_store::ID,
                },
                I::MarketTransferIn { amount: 10 },
            ),
            &[a, x!(e).u1],
        )
    });
    caser!(v, "store.claim_fees_from_market", "r2", Some(recv), |e, w, a| {
        let r = &x!(e).r2;
        r.claim_fees(w, &a, &r.mkts[0].clone(), &r.toks[r.mkts[0].long].clone())
    });
    // ---- user-owned actions: close (owner or ORDER_KEEPER once completed), update, keep flag
    caser!(v, "store.close_deposit", "r2_done", Some(u1), |e, w, a| {
        let r = &x!(e).r2;
        let m = r.mkts[0].clone();
        r.close_deposit(w, &a, &x!(e).u1, &x!(e).dep1, &m, Some(r.toks[m.long].mint), Some(r.toks[m.short].mint))
    });
    caser!(v, "store.close_withdrawal", "r2_done", Some(u1), |e, w, a| {
        let r = &x!(e).r2;
        let m = r.mkts[0].clone();
        r.close_withdrawal(w, &a, &x!(e).u1, &x!(e).wd1, &m, r.toks[m.long].mint, r.toks[m.short].mint)
    });
    caser!(v, "store.close_order_v2", "r2_done", Some(u1), |e, w, a| {
        let r = &x!(e).r2;
        let m = r.mkts[0].clone();
        r.close_swap_order(w, &a, &x!(e).u1, &x!(e).sw1, r.toks[m.long].mint, r.toks[m.short].mint)
    });
    caser!(v, "store.close_shift", "r2_done", Some(u1), |e, w, a| {
        let r = &x!(e).r2;
        r.close_shift(w, &a, &x!(e).u1, &x!(e).sh1, &r.mkts[0].clone(), &r.mkts[1].clone())
    });
    caser!(v, "store.update_order_v2", "r2", Some(u1), |e, w, a| {
        let r = &x!(e).r2;
        w.execute(
            &st::ix(
                A::UpdateOrderV2 {
                    owner: a,
                    store: r.store,
                    market: r.mkts[0].market,
                    order: x!(e).inc1,
                    callback_authority: None,
                    callback_program: None,
                    callback_shared_data_account: None,
                    callback_partitioned_data_account: None,
                    event_authority: st::event_authority(&gmsol_store::ID),
                    program: gmsol_store::ID,
                },
                I::UpdateOrderV2 {
                    params: gmsol_store::states::order::UpdateOrderParams {
                        size_delta_value: None,
                        acceptable_price: Some(1),
                        trigger_price: None,
                        min_output: None,
                        valid_from_ts: None,
                    },
                },
            ),
            &[a],
        )
    });
    caser!(v, "store.set_should_keep_position_account", "r2", Some(u2), |e, w, a| w.execute(
        &st::ix(A::SetShouldKeepPositionAccount { owner: a, order: x!(e).dec1 }, I::SetShouldKeepPositionAccount { keep: true }),
        &[a]
    ));
    caser!(v, "store.close_empty_position", "r2", Some(u1), |e, w, a| {
        let r = &x!(e).r2;
        let m = r.mkts[0].clone();
        // the (still empty) position prepared together with u1's pending increase order
        let pos = r.position_pda(&x!(e).u1, &m, &r.toks[m.long].mint, true);
        w.execute(&st::ix(A::CloseEmptyPosition { owner: a, store: r.store, position: pos }, I::CloseEmptyPosition {}), &[a])
    });
    // ---- open by design: everybody creates / prepares their own accounts
    caser!(v, "store.create_deposit", "r2", None, |e, w, a| {
        let r = &x!(e).r2;
        let m = r.mkts[0].clone();
        r.create_deposit(w, &a, &m, &nonce(40), Some((m.long, 500)), Some((m.short, 50_000)), 0, &[], &[], world2::EXEC_LAMPORTS)
    });
    caser!(v, "store.create_withdrawal", "r2", None, |e, w, a| {
        let r = &x!(e).r2;
        let m = r.mkts[0].clone();
        let mt = r.balance(w, &r.ata(&a, &m.market_token));
        r.create_withdrawal(w, &a, &m, &nonce(41), mt / 2, m.long, m.short, 0, 0, &[], &[], world2::EXEC_LAMPORTS)
    });
    caser!(v, "store.create_order_v2", "r2", None, |e, w, a| {
        let r = &x!(e).r2;
        let m = r.mkts[0].clone();
        r.create_swap_order(w, &a, &m, &nonce(42), m.long, m.short, 500, 0, &[0], world2::EXEC_LAMPORTS)
    });
    caser!(v, "store.create_shift", "r2", None, |e, w, a| {
        let r = &x!(e).r2;
        let mt = r.balance(w, &r.ata(&a, &r.mkts[0].market_token));
        r.create_shift(w, &a, &r.mkts[0].clone(), &r.mkts[1].clone(), &nonce(43), mt / 2, 0, world2::EXEC_LAMPORTS)
    });
    caser!(v, "store.prepare_position", "r2", None, |e, w, a| {
        let r = &x!(e).r2;
        let m = r.mkts[2].clone();
        let params = gmsol_store::ops::order::CreateOrderParams {
            kind: gmsol_utils::order::OrderKind::MarketIncrease,
            decrease_position_swap_type: None,
            execution_lamports: world2::EXEC_LAMPORTS,
            swap_path_length: 0,
            initial_collateral_delta_amount: 100,
            size_delta_value: 1,
            is_long: true,
            is_collateral_long: true,
            min_output: None,
            trigger_price: None,
            acceptable_price: None,
            should_unwrap_native_token: false,
            valid_from_ts: None,
        };
        let position = r.position_pda(&a, &m, &r.toks[m.long].mint, true);
        w.execute(&st::ix(A::PreparePosition { owner: a, store: r.store, market: m.market, position, system_program: sys }, I::PreparePosition { params }), &[a])
    });
    caser!(v, "store.prepare_trade_event_buffer", "r2", None, |e, w, a| prepare_trade_buffer(w, &x!(e).r2.store, &x!(e).r2, &a, 1));
    caser!(v, "store.prepare_associated_token_account", "r2", None, |e, w, a| {
        let r = &x!(e).r2;
        let (owner, mint) = (key("someone"), r.toks[0].mint);
        w.execute(
            &st::ix(
                A::PrepareAssociatedTokenAccount {
                    payer: a,
                    owner,
                    mint,
                    account: spl::ata(&owner, &mint),
                    system_program: sys,
                    token_program: spl_token::ID,
                    associated_token_program: spl_associated_token_account::ID,
                },
                I::PrepareAssociatedTokenAccount {},
            ),
            &[a],
        )
    });
    caser!(v, "store.initialize_oracle", "r2", None, prep |_e, w, a| {
        let o = key(&format!("new-oracle-{a}"));
        w.set_account(o, Account { owner: gmsol_store::ID, lamports: 1_000_000_000, data: vec![0; 8 + std::mem::size_of::<gmsol_store::states::Oracle>()], executable: false });
    }, |e, w, a| w.execute(
        &st::ix(
            A::InitializeOracle { payer: a, authority: a, store: x!(e).r2.store, oracle: key(&format!("new-oracle-{a}")), system_program: sys },
            I::InitializeOracle {}
        ),
        &[a]
    ));
    caser!(v, "store.initialize_callback_authority", "r2", None, |_e, w, a| {
        let ca = Pubkey::find_program_address(&[gmsol_callback::CALLBACK_AUTHORITY_SEED], &gmsol_store::ID).0;
        w.execute(&st::ix(A::InitializeCallbackAuthority { payer: a, callback_authority: ca, system_program: sys }, I::InitializeCallbackAuthority {}), &[a])
    });
    let _ = u2;
}

// =====================================================================================================
// Further worlds on the base world: GT exchange, virtual inventories, timelock buffers, LP, competition

fn gt_vault(w: &World, store: &Pubkey) -> (Pubkey, i64) {
    let s: Store = w.account_data(store).unwrap();
    let window = s.gt().exchange_time_window();
    let idx = w.clock().0 / window as i64;
    (
        Pubkey::find_program_address(
            &[gmsol_store::states::gt::GtExchangeVault::SEED, store.as_ref(), &idx.to_le_bytes(), &window.to_le_bytes()],
            &gmsol_store::ID,
        )
        .0,
        idx,
    )
}
fn gt_exchange(vault: &Pubkey, owner: &Pubkey) -> Pubkey {
    Pubkey::find_program_address(&[gmsol_store::states::gt::GtExchange::SEED, vault.as_ref(), owner.as_ref()], &gmsol_store::ID).0
}
fn treasury_vault_config(config: &Pubkey, index: u16) -> Pubkey {
    Pubkey::find_program_address(&[gmsol_treasury::states::TreasuryVaultConfig::SEED, config.as_ref(), &index.to_le_bytes()], &gmsol_treasury::ID).0
}
fn gt_bank(tvc: &Pubkey, vault: &Pubkey) -> Pubkey {
    Pubkey::find_program_address(&[gmsol_treasury::states::GtBank::SEED, tvc.as_ref(), vault.as_ref()], &gmsol_treasury::ID).0
}
fn lp_global() -> Pubkey {
    Pubkey::find_program_address(&[gmsol_liquidity_provider::GLOBAL_STATE_SEED], &gmsol_liquidity_provider::ID).0
}
fn lp_controller(mint: &Pubkey, index: u64) -> Pubkey {
    Pubkey::find_program_address(
        &[gmsol_liquidity_provider::LP_TOKEN_CONTROLLER_SEED, lp_global().as_ref(), mint.as_ref(), &index.to_le_bytes()],
        &gmsol_liquidity_provider::ID,
    )
    .0
}
fn competition_pda(payer: &Pubkey, start: i64) -> Pubkey {
    Pubkey::find_program_address(&[gmsol_competition::states::COMPETITION_SEED, payer.as_ref(), &start.to_le_bytes()], &gmsol_competition::ID).0
}
fn participant_pda(competition: &Pubkey, trader: &Pubkey) -> Pubkey {
    Pubkey::find_program_address(&[gmsol_competition::states::PARTICIPANT_SEED, competition.as_ref(), trader.as_ref()], &gmsol_competition::ID).0
}
fn probe_id() -> Pubkey {
    key("probe-program")
}
/// the instruction buffered in the timelock worlds: probe(wallet signer+writable, x writable), data
fn tl_shape(e: &Env) -> (Vec<(Pubkey, bool, bool)>, Vec<u8>) {
    let wallet = tl_wallet(&tl_executor(&e.store, "MARKET_KEEPER"));
    (vec![(wallet, true, true), (key("probe-acc-x"), false, true)], vec![9, 9, 9])
}
fn ix_tl_create(e: &Env, authority: Pubkey, buffer: Pubkey) -> Instruction {
    let (metas, data) = tl_shape(e);
    let mut ix = st::ix_for(
        gmsol_timelock::ID,
        gmsol_timelock::accounts::CreateInstructionBuffer {
            authority,
            store: e.store,
            executor: tl_executor(&e.store, "MARKET_KEEPER"),
            instruction_buffer: buffer,
            instruction_program: probe_id(),
            store_program: gmsol_store::ID,
            system_program: system_program::ID,
        },
        gmsol_timelock::instruction::CreateInstructionBuffer {
            num_accounts: metas.len() as u16,
            data_len: data.len() as u16,
            data,
            signers: metas.iter().enumerate().filter(|(_, m)| m.1).map(|(i, _)| i as u16).collect(),
        },
    );
    for (k, _s, wr) in &metas {
        ix.accounts.push(anchor_lang::solana_program::instruction::AccountMeta { pubkey: *k, is_signer: false, is_writable: *wr });
    }
    ix
}

fn extra_worlds(e: &Env, worlds: &mut HashMap<&'static str, World>, classes: &[(String, Pubkey)], creator: Pubkey) {
    use gmsol_store::accounts as A;
    use gmsol_store::instruction as I;
    let store = e.store;
    let sys = system_program::ID;
    let base = worlds["base"].clone();
    // ---- GT: u1 holds GT, a vault of the current window exists; then a request; then the vault confirmed
    {
        let mut x = base.clone();
        let gtc = key(&format!("signer-{}", RoleKey::GT_CONTROLLER));
        must(
            "mint_gt_reward",
            x.execute(
                &st::ix(
                    A::MintGtReward { authority: gtc, store, user: st::user_pda(&store, &e.u1), event_authority: st::event_authority(&gmsol_store::ID), program: gmsol_store::ID },
                    I::MintGtReward { amount: 1_000_000 },
                ),
                &[gtc],
            ),
        );
        let (vault, idx) = gt_vault(&x, &store);
        must(
            "prepare_gt_exchange_vault",
            x.execute(&st::ix(A::PrepareGtExchangeVault { payer: creator, store, vault, system_program: sys }, I::PrepareGtExchangeVault { time_window_index: idx }), &[creator]),
        );
        worlds.insert("gt", x.clone());
        must(
            "request_gt_exchange",
            x.execute(
                &st::ix(
                    A::RequestGtExchange {
                        owner: e.u1,
                        store,
                        user: st::user_pda(&store, &e.u1),
                        vault,
                        exchange: gt_exchange(&vault, &e.u1),
                        system_program: sys,
                        event_authority: st::event_authority(&gmsol_store::ID),
                        program: gmsol_store::ID,
                    },
                    I::RequestGtExchange { amount: 1_000 },
                ),
                &[e.u1],
            ),
        );
        let s: Store = x.account_data(&store).unwrap();
        let window = s.gt().exchange_time_window() as i64;
        x.advance_clock(window + 1, 10);
        worlds.insert("gt_requested", x.clone());
        let r = x.execute(
            &st::ix(
                A::ConfirmGtExchangeVault { authority: gtc, store, vault, event_authority: st::event_authority(&gmsol_store::ID), program: gmsol_store::ID },
                I::ConfirmGtExchangeVaultV2 { buyback_value: 0, buyback_price: None },
            ),
            &[gtc],
        );
        if r.ok {
            worlds.insert("gt_confirmed", x);
        } else {
            eprintln!("note: confirm_gt_exchange_vault_v2 set-up failed: {}", r.err_name);
        }
    }
    // ---- treasury on top of the GT world: vault config with tokens, GT bank, funded vaults
    if let Some(g) = worlds.get("gt").cloned() {
        use gmsol_treasury::accounts as TA;
        use gmsol_treasury::instruction as TI;
        let tid = gmsol_treasury::ID;
        let mut x = g;
        let config = treasury_config(&store);
        let tadmin = key(&format!("signer-{}", gmsol_treasury::roles::TREASURY_ADMIN));
        let tkeeper = key(&format!("signer-{}", gmsol_treasury::roles::TREASURY_KEEPER));
        must("transfer_receiver -> treasury", x.execute(&ix_transfer_receiver(e, e.admin, treasury_receiver(&config)), &[e.admin]));
        must("treasury initialize_config", x.execute(&ix_treasury_init_config(e, creator), &[creator]));
        let tvc = treasury_vault_config(&config, 0);
        must(
            "initialize_treasury_vault_config",
            x.execute(
                &st::ix_for(
                    tid,
                    TA::InitializeTreasuryVaultConfig { authority: tadmin, store, config, treasury_vault_config: tvc, store_program: gmsol_store::ID, system_program: sys },
                    TI::InitializeTreasuryVaultConfig { index: 0 },
                ),
                &[tadmin],
            ),
        );
        must(
            "insert_token",
            x.execute(
                &st::ix_for(
                    tid,
                    TA::InsertTokenToTreasuryVault { authority: tadmin, store, config, treasury_vault_config: tvc, token: e.mint_x, store_program: gmsol_store::ID },
                    TI::InsertTokenToTreasuryVault {},
                ),
                &[tadmin],
            ),
        );
        for flag in ["allow_deposit", "allow_withdrawal"] {
            must(
                "toggle_token_flag",
                x.execute(
                    &st::ix_for(
                        tid,
                        TA::ToggleTokenFlag { authority: tadmin, store, config, treasury_vault_config: tvc, token: e.mint_x, store_program: gmsol_store::ID },
                        TI::ToggleTokenFlag { flag: flag.into(), value: true },
                    ),
                    &[tadmin],
                ),
            );
        }
        worlds.insert("trs_unset", x.clone());
        must(
            "set_treasury_vault_config",
            x.execute(
                &st::ix_for(
                    tid,
                    TA::SetTreasuryVaultConfig { authority: tadmin, store, config, treasury_vault_config: tvc, store_program: gmsol_store::ID },
                    TI::SetTreasuryVaultConfig {},
                ),
                &[tadmin],
            ),
        );
        // token accounts of the treasury vault / receiver, funded
        for owner in [tvc, treasury_receiver(&config)] {
            let (ata, r) = spl::create_ata(&mut x, &creator, &owner, &e.mint_x);
            must("treasury ata", r);
            must("mint_to", spl::mint_to(&mut x, &e.mint_x, &ata, &creator, 1_000_000));
        }
        for (_, k) in classes {
            let _ = spl::create_ata(&mut x, &creator, k, &e.mint_x);
        }
        worlds.insert("trs", x.clone());
        let (vault, _) = gt_vault(&x, &store);
        let bank = gt_bank(&tvc, &vault);
        let r = x.execute(
            &st::ix_for(
                tid,
                TA::PrepareGtBank { authority: tkeeper, store, config, treasury_vault_config: tvc, gt_exchange_vault: vault, gt_bank: bank, store_program: gmsol_store::ID, system_program: sys },
                TI::PrepareGtBank {},
            ),
            &[tkeeper],
        );
        if r.ok {
            must("gt bank ata", spl::create_ata(&mut x, &creator, &bank, &e.mint_x).1);
            worlds.insert("trs_bank", x);
        } else {
            eprintln!("note: prepare_gt_bank set-up failed: {}", r.err_name);
        }
    }
    // ---- virtual inventories joined / disabled
    {
        let mut x = base.clone();
        must(
            "join vi swaps",
            x.execute(
                &st::ix(
                    A::JoinVirtualInventoryForSwaps { authority: creator, store, token_map: e.m.token_map, virtual_inventory: vi_swaps(&store, 0), market: e.m.market },
                    I::JoinVirtualInventoryForSwaps {},
                ),
                &[creator],
            ),
        );
        worlds.insert("vi_joined", x.clone());
        must(
            "disable vi",
            x.execute(&st::ix(A::DisableVirtualInventory { authority: creator, store, virtual_inventory: vi_swaps(&store, 0) }, I::DisableVirtualInventory {}), &[creator]),
        );
        worlds.insert("vi_disabled", x);
        let mut y = base.clone();
        must(
            "create vi positions",
            y.execute(
                &st::ix(
                    A::CreateVirtualInventoryForPositions {
                        authority: creator,
                        store,
                        index_token: e.m.index_mint,
                        virtual_inventory: vi_positions(&store, &e.m.index_mint),
                        system_program: sys,
                    },
                    I::CreateVirtualInventoryForPositions {},
                ),
                &[creator],
            ),
        );
        worlds.insert("vip", y.clone());
        must(
            "join vi positions",
            y.execute(
                &st::ix(
                    A::JoinOrLeaveVirtualInventoryForPositions { authority: creator, store, virtual_inventory: vi_positions(&store, &e.m.index_mint), market: e.m.market },
                    I::JoinVirtualInventoryForPositions {},
                ),
                &[creator],
            ),
        );
        worlds.insert("vip_joined", y);
    }
    // ---- timelock: MARKET_KEEPER executor, probe program, a created and an approved buffer
    if let Some(t) = worlds.get("timelock").cloned() {
        let mut x = t;
        let boot = key("tl-boot");
        x.register_program(probe_id(), std::rc::Rc::new(|_p: &Pubkey, _a: &'static [anchor_lang::prelude::AccountInfo<'static>], _d: &[u8]| Ok(())));
        must("initialize_executor MK", x.execute(&ix_tl_init_executor(e, boot, "MARKET_KEEPER"), &[boot]));
        let wallet = tl_wallet(&tl_executor(&store, "MARKET_KEEPER"));
        x.airdrop(&wallet, 1_000_000_000);
        x.airdrop(&key("probe-acc-x"), 1_000_000);
        worlds.insert("timelock", x.clone());
        let buffer = key("tl-buffer");
        must("create_instruction_buffer", x.execute(&ix_tl_create(e, boot, buffer), &[boot, buffer]));
        worlds.insert("tl_created", x.clone());
        let approver = key(&format!("signer-{}", gmsol_timelock::roles::TIMELOCKED_MARKET_KEEPER));
        must(
            "approve_instruction",
            x.execute(
                &st::ix_for(
                    gmsol_timelock::ID,
                    gmsol_timelock::accounts::ApproveInstruction {
                        authority: approver,
                        store,
                        executor: tl_executor(&store, "MARKET_KEEPER"),
                        instruction: buffer,
                        store_program: gmsol_store::ID,
                    },
                    gmsol_timelock::instruction::ApproveInstruction { role: "MARKET_KEEPER".into() },
                ),
                &[approver],
            ),
        );
        x.advance_clock(100_000, 100);
        worlds.insert("tl_approved", x);
    }
    // ---- liquidity provider: global state owned by lp-owner; a pending authority; a controller
    {
        let lid = gmsol_liquidity_provider::ID;
        let (owner, next) = (key("lp-owner"), key("lp-next"));
        let mut x = base.clone();
        x.airdrop(&owner, 1_000_000_000_000);
        x.airdrop(&next, 1_000_000_000_000);
        let r = x.execute(
            &st::ix_for(
                lid,
                gmsol_liquidity_provider::accounts::Initialize { global_state: lp_global(), authority: owner, system_program: sys },
                gmsol_liquidity_provider::instruction::Initialize { min_stake_value: 1, initial_apy: 0 },
            ),
            &[owner],
        );
        if r.ok {
            worlds.insert("lp", x.clone());
            let mut y = x.clone();
            must(
                "lp transfer_authority",
                y.execute(
                    &st::ix_for(
                        lid,
                        gmsol_liquidity_provider::accounts::TransferAuthority { global_state: lp_global(), authority: owner },
                        gmsol_liquidity_provider::instruction::TransferAuthority { new_authority: next },
                    ),
                    &[owner],
                ),
            );
            worlds.insert("lp_pending", y);
            let r = x.execute(
                &st::ix_for(
                    lid,
                    gmsol_liquidity_provider::accounts::CreateLpTokenController {
                        global_state: lp_global(),
                        controller: lp_controller(&e.m.market_token_mint, 0),
                        authority: owner,
                        system_program: sys,
                    },
                    gmsol_liquidity_provider::instruction::CreateLpTokenController { lp_token_mint: e.m.market_token_mint, controller_index: 0 },
                ),
                &[owner],
            );
            if r.ok {
                worlds.insert("lp_ctrl", x);
            } else {
                eprintln!("note: create_lp_token_controller set-up failed: {}", r.err_name);
            }
        } else {
            eprintln!("note: liquidity-provider initialize set-up failed: {}", r.err_name);
        }
    }
    // ---- competition: a competition that has not started yet, u1 participates
    {
        let cid = gmsol_competition::ID;
        let owner = key("comp-owner");
        let mut x = base.clone();
        x.airdrop(&owner, 1_000_000_000_000);
        let start = x.clock().0 + 1_000;
        let comp = competition_pda(&owner, start);
        let r = x.execute(
            &st::ix_for(
                cid,
                gmsol_competition::accounts::InitializeCompetition { payer: owner, competition: comp, system_program: sys },
                gmsol_competition::instruction::InitializeCompetition {
                    start_time: start,
                    end_time: start + 1_000,
                    volume_threshold: 1,
                    extension_duration: 1,
                    extension_cap: 1,
                    only_count_increase: false,
                    volume_merge_window: 1,
                },
            ),
            &[owner],
        );
        if r.ok {
            must(
                "create_participant",
                x.execute(
                    &st::ix_for(
                        cid,
                        gmsol_competition::accounts::CreateParticipantIdempotent {
                            payer: owner,
                            competition: comp,
                            participant: participant_pda(&comp, &e.u1),
                            trader: e.u1,
                            system_program: sys,
                        },
                        gmsol_competition::instruction::CreateParticipantIdempotent {},
                    ),
                    &[owner],
                ),
            );
            worlds.insert("comp", x);
        } else {
            eprintln!("note: initialize_competition set-up failed: {}", r.err_name);
        }
    }
    let _ = classes;
}

fn extra_cases(v: &mut Vec<Case>, env: &Env) {
    use gmsol_store::accounts as A;
    use gmsol_store::instruction as I;
    let sys = system_program::ID;
    // ---- read-only getters (open)
    case!(v, "store.check_admin", "base", None, |e, a| (st::ix(A::CheckRole { authority: a, store: e.store }, I::CheckAdmin {}), vec![]));
    case!(v, "store.check_role", "base", None, |e, a| (st::ix(A::CheckRole { authority: a, store: e.store }, I::CheckRole { role: RoleKey::ORDER_KEEPER.into() }), vec![]));
    caser!(v, "store.has_admin", "base", None, |e, w, a| w.execute(&st::ix(A::HasRole { store: e.store }, I::HasAdmin { authority: a }), &[]));
    caser!(v, "store.has_role", "base", None, |e, w, a| w.execute(&st::ix(A::HasRole { store: e.store }, I::HasRole { authority: a, role: RoleKey::ORDER_KEEPER.into() }), &[]));
    caser!(v, "store.is_token_config_enabled", "base", None, |e, w, _a| w.execute(&st::ix(A::ReadTokenMap { token_map: e.m.token_map }, I::IsTokenConfigEnabled { token: e.mint_x }), &[]));
    caser!(v, "store.token_expected_provider", "base", None, |e, w, _a| w.execute(&st::ix(A::ReadTokenMap { token_map: e.m.token_map }, I::TokenExpectedProvider { token: e.mint_x }), &[]));
    caser!(v, "store.token_feed", "base", None, |e, w, _a| w.execute(&st::ix(A::ReadTokenMap { token_map: e.m.token_map }, I::TokenFeed { token: e.mint_x, provider: 0 }), &[]));
    caser!(v, "store.token_timestamp_adjustment", "base", None, |e, w, _a| w.execute(
        &st::ix(A::ReadTokenMap { token_map: e.m.token_map }, I::TokenTimestampAdjustment { token: e.mint_x, provider: 0 }),
        &[]
    ));
    caser!(v, "store.token_name", "base", None, |e, w, _a| w.execute(&st::ix(A::ReadTokenMap { token_map: e.m.token_map }, I::TokenName { token: e.mint_x }), &[]));
    caser!(v, "store.token_decimals", "base", None, |e, w, _a| w.execute(&st::ix(A::ReadTokenMap { token_map: e.m.token_map }, I::TokenDecimals { token: e.mint_x }), &[]));
    caser!(v, "store.token_precision", "base", None, |e, w, _a| w.execute(&st::ix(A::ReadTokenMap { token_map: e.m.token_map }, I::TokenPrecision { token: e.mint_x }), &[]));
    // ---- GT exchange
    caser!(v, "store.prepare_gt_exchange_vault", "gt_requested", None, |e, w, a| {
        let (vault, idx) = gt_vault(w, &e.store);
        w.execute(&st::ix(A::PrepareGtExchangeVault { payer: a, store: e.store, vault, system_program: sys }, I::PrepareGtExchangeVault { time_window_index: idx }), &[a])
    });
    caser!(v, "store.request_gt_exchange", "gt", Some(key("u1")), |e, w, a| {
        let (vault, _) = gt_vault(w, &e.store);
        w.execute(
            &st::ix(
                A::RequestGtExchange {
                    owner: a,
                    store: e.store,
                    user: st::user_pda(&e.store, &e.u1),
                    vault,
                    exchange: gt_exchange(&vault, &e.u1),
                    system_program: sys,
                    event_authority: st::event_authority(&gmsol_store::ID),
                    program: gmsol_store::ID,
                },
                I::RequestGtExchange { amount: 500 },
            ),
            &[a],
        )
    });
    caser!(v, "store.confirm_gt_exchange_vault_v2", "gt_requested", None, |e, w, a| {
        let base = &e.worlds["gt"];
        let (vault, _) = gt_vault(base, &e.store);
        w.execute(
            &st::ix(
                A::ConfirmGtExchangeVault { authority: a, store: e.store, vault, event_authority: st::event_authority(&gmsol_store::ID), program: gmsol_store::ID },
                I::ConfirmGtExchangeVaultV2 { buyback_value: 0, buyback_price: None },
            ),
            &[a],
        )
    });
    caser!(v, "store.close_gt_exchange", "gt_confirmed", None, |e, w, a| {
        let base = &e.worlds["gt"];
        let (vault, _) = gt_vault(base, &e.store);
        w.execute(
            &st::ix(A::CloseGtExchange { authority: a, store: e.store, owner: e.u1, vault, exchange: gt_exchange(&vault, &e.u1) }, I::CloseGtExchange {}),
            &[a],
        )
    });
    // ---- virtual inventories
    case!(v, "store.leave_virtual_inventory_for_swaps", "vi_joined", None, |e, a| (
        st::ix(A::LeaveVirtualInventoryForSwaps { authority: a, store: e.store, virtual_inventory: vi_swaps(&e.store, 0), market: e.m.market }, I::LeaveVirtualInventoryForSwaps {}),
        vec![]
    ));
    case!(v, "store.leave_disabled_virtual_inventory", "vi_disabled", None, |e, a| (
        st::ix(A::LeaveDisabledVirtualInventory { authority: a, store: e.store, virtual_inventory: vi_swaps(&e.store, 0), market: e.m.market }, I::LeaveDisabledVirtualInventory {}),
        vec![]
    ));
    case!(v, "store.join_virtual_inventory_for_positions", "vip", None, |e, a| (
        st::ix(
            A::JoinOrLeaveVirtualInventoryForPositions { authority: a, store: e.store, virtual_inventory: vi_positions(&e.store, &e.m.index_mint), market: e.m.market },
            I::JoinVirtualInventoryForPositions {}
        ),
        vec![]
    ));
    case!(v, "store.leave_virtual_inventory_for_positions", "vip_joined", None, |e, a| (
        st::ix(
            A::JoinOrLeaveVirtualInventoryForPositions { authority: a, store: e.store, virtual_inventory: vi_positions(&e.store, &e.m.index_mint), market: e.m.market },
            I::LeaveVirtualInventoryForPositions {}
        ),
        vec![]
    ));
    // ---- timelock buffers
    {
        use gmsol_timelock::accounts as LA;
        use gmsol_timelock::instruction as LI;
        let lid = gmsol_timelock::ID;
        case!(v, "timelock.initialize_executor", "timelock", None, |e, a| (ix_tl_init_executor(e, a, "ORDER_KEEPER"), vec![]));
        case!(v, "timelock.create_instruction_buffer", "timelock", None, |e, a| {
            let b = key(&format!("tlbuf-{a}"));
            (ix_tl_create(e, a, b), vec![b])
        });
        case!(v, "timelock.approve_instruction", "tl_created", None, |e, a| (
            st::ix_for(
                lid,
                LA::ApproveInstruction { authority: a, store: e.store, executor: tl_executor(&e.store, "MARKET_KEEPER"), instruction: key("tl-buffer"), store_program: gmsol_store::ID },
                LI::ApproveInstruction { role: "MARKET_KEEPER".into() }
            ),
            vec![]
        ));
        case!(v, "timelock.approve_instructions", "tl_created", None, |e, a| {
            let mut ix = st::ix_for(
                lid,
                LA::ApproveInstructions { authority: a, store: e.store, executor: tl_executor(&e.store, "MARKET_KEEPER"), store_program: gmsol_store::ID },
                LI::ApproveInstructions { role: "MARKET_KEEPER".into() },
            );
            ix.accounts.push(anchor_lang::solana_program::instruction::AccountMeta::new(key("tl-buffer"), false));
            (ix, vec![])
        });
        case!(v, "timelock.cancel_instruction", "tl_created", None, |e, a| (
            st::ix_for(
                lid,
                LA::CancelInstruction {
                    authority: a,
                    store: e.store,
                    executor: tl_executor(&e.store, "MARKET_KEEPER"),
                    rent_receiver: key("tl-boot"),
                    instruction: key("tl-buffer"),
                    store_program: gmsol_store::ID
                },
                LI::CancelInstruction {}
            ),
            vec![]
        ));
        case!(v, "timelock.cancel_instructions", "tl_created", None, |e, a| {
            let mut ix = st::ix_for(
                lid,
                LA::CancelInstructions { authority: a, store: e.store, executor: tl_executor(&e.store, "MARKET_KEEPER"), rent_receiver: key("tl-boot"), store_program: gmsol_store::ID },
                LI::CancelInstructions {},
            );
            ix.accounts.push(anchor_lang::solana_program::instruction::AccountMeta::new(key("tl-buffer"), false));
            (ix, vec![])
        });
        case!(v, "timelock.execute_instruction", "tl_approved", None, |e, a| {
            let ex = tl_executor(&e.store, "MARKET_KEEPER");
            let mut ix = st::ix_for(
                lid,
                LA::ExecuteInstruction {
                    authority: a,
                    store: e.store,
                    timelock_config: tl_config(&e.store),
                    executor: ex,
                    wallet: tl_wallet(&ex),
                    rent_receiver: key("tl-boot"),
                    instruction: key("tl-buffer"),
                    store_program: gmsol_store::ID,
                },
                LI::ExecuteInstruction {},
            );
            for (k, _s, wr) in tl_shape(e).0 {
                ix.accounts.push(anchor_lang::solana_program::instruction::AccountMeta { pubkey: k, is_signer: false, is_writable: wr });
            }
            ix.accounts.push(anchor_lang::solana_program::instruction::AccountMeta::new_readonly(probe_id(), false));
            (ix, vec![])
        });
        case!(v, "timelock.revoke_role", "timelock", None, |e, a| {
            let ex = tl_executor(&e.store, "ADMIN");
            (
                st::ix_for(
                    lid,
                    LA::RevokeRole {
                        authority: a,
                        store: e.store,
                        executor: ex,
                        wallet: tl_wallet(&ex),
                        user: key(&format!("signer-{}", RoleKey::PRICE_KEEPER)),
                        store_program: gmsol_store::ID,
                    },
                    LI::RevokeRole { role: RoleKey::PRICE_KEEPER.into() },
                ),
                vec![],
            )
        });
        case!(v, "timelock.set_expected_price_provider", "timelock", None, |e, a| {
            let ex = tl_executor(&e.store, "MARKET_KEEPER");
            (
                st::ix_for(
                    lid,
                    LA::SetExpectedPriceProvider {
                        authority: a,
                        store: e.store,
                        token_map: e.m.token_map,
                        executor: ex,
                        wallet: tl_wallet(&ex),
                        token: e.mint_x,
                        store_program: gmsol_store::ID,
                        system_program: system_program::ID,
                    },
                    LI::SetExpectedPriceProvider { new_expected_price_provider: 1 },
                ),
                vec![],
            )
        });
    }
    // ---- treasury vault administration
    {
        use gmsol_treasury::accounts as TA;
        use gmsol_treasury::instruction as TI;
        let tid = gmsol_treasury::ID;
        case!(v, "treasury.initialize_config", "treasury_pre", None, |e, a| (ix_treasury_init_config(e, a), vec![]));
        case!(v, "treasury.set_treasury_vault_config", "trs_unset", None, |e, a| {
            let config = treasury_config(&e.store);
            (
                st::ix_for(
                    tid,
                    TA::SetTreasuryVaultConfig { authority: a, store: e.store, config, treasury_vault_config: treasury_vault_config(&config, 0), store_program: gmsol_store::ID },
                    TI::SetTreasuryVaultConfig {},
                ),
                vec![],
            )
        });
        case!(v, "treasury.insert_token_to_treasury_vault", "trs", None, |e, a| {
            let config = treasury_config(&e.store);
            (
                st::ix_for(
                    tid,
                    TA::InsertTokenToTreasuryVault {
                        authority: a,
                        store: e.store,
                        config,
                        treasury_vault_config: treasury_vault_config(&config, 0),
                        token: e.mint_y,
                        store_program: gmsol_store::ID,
                    },
                    TI::InsertTokenToTreasuryVault {},
                ),
                vec![],
            )
        });
        case!(v, "treasury.remove_token_from_treasury_vault", "trs", None, |e, a| {
            let config = treasury_config(&e.store);
            (
                st::ix_for(
                    tid,
                    TA::RemoveTokenFromTreasuryVault {
                        authority: a,
                        store: e.store,
                        config,
                        treasury_vault_config: treasury_vault_config(&config, 0),
                        token: e.mint_x,
                        store_program: gmsol_store::ID,
                    },
                    TI::RemoveTokenFromTreasuryVault {},
                ),
                vec![],
            )
        });
        case!(v, "treasury.toggle_token_flag", "trs", None, |e, a| {
            let config = treasury_config(&e.store);
            (
                st::ix_for(
                    tid,
                    TA::ToggleTokenFlag { authority: a, store: e.store, config, treasury_vault_config: treasury_vault_config(&config, 0), token: e.mint_x, store_program: gmsol_store::ID },
                    TI::ToggleTokenFlag { flag: "allow_deposit".into(), value: false },
                ),
                vec![],
            )
        });
        caser!(v, "treasury.prepare_gt_bank", "trs", None, |e, w, a| {
            let config = treasury_config(&e.store);
            let tvc = treasury_vault_config(&config, 0);
            let (vault, _) = gt_vault(w, &e.store);
            w.execute(
                &st::ix_for(
                    tid,
                    TA::PrepareGtBank {
                        authority: a,
                        store: e.store,
                        config,
                        treasury_vault_config: tvc,
                        gt_exchange_vault: vault,
                        gt_bank: gt_bank(&tvc, &vault),
                        store_program: gmsol_store::ID,
                        system_program: system_program::ID,
                    },
                    TI::PrepareGtBank {},
                ),
                &[a],
            )
        });
        caser!(v, "treasury.withdraw_from_treasury_vault", "trs", None, |e, w, a| {
            let config = treasury_config(&e.store);
            let tvc = treasury_vault_config(&config, 0);
            w.execute(
                &st::ix_for(
                    tid,
                    TA::WithdrawFromTreasuryVault {
                        authority: a,
                        store: e.store,
                        config,
                        treasury_vault_config: tvc,
                        token: e.mint_x,
                        treasury_vault: spl::ata(&tvc, &e.mint_x),
                        target: spl::ata(&a, &e.mint_x),
                        store_program: gmsol_store::ID,
                        token_program: spl_token::ID,
                    },
                    TI::WithdrawFromTreasuryVault { amount: 10, decimals: 8 },
                ),
                &[a],
            )
        });
        caser!(v, "treasury.deposit_to_treasury_vault", "trs_bank", None, |e, w, a| {
            let config = treasury_config(&e.store);
            let tvc = treasury_vault_config(&config, 0);
            let (vault, _) = gt_vault(w, &e.store);
            let bank = gt_bank(&tvc, &vault);
            let receiver = treasury_receiver(&config);
            w.execute(
                &st::ix_for(
                    tid,
                    TA::DepositToTreasuryVault {
                        authority: a,
                        store: e.store,
                        config,
                        treasury_vault_config: tvc,
                        receiver,
                        gt_exchange_vault: vault,
                        gt_bank: bank,
                        token: e.mint_x,
                        receiver_vault: spl::ata(&receiver, &e.mint_x),
                        treasury_vault: spl::ata(&tvc, &e.mint_x),
                        gt_bank_vault: spl::ata(&bank, &e.mint_x),
                        store_program: gmsol_store::ID,
                        token_program: spl_token::ID,
                        associated_token_program: spl_associated_token_account::ID,
                    },
                    TI::DepositToTreasuryVault {},
                ),
                &[a],
            )
        });
        caser!(v, "treasury.sync_gt_bank_v2", "trs_bank", None, |e, w, a| {
            let config = treasury_config(&e.store);
            let tvc = treasury_vault_config(&config, 0);
            let (vault, _) = gt_vault(w, &e.store);
            let bank = gt_bank(&tvc, &vault);
            w.execute(
                &st::ix_for(
                    tid,
                    TA::SyncGtBank {
                        authority: a,
                        store: e.store,
                        config,
                        treasury_vault_config: tvc,
                        gt_bank: bank,
                        token: e.mint_x,
                        treasury_vault: spl::ata(&tvc, &e.mint_x),
                        gt_bank_vault: spl::ata(&bank, &e.mint_x),
                        store_program: gmsol_store::ID,
                        token_program: spl_token::ID,
                        associated_token_program: spl_associated_token_account::ID,
                    },
                    TI::SyncGtBankV2 {},
                ),
                &[a],
            )
        });
        caser!(v, "treasury.claim_fees", "trs", None, |e, w, a| {
            let config = treasury_config(&e.store);
            let receiver = treasury_receiver(&config);
            let mint = e.m.long_mint;
            w.execute(
                &st::ix_for(
                    tid,
                    TA::ClaimFees {
                        authority: a,
                        store: e.store,
                        config,
                        receiver,
                        market: e.m.market,
                        token: mint,
                        vault: e.m.long_vault,
                        receiver_vault: spl::ata(&receiver, &mint),
                        event_authority: st::event_authority(&gmsol_store::ID),
                        store_program: gmsol_store::ID,
                        token_program: spl_token::ID,
                        associated_token_program: spl_associated_token_account::ID,
                        system_program: system_program::ID,
                    },
                    TI::ClaimFees { min_amount: 0 },
                ),
                &[a],
            )
        });
    }
    // ---- liquidity provider administration (owner = the global state's authority)
    {
        use gmsol_liquidity_provider::accounts as PA;
        use gmsol_liquidity_provider::instruction as PI;
        let lid = gmsol_liquidity_provider::ID;
        let owner = Some(key("lp-owner"));
        case!(v, "liquidity_provider.initialize", "base", None, |_e, a| (
            st::ix_for(lid, PA::Initialize { global_state: lp_global(), authority: a, system_program: system_program::ID }, PI::Initialize { min_stake_value: 1, initial_apy: 0 }),
            vec![]
        ));
        case!(v, "liquidity_provider.set_claim_enabled", "lp", owner, |_e, a| (
            st::ix_for(lid, PA::SetClaimEnabled { global_state: lp_global(), authority: a }, PI::SetClaimEnabled { enabled: true }),
            vec![]
        ));
        case!(v, "liquidity_provider.set_pricing_staleness", "lp", owner, |_e, a| (
            st::ix_for(lid, PA::SetPricingStaleness { global_state: lp_global(), authority: a }, PI::SetPricingStaleness { staleness_seconds: 77 }),
            vec![]
        ));
        case!(v, "liquidity_provider.update_apy_gradient_sparse", "lp", owner, |_e, a| (
            st::ix_for(lid, PA::UpdateApyGradient { global_state: lp_global(), authority: a }, PI::UpdateApyGradientSparse { bucket_indices: vec![1], apy_values: vec![5] }),
            vec![]
        ));
        case!(v, "liquidity_provider.update_apy_gradient_range", "lp", owner, |_e, a| (
            st::ix_for(lid, PA::UpdateApyGradient { global_state: lp_global(), authority: a }, PI::UpdateApyGradientRange { start_bucket: 0, end_bucket: 1, apy_values: vec![5, 6] }),
            vec![]
        ));
        case!(v, "liquidity_provider.update_min_stake_value", "lp", owner, |_e, a| (
            st::ix_for(lid, PA::UpdateMinStakeValue { global_state: lp_global(), authority: a }, PI::UpdateMinStakeValue { new_min_stake_value: 9 }),
            vec![]
        ));
        case!(v, "liquidity_provider.transfer_authority", "lp", owner, |_e, a| (
            st::ix_for(lid, PA::TransferAuthority { global_state: lp_global(), authority: a }, PI::TransferAuthority { new_authority: key("someone") }),
            vec![]
        ));
        case!(v, "liquidity_provider.accept_authority", "lp_pending", Some(key("lp-next")), |_e, a| (
            st::ix_for(lid, PA::AcceptAuthority { global_state: lp_global(), pending_authority: a }, PI::AcceptAuthority {}),
            vec![]
        ));
        case!(v, "liquidity_provider.create_lp_token_controller", "lp", owner, |e, a| (
            st::ix_for(
                lid,
                PA::CreateLpTokenController { global_state: lp_global(), controller: lp_controller(&e.mint_x, 3), authority: a, system_program: system_program::ID },
                PI::CreateLpTokenController { lp_token_mint: e.mint_x, controller_index: 3 }
            ),
            vec![]
        ));
        case!(v, "liquidity_provider.disable_lp_token_controller", "lp_ctrl", owner, |e, a| (
            st::ix_for(
                lid,
                PA::DisableLpTokenController {
                    global_state: lp_global(),
                    controller: lp_controller(&e.m.market_token_mint, 0),
                    gt_store: e.store,
                    gt_program: gmsol_store::ID,
                    authority: a
                },
                PI::DisableLpTokenController {}
            ),
            vec![]
        ));
    }
    // ---- competition
    {
        use gmsol_competition::accounts as CA;
        use gmsol_competition::instruction as CI;
        let cid = gmsol_competition::ID;
        case!(v, "competition.initialize_competition", "base", None, |_e, a| {
            let start = 1_800_000_000i64;
            (
                st::ix_for(
                    cid,
                    CA::InitializeCompetition { payer: a, competition: competition_pda(&a, start), system_program: system_program::ID },
                    CI::InitializeCompetition {
                        start_time: start,
                        end_time: start + 1_000,
                        volume_threshold: 1,
                        extension_duration: 1,
                        extension_cap: 1,
                        only_count_increase: false,
                        volume_merge_window: 1,
                    },
                ),
                vec![],
            )
        });
        caser!(v, "competition.create_participant_idempotent", "comp", None, |_e, w, a| {
            let comp = competition_pda(&key("comp-owner"), w.clock().0 + 1_000);
            w.execute(
                &st::ix_for(
                    cid,
                    CA::CreateParticipantIdempotent { payer: a, competition: comp, participant: participant_pda(&comp, &key("u2")), trader: key("u2"), system_program: system_program::ID },
                    CI::CreateParticipantIdempotent {},
                ),
                &[a],
            )
        });
        caser!(v, "competition.close_participant", "comp", Some(key("u1")), |e, w, a| {
            let comp = competition_pda(&key("comp-owner"), w.clock().0 + 1_000);
            w.execute(
                &st::ix_for(cid, CA::CloseParticipant { trader: a, competition: comp, participant: participant_pda(&comp, &e.u1) }, CI::CloseParticipant {}),
                &[a],
            )
        });
        // the trade callbacks only accept the store's callback-authority PDA as signer
        caser!(v, "competition.on_created", "comp", None, |e, w, a| {
            let comp = competition_pda(&key("comp-owner"), w.clock().0 + 1_000);
            w.execute(
                &st::ix_for(
                    cid,
                    CA::OnCreated { authority: a, competition: comp, participant: participant_pda(&comp, &e.u1), trader: e.u1, action: key("some-action") },
                    CI::OnCreated { authority_bump: 255, action_kind: 0, callback_version: 0, extra_account_count: 0 },
                ),
                &[a],
            )
        });
        caser!(v, "competition.on_updated", "comp", None, |e, w, a| {
            let comp = competition_pda(&key("comp-owner"), w.clock().0 + 1_000);
            w.execute(
                &st::ix_for(
                    cid,
                    CA::OnCallback { authority: a, competition: comp, participant: participant_pda(&comp, &e.u1), trader: e.u1, action: key("some-action") },
                    CI::OnUpdated { _authority_bump: 255, _action_kind: 0, _callback_version: 0, _extra_account_count: 0 },
                ),
                &[a],
            )
        });
        caser!(v, "competition.on_closed", "comp", None, |e, w, a| {
            let comp = competition_pda(&key("comp-owner"), w.clock().0 + 1_000);
            w.execute(
                &st::ix_for(
                    cid,
                    CA::OnCallback { authority: a, competition: comp, participant: participant_pda(&comp, &e.u1), trader: e.u1, action: key("some-action") },
                    CI::OnClosed { _authority_bump: 255, _action_kind: 0, _callback_version: 0, _extra_account_count: 0 },
                ),
                &[a],
            )
        });
        caser!(v, "competition.on_executed", "comp", None, |e, w, a| {
            let comp = competition_pda(&key("comp-owner"), w.clock().0 + 1_000);
            w.execute(
                &st::ix_for(
                    cid,
                    CA::OnExecuted {
                        authority: a,
                        competition: comp,
                        participant: participant_pda(&comp, &e.u1),
                        trader: e.u1,
                        action: key("some-action"),
                        position: key("some-position"),
                        trade_event: None,
                    },
                    CI::OnExecuted { authority_bump: 255, action_kind: 0, callback_version: 0, success: true, extra_account_count: 0 },
                ),
                &[a],
            )
        });
    }
    let _ = sys;
}

fn measure(args: &Args) {
    let mut sink = Sink::create(&args.str("out", "trace.ndjson"));
    let env = Env::new();
    let mut all = cases(&env);
    extra_cases(&mut all, &env);
    r2_cases(&mut all, &env);
    let only = args.get("only").map(|s| s.to_string());
    for c in &all {
        if let Some(o) = &only {
            if !c.name.contains(o.as_str()) {
                continue;
            }
        }
        let Some(base) = env.worlds.get(c.world) else { continue };
        let mut classes: Vec<(String, Pubkey)> = env.classes.clone();
        if let Some(o) = c.owner {
            classes.push(("owner".to_string(), o));
        }
        for (label, signer) in &classes {
            let mut w = base.clone();
            if let Some(p) = &c.prep {
                p(&env, &mut w, *signer);
            }
            let d0 = w.digest();
            let r = (c.run)(&env, &mut w, *signer);
            let db_changed = w.digest() != d0;
            sink.emit(json!({
                "instr": c.name, "class": label, "ok": r.ok, "err": r.label(), "code": r.err_code.map(|c| c as i64).unwrap_or(-1),
                "panic": r.panic, "changed_before_rollback": r.changed_before_rollback, "db_changed": db_changed, "world": c.world,
                "runtime_error": r.runtime_error.clone().unwrap_or_default(),
            }));
            if args.get("verbose").is_some() && !r.ok {
                eprintln!("{} {}: {} {:?}", c.name, label, r.err_name, r.runtime_error);
            }
        }
    }
    let n = sink.finish();
    println!("{}", json!({"events": n, "cases": all.len(), "classes": env.classes.len()}));
    // keep the unused-import lints quiet for types only used in some configurations
    let _ = std::mem::size_of::<Market>();
}

fn main() {
    let (mode, args) = Args::from_env();
    match mode.as_str() {
        "measure" => measure(&args),
        _ => {
            eprintln!("modes: measure");
            std::process::exit(2);
        }
    }
}
