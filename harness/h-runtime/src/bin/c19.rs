//! C19 driver: measures which signers each privileged instruction accepts, by executing the REAL
//! instruction through the in-process runtime with a valid account set, once per signer class:
//!   "admin" (store authority), "none" (no role at all), "role:<R>" for every role R of the pool (a
//!   signer holding exactly R), and for owner-gated instructions "owner" (the address recorded in the
//!   account the instruction acts on). Every attempt runs on a fresh copy of a prepared world.
//!
//! mode  measure --out trace.ndjson
//! event {instr, class, ok, err, code, panic, changed_before_rollback, db_changed, world}
//! `db_changed` = the account database digest differs after the attempt (must be false when rejected).
use anchor_lang::solana_program::{instruction::Instruction, pubkey::Pubkey, system_program};
use gmsol_store::states::{Market, RoleKey, Seed, Store};
use gmsol_utils::token_config::UpdateTokenConfigParams;
use h_runtime::runtime::{keys::key, market as mk, spl, store as st, Account, World};
use h_runtime::util::{Args, Sink};
use serde_json::json;
use std::collections::HashMap;

const STORE_ROLES: [&str; 10] = [
    RoleKey::MARKET_KEEPER,
    RoleKey::MARKET_CONFIG_KEEPER,
    RoleKey::ORDER_KEEPER,
    RoleKey::CONFIG_KEEPER,
    RoleKey::FEATURE_KEEPER,
    RoleKey::GT_CONTROLLER,
    RoleKey::ORACLE_CONTROLLER,
    RoleKey::PRICE_KEEPER,
    RoleKey::MIGRATION_KEEPER,
    RoleKey::RESTART_ADMIN,
];
const OTHER_ROLES: [&str; 8] = [
    gmsol_treasury::roles::TREASURY_OWNER,
    gmsol_treasury::roles::TREASURY_ADMIN,
    gmsol_treasury::roles::TREASURY_KEEPER,
    gmsol_treasury::roles::TREASURY_WITHDRAWER,
    gmsol_timelock::roles::TIMELOCK_ADMIN,
    gmsol_timelock::roles::TIMELOCK_KEEPER,
    gmsol_timelock::roles::TIMELOCKED_ADMIN,
    gmsol_timelock::roles::TIMELOCKED_MARKET_KEEPER,
];

struct Env {
    worlds: HashMap<&'static str, World>,
    store: Pubkey,
    admin: Pubkey,
    m: mk::MarketEnv,
    token_map2: Pubkey,
    mint_x: Pubkey,
    mint_y: Pubkey,
    u1: Pubkey,
    code1: [u8; 8],
    /// (class label, signer key)
    classes: Vec<(String, Pubkey)>,
}

type Build = Box<dyn Fn(&Env, Pubkey) -> (Instruction, Vec<Pubkey>)>;

struct Case {
    name: &'static str,
    world: &'static str,
    /// owner-gated instructions: the key that owns / is named by the target account
    owner: Option<Pubkey>,
    build: Build,
}

fn must(what: &str, r: h_runtime::runtime::ExecResult) {
    assert!(r.ok, "{what} failed: {} {:?}\n{}", r.err_name, r.runtime_error, r.logs.join("\n"));
}

fn oracle_of(authority: &Pubkey) -> Pubkey {
    key(&format!("oracle-{authority}"))
}

fn buffer_of(authority: &Pubkey) -> Pubkey {
    key(&format!("buffer-{authority}"))
}

fn treasury_config(store: &Pubkey) -> Pubkey {
    Pubkey::find_program_address(&[gmsol_treasury::states::Config::SEED, store.as_ref()], &gmsol_treasury::ID).0
}
fn treasury_receiver(config: &Pubkey) -> Pubkey {
    Pubkey::find_program_address(&[gmsol_treasury::constants::RECEIVER_SEED, config.as_ref()], &gmsol_treasury::ID).0
}
fn tl_executor(store: &Pubkey, role: &str) -> Pubkey {
    let name = gmsol_utils::fixed_str::fixed_str_to_bytes::<32>(role).unwrap();
    Pubkey::find_program_address(&[gmsol_timelock::states::Executor::SEED, store.as_ref(), &name], &gmsol_timelock::ID).0
}
fn tl_wallet(executor: &Pubkey) -> Pubkey {
    Pubkey::find_program_address(&[gmsol_timelock::states::Executor::WALLET_SEED, executor.as_ref()], &gmsol_timelock::ID).0
}
fn tl_config(store: &Pubkey) -> Pubkey {
    Pubkey::find_program_address(&[gmsol_timelock::states::TimelockConfig::SEED, store.as_ref()], &gmsol_timelock::ID).0
}
fn vi_swaps(store: &Pubkey, index: u32) -> Pubkey {
    Pubkey::find_program_address(
        &[gmsol_store::states::market::virtual_inventory::VIRTUAL_INVENTORY_FOR_SWAPS_SEED, store.as_ref(), &index.to_le_bytes()],
        &gmsol_store::ID,
    )
    .0
}
fn vi_positions(store: &Pubkey, index_token: &Pubkey) -> Pubkey {
    Pubkey::find_program_address(
        &[gmsol_store::states::market::virtual_inventory::VIRTUAL_INVENTORY_FOR_POSITIONS_SEED, store.as_ref(), index_token.as_ref()],
        &gmsol_store::ID,
    )
    .0
}

impl Env {
    fn new() -> Env {
        let mut w = World::new();
        let admin = key("admin");
        let all_roles: Vec<&str> = STORE_ROLES.iter().chain(OTHER_ROLES.iter()).copied().collect();
        // The role table is written with the real `Store` methods, not with the enable_role / grant_role
        // instructions, and every set-up instruction below is signed by the store authority while it
        // temporarily holds EVERY role: a weakened or changed access check on a set-up instruction
        // therefore cannot break the construction of the world (it shows up in the measurement).
        let mut empty = w.clone();
        let (store, init_ok) = st::bootstrap_fab(&mut w, &admin, &all_roles, &[]);
        if !init_ok {
            eprintln!("note: `initialize` was rejected for the store authority; store fabricated with Store::init");
        }
        for r in &all_roles {
            assert!(st::fab_grant_role(&mut w, &store, &admin, r), "Store::grant {r} to admin");
        }
        let mut classes = vec![("admin".to_string(), admin), ("none".to_string(), key("signer-none"))];
        for r in &all_roles {
            let k = key(&format!("signer-{r}"));
            assert!(st::fab_grant_role(&mut w, &store, &k, r), "Store::grant {r}");
            classes.push((format!("role:{r}"), k));
        }
        for k in ["owner-next-auth", "owner-recv", "owner-recv2", "owner-buf", "u1", "u2", "stranger"] {
            w.airdrop(&key(k), 1_000_000_000_000);
        }
        for (_, k) in &classes {
            w.airdrop(k, 1_000_000_000_000);
        }
        let creator = admin;
        let m = mk::setup_market(&mut w, &store, &admin, &creator, "c19");
        // a second token map, spare mints (x: in the token map with a vault, y: fresh)
        let token_map2 = key("token_map2");
        must(
            "initialize_token_map 2",
            w.execute(
                &st::ix(
                    gmsol_store::accounts::InitializeTokenMap { payer: creator, store, token_map: token_map2, system_program: system_program::ID },
                    gmsol_store::instruction::InitializeTokenMap {},
                ),
                &[creator, token_map2],
            ),
        );
        let (mint_x, mint_y) = (key("mint-x"), key("mint-y"));
        must("mint x", spl::create_mint(&mut w, &creator, &mint_x, 8, &creator));
        must("mint y", spl::create_mint(&mut w, &creator, &mint_y, 6, &creator));
        must(
            "push x",
            w.execute(
                &st::ix(
                    gmsol_store::accounts::PushToTokenMap { authority: creator, store, token_map: m.token_map, token: mint_x, system_program: system_program::ID },
                    gmsol_store::instruction::PushToTokenMap { name: "X".into(), builder: UpdateTokenConfigParams::default(), enable: true, new: true },
                ),
                &[creator],
            ),
        );
        must(
            "vault x",
            w.execute(
                &st::ix(
                    gmsol_store::accounts::InitializeMarketVault {
                        authority: creator,
                        store,
                        mint: mint_x,
                        vault: mk::market_vault_pda(&store, &mint_x),
                        system_program: system_program::ID,
                        token_program: spl_token::ID,
                    },
                    gmsol_store::instruction::InitializeMarketVault {},
                ),
                &[creator],
            ),
        );
        // one oracle per signer (the oracle names its authority)
        let oracle_len = 8 + std::mem::size_of::<gmsol_store::states::Oracle>();
        let mut oracle_signers: Vec<Pubkey> = classes.iter().map(|(_, k)| *k).collect();
        oracle_signers.push(key("stranger"));
        for k in oracle_signers {
            let o = oracle_of(&k);
            w.set_account(o, Account { owner: gmsol_store::ID, lamports: 1_000_000_000, data: vec![0; oracle_len], executable: false });
            must(
                "initialize_oracle",
                w.execute(
                    &st::ix(
                        gmsol_store::accounts::InitializeOracle { payer: creator, authority: k, store, oracle: o, system_program: system_program::ID },
                        gmsol_store::instruction::InitializeOracle {},
                    ),
                    &[creator],
                ),
            );
        }
        // users, a referral code owned by u1, u2 referred by nobody
        let (u1, u2) = (key("u1"), key("u2"));
        must("prepare u1", st::prepare_user(&mut w, &store, &u1).1);
        must("prepare u2", st::prepare_user(&mut w, &store, &u2).1);
        for (_, k) in classes.clone() {
            must("prepare signer user", st::prepare_user(&mut w, &store, &k).1);
        }
        let code1 = *b"c19code1";
        must(
            "code1",
            w.execute(
                &st::ix(
                    gmsol_store::accounts::InitializeReferralCode {
                        owner: u1,
                        store,
                        referral_code: st::referral_code_pda(&store, &code1),
                        user: st::user_pda(&store, &u1),
                        system_program: system_program::ID,
                    },
                    gmsol_store::instruction::InitializeReferralCode { code: code1 },
                ),
                &[u1],
            ),
        );
        let mut worlds: HashMap<&'static str, World> = HashMap::new();
        worlds.insert("pre_gt", w.clone());
        must(
            "initialize_gt",
            w.execute(
                &st::ix(
                    gmsol_store::accounts::InitializeGt { authority: creator, store, system_program: system_program::ID },
                    gmsol_store::instruction::InitializeGt {
                        decimals: 7,
                        initial_minting_cost: 100_000_000_000_000_000_000,
                        grow_factor: 101_000_000_000_000_000_000,
                        grow_step: 10_000_000,
                        ranks: vec![1_000, 10_000, 100_000],
                    },
                ),
                &[creator],
            ),
        );
        must(
            "vi swaps 0",
            w.execute(
                &st::ix(
                    gmsol_store::accounts::CreateVirtualInventoryForSwaps {
                        authority: creator,
                        store,
                        virtual_inventory: vi_swaps(&store, 0),
                        system_program: system_program::ID,
                    },
                    gmsol_store::instruction::CreateVirtualInventoryForSwaps { index: 0, long_amount_decimals: 9, short_amount_decimals: 6 },
                ),
                &[creator],
            ),
        );
        worlds.insert("base", w.clone());
        let env0 = Env { worlds: HashMap::new(), store, admin, m: m.clone(), token_map2, mint_x, mint_y, u1, code1, classes: classes.clone() };
        // authority hand-over pending
        {
            let mut x = w.clone();
            must("transfer_store_authority", x.execute(&ix_transfer_store_authority(&env0, admin, key("owner-next-auth")), &[admin]));
            worlds.insert("auth_pending", x);
        }
        // receiver moved away from the admin; and a receiver hand-over pending
        {
            let mut x = w.clone();
            must("transfer_receiver", x.execute(&ix_transfer_receiver(&env0, admin, key("owner-recv")), &[admin]));
            must("accept_receiver", x.execute(&ix_accept_receiver(&env0, key("owner-recv")), &[key("owner-recv")]));
            worlds.insert("receiver_moved", x.clone());
            must("transfer_receiver 2", x.execute(&ix_transfer_receiver(&env0, key("owner-recv"), key("owner-recv2")), &[key("owner-recv")]));
            worlds.insert("receiver_pending", x);
        }
        // a market config buffer owned by owner-buf
        {
            let mut x = w.clone();
            let (owner, buffer) = (key("owner-buf"), key("buffer"));
            must(
                "init buffer",
                x.execute(
                    &st::ix(
                        gmsol_store::accounts::InitializeMarketConfigBuffer { authority: owner, store, buffer, system_program: system_program::ID },
                        gmsol_store::instruction::InitializeMarketConfigBuffer { expire_after_secs: 3600 },
                    ),
                    &[owner, buffer],
                ),
            );
            // and one buffer per signer class (update_market_config_with_buffer also requires the
            // signer to be the buffer's authority)
            for (_, k) in &classes {
                let b = buffer_of(k);
                must(
                    "init buffer (per signer)",
                    x.execute(
                        &st::ix(
                            gmsol_store::accounts::InitializeMarketConfigBuffer { authority: *k, store, buffer: b, system_program: system_program::ID },
                            gmsol_store::instruction::InitializeMarketConfigBuffer { expire_after_secs: 3600 },
                        ),
                        &[*k, b],
                    ),
                );
                must(
                    "push buffer (per signer)",
                    x.execute(
                        &st::ix(
                            gmsol_store::accounts::PushToMarketConfigBuffer { authority: *k, buffer: b, system_program: system_program::ID },
                            gmsol_store::instruction::PushToMarketConfigBuffer {
                                new_configs: vec![gmsol_store::states::market::config::EntryArgs { key: "swap_impact_exponent".into(), value: 3 }],
                            },
                        ),
                        &[*k],
                    ),
                );
            }
            worlds.insert("buffer", x);
        }
        // a referral code transfer u1 -> u2 pending
        {
            let mut x = w.clone();
            must("transfer code", x.execute(&ix_transfer_code(&env0, u1, u1, u2), &[u1]));
            worlds.insert("code_pending", x);
        }
        // treasury config initialised
        {
            let mut x = w.clone();
            let config = treasury_config(&store);
            must("transfer_receiver -> treasury", x.execute(&ix_transfer_receiver(&env0, admin, treasury_receiver(&config)), &[admin]));
            worlds.insert("treasury_pre", x.clone());
            must("treasury initialize_config", x.execute(&ix_treasury_init_config(&env0, creator), &[creator]));
            worlds.insert("treasury", x);
        }
        // timelock: ADMIN executor exists; and config initialised by a three-role signer
        {
            let mut x = w.clone();
            must("initialize_executor", x.execute(&ix_tl_init_executor(&env0, creator, "ADMIN"), &[creator]));
            let wallet = tl_wallet(&tl_executor(&store, "ADMIN"));
            must("transfer_store_authority -> timelock", x.execute(&ix_transfer_store_authority(&env0, admin, wallet), &[admin]));
            worlds.insert("timelock_pre", x.clone());
            let boot = key("tl-boot");
            x.airdrop(&boot, 1_000_000_000_000);
            for r in [gmsol_timelock::roles::TIMELOCK_ADMIN, gmsol_timelock::roles::TIMELOCK_KEEPER, gmsol_timelock::roles::TIMELOCKED_ADMIN] {
                assert!(st::fab_grant_role(&mut x, &store, &boot, r), "Store::grant {r} to tl-boot");
            }
            let r = x.execute(&ix_tl_init_config(&env0, boot), &[boot]);
            if r.ok {
                worlds.insert("timelock", x);
            } else {
                eprintln!("note: timelock initialize_config bootstrap failed: {} {:?}", r.err_name, r.runtime_error);
            }
        }
        // measurement worlds: the store authority holds no role any more
        for x in worlds.values_mut() {
            for r in &all_roles {
                let _ = st::fab_revoke_role(x, &store, &admin, r);
            }
        }
        for (_, k) in &classes {
            empty.airdrop(k, 1_000_000_000_000);
        }
        worlds.insert("empty", empty);
        Env { worlds, ..env0 }
    }
}

// ---- instruction builders shared by set-up and cases
fn ix_transfer_store_authority(e: &Env, authority: Pubkey, next: Pubkey) -> Instruction {
    st::ix(
        gmsol_store::accounts::TransferStoreAuthority { authority, store: e.store, next_authority: next },
        gmsol_store::instruction::TransferStoreAuthority {},
    )
}
fn ix_transfer_receiver(e: &Env, authority: Pubkey, next: Pubkey) -> Instruction {
    st::ix(
        gmsol_store::accounts::TransferReceiver { authority, store: e.store, next_receiver: next },
        gmsol_store::instruction::TransferReceiver {},
    )
}
fn ix_accept_receiver(e: &Env, next: Pubkey) -> Instruction {
    st::ix(gmsol_store::accounts::AcceptReceiver { next_receiver: next, store: e.store }, gmsol_store::instruction::AcceptReceiver {})
}
fn ix_transfer_code(e: &Env, signer: Pubkey, code_owner: Pubkey, receiver: Pubkey) -> Instruction {
    st::ix(
        gmsol_store::accounts::TransferReferralCode {
            owner: signer,
            store: e.store,
            user: st::user_pda(&e.store, &code_owner),
            referral_code: st::referral_code_pda(&e.store, &e.code1),
            receiver_user: st::user_pda(&e.store, &receiver),
        },
        gmsol_store::instruction::TransferReferralCode {},
    )
}
fn ix_treasury_init_config(e: &Env, payer: Pubkey) -> Instruction {
    let config = treasury_config(&e.store);
    st::ix_for(
        gmsol_treasury::ID,
        gmsol_treasury::accounts::InitializeConfig {
            payer,
            store: e.store,
            config,
            receiver: treasury_receiver(&config),
            store_program: gmsol_store::ID,
            system_program: system_program::ID,
        },
        gmsol_treasury::instruction::InitializeConfig {},
    )
}
fn ix_tl_init_executor(e: &Env, payer: Pubkey, role: &str) -> Instruction {
    let executor = tl_executor(&e.store, role);
    st::ix_for(
        gmsol_timelock::ID,
        gmsol_timelock::accounts::InitializeExecutor { payer, store: e.store, executor, wallet: tl_wallet(&executor), system_program: system_program::ID },
        gmsol_timelock::instruction::InitializeExecutor { role: role.to_string() },
    )
}
fn ix_tl_init_config(e: &Env, authority: Pubkey) -> Instruction {
    let executor = tl_executor(&e.store, "ADMIN");
    st::ix_for(
        gmsol_timelock::ID,
        gmsol_timelock::accounts::InitializeConfig {
            authority,
            store: e.store,
            timelock_config: tl_config(&e.store),
            executor,
            wallet: tl_wallet(&executor),
            store_program: gmsol_store::ID,
            system_program: system_program::ID,
        },
        gmsol_timelock::instruction::InitializeConfig { delay: 3600 },
    )
}

macro_rules! case {
    ($v:expr, $name:expr, $world:expr, $owner:expr, |$e:ident, $a:ident| $body:expr) => {
        $v.push(Case { name: $name, world: $world, owner: $owner, build: Box::new(move |$e: &Env, $a: Pubkey| $body) });
    };
}

fn cases(env: &Env) -> Vec<Case> {
    use gmsol_store::accounts as A;
    use gmsol_store::instruction as I;
    let mut v: Vec<Case> = Vec::new();
    let sys = system_program::ID;
    // ---- open set-up instructions (anyone, by design)
    case!(v, "store.initialize", "empty", None, |_e, a| (
        st::ix(
            A::Initialize { payer: a, authority: None, receiver: None, holding: None, store: st::store_pda(""), system_program: sys },
            I::Initialize { key: String::new() }
        ),
        vec![]
    ));
    case!(v, "store.initialize_token_map", "base", None, |e, a| {
        let tm = key(&format!("tm-{a}"));
        (st::ix(A::InitializeTokenMap { payer: a, store: e.store, token_map: tm, system_program: sys }, I::InitializeTokenMap {}), vec![tm])
    });
    case!(v, "store.prepare_user", "base", None, |e, a| (
        st::ix(A::PrepareUser { owner: a, store: e.store, user: st::user_pda(&e.store, &a), system_program: sys }, I::PrepareUser {}),
        vec![]
    ));
    case!(v, "store.initialize_market_config_buffer", "base", None, |e, a| {
        let b = key(&format!("newbuf-{a}"));
        (
            st::ix(A::InitializeMarketConfigBuffer { authority: a, store: e.store, buffer: b, system_program: sys }, I::InitializeMarketConfigBuffer { expire_after_secs: 60 }),
            vec![b],
        )
    });
    // ---- store / roles (Admin)
    case!(v, "store.update_last_restarted_slot", "base", None, |e, a| (st::ix(A::UpdateLastRestartedSlot { authority: a, store: e.store }, I::UpdateLastRestartedSlot {}), vec![]));
    case!(v, "store.transfer_store_authority", "base", None, |e, a| (ix_transfer_store_authority(e, a, key("someone")), vec![]));
    case!(v, "store.accept_store_authority", "auth_pending", Some(key("owner-next-auth")), |e, a| (
        st::ix(A::AcceptStoreAuthority { next_authority: a, store: e.store }, I::AcceptStoreAuthority {}),
        vec![]
    ));
    case!(v, "store.transfer_receiver", "receiver_moved", Some(key("owner-recv")), |e, a| (ix_transfer_receiver(e, a, key("someone")), vec![]));
    case!(v, "store.accept_receiver", "receiver_pending", Some(key("owner-recv2")), |e, a| (ix_accept_receiver(e, a), vec![]));
    case!(v, "store.set_token_map", "base", None, |e, a| (st::ix(A::SetTokenMap { authority: a, store: e.store, token_map: e.token_map2 }, I::SetTokenMap {}), vec![]));
    case!(v, "store.enable_role", "base", None, |e, a| (st::ix(A::EnableRole { authority: a, store: e.store }, I::EnableRole { role: "NEW_ROLE".into() }), vec![]));
    case!(v, "store.disable_role", "base", None, |e, a| (st::ix(A::DisableRole { authority: a, store: e.store }, I::DisableRole { role: RoleKey::PRICE_KEEPER.into() }), vec![]));
    case!(v, "store.grant_role", "base", None, |e, a| (
        st::ix(A::GrantRole { authority: a, store: e.store }, I::GrantRole { user: key("stranger"), role: RoleKey::ORDER_KEEPER.into() }),
        vec![]
    ));
    case!(v, "store.revoke_role", "base", None, |e, a| (
        st::ix(A::RevokeRole { authority: a, store: e.store }, I::RevokeRole { user: key(&format!("signer-{}", RoleKey::PRICE_KEEPER)), role: RoleKey::PRICE_KEEPER.into() }),
        vec![]
    ));
    // ---- store config
    case!(v, "store.insert_amount", "base", None, |e, a| (st::ix(A::InsertConfig { authority: a, store: e.store }, I::InsertAmount { key: "oracle_max_age".into(), amount: 77 }), vec![]));
    case!(v, "store.insert_factor", "base", None, |e, a| (st::ix(A::InsertConfig { authority: a, store: e.store }, I::InsertFactor { key: "oracle_ref_price_deviation".into(), factor: 77 }), vec![]));
    case!(v, "store.insert_address", "base", None, |e, a| (st::ix(A::InsertConfig { authority: a, store: e.store }, I::InsertAddress { key: "holding".into(), address: key("someone") }), vec![]));
    case!(v, "store.insert_order_fee_discount_for_referred_user", "base", None, |e, a| (
        st::ix(A::InsertConfig { authority: a, store: e.store }, I::InsertOrderFeeDiscountForReferredUser { factor: 77 }),
        vec![]
    ));
    case!(v, "store.toggle_feature", "base", None, |e, a| (
        st::ix(A::ToggleFeature { authority: a, store: e.store }, I::ToggleFeature { domain: "deposit".into(), action: "create".into(), enable: false }),
        vec![]
    ));
    // ---- token map maintenance
    case!(v, "store.push_to_token_map", "base", None, |e, a| (
        st::ix(
            A::PushToTokenMap { authority: a, store: e.store, token_map: e.m.token_map, token: e.mint_y, system_program: sys },
            I::PushToTokenMap { name: "Y".into(), builder: UpdateTokenConfigParams::default(), enable: true, new: true }
        ),
        vec![]
    ));
    case!(v, "store.push_to_token_map_synthetic", "base", None, |e, a| (
        st::ix(
            A::PushToTokenMapSynthetic { authority: a, store: e.store, token_map: e.m.token_map, system_program: sys },
            I::PushToTokenMapSynthetic { name: "SYN".into(), token: key("synthetic-token"), token_decimals: 8, builder: UpdateTokenConfigParams::default(), enable: true, new: true }
        ),
        vec![]
    ));
    case!(v, "store.toggle_token_config", "base", None, |e, a| (
        st::ix(A::ToggleTokenConfig { authority: a, store: e.store, token_map: e.m.token_map }, I::ToggleTokenConfig { token: e.mint_x, enable: false }),
        vec![]
    ));
    case!(v, "store.toggle_token_price_adjustment", "base", None, |e, a| (
        st::ix(A::ToggleTokenConfig { authority: a, store: e.store, token_map: e.m.token_map }, I::ToggleTokenPriceAdjustment { token: e.mint_x, enable: true }),
        vec![]
    ));
    case!(v, "store.set_feed_config_market_status_flag", "base", None, |e, a| (
        st::ix(
            A::SetFeedConfigMarketStatusFlag { authority: a, store: e.store, token_map: e.m.token_map, token: e.mint_x },
            I::SetFeedConfigMarketStatusFlag { provider: 0, flag: 0, enable: true }
        ),
        vec![]
    ));
    case!(v, "store.set_expected_provider", "base", None, |e, a| (
        st::ix(A::SetExpectedProvider { authority: a, store: e.store, token_map: e.m.token_map }, I::SetExpectedProvider { token: e.mint_x, provider: 1 }),
        vec![]
    ));
    case!(v, "store.set_feed_config_v2", "base", None, |e, a| (
        st::ix(
            A::SetFeedConfig { authority: a, store: e.store, token_map: e.m.token_map },
            I::SetFeedConfigV2 { token: e.mint_x, provider: 1, feed: Some(key("feed")), timestamp_adjustment: Some(1), max_deviation_factor: None }
        ),
        vec![]
    ));
    // ---- oracle
    case!(v, "store.clear_all_prices", "base", None, |e, a| (st::ix(A::ClearAllPrices { authority: a, store: e.store, oracle: oracle_of(&a) }, I::ClearAllPrices {}), vec![]));
    case!(v, "store.set_prices_from_price_feed", "base", None, |e, a| (
        st::ix(
            A::SetPricesFromPriceFeed { authority: a, store: e.store, oracle: oracle_of(&a), token_map: e.m.token_map, chainlink_program: None },
            I::SetPricesFromPriceFeed { tokens: vec![] }
        ),
        vec![]
    ));
    case!(v, "store.initialize_price_feed", "base", None, |e, a| {
        let (index, provider, token) = (0u16, 0u8, e.mint_x);
        let pf = Pubkey::find_program_address(
            &[
                <gmsol_store::states::PriceFeed as gmsol_store::states::Seed>::SEED,
                e.store.as_ref(),
                a.as_ref(),
                &index.to_le_bytes(),
                &[provider],
                token.as_ref(),
            ],
            &gmsol_store::ID,
        )
        .0;
        (
            st::ix(
                A::InitializePriceFeed { authority: a, store: e.store, price_feed: pf, system_program: sys },
                I::InitializePriceFeed { index, provider, token, feed_id: key("feed-id") },
            ),
            vec![],
        )
    });
    // ---- market
    case!(v, "store.initialize_market", "base", None, |e, a| {
        let (index, long, short) = (e.m.long_mint, e.mint_x, e.m.short_mint);
        let mt = mk::market_token_mint_pda(&e.store, &index, &long, &short);
        (
            st::ix(
                A::InitializeMarket {
                    authority: a,
                    store: e.store,
                    market_token_mint: mt,
                    long_token_mint: long,
                    short_token_mint: short,
                    market: mk::market_pda(&e.store, &mt),
                    token_map: e.m.token_map,
                    long_token_vault: mk::market_vault_pda(&e.store, &long),
                    short_token_vault: mk::market_vault_pda(&e.store, &short),
                    system_program: sys,
                    token_program: spl_token::ID,
                },
                I::InitializeMarket { index_token_mint: index, name: "M2".into(), enable: true },
            ),
            vec![],
        )
    });
    case!(v, "store.toggle_market", "base", None, |e, a| (st::ix(A::ToggleMarket { authority: a, store: e.store, market: e.m.market }, I::ToggleMarket { enable: false }), vec![]));
    case!(v, "store.update_market_config", "base", None, |e, a| (
        st::ix(A::UpdateMarketConfig { authority: a, store: e.store, market: e.m.market }, I::UpdateMarketConfig { key: "swap_impact_exponent".into(), value: 5 }),
        vec![]
    ));
    case!(v, "store.update_market_config_flag", "base", None, |e, a| (
        st::ix(
            A::UpdateMarketConfig { authority: a, store: e.store, market: e.m.market },
            I::UpdateMarketConfigFlag { key: "ignore_open_interest_for_usage_factor".into(), value: true }
        ),
        vec![]
    ));
    case!(v, "store.set_market_config_updatable", "base", None, |e, a| (
        st::ix(
            A::SetMarketConfigUpdatable { authority: a, store: e.store },
            I::SetMarketConfigUpdatable { is_flag: false, key: "swap_impact_exponent".into(), updatable: true }
        ),
        vec![]
    ));
    case!(v, "store.toggle_gt_minting", "base", None, |e, a| (st::ix(A::ToggleGTMinting { authority: a, store: e.store, market: e.m.market }, I::ToggleGtMinting { enable: true }), vec![]));
    case!(v, "store.initialize_market_vault", "base", None, |e, a| (
        st::ix(
            A::InitializeMarketVault {
                authority: a,
                store: e.store,
                mint: e.mint_y,
                vault: mk::market_vault_pda(&e.store, &e.mint_y),
                system_program: sys,
                token_program: spl_token::ID
            },
            I::InitializeMarketVault {}
        ),
        vec![]
    ));
    // buffer instructions: owner-gated
    case!(v, "store.push_to_market_config_buffer", "buffer", Some(key("owner-buf")), |_e, a| (
        st::ix(
            A::PushToMarketConfigBuffer { authority: a, buffer: key("buffer"), system_program: sys },
            I::PushToMarketConfigBuffer { new_configs: vec![gmsol_store::states::market::config::EntryArgs { key: "swap_impact_exponent".into(), value: 3 }] }
        ),
        vec![]
    ));
    case!(v, "store.set_market_config_buffer_authority", "buffer", Some(key("owner-buf")), |_e, a| (
        st::ix(A::SetMarketConfigBufferAuthority { authority: a, buffer: key("buffer") }, I::SetMarketConfigBufferAuthority { new_authority: key("someone") }),
        vec![]
    ));
    case!(v, "store.close_market_config_buffer", "buffer", Some(key("owner-buf")), |_e, a| (
        st::ix(A::CloseMarketConfigBuffer { authority: a, buffer: key("buffer"), receiver: a }, I::CloseMarketConfigBuffer {}),
        vec![]
    ));
    case!(v, "store.update_market_config_with_buffer", "buffer", None, |e, a| (
        st::ix(A::UpdateMarketConfigWithBuffer { authority: a, store: e.store, market: e.m.market, buffer: buffer_of(&a) }, I::UpdateMarketConfigWithBuffer {}),
        vec![]
    ));
    // ---- claimable accounts
    case!(v, "store.use_claimable_account", "base", None, |e, a| {
        let (owner, ts) = (key("someone"), 1_700_000_000i64);
        let s: Store = e.worlds["base"].account_data(&e.store).unwrap();
        let tk = s.claimable_time_key(ts).unwrap();
        let acc = Pubkey::find_program_address(
            &[gmsol_store::constants::CLAIMABLE_ACCOUNT_SEED, e.store.as_ref(), e.m.long_mint.as_ref(), owner.as_ref(), &tk],
            &gmsol_store::ID,
        )
        .0;
        (
            st::ix(
                A::UseClaimableAccount { authority: a, store: e.store, mint: e.m.long_mint, owner, account: acc, system_program: sys, token_program: spl_token::ID },
                I::UseClaimableAccount { timestamp: ts, amount: 0 },
            ),
            vec![],
        )
    });
    // ---- GT
    case!(v, "store.initialize_gt", "pre_gt", None, |e, a| (
        st::ix(
            A::InitializeGt { authority: a, store: e.store, system_program: sys },
            I::InitializeGt { decimals: 7, initial_minting_cost: 100_000_000_000_000_000_000, grow_factor: 101_000_000_000_000_000_000, grow_step: 10_000_000, ranks: vec![1_000, 10_000] }
        ),
        vec![]
    ));
    case!(v, "store.gt_set_order_fee_discount_factors", "base", None, |e, a| (
        st::ix(A::ConfigureGt { authority: a, store: e.store }, I::GtSetOrderFeeDiscountFactors { factors: vec![0, 1, 2, 3] }),
        vec![]
    ));
    case!(v, "store.gt_set_referral_reward_factors", "base", None, |e, a| (
        st::ix(A::ConfigureGt { authority: a, store: e.store }, I::GtSetReferralRewardFactors { factors: vec![0, 1, 2, 3] }),
        vec![]
    ));
    case!(v, "store.gt_set_exchange_time_window", "base", None, |e, a| (
        st::ix(A::ConfigureGt { authority: a, store: e.store }, I::GtSetExchangeTimeWindow { window: 7200 }),
        vec![]
    ));
    case!(v, "store.update_gt_cumulative_inv_cost_factor", "base", None, |e, a| (
        st::ix(A::UpdateGtCumulativeInvCostFactor { authority: a, store: e.store }, I::UpdateGtCumulativeInvCostFactor {}),
        vec![]
    ));
    case!(v, "store.mint_gt_reward", "base", None, |e, a| (
        st::ix(
            A::MintGtReward {
                authority: a,
                store: e.store,
                user: st::user_pda(&e.store, &e.u1),
                event_authority: st::event_authority(&gmsol_store::ID),
                program: gmsol_store::ID
            },
            I::MintGtReward { amount: 5 }
        ),
        vec![]
    ));
    // ---- virtual inventories
    case!(v, "store.create_virtual_inventory_for_swaps", "base", None, |e, a| (
        st::ix(
            A::CreateVirtualInventoryForSwaps { authority: a, store: e.store, virtual_inventory: vi_swaps(&e.store, 1), system_program: sys },
            I::CreateVirtualInventoryForSwaps { index: 1, long_amount_decimals: 9, short_amount_decimals: 6 }
        ),
        vec![]
    ));
    case!(v, "store.create_virtual_inventory_for_positions", "base", None, |e, a| (
        st::ix(
            A::CreateVirtualInventoryForPositions {
                authority: a,
                store: e.store,
                index_token: e.m.index_mint,
                virtual_inventory: vi_positions(&e.store, &e.m.index_mint),
                system_program: sys
            },
            I::CreateVirtualInventoryForPositions {}
        ),
        vec![]
    ));
    case!(v, "store.join_virtual_inventory_for_swaps", "base", None, |e, a| (
        st::ix(
            A::JoinVirtualInventoryForSwaps { authority: a, store: e.store, token_map: e.m.token_map, virtual_inventory: vi_swaps(&e.store, 0), market: e.m.market },
            I::JoinVirtualInventoryForSwaps {}
        ),
        vec![]
    ));
    case!(v, "store.disable_virtual_inventory", "base", None, |e, a| (
        st::ix(A::DisableVirtualInventory { authority: a, store: e.store, virtual_inventory: vi_swaps(&e.store, 0) }, I::DisableVirtualInventory {}),
        vec![]
    ));
    case!(v, "store.close_virtual_inventory", "base", None, |e, a| {
        let wallet = Pubkey::find_program_address(&[Store::WALLET_SEED, e.store.as_ref()], &gmsol_store::ID).0;
        (
            st::ix(
                A::CloseVirtualInventory { authority: a, store: e.store, store_wallet: wallet, virtual_inventory: vi_swaps(&e.store, 0) },
                I::CloseVirtualInventory {},
            ),
            vec![],
        )
    });
    // ---- referral: acts on the signer's own user account (owner-gated by has_one / seeds)
    case!(v, "store.initialize_referral_code", "base", Some(key("u2")), |e, a| {
        let code = *b"c19code2";
        (
            st::ix(
                A::InitializeReferralCode {
                    owner: a,
                    store: e.store,
                    referral_code: st::referral_code_pda(&e.store, &code),
                    user: st::user_pda(&e.store, &key("u2")),
                    system_program: sys,
                },
                I::InitializeReferralCode { code },
            ),
            vec![],
        )
    });
    case!(v, "store.set_referrer", "base", Some(key("u2")), |e, a| (
        st::ix(
            A::SetReferrer {
                owner: a,
                store: e.store,
                user: st::user_pda(&e.store, &key("u2")),
                referral_code: st::referral_code_pda(&e.store, &e.code1),
                referrer_user: st::user_pda(&e.store, &e.u1)
            },
            I::SetReferrer { code: e.code1 }
        ),
        vec![]
    ));
    case!(v, "store.set_builder_fee_factor", "base", Some(key("u2")), |e, a| (
        st::ix(
            A::SetBuilderFeeFactor {
                owner: a,
                store: e.store,
                user: st::user_pda(&e.store, &key("u2")),
                event_authority: st::event_authority(&gmsol_store::ID),
                program: gmsol_store::ID
            },
            I::SetBuilderFeeFactor { factor: 0 }
        ),
        vec![]
    ));
    case!(v, "store.transfer_referral_code", "base", Some(key("u1")), |e, a| (ix_transfer_code(e, a, e.u1, key("u2")), vec![]));
    case!(v, "store.cancel_referral_code_transfer", "code_pending", Some(key("u1")), |e, a| (
        st::ix(
            A::CancelReferralCodeTransfer { owner: a, store: e.store, user: st::user_pda(&e.store, &e.u1), referral_code: st::referral_code_pda(&e.store, &e.code1) },
            I::CancelReferralCodeTransfer {}
        ),
        vec![]
    ));
    case!(v, "store.accept_referral_code", "code_pending", Some(key("u2")), |e, a| (
        st::ix(
            A::AcceptReferralCode {
                next_owner: a,
                store: e.store,
                user: st::user_pda(&e.store, &e.u1),
                referral_code: st::referral_code_pda(&e.store, &e.code1),
                receiver_user: st::user_pda(&e.store, &key("u2"))
            },
            I::AcceptReferralCode {}
        ),
        vec![]
    ));
    // ---- treasury
    {
        use gmsol_treasury::accounts as TA;
        use gmsol_treasury::instruction as TI;
        let tid = gmsol_treasury::ID;
        case!(v, "treasury.set_gt_factor", "treasury", None, |e, a| (
            st::ix_for(tid, TA::UpdateConfig { authority: a, store: e.store, config: treasury_config(&e.store), store_program: gmsol_store::ID }, TI::SetGtFactor { factor: 5 }),
            vec![]
        ));
        case!(v, "treasury.set_buyback_factor", "treasury", None, |e, a| (
            st::ix_for(tid, TA::UpdateConfig { authority: a, store: e.store, config: treasury_config(&e.store), store_program: gmsol_store::ID }, TI::SetBuybackFactor { factor: 5 }),
            vec![]
        ));
        case!(v, "treasury.initialize_treasury_vault_config", "treasury", None, |e, a| {
            let config = treasury_config(&e.store);
            let tvc = Pubkey::find_program_address(
                &[gmsol_treasury::states::TreasuryVaultConfig::SEED, config.as_ref(), &0u16.to_le_bytes()],
                &tid,
            )
            .0;
            (
                st::ix_for(
                    tid,
                    TA::InitializeTreasuryVaultConfig { authority: a, store: e.store, config, treasury_vault_config: tvc, store_program: gmsol_store::ID, system_program: system_program::ID },
                    TI::InitializeTreasuryVaultConfig { index: 0 },
                ),
                vec![],
            )
        });
        case!(v, "treasury.set_referral_reward", "treasury", None, |e, a| (
            st::ix_for(
                tid,
                TA::SetReferralReward { authority: a, store: e.store, config: treasury_config(&e.store), store_program: gmsol_store::ID },
                TI::SetReferralReward { factors: vec![0, 1, 2, 3] }
            ),
            vec![]
        ));
        case!(v, "treasury.transfer_receiver", "treasury", None, |e, a| {
            let config = treasury_config(&e.store);
            (
                st::ix_for(
                    tid,
                    TA::TransferReceiver {
                        authority: a,
                        store: e.store,
                        config,
                        receiver: treasury_receiver(&config),
                        next_receiver: key("someone"),
                        store_program: gmsol_store::ID,
                        system_program: system_program::ID,
                    },
                    TI::TransferReceiver {},
                ),
                vec![],
            )
        });
    }
    // ---- timelock
    {
        use gmsol_timelock::accounts as LA;
        use gmsol_timelock::instruction as LI;
        let lid = gmsol_timelock::ID;
        case!(v, "timelock.initialize_config", "timelock_pre", None, |e, a| (ix_tl_init_config(e, a), vec![]));
        if env.worlds.contains_key("timelock") {
            case!(v, "timelock.increase_delay", "timelock", None, |e, a| (
                st::ix_for(
                    lid,
                    LA::IncreaseDelay { authority: a, store: e.store, timelock_config: tl_config(&e.store), store_program: gmsol_store::ID },
                    LI::IncreaseDelay { delta: 60 }
                ),
                vec![]
            ));
        }
    }
    v
}

fn measure(args: &Args) {
    let mut sink = Sink::create(&args.str("out", "trace.ndjson"));
    let env = Env::new();
    let all = cases(&env);
    let only = args.get("only").map(|s| s.to_string());
    for c in &all {
        if let Some(o) = &only {
            if !c.name.contains(o.as_str()) {
                continue;
            }
        }
        let Some(base) = env.worlds.get(c.world) else { continue };
        let mut classes: Vec<(String, Pubkey)> = env.classes.clone();
        if let Some(o) = c.owner {
            classes.push(("owner".to_string(), o));
        }
        for (label, signer) in &classes {
            let mut w = base.clone();
            let d0 = w.digest();
            let (ix, extra) = (c.build)(&env, *signer);
            let mut signers = vec![*signer];
            signers.extend(extra);
            let r = w.execute(&ix, &signers);
            let db_changed = w.digest() != d0;
            sink.emit(json!({
                "instr": c.name, "class": label, "ok": r.ok, "err": r.label(), "code": r.err_code.map(|c| c as i64).unwrap_or(-1),
                "panic": r.panic, "changed_before_rollback": r.changed_before_rollback, "db_changed": db_changed, "world": c.world,
                "runtime_error": r.runtime_error.clone().unwrap_or_default(),
            }));
            if args.get("verbose").is_some() && !r.ok {
                eprintln!("{} {}: {} {:?}", c.name, label, r.err_name, r.runtime_error);
            }
        }
    }
    let n = sink.finish();
    println!("{}", json!({"events": n, "cases": all.len(), "classes": env.classes.len()}));
    // keep the unused-import lints quiet for types only used in some configurations
    let _ = std::mem::size_of::<Market>();
}

fn main() {
    let (mode, args) = Args::from_env();
    match mode.as_str() {
        "measure" => measure(&args),
        _ => {
            eprintln!("modes: measure");
            std::process::exit(2);
        }
    }
}
