//! C44 driver: multi-market swaps in world R2 through the REAL instructions; the program-side trace
//! is the `SwapExecuted` CPI events captured by the runtime.
//!
//! modes
//!   enumerate --in cases.ndjson --out trace.ndjson
//!       every line of --in is a case printed by TLC (MC_SwapPath): {dir, cur, path, tin}: a MarketSwap
//!       order ("order": market = cur), a deposit into cur whose long side is paid in `tin` through
//!       `path` ("into"), a withdrawal from cur whose long side is swapped along `path` ("from") - ALL
//!       paths of length 0..3 over the four markets, valid or not.  Each case runs create -> execute ->
//!       close from a copy of the funded world.  Appended: executions of actions whose STORED path was
//!       overwritten with duplicate / no-op paths (rejection at execution), and direct calls of
//!       `SwapActionParams::validated_primary / secondary_swap_path` over all paths of length 0..3.
//!   random --seed S --n N --out trace.ndjson
//!       random scripts with 1-3 hop paths in deposits (both sides), withdrawals and orders.
use gmsol_utils::swap::SwapActionParams;
use h_runtime::runtime::World;
use h_runtime::util::{Args, Rng, Sink};
use h_runtime::world2::*;
use serde_json::{json, Value};

fn mi(r2: &R2, l: &str) -> usize {
    r2.mkts.iter().position(|m| m.label == l).unwrap_or_else(|| panic!("market {l}"))
}
fn ti(r2: &R2, l: &str) -> usize {
    r2.toks.iter().position(|t| t.label == l).unwrap_or_else(|| panic!("token {l}"))
}

fn nonce(n: u64) -> [u8; 32] {
    let mut x = [0u8; 32];
    x[..8].copy_from_slice(&n.to_le_bytes());
    x[31] = 44;
    x
}

fn forged_cases(r2: &R2, base: &World, rec: &mut TraceRec) {
    let user = r2.users[0];
    let (m1, m2, m3, mp) = (mi(r2, "M1"), mi(r2, "M2"), mi(r2, "M3"), mi(r2, "MP"));
    let (a, b) = (ti(r2, "A"), ti(r2, "B"));
    let keeper = r2.keeper;
    let forged: Vec<Vec<usize>> = vec![vec![m1, m1], vec![m2, m1, m2], vec![mp], vec![m1, mp], vec![mp, m1], vec![m1, m2, m1], vec![m3, m3]];
    let mut n = 1000u64;
    // swap orders A -> B through [M1] (order market M1), stored path overwritten before execution
    for f in &forged {
        for throw in [false, true] {
            n += 1;
            let mut w = base.clone();
            let nn = nonce(n);
            must("forged: create_order", r2.create_swap_order(&mut w, &user, &r2.mkts[m1], &nn, a, b, r2.units(a, 500), 0, &[m1], EXEC_LAMPORTS));
            let o = r2.order_pda(&user, &nn);
            let old = *r2.order(&w, &o).expect("order").swap();
            assert!(r2.forge_swap_path(&mut w, &o, &old, f, &[]), "swap params located");
            r2.tick(&mut w);
            let info = Info {
                op: "execute_order".into(),
                touched: (0..r2.mkts.len()).collect(),
                side: "none".into(),
                amt: r2.units(a, 500),
                path: f.clone(),
                token_in: Some(a),
                token_out: Some(b),
                direction: "order".into(),
                current: Some(m1),
                action: Some(o),
                forged: true,
                ..Default::default()
            };
            rec.reset = true;
            rec.step = "forged".into();
            // the keeper passes every market account the forged path names
            let mut ix = r2.execute_swap_order_ix(&w, &keeper, &o, throw, EXEC_FEE);
            for m in f {
                let k = r2.mkts[*m].market;
                if !ix.accounts.iter().any(|x| x.pubkey == k) {
                    ix.accounts.push(anchor_lang::solana_program::instruction::AccountMeta::new(k, false));
                }
            }
            rec.exec(&mut w, &info, &mut |w: &mut World| w.execute(&ix, &[keeper]));
        }
    }
    // deposits into M1 whose long side is paid in B through [M2], stored primary path overwritten
    for f in &forged {
        n += 1;
        let mut w = base.clone();
        let nn = nonce(n);
        must("forged: create_deposit", r2.create_deposit(&mut w, &user, &r2.mkts[m1], &nn, Some((b, r2.units(b, 500))), None, 0, &[m2], &[], EXEC_LAMPORTS));
        let d = r2.deposit_pda(&user, &nn);
        let old = *r2.deposit(&w, &d).expect("deposit").swap();
        assert!(r2.forge_swap_path(&mut w, &d, &old, f, &[]), "swap params located");
        r2.tick(&mut w);
        let info = Info {
            op: "execute_deposit".into(),
            touched: (0..r2.mkts.len()).collect(),
            side: "none".into(),
            amt: r2.units(b, 500),
            path: f.clone(),
            token_in: Some(b),
            token_in2: Some(b),
            token_out: Some(a),
            token_out2: Some(b),
            direction: "into".into(),
            current: Some(m1),
            action: Some(d),
            forged: true,
            ..Default::default()
        };
        rec.reset = true;
        rec.step = "forged".into();
        let mut ix = r2.execute_deposit_ix(&w, &keeper, &d, false, EXEC_FEE);
        for m in f {
            let k = r2.mkts[*m].market;
            if *m != m1 && !ix.accounts.iter().any(|x| x.pubkey == k) {
                ix.accounts.push(anchor_lang::solana_program::instruction::AccountMeta::new(k, false));
            }
        }
        rec.exec(&mut w, &info, &mut |w: &mut World| w.execute(&ix, &[keeper]));
    }
}

fn direct_cases(r2: &R2, base: &World, rec: &mut TraceRec) {
    // all paths of length 0..3 over the four markets
    let nm = r2.mkts.len();
    let mut paths: Vec<Vec<usize>> = vec![vec![]];
    let mut frontier: Vec<Vec<usize>> = vec![vec![]];
    for _ in 0..3 {
        let mut next = Vec::new();
        for p in &frontier {
            for m in 0..nm {
                let mut q = p.clone();
                q.push(m);
                next.push(q);
            }
        }
        paths.extend(next.iter().cloned());
        frontier = next;
    }
    for p in &paths {
        let labels: Vec<String> = p.iter().map(|m| r2.mkts[*m].label.clone()).collect();
        // as primary path, and as secondary path behind a one-step primary path
        let mut sp = SwapActionParams::default();
        sp.primary_length = p.len() as u8;
        for (i, m) in p.iter().enumerate() {
            sp.paths[i] = r2.mkts[*m].market_token;
        }
        let r = sp.validated_primary_swap_path().map(|x| x.len());
        rec.emit_direct(base, "direct_primary", &labels, &[], r.is_ok(), if r.is_ok() { "ok" } else { "InvalidSwapPath" });
        let mut sp = SwapActionParams::default();
        sp.primary_length = 1;
        sp.secondary_length = p.len() as u8;
        sp.paths[0] = r2.mkts[0].market_token;
        for (i, m) in p.iter().enumerate() {
            sp.paths[1 + i] = r2.mkts[*m].market_token;
        }
        let r = sp.validated_secondary_swap_path().map(|x| x.len());
        rec.emit_direct(base, "direct_secondary", &labels, &[], r.is_ok(), if r.is_ok() { "ok" } else { "InvalidSwapPath" });
    }
}

fn enumerate(args: &Args) {
    let input = std::fs::read_to_string(args.str("in", "cases.ndjson")).expect("read --in");
    let mut sink = Sink::create(&args.str("out", "trace.ndjson"));
    let mut base = World::new();
    let r2 = R2::build_funded(&mut base, 2);
    // spare recorded balance on both sides of every two-token market (position collateral), so that an
    // execution is not stopped by the balance guard only
    {
        let mut k = 900u64;
        for mi in 0..r2.mkts.len() {
            if r2.mkts[mi].is_pure() {
                continue;
            }
            for (is_long, col_long) in [(true, false), (false, true)] {
                k += 1;
                let ct = if col_long { r2.mkts[mi].long } else { r2.mkts[mi].short };
                let st = r2.flow_position(&mut base, &mut NoRec, &r2.users[1], mi, &nonce(k), true, is_long, col_long, r2.units(ct, 2000), 4000 * 100_000_000_000_000_000_000u128);
                assert_eq!(st, Some(1), "collateral position must open");
            }
        }
    }
    let mut rec = TraceRec::new(&r2, &mut sink);
    let mut cases = 0usize;
    let mut ctr = 0u64;
    for line in input.lines().filter(|l| !l.trim().is_empty()) {
        let c: Value = serde_json::from_str(line).unwrap();
        let dir = c["dir"].as_str().unwrap();
        let cur = mi(&r2, c["cur"].as_str().unwrap());
        let tin = ti(&r2, c["tin"].as_str().unwrap());
        let path: Vec<usize> = c["path"].as_array().unwrap().iter().map(|m| mi(&r2, m.as_str().unwrap())).collect();
        let mut w = base.clone();
        let user = r2.users[cases % 2];
        rec.reset = true;
        rec.step = dir.to_string();
        ctr += 1;
        cases += 1;
        let nn = nonce(ctr);
        let m = r2.mkts[cur].clone();
        match dir {
            "order" => {
                // declared output: where the walk ends; for an invalid walk the long token of the order's market
                let out = r2.walk(tin, &path).filter(|_| !path.iter().any(|p| r2.mkts[*p].is_pure())).unwrap_or(m.long);
                r2.flow_swap(&mut w, &mut rec, &user, &nn, tin, out, r2.units(tin, 500), &path, cur);
            }
            "into" => {
                r2.flow_deposit(&mut w, &mut rec, &user, cur, &nn, Some((tin, r2.units(tin, 500))), None, &path, &[], 0);
            }
            "from" => {
                let mt = r2.balance(&w, &h_runtime::runtime::spl::ata(&user, &m.market_token)) / 10;
                // `tin` is the declared final long token of the withdrawal
                r2.flow_withdrawal(&mut w, &mut rec, &user, cur, &nn, mt, tin, m.short, &path, &[]);
            }
            "from2" => {
                let mt = r2.balance(&w, &h_runtime::runtime::spl::ata(&user, &m.market_token)) / 10;
                // `tin` is the declared final SHORT token of the withdrawal, `path` its short-side path
                r2.flow_withdrawal(&mut w, &mut rec, &user, cur, &nn, mt, m.long, tin, &[], &path);
            }
            other => panic!("dir {other}"),
        }
    }
    forged_cases(&r2, &base, &mut rec);
    direct_cases(&r2, &base, &mut rec);
    let out = json!({"cases": cases, "instructions": rec.instructions, "ok_instructions": rec.ok_instructions, "hops": rec.hops_seen, "classes": rec.classes});
    let n = sink.finish();
    println!("{}", json!({"events": n, "stats": out}));
}

fn random(args: &Args) {
    let mut rng = Rng::new(args.num("seed", 1));
    let n = args.num("n", 3000) as usize;
    let len = args.num("len", 12) as usize;
    let mut sink = Sink::create(&args.str("out", "trace.ndjson"));
    let mut base = World::new();
    let r2 = R2::build_funded(&mut base, 2);
    let mut rec = TraceRec::new(&r2, &mut sink);
    let mut scripts = 0usize;
    while rec.instructions < n {
        let mut w = base.clone();
        let mut ctr = 0u64;
        rec.reset = true;
        scripts += 1;
        for _ in 0..len {
            let mut a = random_op(&r2, &mut rng);
            // bias towards operations with swaps
            if !matches!(a.op.as_str(), "swap" | "swap2" | "swap_path" | "deposit_path" | "deposit_both" | "withdraw_path") && rng.chance(2, 3) {
                a = random_op(&r2, &mut rng);
            }
            rec.step = a.op.clone();
            r2.run_op(&mut w, &mut rec, &a, &mut ctr);
        }
    }
    let out = json!({"scripts": scripts, "instructions": rec.instructions, "ok_instructions": rec.ok_instructions, "hops": rec.hops_seen, "classes": rec.classes});
    let n = sink.finish();
    println!("{}", json!({"events": n, "stats": out}));
}

fn main() {
    let (mode, args) = Args::from_env();
    match mode.as_str() {
        "enumerate" => enumerate(&args),
        "random" => random(&args),
        _ => {
            eprintln!("modes: enumerate | random");
            std::process::exit(2);
        }
    }
}
