//! C32 runtime binding: the REAL `settle_builder_fee` instruction on orders of world R2.
//!
//! run --out trace.ndjson
//!   orders: a completed MarketSwap order (the output sits in the final-output escrow), a pending
//!   MarketSwap order (empty final-output escrow), a completed MarketDecrease order (collateral paid
//!   into the final-output escrow).  `execute_*_position` currently passes a builder fee factor of 0,
//!   so no instruction ever records a fee: the builder and the recorded amount are WRITTEN INTO THE
//!   ORDER ACCOUNT by the harness (hooks states::order::verif::{set_builder, set_builder_fee_amount}).
//!   For recorded in {0, 1, half, equal, +1, +1000, 2^31-1 capped} relative to the escrow balance:
//!   settle (good accounts), settle again, close; variants with a wrong builder user, without builder
//!   accounts, with the claim vault of another mint; close attempted with an unsettled fee.
//! every event = ONE instruction: {op, variant, kind, ok, err, pre, post, worldSame}; pre / post =
//! {recorded, escrow, vault} read from the Order account and the SPL token accounts.
use anchor_lang::prelude::Pubkey;
use anchor_lang::solana_program::instruction::Instruction;
use gmsol_store::states::{order::verif as order_hooks, Order};
use h_runtime::runtime::{spl, store as st, ExecResult, World};
use h_runtime::util::{Args, Sink};
use h_runtime::world2::*;
use serde_json::json;

const USD: u128 = 100_000_000_000_000_000_000;

struct Rt<'a> {
    r2: &'a R2,
    sink: &'a mut Sink,
    classes: std::collections::BTreeMap<String, usize>,
    instructions: usize,
}

#[derive(Clone)]
struct OrderCase {
    kind: &'static str,
    order: Pubkey,
    owner: Pubkey,
    /// final output token (mint) and its escrow
    token: Pubkey,
    escrow: Pubkey,
}

fn write_order(w: &mut World, order: &Pubkey, f: impl FnOnce(&mut Order)) {
    let mut acc = w.account(order).expect("order account").clone();
    let n = std::mem::size_of::<Order>();
    let mut o: Order = bytemuck::pod_read_unaligned(&acc.data[8..8 + n]);
    f(&mut o);
    acc.data[8..8 + n].copy_from_slice(bytemuck::bytes_of(&o));
    w.set_account(*order, acc);
}

impl Rt<'_> {
    fn state(&self, w: &World, c: &OrderCase, vault: &Pubkey) -> serde_json::Value {
        let rec = self.r2.order(w, &c.order).map(|o| o.builder_fee_amount()).unwrap_or(0);
        json!({"recorded": rec, "escrow": self.r2.balance(w, &c.escrow), "vault": self.r2.balance(w, vault)})
    }

    fn step(&mut self, w: &mut World, c: &OrderCase, vault: &Pubkey, op: &str, variant: &str, f: &mut dyn FnMut(&mut World) -> ExecResult) -> ExecResult {
        let pre = self.state(w, c, vault);
        let d0 = w.digest();
        let r = f(w);
        let post = self.state(w, c, vault);
        self.instructions += 1;
        *self.classes.entry(format!("{op}/{variant}/{}", r.label())).or_insert(0) += 1;
        self.sink.emit(json!({"op": op, "variant": variant, "kind": c.kind, "ok": r.ok, "err": r.label(), "reset": true,
            "pre": pre, "post": post, "worldSame": d0 == w.digest()}));
        r
    }

    fn settle_ix(&self, c: &OrderCase, builder_user: Option<Pubkey>, claim_vault: Option<Pubkey>) -> Instruction {
        st::ix(
            gmsol_store::accounts::SettleBuilderFee {
                store: self.r2.store,
                order: c.order,
                final_output_token: c.token,
                escrow: c.escrow,
                builder_user,
                claim_vault,
                token_program: spl_token::ID,
                event_authority: st::event_authority(&gmsol_store::ID),
                program: gmsol_store::ID,
            },
            gmsol_store::instruction::SettleBuilderFee {},
        )
    }
}

fn nonce(n: u64) -> [u8; 32] {
    let mut x = [0u8; 32];
    x[..8].copy_from_slice(&n.to_le_bytes());
    x[31] = 32;
    x
}

fn run(args: &Args) {
    let mut sink = Sink::create(&args.str("out", "trace.ndjson"));
    let mut base = World::new();
    let r2 = R2::build_funded(&mut base, 2);
    let (owner, builder) = (r2.users[0], r2.users[1]);
    let builder_user = st::user_pda(&r2.store, &builder);
    let other_user = st::user_pda(&r2.store, &owner);
    let m1 = r2.mkts.iter().position(|m| m.label == "M1").unwrap();
    let m = r2.mkts[m1].clone();
    let (a, b, c_tok) = (0usize, 1usize, 2usize);
    let (mint_a, mint_b, mint_c) = (r2.toks[a].mint, r2.toks[b].mint, r2.toks[c_tok].mint);
    // the builder's claim vaults (ATAs of the builder's user account)
    for mint in [mint_a, mint_b, mint_c] {
        must("claim vault", spl::create_ata(&mut base, &r2.keeper, &builder_user, &mint).1);
    }
    let keeper = r2.keeper;
    // ---- the three order worlds
    let mut cases: Vec<(World, OrderCase)> = Vec::new();
    {
        // completed swap order A -> B
        let mut w = base.clone();
        let nn = nonce(1);
        must("create swap", r2.create_swap_order(&mut w, &owner, &m, &nn, a, b, r2.units(a, 500), 0, &[m1], EXEC_LAMPORTS));
        let o = r2.order_pda(&owner, &nn);
        r2.tick(&mut w);
        must("execute swap", r2.execute_swap_order(&mut w, &keeper, &o, true, EXEC_FEE));
        cases.push((w, OrderCase { kind: "swap_completed", order: o, owner, token: mint_b, escrow: spl::ata(&o, &mint_b) }));
    }
    {
        // pending swap order A -> B (nothing in the final-output escrow)
        let mut w = base.clone();
        let nn = nonce(2);
        must("create swap", r2.create_swap_order(&mut w, &owner, &m, &nn, a, b, r2.units(a, 500), 0, &[m1], EXEC_LAMPORTS));
        let o = r2.order_pda(&owner, &nn);
        cases.push((w, OrderCase { kind: "swap_pending", order: o, owner, token: mint_b, escrow: spl::ata(&o, &mint_b) }));
    }
    {
        // completed decrease order: a long position with A collateral is closed, the collateral comes back in A
        let mut w = base.clone();
        let st0 = r2.flow_position(&mut w, &mut NoRec, &owner, m1, &nonce(3), true, true, true, r2.units(a, 500), 1000 * USD);
        assert_eq!(st0, Some(1));
        let nn = nonce(4);
        must("create decrease", r2.create_position_order(&mut w, &owner, &m, &nn, false, true, true, 0, 1000 * USD));
        let o = r2.order_pda(&owner, &nn);
        r2.tick(&mut w);
        r2.prepare_keeper_accounts(&mut w, &owner, &m, true, true);
        let ix = r2.execute_position_order_ix(&w, &keeper, &o, true);
        must("execute decrease", w.execute(&ix, &[keeper]));
        cases.push((w, OrderCase { kind: "decrease_completed", order: o, owner, token: mint_a, escrow: spl::ata(&o, &mint_a) }));
    }
    let mut rt = Rt { r2: &r2, sink: &mut sink, classes: Default::default(), instructions: 0 };
    for (w0, c) in &cases {
        let esc = r2.balance(w0, &c.escrow);
        let vault = spl::ata(&builder_user, &c.token);
        let wrong_vault = spl::ata(&builder_user, &mint_c);
        let mut amounts = vec![0u64, 1, esc / 2, esc, esc + 1, esc + 1000, 2_000_000_000];
        amounts.sort();
        amounts.dedup();
        for rec in amounts {
            let mut w = w0.clone();
            write_order(&mut w, &c.order, |o| {
                order_hooks::set_builder(o, builder_user, 0);
                order_hooks::set_builder_fee_amount(o, rec);
            });
            let close = |w: &mut World| -> ExecResult {
                match c.kind {
                    "decrease_completed" => r2.close_position_order(w, &c.owner, &c.owner, &c.order, &m, false, mint_a),
                    _ => r2.close_swap_order(w, &c.owner, &c.owner, &c.order, mint_a, mint_b),
                }
            };
            // closing with an unsettled fee must be refused (tried on a copy)
            {
                let mut w2 = w.clone();
                rt.step(&mut w2, c, &vault, "close", "unsettled", &mut |w: &mut World| close(w));
            }
            // bad account sets (on copies)
            for (variant, bu, cv) in [("wrong_builder", Some(other_user), Some(spl::ata(&other_user, &c.token))), ("no_accounts", None, None), ("wrong_mint_vault", Some(builder_user), Some(wrong_vault))] {
                let mut w2 = w.clone();
                if variant == "wrong_builder" {
                    must("ata", spl::create_ata(&mut w2, &keeper, &other_user, &c.token).1);
                }
                let ix = rt.settle_ix(c, bu, cv);
                rt.step(&mut w2, c, &vault, "settle", variant, &mut |w: &mut World| w.execute(&ix, &[]));
            }
            // the settlement, a second one, and the close
            let ix = rt.settle_ix(c, Some(builder_user), Some(vault));
            rt.step(&mut w, c, &vault, "settle", "good", &mut |w: &mut World| w.execute(&ix, &[]));
            rt.step(&mut w, c, &vault, "settle", "good", &mut |w: &mut World| w.execute(&ix, &[]));
            rt.step(&mut w, c, &vault, "close", "settled", &mut |w: &mut World| close(w));
        }
    }
    let out = json!({"instructions": rt.instructions, "classes": rt.classes});
    let n = sink.finish();
    println!("{}", json!({"events": n, "stats": out}));
}

fn main() {
    let (mode, args) = Args::from_env();
    match mode.as_str() {
        "run" => run(&args),
        _ => {
            eprintln!("modes: run");
            std::process::exit(2);
        }
    }
}
