//! C33 driver: referral relationships through the REAL store instructions
//! (`prepare_user`, `initialize_referral_code`, `set_referrer`, `transfer_referral_code`,
//! `cancel_referral_code_transfer`, `accept_referral_code`) executed by the in-process runtime.
//!
//! modes
//!   replay --in paths.ndjson --out trace.ndjson
//!       every line of --in is `{"path":[{op,u,c,v}..], "st":{..}}` printed by TLC (MC_Referral): the
//!       history reaching one distinct state of the bounded model. The history is replayed (prefix
//!       cache of worlds), then EVERY operation of the model's action domain is attempted from that
//!       state on a copy of the world — including all the attempts the specification rejects.
//!   random --seed S --n N --out trace.ndjson
//!       random histories (4 users, 3 codes, 40 operations each) until N events.
//! every event: {op,u,c,v, ok, err, reset, pre:{..}, post:{..}} where pre/post are the abstract state
//! PROJECTED FROM THE ACCOUNT BYTES before / after the instruction.
use anchor_lang::solana_program::{pubkey::Pubkey, system_program};
use gmsol_store::states::user::{ReferralCodeV2, UserHeader};
use h_runtime::runtime::{keys::Labels, store as st, ExecResult, World};
use h_runtime::util::{Args, Rng, Sink};
use serde_json::{json, Map, Value};
use std::collections::HashMap;

struct Env {
    store: Pubkey,
    users: Vec<(String, Pubkey)>,
    codes: Vec<(String, [u8; 8])>,
    labels: Labels,
}

#[derive(Clone, Debug)]
struct Act {
    op: String,
    u: String,
    c: String,
    v: String,
}

impl Env {
    fn new(w: &mut World, nu: usize, nc: usize) -> Env {
        let mut labels = Labels::new();
        let admin = labels.key("admin");
        let store = st::bootstrap(w, &admin, &[], &[]);
        let mut users = Vec::new();
        for i in 1..=nu {
            let l = format!("u{i}");
            let k = labels.key(&l);
            w.airdrop(&k, 1_000_000_000_000);
            users.push((l, k));
        }
        let mut codes = Vec::new();
        for i in 1..=nc {
            let l = format!("c{i}");
            let mut b = [0u8; 8];
            b[..l.len()].copy_from_slice(l.as_bytes());
            labels.bind(st::referral_code_pda(&store, &b), &l);
            codes.push((l, b));
        }
        Env { store, users, codes, labels }
    }
    fn user(&self, l: &str) -> Pubkey {
        self.users.iter().find(|(x, _)| x == l).map(|(_, k)| *k).unwrap_or_else(|| panic!("user {l}"))
    }
    fn code(&self, l: &str) -> [u8; 8] {
        self.codes.iter().find(|(x, _)| x == l).map(|(_, k)| *k).unwrap_or_else(|| panic!("code {l}"))
    }
    fn user_pda(&self, l: &str) -> Pubkey {
        st::user_pda(&self.store, &self.user(l))
    }
    fn code_pda(&self, l: &str) -> Pubkey {
        st::referral_code_pda(&self.store, &self.code(l))
    }

    /// abstract state read back from the account bytes
    fn project(&self, w: &World) -> Value {
        let (mut prepared, mut referrer, mut user_code) = (Map::new(), Map::new(), Map::new());
        for (l, k) in &self.users {
            let pda = st::user_pda(&self.store, k);
            let h: Option<UserHeader> = match w.account(&pda) {
                Some(a) if a.owner == gmsol_store::ID => w.account_data(&pda),
                _ => None,
            };
            match h {
                Some(h) if h.is_initialized() => {
                    prepared.insert(l.clone(), json!(true));
                    let r = h.referral().referrer().copied().unwrap_or_default();
                    referrer.insert(l.clone(), json!(self.labels.label(&r)));
                    let c = h.referral().code().copied().unwrap_or_default();
                    user_code.insert(l.clone(), json!(self.labels.label(&c)));
                }
                _ => {
                    prepared.insert(l.clone(), json!(false));
                    referrer.insert(l.clone(), json!("none"));
                    user_code.insert(l.clone(), json!("none"));
                }
            }
        }
        let (mut owner, mut next) = (Map::new(), Map::new());
        for (l, b) in &self.codes {
            let pda = st::referral_code_pda(&self.store, b);
            let c: Option<ReferralCodeV2> = match w.account(&pda) {
                Some(a) if a.owner == gmsol_store::ID => w.account_data(&pda),
                _ => None,
            };
            match c {
                Some(c) => {
                    owner.insert(l.clone(), json!(self.labels.label(&c.owner)));
                    next.insert(l.clone(), json!(self.labels.label(c.next_owner())));
                }
                None => {
                    owner.insert(l.clone(), json!("none"));
                    next.insert(l.clone(), json!("none"));
                }
            }
        }
        json!({"prepared": prepared, "referrer": referrer, "userCode": user_code, "codeOwner": owner, "codeNext": next})
    }

    /// build and execute the real instruction for an abstract operation
    fn exec(&self, w: &mut World, a: &Act) -> ExecResult {
        let store = self.store;
        let signer = self.user(&a.u);
        let ix = match a.op.as_str() {
            "prepare" => st::ix(
                gmsol_store::accounts::PrepareUser {
                    owner: signer,
                    store,
                    user: self.user_pda(&a.u),
                    system_program: system_program::ID,
                },
                gmsol_store::instruction::PrepareUser {},
            ),
            "create" => st::ix(
                gmsol_store::accounts::InitializeReferralCode {
                    owner: signer,
                    store,
                    referral_code: self.code_pda(&a.c),
                    user: self.user_pda(&a.u),
                    system_program: system_program::ID,
                },
                gmsol_store::instruction::InitializeReferralCode { code: self.code(&a.c) },
            ),
            "set" => st::ix(
                gmsol_store::accounts::SetReferrer {
                    owner: signer,
                    store,
                    user: self.user_pda(&a.u),
                    referral_code: self.code_pda(&a.c),
                    referrer_user: self.user_pda(&a.v),
                },
                gmsol_store::instruction::SetReferrer { code: self.code(&a.c) },
            ),
            "transfer" => st::ix(
                gmsol_store::accounts::TransferReferralCode {
                    owner: signer,
                    store,
                    user: self.user_pda(&a.u),
                    referral_code: self.code_pda(&a.c),
                    receiver_user: self.user_pda(&a.v),
                },
                gmsol_store::instruction::TransferReferralCode {},
            ),
            "cancel" => st::ix(
                gmsol_store::accounts::CancelReferralCodeTransfer {
                    owner: signer,
                    store,
                    user: self.user_pda(&a.u),
                    referral_code: self.code_pda(&a.c),
                },
                gmsol_store::instruction::CancelReferralCodeTransfer {},
            ),
            "accept" => {
                // like a client: the `user` account is the current owner's, looked up on chain
                let pda = self.code_pda(&a.c);
                let cur_owner = w
                    .account(&pda)
                    .filter(|acc| acc.owner == gmsol_store::ID)
                    .and_then(|_| w.account_data::<ReferralCodeV2>(&pda))
                    .map(|c| c.owner)
                    .unwrap_or(signer);
                st::ix(
                    gmsol_store::accounts::AcceptReferralCode {
                        next_owner: signer,
                        store,
                        user: st::user_pda(&store, &cur_owner),
                        referral_code: pda,
                        receiver_user: self.user_pda(&a.u),
                    },
                    gmsol_store::instruction::AcceptReferralCode {},
                )
            }
            other => panic!("unknown op {other}"),
        };
        w.execute(&ix, &[signer])
    }

    fn actions(&self) -> Vec<Act> {
        let mut v = Vec::new();
        let none = || "none".to_string();
        for (u, _) in &self.users {
            v.push(Act { op: "prepare".into(), u: u.clone(), c: none(), v: none() });
            for (c, _) in &self.codes {
                for op in ["create", "cancel", "accept"] {
                    v.push(Act { op: op.into(), u: u.clone(), c: c.clone(), v: none() });
                }
                for (x, _) in &self.users {
                    for op in ["set", "transfer"] {
                        v.push(Act { op: op.into(), u: u.clone(), c: c.clone(), v: x.clone() });
                    }
                }
            }
        }
        v
    }

    /// `pend`: the pending proposal per code implied by the ACCEPTED operations of the history so far
    /// (ghost kept by the driver, independent of the account's next_owner field); updated here.
    fn event(&self, w: &mut World, a: &Act, reset: bool, pend: &mut Pend, sink: &mut Sink) -> bool {
        let pre = self.project(w);
        let r = self.exec(w, a);
        let post = self.project(w);
        sink.emit(json!({"op": a.op, "u": a.u, "c": a.c, "v": a.v, "ok": r.ok, "err": r.label(),
            "panic": r.panic, "reset": reset, "pend": self.pend_json(pend), "pre": pre, "post": post}));
        if r.ok {
            note_accepted(pend, a);
        }
        r.ok
    }

    fn pend_json(&self, pend: &Pend) -> Value {
        let mut m = Map::new();
        for (c, _) in &self.codes {
            m.insert(c.clone(), json!(pend.get(c).cloned().unwrap_or_else(|| "none".to_string())));
        }
        Value::Object(m)
    }
}

type Pend = HashMap<String, String>;

/// the specification's bookkeeping of proposals: Transfer proposes, Cancel / Accept / Create clear
fn note_accepted(pend: &mut Pend, a: &Act) {
    match a.op.as_str() {
        "transfer" => {
            pend.insert(a.c.clone(), a.v.clone());
        }
        "cancel" | "accept" | "create" => {
            pend.remove(&a.c);
        }
        _ => {}
    }
}

fn act_of(v: &Value) -> Act {
    let s = |k: &str| v[k].as_str().unwrap_or("none").to_string();
    Act { op: s("op"), u: s("u"), c: s("c"), v: s("v") }
}

fn path_key(p: &[Value]) -> String {
    p.iter().map(|a| format!("{}:{}:{}:{};", a["op"], a["u"], a["c"], a["v"])).collect()
}

fn replay(args: &Args) {
    let input = std::fs::read_to_string(args.str("in", "paths.ndjson")).expect("read --in");
    let mut sink = Sink::create(&args.str("out", "trace.ndjson"));
    let mut base = World::new();
    let env = Env::new(&mut base, args.num("users", 3) as usize, args.num("codes", 2) as usize);
    let actions = env.actions();
    let mut cache: HashMap<String, (World, Pend)> = HashMap::new();
    cache.insert(String::new(), (base, Pend::new()));
    let mut rows: Vec<Value> = input.lines().filter(|l| !l.trim().is_empty()).map(|l| serde_json::from_str(l).unwrap()).collect();
    rows.sort_by_key(|r| r["path"].as_array().map(|p| p.len()).unwrap_or(0));
    let (mut states, mut unreachable, mut state_mismatch) = (0usize, 0usize, 0usize);
    for row in &rows {
        let path = row["path"].as_array().cloned().unwrap_or_default();
        // longest cached prefix
        let mut k = path.len();
        while !cache.contains_key(&path_key(&path[..k])) {
            k -= 1;
        }
        let (mut w, mut pend) = cache[&path_key(&path[..k])].clone();
        let mut reached = true;
        for j in k..path.len() {
            let a = act_of(&path[j]);
            let r = env.exec(&mut w, &a);
            if !r.ok {
                reached = false;
                break;
            }
            note_accepted(&mut pend, &a);
            cache.insert(path_key(&path[..=j]), (w.clone(), pend.clone()));
        }
        if !reached {
            // the code rejected a step the specification accepts: reported as drift by the trace of
            // the parent state (all its operations are attempted there)
            unreachable += 1;
            continue;
        }
        if env.project(&w) != row["st"] {
            state_mismatch += 1;
        }
        states += 1;
        for (n, a) in actions.iter().enumerate() {
            let mut w2 = w.clone();
            let _ = n;
            env.event(&mut w2, a, true, &mut pend.clone(), &mut sink);
        }
    }
    let n = sink.finish();
    println!("{}", json!({"states": states, "unreachable": unreachable, "state_mismatch": state_mismatch, "events": n, "actions_per_state": actions.len()}));
}

fn random(args: &Args) {
    let mut rng = Rng::new(args.num("seed", 1));
    let n = args.num("n", 2000) as usize;
    let len = args.num("len", 40) as usize;
    let mut sink = Sink::create(&args.str("out", "trace.ndjson"));
    let mut base = World::new();
    let env = Env::new(&mut base, args.num("users", 4) as usize, args.num("codes", 3) as usize);
    let actions = env.actions();
    let (mut accepted, mut histories) = (0usize, 0usize);
    while sink.n < n {
        let mut w = base.clone();
        let mut pend = Pend::new();
        histories += 1;
        // most histories start with some users prepared so that deep states are reached
        let skip = rng.below(4) == 0;
        // every fifth history: a completed transfer, then acceptances WITHOUT a new proposal (by the
        // previous owner and by a third party), then a second round trip
        let scripted = !skip && histories % 5 == 0;
        let mk = |op: &str, u: &str, c: &str, v: &str| Act { op: op.into(), u: u.into(), c: c.into(), v: v.into() };
        let (a, b, t) = (rng.pick(&["u1", "u2"]).to_string(), "u3".to_string(), "u4".to_string());
        let c = rng.pick(&["c1", "c2", "c3"]).to_string();
        let script = vec![
            mk("create", &a, &c, "none"),
            mk("accept", &b, &c, "none"),
            mk("transfer", &a, &c, &b),
            mk("accept", &t, &c, "none"),
            mk("accept", &b, &c, "none"),
            mk("accept", &a, &c, "none"),
            mk("accept", &t, &c, "none"),
            mk("cancel", &b, &c, "none"),
            mk("transfer", &b, &c, &a),
            mk("cancel", &b, &c, "none"),
            mk("accept", &a, &c, "none"),
        ];
        for i in 0..len {
            let a = if !skip && i < env.users.len() {
                Act { op: "prepare".into(), u: env.users[i].0.clone(), c: "none".into(), v: "none".into() }
            } else if scripted && i < env.users.len() + script.len() {
                script[i - env.users.len()].clone()
            } else {
                // bias towards operations that can succeed: try a few candidates on a copy
                let mut pick = rng.pick(&actions).clone();
                if rng.below(3) != 0 {
                    for _ in 0..6 {
                        let cand = rng.pick(&actions).clone();
                        if cand.op == "prepare" {
                            continue;
                        }
                        let mut probe = w.clone();
                        if env.exec(&mut probe, &cand).ok {
                            pick = cand;
                            break;
                        }
                    }
                }
                pick
            };
            if env.event(&mut w, &a, i == 0, &mut pend, &mut sink) {
                accepted += 1;
            }
        }
    }
    let n = sink.finish();
    println!("{}", json!({"events": n, "accepted": accepted, "histories": histories}));
}

fn main() {
    let (mode, args) = Args::from_env();
    match mode.as_str() {
        "replay" => replay(&args),
        "random" => random(&args),
        _ => {
            eprintln!("modes: replay | random");
            std::process::exit(2);
        }
    }
}
