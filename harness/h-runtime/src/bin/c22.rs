//! C22 driver: vault solvency after every instruction, in world R2 (4 markets: M1 and M2 share both
//! vaults, M3 shares the B vault, MP is a single-token market on B), through the REAL instructions.
//!
//! modes
//!   replay --in scripts.ndjson --out trace.ndjson
//!       every line of --in is `{"path":[{op,m,m2,side,a}..]}` printed by TLC (MC_Vaults): a script of
//!       abstract operations.  Each operation becomes the real instruction sequence (create / execute /
//!       close of a deposit, withdrawal, swap order, shift, increase / decrease order; claim_fees_from_market;
//!       market_transfer_in;
//!       a plain SPL transfer into a vault) with scaled amounts, from a copy of the funded world.
//!   random --seed S --n N --out trace.ndjson
//!       random scripts (incl. deposits / withdrawals / swap orders along 1-3 hop paths) until N events.
//! every event = ONE instruction: {op, step, side, amt, ok, err, reset, meta, touched, hops, pre, post, ..};
//! pre / post are the Vaults state READ BACK FROM THE ACCOUNTS (market balances and pools, vault amounts).
use h_runtime::runtime::World;
use h_runtime::util::{Args, Rng, Sink};
use h_runtime::world2::*;
use serde_json::{json, Value};

fn mi(r2: &R2, l: &str) -> usize {
    r2.mkts.iter().position(|m| m.label == l).unwrap_or(0)
}

fn abs_of(r2: &R2, v: &Value, k: usize) -> AbsOp {
    let s = |f: &str| v[f].as_str().unwrap_or("none").to_string();
    let side = s("side");
    AbsOp {
        // the design's collateral in / out are MarketIncrease / MarketDecrease orders
        op: match s("op").as_str() {
            "collateral_in" => "increase".to_string(),
            "collateral_out" => "decrease".to_string(),
            other => other.to_string(),
        },
        m: mi(r2, &s("m")),
        m2: mi(r2, &s("m2")),
        side_long: side == "long" || side == "A",
        a: v["a"].as_u64().unwrap_or(1).max(1),
        user: k,
        tok: r2.toks.iter().position(|t| t.label == side).unwrap_or(0),
        ..Default::default()
    }
}

fn replay(args: &Args) {
    let input = std::fs::read_to_string(args.str("in", "scripts.ndjson")).expect("read --in");
    let mut sink = Sink::create(&args.str("out", "trace.ndjson"));
    let mut base = World::new();
    let r2 = R2::build_funded(&mut base, 2);
    let mut rec = TraceRec::new(&r2, &mut sink);
    let mut scripts = 0usize;
    for line in input.lines().filter(|l| !l.trim().is_empty()) {
        let row: Value = serde_json::from_str(line).unwrap();
        let mut w = base.clone();
        let mut ctr = 0u64;
        rec.reset = true;
        scripts += 1;
        for (k, o) in row["path"].as_array().cloned().unwrap_or_default().iter().enumerate() {
            let a = abs_of(&r2, o, k);
            rec.step = a.op.clone();
            r2.run_op(&mut w, &mut rec, &a, &mut ctr);
        }
    }
    // withdrawals with output swap paths of two hops that end in a token of the path's first market
    for (m, p1, p2) in [("M1", vec!["M2", "M1"], vec![]), ("M1", vec![], vec!["M2", "M1"]), ("M2", vec!["M1", "M2"], vec!["M1", "M2"]),
                        ("M1", vec!["M1", "M2"], vec!["M1", "M2"]), ("M3", vec![], vec!["M1", "M2"]), ("M3", vec![], vec!["M2", "M1"])] {
        let mut w = base.clone();
        let mut ctr = 4000u64;
        rec.reset = true;
        rec.step = "withdraw_path".into();
        let o = AbsOp { op: "withdraw_path".into(), m: mi(&r2, m), a: 2, user: 0, path: p1.iter().map(|l| mi(&r2, l)).collect(), path2: p2.iter().map(|l| mi(&r2, l)).collect(), ..Default::default() };
        r2.run_op(&mut w, &mut rec, &o, &mut ctr);
    }
    // position cuts: every (market, position side, collateral side, liquidate | ADL, swap ok | swap fails)
    for m in ["M1", "M3", "M2"] {
        for a in 0..4u64 {
            for (is_long, col_long) in [(true, false), (false, true), (true, true), (false, false)] {
                let mut w = base.clone();
                let mut ctr = 5000u64;
                rec.reset = true;
                rec.step = "cut_scenario".into();
                let o = AbsOp { op: "cut_scenario".into(), m: mi(&r2, m), side_long: is_long, a, user: 0, tok_out: if col_long { Some(0) } else { None }, ..Default::default() };
                r2.run_op(&mut w, &mut rec, &o, &mut ctr);
            }
        }
    }
    let out = json!({"scripts": scripts, "instructions": rec.instructions, "ok_instructions": rec.ok_instructions, "hops": rec.hops_seen, "classes": rec.classes});
    let n = sink.finish();
    println!("{}", json!({"events": n, "stats": out}));
}

fn random(args: &Args) {
    let mut rng = Rng::new(args.num("seed", 1));
    let n = args.num("n", 3000) as usize;
    let len = args.num("len", 12) as usize;
    let mut sink = Sink::create(&args.str("out", "trace.ndjson"));
    let mut base = World::new();
    let r2 = R2::build_funded(&mut base, 2);
    let mut rec = TraceRec::new(&r2, &mut sink);
    let mut scripts = 0usize;
    while rec.instructions < n {
        let mut w = base.clone();
        let mut ctr = 0u64;
        rec.reset = true;
        scripts += 1;
        for _ in 0..len {
            let a = random_op(&r2, &mut rng);
            rec.step = a.op.clone();
            r2.run_op(&mut w, &mut rec, &a, &mut ctr);
        }
    }
    let out = json!({"scripts": scripts, "instructions": rec.instructions, "ok_instructions": rec.ok_instructions, "hops": rec.hops_seen, "classes": rec.classes});
    let n = sink.finish();
    println!("{}", json!({"events": n, "stats": out}));
}

fn main() {
    let (mode, args) = Args::from_env();
    match mode.as_str() {
        "replay" => replay(&args),
        "random" => random(&args),
        _ => {
            eprintln!("modes: replay | random");
            std::process::exit(2);
        }
    }
}
