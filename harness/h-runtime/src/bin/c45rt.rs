//! C45 runtime binding: programs/store/src/ops/glv.rs executed through the REAL instructions
//! initialize_glv, insert_glv_market, toggle_glv_market_flag, update_glv_market_config,
//! create / execute / close of GLV deposits and GLV withdrawals in world R2 (GLV token: Token-2022).
//!
//! run --out trace.ndjson
//!   insert rule: initialize_glv / insert_glv_market with markets of the same and of other token pairs.
//!   limits: GLV over M1, M2; max amount / max value configured by update_glv_market_config; deposits
//!   of market tokens (and of long tokens, which the execution first deposits into the market) that
//!   stay below / reach / cross the limits.  The value of the balance is computed by the program's own
//!   `get_market_token_value` instruction.
//!   round trip: deposit m market tokens, then withdraw every GLV token minted through the same
//!   market; prices with and without spread, with and without a profitable open position in the market.
//! every event = one user action driven create -> execute -> close (op deposit / withdraw / roundtrip) or
//! one management instruction (op init / insert); balances are read from the GLV's vault token accounts.
use anchor_lang::prelude::Pubkey;
use gmsol_store::states::Glv;
use h_runtime::runtime::{spl, store as st, ExecResult, World};
use h_runtime::util::{Args, Sink};
use h_runtime::world2::*;
use serde_json::{json, Value};

const USD: u128 = 100_000_000_000_000_000_000;

fn bigu(v: u128) -> Value {
    let mut m = v;
    let mut l = [0u32; 7];
    for i in (0..7).rev() {
        l[i] = (m & 0xF_FFFF) as u32;
        m >>= 20;
    }
    assert!(m == 0);
    json!({"s": v.to_string(), "neg": false, "l": l})
}

struct Rt<'a> {
    r2: &'a R2,
    sink: &'a mut Sink,
    classes: std::collections::BTreeMap<String, usize>,
    instructions: usize,
    n: u64,
}

impl Rt<'_> {
    fn nonce(&mut self) -> [u8; 32] {
        self.n += 1;
        let mut x = [0u8; 32];
        x[..8].copy_from_slice(&self.n.to_le_bytes());
        x[31] = 45;
        x
    }

    fn exec(&mut self, w: &mut World, what: &str, f: impl FnOnce(&mut World) -> ExecResult) -> ExecResult {
        let r = f(w);
        self.instructions += 1;
        *self.classes.entry(format!("{what}/{}", r.label())).or_insert(0) += 1;
        r
    }

    fn glv_state(&self, w: &World, g: &GlvEnv, mi: usize) -> (u64, u64, u128, u64) {
        let m = &self.r2.mkts[mi];
        let glv: Option<Glv> = w.account_data(&g.glv);
        let (max_amount, max_value, recorded) = glv
            .as_ref()
            .and_then(|x| x.market_config(&m.market_token))
            .map(|c| (c.max_amount(), c.max_value(), c.balance()))
            .unwrap_or((0, 0, 0));
        let _ = recorded;
        (self.r2.balance(w, &spl::ata(&g.glv, &m.market_token)), max_amount, max_value, spl::mint_supply(w, &g.glv_token).unwrap_or(0))
    }

    /// the program's own valuation of `amount` market tokens (get_market_token_value, MaxAfterDeposit, maximised)
    fn value_of(&mut self, w: &World, mi: usize, amount: u64) -> u128 {
        let r2 = self.r2;
        let m = &r2.mkts[mi];
        let mut w2 = w.clone();
        let mut ix = st::ix(
            gmsol_store::accounts::GetMarketTokenValue {
                authority: r2.keeper,
                store: r2.store,
                token_map: r2.token_map,
                oracle: r2.oracle,
                market: m.market,
                market_token: m.market_token,
                event_authority: st::event_authority(&gmsol_store::ID),
                program: gmsol_store::ID,
            },
            gmsol_store::instruction::GetMarketTokenValue { amount, pnl_factor: "max_after_deposit".into(), maximize: true, max_age: 3600, emit_event: false },
        );
        let mut tokens = vec![r2.toks[m.index].mint, r2.toks[m.long].mint, r2.toks[m.short].mint];
        tokens.sort();
        tokens.dedup();
        for t in tokens {
            ix.accounts.push(anchor_lang::solana_program::instruction::AccountMeta::new_readonly(r2.tok_by_mint(&t).unwrap().feed, false));
        }
        let r = w2.execute(&ix, &[r2.keeper]);
        self.instructions += 1;
        assert!(r.ok, "get_market_token_value failed: {:?}", r.logs);
        r.return_value::<u128>().expect("u128 return value")
    }

    fn st_json(&self, s: (u64, u64, u128, u64)) -> Value {
        json!({"bal": s.0, "maxAmount": s.1, "maxValue": bigu(s.2), "supply": s.3.to_string(), "hasSupply": s.3 > 0})
    }

    #[allow(clippy::too_many_arguments)]
    fn emit(&mut self, op: &str, case: &str, ok: bool, err: &str, tokens: [&str; 4], i: &str, m: u64, minted: u64, returned: u64, pre: Value, post: Value, bal_value: u128, world_same: bool) {
        self.sink.emit(json!({"op": op, "case": case, "ok": ok, "err": err, "reset": true,
            "glong": tokens[0], "gshort": tokens[1], "mlong": tokens[2], "mshort": tokens[3],
            "i": i, "m": m, "minted": minted, "returned": returned, "pre": pre, "post": post, "balValue": bigu(bal_value), "worldSame": world_same}));
    }

    /// create -> execute -> close of a GLV deposit; returns (executed, GLV tokens the owner received)
    fn deposit(&mut self, w: &mut World, g: &GlvEnv, mi: usize, owner: &Pubkey, mt_amount: u64, long_amount: u64) -> (bool, String, u64) {
        let r2 = self.r2;
        let nn = self.nonce();
        let d = r2.glv_deposit_pda(owner, &nn);
        let glv_before = balance22(w, &ata22(owner, &g.glv_token));
        let r = self.exec(w, "create_glv_deposit", |w| r2.create_glv_deposit(w, owner, g, mi, &nn, mt_amount, 0, long_amount, 0));
        if !r.ok {
            return (false, r.label(), 0);
        }
        r2.tick(w);
        let ix = r2.execute_glv_deposit_ix(g, mi, &d, false);
        let keeper = r2.keeper;
        let r = self.exec(w, "execute_glv_deposit", |w| w.execute(&ix, &[keeper]));
        let state = r2.action_state(w, &d);
        let err = if r.ok && state == Some(2) { "cancelled".to_string() } else { r.label() };
        let rc = self.exec(w, "close_glv_deposit", |w| r2.close_glv_deposit(w, owner, owner, g, mi, &d));
        assert!(rc.ok, "close_glv_deposit failed: {:?}", rc.logs);
        (r.ok && state == Some(1), err, balance22(w, &ata22(owner, &g.glv_token)) - glv_before)
    }

    fn withdraw(&mut self, w: &mut World, g: &GlvEnv, mi: usize, owner: &Pubkey, glv_amount: u64) -> (bool, String) {
        let r2 = self.r2;
        let nn = self.nonce();
        let wd = r2.glv_withdrawal_pda(owner, &nn);
        let r = self.exec(w, "create_glv_withdrawal", |w| r2.create_glv_withdrawal(w, owner, g, mi, &nn, glv_amount));
        if !r.ok {
            return (false, r.label());
        }
        r2.tick(w);
        let ix = r2.execute_glv_withdrawal_ix(g, mi, &wd, false);
        let keeper = r2.keeper;
        let r = self.exec(w, "execute_glv_withdrawal", |w| w.execute(&ix, &[keeper]));
        let state = r2.action_state(w, &wd);
        let err = if r.ok && state == Some(2) { "cancelled".to_string() } else { r.label() };
        let rc = self.exec(w, "close_glv_withdrawal", |w| r2.close_glv_withdrawal(w, owner, owner, g, mi, &wd));
        assert!(rc.ok, "close_glv_withdrawal failed: {:?}", rc.logs);
        (r.ok && state == Some(1), err)
    }
}

fn run(args: &Args) {
    let mut sink = Sink::create(&args.str("out", "trace.ndjson"));
    let mut base = World::new();
    let r2 = R2::build_funded(&mut base, 2);
    let mi = |l: &str| r2.mkts.iter().position(|m| m.label == l).unwrap();
    let (m1, m2, m3, mp) = (mi("M1"), mi("M2"), mi("M3"), mi("MP"));
    let keeper = r2.keeper;
    let tl = |i: usize, long: bool| r2.toks[if long { r2.mkts[i].long } else { r2.mkts[i].short }].label.clone();
    let mut rt = Rt { r2: &r2, sink: &mut sink, classes: Default::default(), instructions: 0, n: 0 };
    let none = json!({"bal": 0, "maxAmount": 0, "maxValue": bigu(0), "supply": "0", "hasSupply": false});

    // ---- insert rule: initialize_glv with market sets, insert_glv_market afterwards
    let mut idx = 0u16;
    for set in [vec![m1, m2], vec![m1], vec![m2, m1], vec![m1, m3], vec![m3, m1], vec![mp, m1], vec![m3], vec![mp], vec![m1, m1]] {
        let mut w = base.clone();
        idx += 1;
        let (ix, g) = r2.initialize_glv_ix(idx, &set);
        let d0 = w.digest();
        let r = rt.exec(&mut w, "initialize_glv", |w| w.execute(&ix, &[keeper]));
        // the GLV takes its tokens from the first market; report the market that differs most
        let first = set[0];
        let other = *set.iter().find(|i| tl(**i, true) != tl(first, true) || tl(**i, false) != tl(first, false)).unwrap_or(&first);
        let case = set.iter().map(|i| r2.mkts[*i].label.clone()).collect::<Vec<_>>().join("+");
        rt.emit("init", &case, r.ok, &r.label(), [&tl(first, true), &tl(first, false), &tl(other, true), &tl(other, false)], "none", 0, 0, 0, none.clone(), none.clone(), 0, d0 == w.digest());
        if r.ok {
            for ins in [m1, m2, m3, mp] {
                let mut w2 = w.clone();
                let ix = r2.insert_glv_market_ix(&g, ins);
                let d0 = w2.digest();
                let r = rt.exec(&mut w2, "insert_glv_market", |w| w.execute(&ix, &[keeper]));
                rt.emit("insert", &format!("{case}<-{}", r2.mkts[ins].label), r.ok, &r.label(), [&tl(first, true), &tl(first, false), &tl(ins, true), &tl(ins, false)], "none", 0, 0, 0, none.clone(), none.clone(), 0, d0 == w2.digest());
            }
        }
    }

    // ---- the GLV used below: M1 + M2, deposits allowed in both
    let mut wg = base.clone();
    let (ix, g) = r2.initialize_glv_ix(100, &[m1, m2]);
    must("initialize_glv", wg.execute(&ix, &[keeper]));
    for m in [m1, m2] {
        must("toggle_glv_market_flag", wg.execute(&r2.glv_market_flag_ix(&g, m, "is_deposit_allowed", true), &[keeper]));
    }
    let (u1, u2) = (r2.users[0], r2.users[1]);
    let toks = |i: usize| [tl(i, true), tl(i, false), tl(i, true), tl(i, false)];

    // ---- limits
    let unit: u64 = 100_000; // market tokens per step (10^9 units = 1 market token)
    for mkt in [m1, m2] {
        let t = toks(mkt);
        let tr = [t[0].as_str(), t[1].as_str(), t[2].as_str(), t[3].as_str()];
        let step_value = rt.value_of(&wg, mkt, unit);
        for (cfg_name, max_amount, max_value) in [
            ("unlimited", None, None),
            ("amount5", Some(5 * unit), None),
            ("value5", None, Some(5 * step_value)),
            ("amount3value5", Some(3 * unit), Some(5 * step_value)),
            ("amount8value2", Some(8 * unit), Some(2 * step_value + step_value / 2)),
        ] {
            let mut w = wg.clone();
            if max_amount.is_some() || max_value.is_some() {
                must("update_glv_market_config", w.execute(&r2.glv_market_config_ix(&g, mkt, max_amount, max_value), &[keeper]));
            }
            // a first deposit by the other user so that the GLV has supply
            for (k, (who, steps, long_leg)) in [(u2, 1u64, false), (u1, 1, false), (u1, 2, false), (u1, 1, true), (u1, 2, false), (u1, 3, false), (u1, 1, false)].into_iter().enumerate() {
                let pre = rt.glv_state(&w, &g, mkt);
                let d0 = w.digest();
                // the token leg deposits 20 units ($0.20) of the short token into the market first
                let (mt_amount, long_amount) = if long_leg { (0, steps * 20) } else { (steps * unit, 0) };
                let (ok, err, minted) = rt.deposit(&mut w, &g, mkt, &who, mt_amount, long_amount);
                let post = rt.glv_state(&w, &g, mkt);
                let bal_value = rt.value_of(&w, mkt, post.0);
                let pj = rt.st_json(pre);
                let qj = rt.st_json(post);
                rt.emit("deposit", &format!("{}:{cfg_name}:{k}", r2.mkts[mkt].label), ok, &err, tr, &r2.mkts[mkt].label, post.0.saturating_sub(pre.0), minted, 0, pj, qj, bal_value, d0 == w.digest());
            }
        }
    }

    // ---- round trips: with / without spread, with / without a profitable position in the market
    for mkt in [m1, m2] {
        let t = toks(mkt);
        let tr = [t[0].as_str(), t[1].as_str(), t[2].as_str(), t[3].as_str()];
        for spread in [0u64, 50] {
            for with_position in [false, true] {
                let mut w = wg.clone();
                if with_position {
                    let m = r2.mkts[mkt].clone();
                    let st0 = r2.flow_position(&mut w, &mut NoRec, &u2, mkt, &rt.nonce(), true, true, false, r2.units(m.short, 500), 1000 * USD);
                    assert_eq!(st0, Some(1));
                    let p = r2.current_price(&w, &r2.toks[m.index]);
                    r2.set_token_price(&mut w, m.index, p * 11 / 10);
                }
                if spread > 0 {
                    for ti in 0..r2.toks.len() {
                        let p = r2.current_price(&w, &r2.toks[ti]);
                        r2.set_token_price_spread(&mut w, ti, p, spread);
                    }
                }
                // somebody else holds GLV tokens already (normal operation)
                let (ok0, _, _) = rt.deposit(&mut w, &g, mkt, &u2, 7 * unit, 0);
                assert!(ok0, "seeding GLV deposit must execute");
                for steps in [1u64, 3, 10, 37] {
                    let mut w2 = w.clone();
                    let pre = rt.glv_state(&w2, &g, mkt);
                    let (ok1, err1, minted) = rt.deposit(&mut w2, &g, mkt, &u1, steps * unit + 7, 0);
                    let mid = rt.glv_state(&w2, &g, mkt);
                    let (ok2, err2) = if ok1 { rt.withdraw(&mut w2, &g, mkt, &u1, minted) } else { (false, "skipped".to_string()) };
                    let post = rt.glv_state(&w2, &g, mkt);
                    let case = format!("{}:spread{spread}:{}:{steps}", r2.mkts[mkt].label, if with_position { "pnl" } else { "flat" });
                    let pj = rt.st_json(pre);
                    let qj = rt.st_json(post);
                    rt.emit("roundtrip", &case, ok1 && ok2, if !ok1 { &err1 } else { &err2 }, tr, &r2.mkts[mkt].label, mid.0.saturating_sub(pre.0), minted, mid.0.saturating_sub(post.0), pj, qj, 0, false);
                }
            }
        }
    }
    let out = json!({"instructions": rt.instructions, "classes": rt.classes});
    let n = sink.finish();
    println!("{}", json!({"events": n, "stats": out}));
}

fn main() {
    let (mode, args) = Args::from_env();
    match mode.as_str() {
        "run" => run(&args),
        _ => {
            eprintln!("modes: run");
            std::process::exit(2);
        }
    }
}
