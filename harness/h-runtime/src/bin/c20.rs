//! C20 driver: market config keeper policy through the REAL store instructions
//! (`update_market_config`, `update_market_config_flag`, `update_market_config_with_buffer`,
//! `set_market_config_updatable`, `initialize/push_to/set_authority/close_market_config_buffer`) on a market
//! created by the real `initialize_market`, executed by the in-process runtime.
//!
//! modes
//!   replay --in paths.ndjson --out trace.ndjson [--full-depth D]
//!       lines `{"path":[action..],"st":{..}}` printed by TLC (MC_ConfigPolicy): each history is replayed,
//!       then every operation of the model's action domain is attempted from that state on a copy of
//!       the world (states deeper than D: only the update-class operations).
//!   random --seed S --n N --out trace.ndjson
//!       random + scripted-prefix histories over ALL real keys / flags (a window of keys per history),
//!       five kinds of signers, well-formed and malformed keys.
//! event: {op,s,k,v,b,flag,es,n, roles, ok, err, reset, pre, post}; pre/post = abstract state projected
//! from the account bytes: {cfg, flg, upd, buf:{exists,auth,expiry,entries}, now, rest}.
use anchor_lang::solana_program::{pubkey::Pubkey, system_program};
use gmsol_store::states::{market::config::{EntryArgs, MarketConfigBuffer}, Market, RoleKey, Store};
use gmsol_utils::market::{MarketConfigFlag, MarketConfigKey};
use h_runtime::runtime::{keys::Labels, market as mk, store as st, ExecResult, World};
use h_runtime::util::{Args, Rng, Sink};
use serde_json::{json, Map, Value};
use std::collections::HashMap;
use std::hash::{Hash, Hasher};

const SIGNERS: [&str; 5] = ["mk", "mck", "both", "other", "none"];
const MODEL_KEYS: [&str; 3] = ["swap_impact_exponent", "swap_impact_positive_factor", "swap_impact_negative_factor"];
const MODEL_FLAGS: [&str; 2] = ["skip_borrowing_fee_for_smaller_side", "ignore_open_interest_for_usage_factor"];

struct Env {
    store: Pubkey,
    market: Pubkey,
    buffer: Pubkey,
    labels: Labels,
    all_keys: Vec<String>,
    all_flags: Vec<String>,
    defaults: HashMap<String, u128>,
    perm_off: usize,
    /// keys / flags of the projection window
    keys: Vec<String>,
    flags: Vec<String>,
    rest0: String,
}

#[derive(Clone, Debug)]
struct Act {
    op: String,
    s: String,
    k: String,
    v: String,
    b: bool,
    flag: bool,
    es: Vec<(String, String)>,
    n: u64,
}

fn act_json(a: &Act) -> Value {
    json!({"op": a.op, "s": a.s, "k": a.k, "v": a.v, "b": a.b, "flag": a.flag,
           "es": a.es.iter().map(|(k, v)| json!({"k": k, "v": v})).collect::<Vec<_>>(), "n": a.n})
}

fn act_of(v: &Value) -> Act {
    Act {
        op: v["op"].as_str().unwrap().into(),
        s: v["s"].as_str().unwrap_or("none").into(),
        k: v["k"].as_str().unwrap_or("").into(),
        v: v["v"].as_str().unwrap_or("").into(),
        b: v["b"].as_bool().unwrap_or(false),
        flag: v["flag"].as_bool().unwrap_or(false),
        es: v["es"]
            .as_array()
            .map(|a| a.iter().map(|e| (e["k"].as_str().unwrap().to_string(), e["v"].as_str().unwrap().to_string())).collect())
            .unwrap_or_default(),
        n: v["n"].as_u64().unwrap_or(0),
    }
}

impl Env {
    fn new(w: &mut World) -> Env {
        let mut labels = Labels::new();
        let admin = labels.key("admin");
        let roles = [RoleKey::MARKET_KEEPER, RoleKey::MARKET_CONFIG_KEEPER, RoleKey::ORDER_KEEPER];
        let store = st::bootstrap(w, &admin, &roles, &[]);
        for s in SIGNERS {
            let k = labels.key(s);
            w.airdrop(&k, 1_000_000_000_000);
            let grants: &[&str] = match s {
                "mk" => &[RoleKey::MARKET_KEEPER],
                "mck" => &[RoleKey::MARKET_CONFIG_KEEPER],
                "both" => &[RoleKey::MARKET_KEEPER, RoleKey::MARKET_CONFIG_KEEPER],
                "other" => &[RoleKey::ORDER_KEEPER],
                _ => &[],
            };
            for r in grants {
                assert!(st::grant_role(w, &store, &admin, &k, r).ok);
            }
        }
        let creator = labels.key("creator");
        let m = mk::setup_market(w, &store, &admin, &creator, "c20");
        let buffer = labels.key("buf1");
        w.set_clock(1000, 1000);
        let all_keys: Vec<String> = (0u16..512).filter_map(|i| MarketConfigKey::try_from(i).ok()).map(|k| k.to_string()).collect();
        let all_flags: Vec<String> = (0u8..128).filter_map(|i| MarketConfigFlag::try_from(i).ok()).map(|k| k.to_string()).collect();
        let mut env = Env {
            store,
            market: m.market,
            buffer,
            labels,
            all_keys,
            all_flags,
            defaults: HashMap::new(),
            perm_off: 8 + std::mem::size_of::<Store>() - 992 - 32,
            keys: MODEL_KEYS.iter().map(|s| s.to_string()).collect(),
            flags: MODEL_FLAGS.iter().map(|s| s.to_string()).collect(),
            rest0: String::new(),
        };
        // the model starts with every flag FALSE: normalise through the real instruction
        for f in env.all_flags.clone() {
            let a = Act { op: "update_flag".into(), s: "mk".into(), k: f, v: String::new(), b: false, flag: true, es: vec![], n: 0 };
            assert!(env.exec(w, &a).ok);
        }
        let market: Market = w.account_data(&env.market).unwrap();
        for k in &env.all_keys {
            env.defaults.insert(k.clone(), *market.get_config(k).unwrap_or_else(|_| panic!("get_config {k}")));
        }
        env.calibrate(w);
        env
    }

    /// the permission bitmaps sit right before the trailing `reserved: [u8; 992]` of `Store`; check it
    /// by flipping bits through the real instruction on a copy of the world
    fn calibrate(&self, w: &World) {
        let mut c = w.clone();
        assert_eq!(self.perm_bits(&c), (0, 0), "permission bitmaps not found at the expected offset");
        let a = Act { op: "set_updatable".into(), s: "mk".into(), k: self.all_keys[5].clone(), v: String::new(), b: true, flag: false, es: vec![], n: 0 };
        assert!(self.exec(&mut c, &a).ok);
        let a = Act { op: "set_updatable".into(), s: "mk".into(), k: self.all_flags[1].clone(), v: String::new(), b: true, flag: true, es: vec![], n: 0 };
        assert!(self.exec(&mut c, &a).ok);
        assert_eq!(self.perm_bits(&c), (1u128 << 1, 1u128 << 5), "permission bitmaps not found at the expected offset");
    }

    /// (updatable flags bitmap, updatable factors bitmap) from the store account bytes
    fn perm_bits(&self, w: &World) -> (u128, u128) {
        let d = w.account_bytes(&self.store).unwrap();
        let o = self.perm_off;
        (
            u128::from_le_bytes(d[o..o + 16].try_into().unwrap()),
            u128::from_le_bytes(d[o + 16..o + 32].try_into().unwrap()),
        )
    }

    fn set_window(&mut self, w: &World, keys: Vec<String>, flags: Vec<String>) {
        self.keys = keys;
        self.flags = flags;
        self.rest0 = self.rest(w);
    }

    fn rest(&self, w: &World) -> String {
        let market: Market = w.account_data(&self.market).unwrap();
        let (fb, kb) = self.perm_bits(w);
        let mut h = std::collections::hash_map::DefaultHasher::new();
        for (i, k) in self.all_keys.iter().enumerate() {
            if !self.keys.contains(k) {
                market.get_config(k).map(|v| *v).unwrap_or(u128::MAX).hash(&mut h);
                ((kb >> i) & 1).hash(&mut h);
            }
        }
        for (i, f) in self.all_flags.iter().enumerate() {
            if !self.flags.contains(f) {
                market.get_config_flag(f).unwrap_or(false).hash(&mut h);
                ((fb >> i) & 1).hash(&mut h);
            }
        }
        (kb >> self.all_keys.len()).hash(&mut h);
        (fb >> self.all_flags.len()).hash(&mut h);
        format!("{:016x}", h.finish())
    }

    fn val_label(&self, k: &str, v: u128) -> String {
        if self.defaults.get(k) == Some(&v) {
            "d".into()
        } else {
            v.to_string()
        }
    }

    fn project(&self, w: &World) -> Value {
        let market: Market = w.account_data(&self.market).unwrap();
        let (fb, kb) = self.perm_bits(w);
        let (mut cfg, mut flg, mut upd) = (Map::new(), Map::new(), Vec::new());
        for k in &self.keys {
            cfg.insert(k.clone(), json!(self.val_label(k, *market.get_config(k).unwrap())));
            let i = self.all_keys.iter().position(|x| x == k).unwrap();
            if (kb >> i) & 1 == 1 {
                upd.push(json!(k));
            }
        }
        for f in &self.flags {
            flg.insert(f.clone(), json!(market.get_config_flag(f).unwrap()));
            let i = self.all_flags.iter().position(|x| x == f).unwrap();
            if (fb >> i) & 1 == 1 {
                upd.push(json!(f));
            }
        }
        let buf = match w.account(&self.buffer) {
            Some(a) if a.owner == gmsol_store::ID => w.anchor_account::<MarketConfigBuffer>(&self.buffer),
            _ => None,
        };
        let buf = match buf {
            Some(b) => json!({"exists": true, "auth": self.labels.label(&b.authority), "expiry": b.expiry,
                "entries": b.iter().map(|e| {
                    let k = e.key().map(|k| k.to_string()).unwrap_or_else(|_| "?".into());
                    let v = self.val_label(&k, e.value());
                    json!({"k": k, "v": v})
                }).collect::<Vec<_>>() }),
            None => json!({"exists": false, "auth": "none", "expiry": 0, "entries": []}),
        };
        let rest = self.rest(w);
        json!({"cfg": cfg, "flg": flg, "upd": upd, "buf": buf, "now": w.clock().0,
               "rest": if rest == self.rest0 { "r".to_string() } else { rest }})
    }

    /// policy roles of a signer, read from the store account bytes
    fn roles(&self, w: &World, s: &str) -> Vec<&'static str> {
        let store: Store = w.account_data(&self.store).unwrap();
        let k = self.labels_key(s);
        let mut v = Vec::new();
        if store.has_role(&k, RoleKey::MARKET_KEEPER).unwrap_or(false) {
            v.push("MK");
        }
        if store.has_role(&k, RoleKey::MARKET_CONFIG_KEEPER).unwrap_or(false) {
            v.push("MCK");
        }
        v
    }

    fn labels_key(&self, s: &str) -> Pubkey {
        h_runtime::runtime::keys::key(s)
    }

    fn exec(&self, w: &mut World, a: &Act) -> ExecResult {
        let (store, market, buffer) = (self.store, self.market, self.buffer);
        let authority = self.labels_key(&a.s);
        let mut signers = vec![authority];
        let ix = match a.op.as_str() {
            "update" => st::ix(
                gmsol_store::accounts::UpdateMarketConfig { authority, store, market },
                gmsol_store::instruction::UpdateMarketConfig { key: a.k.clone(), value: a.v.parse().unwrap_or(0) },
            ),
            "update_flag" => st::ix(
                gmsol_store::accounts::UpdateMarketConfig { authority, store, market },
                gmsol_store::instruction::UpdateMarketConfigFlag { key: a.k.clone(), value: a.b },
            ),
            "set_updatable" => st::ix(
                gmsol_store::accounts::SetMarketConfigUpdatable { authority, store },
                gmsol_store::instruction::SetMarketConfigUpdatable { is_flag: a.flag, key: a.k.clone(), updatable: a.b },
            ),
            "init_buffer" => {
                signers.push(buffer);
                st::ix(
                    gmsol_store::accounts::InitializeMarketConfigBuffer { authority, store, buffer, system_program: system_program::ID },
                    gmsol_store::instruction::InitializeMarketConfigBuffer { expire_after_secs: a.n as u32 },
                )
            }
            "push_buffer" => st::ix(
                gmsol_store::accounts::PushToMarketConfigBuffer { authority, buffer, system_program: system_program::ID },
                gmsol_store::instruction::PushToMarketConfigBuffer {
                    new_configs: a.es.iter().map(|(k, v)| EntryArgs { key: k.clone(), value: v.parse().unwrap_or(0) }).collect(),
                },
            ),
            "set_buffer_auth" => st::ix(
                gmsol_store::accounts::SetMarketConfigBufferAuthority { authority, buffer },
                gmsol_store::instruction::SetMarketConfigBufferAuthority { new_authority: self.labels_key(&a.k) },
            ),
            "close_buffer" => st::ix(
                gmsol_store::accounts::CloseMarketConfigBuffer { authority, buffer, receiver: authority },
                gmsol_store::instruction::CloseMarketConfigBuffer {},
            ),
            "with_buffer" => st::ix(
                gmsol_store::accounts::UpdateMarketConfigWithBuffer { authority, store, market, buffer },
                gmsol_store::instruction::UpdateMarketConfigWithBuffer {},
            ),
            "tick" => {
                w.advance_clock(a.n as i64, a.n);
                return w.execute_tx(&[], &[]);
            }
            other => panic!("unknown op {other}"),
        };
        w.execute(&ix, &signers)
    }

    fn event(&self, w: &mut World, a: &Act, reset: bool, sink: &mut Sink) -> bool {
        let pre = self.project(w);
        let roles = self.roles(w, &a.s);
        let r = self.exec(w, a);
        let post = self.project(w);
        // values are logged the way the projection labels them ("d" = the creation default)
        let mut la = a.clone();
        if a.op == "update" {
            if let Ok(x) = a.v.parse::<u128>() {
                la.v = self.val_label(&a.k, x);
            }
        }
        for (k, v) in la.es.iter_mut() {
            if let Ok(x) = v.parse::<u128>() {
                *v = self.val_label(k, x);
            }
        }
        let mut e = act_json(&la);
        let o = e.as_object_mut().unwrap();
        o.insert("roles".into(), json!(roles));
        o.insert("ok".into(), json!(r.ok));
        o.insert("err".into(), json!(r.label()));
        o.insert("panic".into(), json!(r.panic));
        o.insert("reset".into(), json!(reset));
        o.insert("pre".into(), pre);
        o.insert("post".into(), post);
        sink.emit(e);
        r.ok
    }

    /// the action domain of MC_ConfigPolicy
    fn model_actions(&self) -> Vec<Act> {
        let mut v = Vec::new();
        let a = |op: &str, s: &str, k: &str, val: &str, b: bool, flag: bool, es: Vec<(String, String)>, n: u64| Act {
            op: op.into(), s: s.into(), k: k.into(), v: val.into(), b, flag, es, n,
        };
        let signers = ["mk", "mck", "none"];
        let e = |k: &str, val: &str| (k.to_string(), val.to_string());
        let mut lists: Vec<Vec<(String, String)>> = MODEL_KEYS.iter().map(|k| vec![e(k, "7")]).collect();
        lists.push(vec![e(MODEL_KEYS[0], "7"), e(MODEL_KEYS[1], "8")]);
        for s in signers {
            for k in MODEL_KEYS {
                for val in ["1", "2"] {
                    v.push(a("update", s, k, val, false, false, vec![], 0));
                }
                for b in [false, true] {
                    v.push(a("set_updatable", s, k, "", b, false, vec![], 0));
                }
            }
            for f in MODEL_FLAGS {
                for b in [false, true] {
                    v.push(a("update_flag", s, f, "", b, true, vec![], 0));
                    v.push(a("set_updatable", s, f, "", b, true, vec![], 0));
                }
            }
            for n in [0, 10] {
                v.push(a("init_buffer", s, "", "", false, false, vec![], n));
            }
            for l in &lists {
                v.push(a("push_buffer", s, "", "", false, false, l.clone(), 0));
            }
            for x in signers {
                v.push(a("set_buffer_auth", s, x, "", false, false, vec![], 0));
            }
            v.push(a("close_buffer", s, "", "", false, false, vec![], 0));
            v.push(a("with_buffer", s, "", "", false, false, vec![], 0));
        }
        v.push(a("tick", "none", "", "", false, false, vec![], 10));
        v
    }
}

fn path_key(p: &[Value]) -> String {
    p.iter().map(|a| a.to_string()).collect::<Vec<_>>().join(";")
}

/// the model's `st` and the projection agree (model sets are arrays in arbitrary order)
fn same_state(a: &Value, b: &Value) -> bool {
    let norm = |v: &Value| {
        let mut v = v.clone();
        if let Some(u) = v.get_mut("upd").and_then(|u| u.as_array_mut()) {
            u.sort_by_key(|x| x.as_str().unwrap_or("").to_string());
        }
        v
    };
    norm(a) == norm(b)
}

fn replay(args: &Args) {
    let input = std::fs::read_to_string(args.str("in", "paths.ndjson")).expect("read --in");
    let full_depth = args.num("full-depth", 99) as usize;
    let mut sink = Sink::create(&args.str("out", "trace.ndjson"));
    let mut base = World::new();
    let mut env = Env::new(&mut base);
    let (keys, flags) = (env.keys.clone(), env.flags.clone());
    env.set_window(&base, keys, flags);
    let actions = env.model_actions();
    let mut cache: HashMap<String, World> = HashMap::new();
    cache.insert(String::new(), base);
    let mut rows: Vec<Value> = input.lines().filter(|l| !l.trim().is_empty()).map(|l| serde_json::from_str(l).unwrap()).collect();
    rows.sort_by_key(|r| r["path"].as_array().map(|p| p.len()).unwrap_or(0));
    let (mut states, mut unreachable, mut state_mismatch) = (0usize, 0usize, 0usize);
    for row in &rows {
        let path = row["path"].as_array().cloned().unwrap_or_default();
        let mut k = path.len();
        while !cache.contains_key(&path_key(&path[..k])) {
            k -= 1;
        }
        let mut w = cache[&path_key(&path[..k])].clone();
        let mut reached = true;
        for j in k..path.len() {
            if !env.exec(&mut w, &act_of(&path[j])).ok {
                reached = false;
                break;
            }
            cache.insert(path_key(&path[..=j]), w.clone());
        }
        if !reached {
            unreachable += 1;
            continue;
        }
        if !same_state(&env.project(&w), &row["st"]) {
            state_mismatch += 1;
        }
        states += 1;
        let deep = path.len() > full_depth;
        for a in &actions {
            if deep && !matches!(a.op.as_str(), "update" | "update_flag" | "with_buffer") {
                continue;
            }
            let mut w2 = w.clone();
            env.event(&mut w2, a, true, &mut sink);
        }
    }
    let n = sink.finish();
    println!("{}", json!({"states": states, "unreachable": unreachable, "state_mismatch": state_mismatch, "events": n, "actions_per_state": actions.len()}));
}

fn random(args: &Args) {
    let mut rng = Rng::new(args.num("seed", 1));
    let n = args.num("n", 3000) as usize;
    let len = args.num("len", 30) as usize;
    let mut sink = Sink::create(&args.str("out", "trace.ndjson"));
    let mut base = World::new();
    let mut env = Env::new(&mut base);
    let mut histories = 0usize;
    let mut keys_used: std::collections::HashSet<String> = Default::default();
    let mk_act = |op: &str, s: &str, k: &str, val: &str, b: bool, flag: bool, es: Vec<(String, String)>, n: u64| Act {
        op: op.into(), s: s.into(), k: k.into(), v: val.into(), b, flag, es, n,
    };
    // sweep: every real key k on its own (window = k and its successor): written by a market keeper,
    // marked updatable, written by a market-config keeper directly and through a buffer
    for i in 0..env.all_keys.len() {
        let mut w = base.clone();
        histories += 1;
        let keys: Vec<String> = vec![env.all_keys[i].clone(), env.all_keys[(i + 1) % env.all_keys.len()].clone()];
        keys_used.extend(keys.iter().cloned());
        let flags = env.all_flags.clone();
        env.set_window(&w, keys.clone(), flags);
        let k = keys[0].as_str();
        let script = vec![
            mk_act("update", "mk", k, "7", false, false, vec![], 0),
            mk_act("update", "mck", k, "8", false, false, vec![], 0),
            mk_act("set_updatable", "mk", k, "", true, false, vec![], 0),
            mk_act("update", "mck", k, "9", false, false, vec![], 0),
            mk_act("init_buffer", "mck", "", "", false, false, vec![], 100),
            mk_act("push_buffer", "mck", "", "", false, false, vec![(k.to_string(), "11".to_string())], 0),
            mk_act("with_buffer", "mck", "", "", false, false, vec![], 0),
        ];
        for (j, a) in script.iter().enumerate() {
            env.event(&mut w, a, j == 0, &mut sink);
        }
    }
    while sink.n < n {
        let mut w = base.clone();
        histories += 1;
        // window: 4 keys walking through all real keys, all flags
        let off = (histories * 4) % env.all_keys.len();
        let keys: Vec<String> = (0..4).map(|i| env.all_keys[(off + i) % env.all_keys.len()].clone()).collect();
        let flags = env.all_flags.clone();
        keys_used.extend(keys.iter().cloned());
        env.set_window(&w, keys.clone(), flags.clone());
        let pick_key = |rng: &mut Rng| -> String {
            if rng.below(12) == 0 { "no_such_key".to_string() } else { rng.pick(&keys).clone() }
        };
        let pick_flag = |rng: &mut Rng| -> String {
            if rng.below(12) == 0 { "no_such_flag".to_string() } else { rng.pick(&flags).clone() }
        };
        let val = |rng: &mut Rng| -> String {
            match rng.below(4) {
                0 => "0".to_string(),
                1 => rng.below(1000).to_string(),
                2 => (rng.next128() >> rng.below(100)).to_string(),
                _ => u128::MAX.to_string(),
            }
        };
        let mut script: Vec<Act> = Vec::new();
        if rng.below(3) != 0 {
            // scripted prefix: permissions, a buffer mixing updatable and non-updatable entries,
            // expiry before / at / after now, applied by a random signer
            for k in &keys {
                if rng.below(2) == 0 {
                    script.push(mk_act("set_updatable", "mk", k, "", true, false, vec![], 0));
                }
            }
            let owner = *rng.pick(&SIGNERS);
            script.push(mk_act("init_buffer", owner, "", "", false, false, vec![], *rng.pick(&[0u64, 5, 10, 20])));
            for _ in 0..1 + rng.below(3) {
                let es: Vec<(String, String)> = (0..1 + rng.below(3)).map(|_| (rng.pick(&keys).clone(), val(&mut rng))).collect();
                script.push(mk_act("push_buffer", owner, "", "", false, false, es, 0));
            }
            if rng.below(3) == 0 {
                script.push(mk_act("set_buffer_auth", owner, *rng.pick(&SIGNERS), "", false, false, vec![], 0));
            }
            script.push(mk_act("tick", "none", "", "", false, false, vec![], *rng.pick(&[0u64, 5, 10, 15])));
            for _ in 0..2 {
                script.push(mk_act("with_buffer", *rng.pick(&SIGNERS), "", "", false, false, vec![], 0));
            }
        }
        for i in 0..len {
            let a = if i < script.len() {
                script[i].clone()
            } else {
                let s = *rng.pick(&SIGNERS);
                match rng.below(16) {
                    0..=3 => mk_act("update", s, &pick_key(&mut rng), &val(&mut rng), false, false, vec![], 0),
                    4..=5 => mk_act("update_flag", s, &pick_flag(&mut rng), "", rng.below(2) == 0, true, vec![], 0),
                    6..=7 => {
                        let flag = rng.below(3) == 0;
                        let k = if flag { pick_flag(&mut rng) } else { pick_key(&mut rng) };
                        let s = if rng.below(2) == 0 { "mk" } else { s };
                        mk_act("set_updatable", s, &k, "", rng.below(3) != 0, flag, vec![], 0)
                    }
                    8 => mk_act("init_buffer", s, "", "", false, false, vec![], *rng.pick(&[0u64, 5, 10, 20])),
                    9..=10 => {
                        let es: Vec<(String, String)> = (0..1 + rng.below(3)).map(|_| (pick_key(&mut rng), val(&mut rng))).collect();
                        mk_act("push_buffer", s, "", "", false, false, es, 0)
                    }
                    11 => mk_act("set_buffer_auth", s, *rng.pick(&SIGNERS), "", false, false, vec![], 0),
                    12 => mk_act("close_buffer", s, "", "", false, false, vec![], 0),
                    13..=14 => mk_act("with_buffer", s, "", "", false, false, vec![], 0),
                    _ => mk_act("tick", "none", "", "", false, false, vec![], *rng.pick(&[1u64, 5, 10])),
                }
            };
            env.event(&mut w, &a, i == 0, &mut sink);
        }
    }
    let n = sink.finish();
    println!("{}", json!({"events": n, "histories": histories, "real_keys_covered": keys_used.len(), "real_keys": env.all_keys.len(), "real_flags": env.all_flags.len()}));
}

fn main() {
    let (mode, args) = Args::from_env();
    match mode.as_str() {
        "replay" => replay(&args),
        "random" => random(&args),
        _ => {
            eprintln!("modes: replay | random");
            std::process::exit(2);
        }
    }
}
