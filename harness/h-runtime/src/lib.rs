//! h-runtime: in-process program runtime (real `entry()` functions executed natively with syscall
//! stubs) and the instruction-level property drivers (binaries under src/bin/).
pub mod util;
pub mod runtime;
pub mod world2;
