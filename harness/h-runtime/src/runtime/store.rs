//! Thin builders for the store program's basic instructions (Anchor-generated metas and data).
use anchor_lang::{
    solana_program::{instruction::Instruction, pubkey::Pubkey, system_program},
    InstructionData, ToAccountMetas,
};

use super::{ExecResult, World};

/// Build an instruction of the store program from Anchor's generated account / argument structs.
pub fn ix(accounts: impl ToAccountMetas, args: impl InstructionData) -> Instruction {
    Instruction { program_id: gmsol_store::ID, accounts: accounts.to_account_metas(None), data: args.data() }
}

/// Build an instruction for any Anchor program.
pub fn ix_for(program_id: Pubkey, accounts: impl ToAccountMetas, args: impl InstructionData) -> Instruction {
    Instruction { program_id, accounts: accounts.to_account_metas(None), data: args.data() }
}

/// Address of the store with the given key ("" = default store).
pub fn store_pda(key: &str) -> Pubkey {
    Pubkey::find_program_address(
        &[<gmsol_store::states::Store as gmsol_store::states::Seed>::SEED, &gmsol_utils::to_seed(key)],
        &gmsol_store::ID,
    )
    .0
}

pub fn event_authority(program: &Pubkey) -> Pubkey {
    Pubkey::find_program_address(&[b"__event_authority"], program).0
}

pub fn user_pda(store: &Pubkey, owner: &Pubkey) -> Pubkey {
    Pubkey::find_program_address(
        &[<gmsol_store::states::user::UserHeader as gmsol_store::states::Seed>::SEED, store.as_ref(), owner.as_ref()],
        &gmsol_store::ID,
    )
    .0
}

pub fn referral_code_pda(store: &Pubkey, code: &[u8; 8]) -> Pubkey {
    Pubkey::find_program_address(
        &[<gmsol_store::states::user::ReferralCodeV2 as gmsol_store::states::Seed>::SEED, store.as_ref(), code],
        &gmsol_store::ID,
    )
    .0
}

/// `initialize` of the default store with `admin` as payer and authority.
pub fn init_store(w: &mut World, admin: &Pubkey) -> (Pubkey, ExecResult) {
    let store = store_pda("");
    let r = w.execute(
        &ix(
            gmsol_store::accounts::Initialize {
                payer: *admin,
                authority: None,
                receiver: None,
                holding: None,
                store,
                system_program: system_program::ID,
            },
            gmsol_store::instruction::Initialize { key: String::new() },
        ),
        &[*admin],
    );
    (store, r)
}

pub fn enable_role(w: &mut World, store: &Pubkey, authority: &Pubkey, role: &str) -> ExecResult {
    w.execute(
        &ix(
            gmsol_store::accounts::EnableRole { authority: *authority, store: *store },
            gmsol_store::instruction::EnableRole { role: role.to_string() },
        ),
        &[*authority],
    )
}

pub fn disable_role(w: &mut World, store: &Pubkey, authority: &Pubkey, role: &str) -> ExecResult {
    w.execute(
        &ix(
            gmsol_store::accounts::DisableRole { authority: *authority, store: *store },
            gmsol_store::instruction::DisableRole { role: role.to_string() },
        ),
        &[*authority],
    )
}

pub fn grant_role(w: &mut World, store: &Pubkey, authority: &Pubkey, user: &Pubkey, role: &str) -> ExecResult {
    w.execute(
        &ix(
            gmsol_store::accounts::GrantRole { authority: *authority, store: *store },
            gmsol_store::instruction::GrantRole { user: *user, role: role.to_string() },
        ),
        &[*authority],
    )
}

pub fn revoke_role(w: &mut World, store: &Pubkey, authority: &Pubkey, user: &Pubkey, role: &str) -> ExecResult {
    w.execute(
        &ix(
            gmsol_store::accounts::RevokeRole { authority: *authority, store: *store },
            gmsol_store::instruction::RevokeRole { user: *user, role: role.to_string() },
        ),
        &[*authority],
    )
}

/// `check_role`: Some(bool) return value, None when the instruction failed.
pub fn check_role(w: &mut World, store: &Pubkey, authority: &Pubkey, role: &str) -> (Option<bool>, ExecResult) {
    let r = w.execute(
        &ix(
            gmsol_store::accounts::CheckRole { authority: *authority, store: *store },
            gmsol_store::instruction::CheckRole { role: role.to_string() },
        ),
        &[*authority],
    );
    (if r.ok { r.return_value::<bool>() } else { None }, r)
}

pub fn prepare_user(w: &mut World, store: &Pubkey, owner: &Pubkey) -> (Pubkey, ExecResult) {
    let user = user_pda(store, owner);
    let r = w.execute(
        &ix(
            gmsol_store::accounts::PrepareUser { owner: *owner, store: *store, user, system_program: system_program::ID },
            gmsol_store::instruction::PrepareUser {},
        ),
        &[*owner],
    );
    (user, r)
}

/// Funded admin + initialised default store + the given roles enabled; each `(role, member)` granted.
pub fn bootstrap(w: &mut World, admin: &Pubkey, roles: &[&str], grants: &[(&str, Pubkey)]) -> Pubkey {
    w.airdrop(admin, 1_000_000_000_000);
    let (store, r) = init_store(w, admin);
    assert!(r.ok, "initialize failed: {:?} {:?}", r.err, r.logs);
    for role in roles {
        let r = enable_role(w, &store, admin, role);
        assert!(r.ok, "enable_role {role} failed: {:?}", r.logs);
    }
    for (role, member) in grants {
        let r = grant_role(w, &store, admin, member, role);
        assert!(r.ok, "grant_role {role} failed: {:?}", r.logs);
    }
    store
}

// ---- fabrication through the real state-level methods (no instruction, hence independent of the
// ---- instructions' access checks): used by drivers whose subject IS those access checks (C19)

/// Apply `f` to the `Store` zero-copy struct inside the account bytes and write it back.
pub fn with_store_mut<R>(w: &mut World, store: &Pubkey, f: impl FnOnce(&mut gmsol_store::states::Store) -> R) -> R {
    let mut acc = w.account(store).cloned().expect("store account");
    let n = std::mem::size_of::<gmsol_store::states::Store>();
    let mut s: gmsol_store::states::Store = bytemuck::pod_read_unaligned(&acc.data[8..8 + n]);
    let r = f(&mut s);
    acc.data[8..8 + n].copy_from_slice(bytemuck::bytes_of(&s));
    w.set_account(*store, acc);
    r
}

/// `Store::enable_role` directly on the account bytes.
pub fn fab_enable_role(w: &mut World, store: &Pubkey, role: &str) -> bool {
    with_store_mut(w, store, |s| s.enable_role(role).is_ok())
}
/// `Store::grant` directly on the account bytes.
pub fn fab_grant_role(w: &mut World, store: &Pubkey, user: &Pubkey, role: &str) -> bool {
    with_store_mut(w, store, |s| s.grant(user, role).is_ok())
}
/// `Store::revoke` directly on the account bytes.
pub fn fab_revoke_role(w: &mut World, store: &Pubkey, user: &Pubkey, role: &str) -> bool {
    with_store_mut(w, store, |s| s.revoke(user, role).is_ok())
}

/// Like `bootstrap`, but the role table is written with the real `Store` methods instead of the
/// `enable_role` / `grant_role` instructions; if `initialize` itself is rejected the store account is
/// fabricated with the real `Store::init`. Returns (store, whether `initialize` succeeded).
pub fn bootstrap_fab(w: &mut World, admin: &Pubkey, roles: &[&str], grants: &[(&str, Pubkey)]) -> (Pubkey, bool) {
    use anchor_lang::Discriminator;
    w.airdrop(admin, 1_000_000_000_000);
    let (store, r) = init_store(w, admin);
    if !r.ok {
        let n = std::mem::size_of::<gmsol_store::states::Store>();
        let bump = Pubkey::find_program_address(
            &[<gmsol_store::states::Store as gmsol_store::states::Seed>::SEED, &gmsol_utils::to_seed("")],
            &gmsol_store::ID,
        )
        .1;
        let mut s: gmsol_store::states::Store = bytemuck::Zeroable::zeroed();
        s.init(*admin, "", bump, *admin, *admin).expect("Store::init");
        let mut data = gmsol_store::states::Store::DISCRIMINATOR.to_vec();
        data.extend_from_slice(bytemuck::bytes_of(&s));
        assert_eq!(data.len(), 8 + n);
        w.set_account(store, super::Account { owner: gmsol_store::ID, lamports: 1_000_000_000, data, executable: false });
    }
    for role in roles {
        assert!(fab_enable_role(w, &store, role), "Store::enable_role {role}");
    }
    for (role, member) in grants {
        assert!(fab_grant_role(w, &store, member, role), "Store::grant {role}");
    }
    (store, r.ok)
}
