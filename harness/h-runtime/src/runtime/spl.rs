//! Mints and token accounts through the REAL SPL Token / Associated-Token processors.
use anchor_lang::solana_program::{
    program_pack::Pack, pubkey::Pubkey, rent::Rent, system_instruction,
};

use super::{ExecResult, World};

/// Create and initialise an SPL Token mint at `mint` (a keypair-style address).
pub fn create_mint(w: &mut World, payer: &Pubkey, mint: &Pubkey, decimals: u8, authority: &Pubkey) -> ExecResult {
    let space = spl_token::state::Mint::LEN;
    let ixs = [
        system_instruction::create_account(
            payer,
            mint,
            Rent::default().minimum_balance(space),
            space as u64,
            &spl_token::ID,
        ),
        spl_token::instruction::initialize_mint2(&spl_token::ID, mint, authority, None, decimals).unwrap(),
    ];
    w.execute_tx(&ixs, &[*payer, *mint])
}

/// Create and initialise an SPL Token account at `account` (a keypair-style address).
pub fn create_token_account(w: &mut World, payer: &Pubkey, account: &Pubkey, mint: &Pubkey, owner: &Pubkey) -> ExecResult {
    let space = spl_token::state::Account::LEN;
    let ixs = [
        system_instruction::create_account(
            payer,
            account,
            Rent::default().minimum_balance(space),
            space as u64,
            &spl_token::ID,
        ),
        spl_token::instruction::initialize_account3(&spl_token::ID, account, mint, owner).unwrap(),
    ];
    w.execute_tx(&ixs, &[*payer, *account])
}

pub fn ata(owner: &Pubkey, mint: &Pubkey) -> Pubkey {
    spl_associated_token_account::get_associated_token_address_with_program_id(owner, mint, &spl_token::ID)
}

/// Create the associated token account of (`owner`, `mint`) through the real ATA program.
pub fn create_ata(w: &mut World, payer: &Pubkey, owner: &Pubkey, mint: &Pubkey) -> (Pubkey, ExecResult) {
    let ix = spl_associated_token_account::instruction::create_associated_token_account_idempotent(
        payer,
        owner,
        mint,
        &spl_token::ID,
    );
    (ata(owner, mint), w.execute(&ix, &[*payer]))
}

pub fn mint_to(w: &mut World, mint: &Pubkey, dest: &Pubkey, authority: &Pubkey, amount: u64) -> ExecResult {
    let ix = spl_token::instruction::mint_to(&spl_token::ID, mint, dest, authority, &[], amount).unwrap();
    w.execute(&ix, &[*authority])
}

pub fn token_balance(w: &World, account: &Pubkey) -> Option<u64> {
    let d = w.account_bytes(account)?;
    spl_token::state::Account::unpack(d.get(..spl_token::state::Account::LEN)?).ok().map(|a| a.amount)
}

pub fn mint_supply(w: &World, mint: &Pubkey) -> Option<u64> {
    let d = w.account_bytes(mint)?;
    spl_token::state::Mint::unpack(d.get(..spl_token::state::Mint::LEN)?).ok().map(|m| m.supply)
}
