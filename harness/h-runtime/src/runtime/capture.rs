//! `msg!` of solana-program 2.1 prints straight to the process' stdout when built natively (it does
//! not go through `program_stubs`). To get program logs into `ExecResult::logs` the runtime points
//! file descriptor 1 at an in-memory file for the duration of an execution and reads it back.
use std::io::Write;
use std::sync::OnceLock;

struct Fds {
    saved: i32,
    mem: i32,
}
static FDS: OnceLock<Option<Fds>> = OnceLock::new();

fn fds() -> Option<&'static Fds> {
    FDS.get_or_init(|| {
        // SAFETY: plain libc calls on descriptors owned by this process.
        unsafe {
            let mem = libc::memfd_create(b"verif-logs\0".as_ptr() as *const libc::c_char, 0);
            let saved = libc::dup(1);
            if mem < 0 || saved < 0 {
                None
            } else {
                Some(Fds { saved, mem })
            }
        }
    })
    .as_ref()
}

/// Start capturing stdout. Returns false if capturing is unavailable.
pub(crate) fn begin() -> bool {
    let Some(f) = fds() else { return false };
    let _ = std::io::stdout().flush();
    // SAFETY: see above
    unsafe {
        libc::ftruncate(f.mem, 0);
        libc::lseek(f.mem, 0, libc::SEEK_SET);
        libc::dup2(f.mem, 1) >= 0
    }
}

/// Stop capturing; returns what was printed since `begin`.
pub(crate) fn end() -> String {
    let Some(f) = fds() else { return String::new() };
    let _ = std::io::stdout().flush();
    // SAFETY: see above
    unsafe {
        libc::dup2(f.saved, 1);
        let len = libc::lseek(f.mem, 0, libc::SEEK_END);
        if len <= 0 {
            return String::new();
        }
        let mut buf = vec![0u8; len as usize];
        libc::lseek(f.mem, 0, libc::SEEK_SET);
        let mut off = 0usize;
        while off < buf.len() {
            let n = libc::read(f.mem, buf.as_mut_ptr().add(off) as *mut libc::c_void, buf.len() - off);
            if n <= 0 {
                break;
            }
            off += n as usize;
        }
        buf.truncate(off);
        String::from_utf8_lossy(&buf).into_owned()
    }
}
