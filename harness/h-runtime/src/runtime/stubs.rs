//! Syscall stubs and the invocation machinery (top level and CPI).
use anchor_lang::solana_program::{
    account_info::AccountInfo, clock::Clock, entrypoint::ProgramResult, instruction::Instruction,
    program_error::ProgramError, program_stubs, pubkey::Pubkey, rent::Rent,
};
use std::{cell::RefCell, collections::HashMap, rc::Rc, sync::Once};

use super::arena::{snap, Snap};

/// A program callable by the runtime: the native `entry` of an Anchor program, an SPL processor or
/// a harness-provided builtin / probe.
pub type ProgramFn = Rc<dyn Fn(&Pubkey, &'static [AccountInfo<'static>], &[u8]) -> ProgramResult>;

/// An Anchor `emit_cpi!` event captured from the self-CPI.
#[derive(Clone, Debug)]
pub struct CpiEvent {
    pub program: Pubkey,
    /// stack height of the emitting program (1 = top-level instruction)
    pub depth: usize,
    pub discriminator: [u8; 8],
    /// borsh payload after the discriminator
    pub data: Vec<u8>,
}

/// One cross-program invocation (including event self-CPIs), in call order.
#[derive(Clone, Debug)]
pub struct CpiRecord {
    pub caller: Pubkey,
    pub program: Pubkey,
    /// stack height of the callee
    pub depth: usize,
    pub accounts: Vec<(Pubkey, bool, bool)>,
    pub data: Vec<u8>,
}

pub(crate) struct Ctx {
    pub unix_timestamp: i64,
    pub slot: u64,
    pub last_restart_slot: u64,
    pub programs: HashMap<Pubkey, ProgramFn>,
    pub stack: Vec<Pubkey>,
    /// per stack frame: the account states the frame's program is verified against
    pub pre_stack: Vec<Vec<Snap>>,
    pub logs: Vec<String>,
    pub log_data: Vec<Vec<Vec<u8>>>,
    pub events: Vec<CpiEvent>,
    pub cpis: Vec<CpiRecord>,
    pub return_data: Option<(Pubkey, Vec<u8>)>,
    /// first error of a failed CPI: on chain a failed CPI aborts the transaction even if the caller
    /// ignores the result
    pub cpi_failed: Option<ProgramError>,
    /// runtime-level failure reason (privilege escalation, account verification, ...)
    pub runtime_error: Option<String>,
    pub strict: bool,
    pub capturing: bool,
}

thread_local! {
    pub(crate) static CTX: RefCell<Ctx> = RefCell::new(Ctx {
        unix_timestamp: 1_700_000_000,
        slot: 1_000,
        last_restart_slot: 0,
        programs: HashMap::new(),
        stack: Vec::new(),
        pre_stack: Vec::new(),
        logs: Vec::new(),
        log_data: Vec::new(),
        events: Vec::new(),
        cpis: Vec::new(),
        return_data: None,
        cpi_failed: None,
        runtime_error: None,
        strict: true,
        capturing: false,
    });
}

pub(crate) fn with_ctx<R>(f: impl FnOnce(&mut Ctx) -> R) -> R {
    CTX.with(|c| f(&mut c.borrow_mut()))
}

fn log(s: String) {
    // stdout is captured for the duration of an execution (see `capture.rs`), which keeps runtime
    // lines and the programs' `msg!` lines in order
    if with_ctx(|c| c.capturing) {
        println!("{s}");
    } else {
        with_ctx(|c| c.logs.push(s));
    }
}

fn runtime_fail(what: String, err: ProgramError) -> ProgramError {
    log(format!("runtime: {what}"));
    with_ctx(|c| {
        if c.runtime_error.is_none() {
            c.runtime_error = Some(what)
        }
    });
    err
}

pub const MAX_STACK_HEIGHT: usize = 5;

/// Run `program_id` on `infos` (top level: stack empty; CPI: called from the stub).
pub(crate) fn invoke_program(
    program_id: &Pubkey,
    infos: Vec<AccountInfo<'static>>,
    data: &[u8],
) -> ProgramResult {
    let (f, depth, strict) = with_ctx(|c| {
        let f = c.programs.get(program_id).cloned();
        (f, c.stack.len() + 1, c.strict)
    });
    let Some(f) = f else {
        return Err(runtime_fail(
            format!("unknown program {program_id}"),
            ProgramError::IncorrectProgramId,
        ));
    };
    if depth > MAX_STACK_HEIGHT {
        return Err(runtime_fail("call depth exceeded".into(), ProgramError::InvalidArgument));
    }
    // reentrancy: only direct self-recursion is allowed
    let reentrant = with_ctx(|c| {
        c.stack.iter().any(|p| p == program_id) && c.stack.last() != Some(program_id)
    });
    if reentrant {
        return Err(runtime_fail(
            format!("reentrancy into {program_id} not allowed"),
            ProgramError::InvalidArgument,
        ));
    }
    let pre: Vec<Snap> = if strict {
        let mut seen: Vec<Pubkey> = Vec::new();
        infos
            .iter()
            .filter(|a| {
                if seen.contains(a.key) {
                    false
                } else {
                    seen.push(*a.key);
                    true
                }
            })
            .map(|a| snap(a, program_id))
            .collect()
    } else {
        Vec::new()
    };
    log(format!("Program {program_id} invoke [{depth}]"));
    with_ctx(|c| {
        c.stack.push(*program_id);
        c.pre_stack.push(pre);
        c.return_data = None;
    });
    // SAFETY: the slice outlives the call; the 'static lifetime is a fiction confined to the call
    // (programs cannot store the reference anywhere that outlives `entry`).
    let slice: &'static [AccountInfo<'static>] =
        unsafe { std::mem::transmute::<&[AccountInfo<'static>], _>(&infos[..]) };
    let mut r = f(program_id, slice, data);
    let pre = with_ctx(|c| {
        c.stack.pop();
        c.pre_stack.pop().unwrap_or_default()
    });
    if r.is_ok() && strict {
        r = verify(program_id, &pre, &infos);
    }
    match &r {
        Ok(()) => log(format!("Program {program_id} success")),
        Err(e) => log(format!("Program {program_id} failed: {e:?}")),
    }
    r
}

/// The per-account checks the real runtime applies to what `program_id` did to an account
/// (`PreAccount::verify`).
fn check_account(program_id: &Pubkey, p: &Snap, a: &AccountInfo) -> ProgramResult {
    let post_owner = *a.owner;
    let post_lamports = **a.lamports.borrow();
    let data = a.data.borrow();
    let owned = p.owner == *program_id;
    if post_owner != p.owner {
        let zeroed = data.iter().all(|b| *b == 0);
        if !(owned && p.writable && !p.executable && zeroed) {
            return Err(runtime_fail(
                format!("instruction illegally modified the program id of account {}", p.key),
                ProgramError::IllegalOwner,
            ));
        }
    }
    if post_lamports != p.lamports {
        if !p.writable {
            return Err(runtime_fail(
                format!("instruction changed the balance of a read-only account {}", p.key),
                ProgramError::Immutable,
            ));
        }
        if post_lamports < p.lamports && !owned {
            return Err(runtime_fail(
                format!("instruction spent from the balance of an account it does not own {}", p.key),
                ProgramError::InvalidAccountOwner,
            ));
        }
    }
    if data.len() != p.len && !owned {
        return Err(runtime_fail(
            format!("account data size of {} changed by a program that does not own it", p.key),
            ProgramError::InvalidRealloc,
        ));
    }
    if let Some(old) = &p.data {
        if old.as_slice() != &data[..] {
            let what = if owned {
                "instruction modified data of a read-only account"
            } else {
                "instruction modified data of an account it does not own"
            };
            return Err(runtime_fail(format!("{what} {}", p.key), ProgramError::Immutable));
        }
    }
    Ok(())
}

/// End-of-invocation verification: every account + conservation of lamports.
fn verify(program_id: &Pubkey, pre: &[Snap], infos: &[AccountInfo<'static>]) -> ProgramResult {
    let mut pre_sum: u128 = 0;
    let mut post_sum: u128 = 0;
    for p in pre {
        let a = infos.iter().find(|a| *a.key == p.key).unwrap();
        pre_sum += p.lamports as u128;
        post_sum += **a.lamports.borrow() as u128;
        check_account(program_id, p, a)?;
    }
    if pre_sum != post_sum {
        return Err(runtime_fail(
            "sum of account balances before and after instruction do not match".into(),
            ProgramError::InsufficientFunds,
        ));
    }
    Ok(())
}

struct Stubs;
const SUCCESS: u64 = 0;

impl program_stubs::SyscallStubs for Stubs {
    fn sol_log(&self, message: &str) {
        log(message.to_string());
    }
    fn sol_log_compute_units(&self) {}
    fn sol_remaining_compute_units(&self) -> u64 {
        1_400_000
    }
    fn sol_invoke_signed(
        &self,
        ix: &Instruction,
        account_infos: &[AccountInfo],
        signers_seeds: &[&[&[u8]]],
    ) -> ProgramResult {
        let r = cpi(ix, account_infos, signers_seeds);
        if let Err(e) = &r {
            with_ctx(|c| {
                if c.cpi_failed.is_none() {
                    c.cpi_failed = Some(e.clone())
                }
            });
        }
        r
    }
    fn sol_get_clock_sysvar(&self, var_addr: *mut u8) -> u64 {
        let c = with_ctx(|c| Clock {
            slot: c.slot,
            epoch_start_timestamp: 0,
            epoch: 0,
            leader_schedule_epoch: 0,
            unix_timestamp: c.unix_timestamp,
        });
        // SAFETY: solana-program passes a pointer to a properly aligned, writable `Clock`.
        unsafe { std::ptr::write(var_addr as *mut Clock, c) };
        SUCCESS
    }
    fn sol_get_rent_sysvar(&self, var_addr: *mut u8) -> u64 {
        // SAFETY: pointer to a properly aligned, writable `Rent`.
        unsafe { std::ptr::write(var_addr as *mut Rent, Rent::default()) };
        SUCCESS
    }
    fn sol_get_last_restart_slot(&self, var_addr: *mut u8) -> u64 {
        let s = with_ctx(|c| c.last_restart_slot);
        // SAFETY: `LastRestartSlot` is a `#[repr(C)]` struct of one u64.
        unsafe { std::ptr::write(var_addr as *mut u64, s) };
        SUCCESS
    }
    fn sol_get_return_data(&self) -> Option<(Pubkey, Vec<u8>)> {
        with_ctx(|c| c.return_data.clone())
    }
    fn sol_set_return_data(&self, data: &[u8]) {
        with_ctx(|c| {
            let p = c.stack.last().copied().unwrap_or_default();
            c.return_data = Some((p, data.to_vec()));
        })
    }
    fn sol_log_data(&self, fields: &[&[u8]]) {
        with_ctx(|c| c.log_data.push(fields.iter().map(|f| f.to_vec()).collect()));
    }
    fn sol_get_stack_height(&self) -> u64 {
        with_ctx(|c| c.stack.len() as u64)
    }
}

fn cpi(ix: &Instruction, account_infos: &[AccountInfo], signers_seeds: &[&[&[u8]]]) -> ProgramResult {
    let Some(caller) = with_ctx(|c| c.stack.last().copied()) else {
        return Err(runtime_fail("CPI outside of an instruction".into(), ProgramError::InvalidArgument));
    };
    let mut pdas: Vec<Pubkey> = Vec::with_capacity(signers_seeds.len());
    for seeds in signers_seeds {
        let pk = Pubkey::create_program_address(seeds, &caller).map_err(|_| {
            runtime_fail("could not create program address with signer seeds".into(), ProgramError::InvalidSeeds)
        })?;
        pdas.push(pk);
    }
    // callee account list with the runtime's de-duplication (flags OR-ed per key)
    let mut metas: Vec<(Pubkey, bool, bool)> = Vec::with_capacity(ix.accounts.len());
    for m in &ix.accounts {
        metas.push((m.pubkey, m.is_signer, m.is_writable));
    }
    for i in 0..metas.len() {
        let k = metas[i].0;
        let (s, w) = metas
            .iter()
            .filter(|n| n.0 == k)
            .fold((false, false), |acc, n| (acc.0 | n.1, acc.1 | n.2));
        metas[i].1 = s;
        metas[i].2 = w;
    }
    let mut callee: Vec<AccountInfo<'static>> = Vec::with_capacity(metas.len());
    for (key, is_signer, is_writable) in &metas {
        let Some(src) = account_infos.iter().find(|a| a.key == key) else {
            return Err(runtime_fail(
                format!("instruction references an unknown account {key}"),
                ProgramError::NotEnoughAccountKeys,
            ));
        };
        if *is_writable && !src.is_writable {
            return Err(runtime_fail(
                format!("{key}'s writable privilege escalated"),
                ProgramError::Immutable,
            ));
        }
        if *is_signer && !(src.is_signer || pdas.contains(key)) {
            return Err(runtime_fail(
                format!("{key}'s signer privilege escalated"),
                ProgramError::MissingRequiredSignature,
            ));
        }
        // SAFETY: lifetime fiction, see `invoke_program`; the clone shares the caller's RefCells.
        let mut a: AccountInfo<'static> =
            unsafe { std::mem::transmute::<AccountInfo<'_>, AccountInfo<'static>>(src.clone()) };
        a.is_signer = *is_signer;
        a.is_writable = *is_writable;
        callee.push(a);
    }
    let depth = with_ctx(|c| c.stack.len() + 1);
    with_ctx(|c| {
        c.cpis.push(CpiRecord {
            caller,
            program: ix.program_id,
            depth,
            accounts: metas.clone(),
            data: ix.data.clone(),
        });
        if ix.program_id == caller
            && ix.data.len() >= 16
            && ix.data[..8] == *anchor_lang::event::EVENT_IX_TAG_LE
        {
            let mut d = [0u8; 8];
            d.copy_from_slice(&ix.data[8..16]);
            c.events.push(CpiEvent {
                program: caller,
                depth: depth - 1,
                discriminator: d,
                data: ix.data[16..].to_vec(),
            });
        }
    });
    let strict = with_ctx(|c| c.strict);
    if strict {
        // what the caller did so far to the accounts it hands over must be legal for the caller
        let pre = with_ctx(|c| std::mem::take(c.pre_stack.last_mut().unwrap()));
        let mut r = Ok(());
        for a in &callee {
            if let Some(p) = pre.iter().find(|p| p.key == *a.key) {
                r = check_account(&caller, p, a);
                if r.is_err() {
                    break;
                }
            }
        }
        with_ctx(|c| *c.pre_stack.last_mut().unwrap() = pre);
        r?;
    }
    let shared: Vec<AccountInfo<'static>> = callee.clone();
    invoke_program(&ix.program_id, callee, &ix.data)?;
    if strict {
        // the callee's (verified) effects become the caller's new baseline
        with_ctx(|c| {
            let pre = c.pre_stack.last_mut().unwrap();
            for a in &shared {
                if let Some(p) = pre.iter_mut().find(|p| p.key == *a.key) {
                    let data = a.data.borrow();
                    p.owner = *a.owner;
                    p.lamports = **a.lamports.borrow();
                    p.len = data.len();
                    let may_write = p.writable && p.owner == caller;
                    p.data = if may_write { None } else { Some(data.to_vec()) };
                }
            }
        });
    }
    Ok(())
}

static INSTALL: Once = Once::new();
pub(crate) fn install() {
    INSTALL.call_once(|| {
        program_stubs::set_syscall_stubs(Box::new(Stubs));
    });
}
