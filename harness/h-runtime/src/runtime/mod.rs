//! In-process program runtime (DESIGN.md section 5): the REAL `entry()` functions of the gmsol programs
//! (store, treasury, timelock, competition, liquidity-provider, callback) and the REAL SPL Token /
//! Token-2022 / Associated-Token processors are executed natively, in this process, against an
//! in-memory account database; syscalls are supplied through `solana_program::program_stubs`.
//!
//! # Public API (everything a property driver needs)
//!
//! ```ignore
//! use h_runtime::runtime::{World, ExecResult, Account, keys::key};
//! let mut w = World::new();                       // programs registered, stubs installed
//! let admin = key("admin");                       // deterministic pubkey from a label
//! w.airdrop(&admin, 10_000_000_000);              // system-owned account with lamports
//! let ix = Instruction { program_id: gmsol_store::ID,
//!     accounts: gmsol_store::accounts::Initialize { .. }.to_account_metas(None),
//!     data: gmsol_store::instruction::Initialize { key: "".into() }.data() };
//! let r: ExecResult = w.execute(&ix, &[admin]);   // one instruction = one atomic transaction
//! r.ok / r.err / r.err_code (Custom(n)) / r.err_name ("NotAnAdmin") / r.panic
//! r.logs / r.log_data / r.events (emit_cpi! events: program, discriminator, borsh bytes) / r.cpis
//! r.return_data / r.return_value::<T>()           // Anchor return values (borsh)
//! r.changed_before_rollback / r.changed           // did the program write anything (even if it failed)
//! w.execute_tx(&[ix1, ix2], &[signer..])          // several instructions, all-or-nothing
//! w.set_clock(unix_ts, slot); w.advance_clock(secs, slots); w.clock()
//! w.set_last_restart_slot(n)
//! w.account(&pk) -> Option<&Account>; w.set_account(pk, Account{..}); w.remove_account(&pk)
//! w.account_data::<T: Pod>(&pk) -> Option<T>      // Anchor zero-copy account (8-byte discriminator skipped)
//! w.account_bytes(&pk) -> Option<&[u8]>           // raw data
//! w.anchor_account::<T: AccountDeserialize>(&pk)  // borsh Anchor accounts / SPL via anchor_spl wrappers
//! w.digest() -> u64                               // hash of the whole account DB ("nothing changed")
//! w.register_program(id, Rc::new(|pid, accounts, data| ..)) // probe / mock programs (C36)
//! w.clone()                                       // cheap world snapshots for drivers
//! // SPL helpers (real processors): spl::create_mint, create_token_account, create_ata, mint_to,
//! // token_balance, mint_supply          (module `spl`)
//! // gmsol helpers: store::{ix, ix_for, store_pda, user_pda, init_store, bootstrap, enable_role, grant_role,
//! //   check_role, prepare_user, ..} (module `store`); market::setup_market -> MarketEnv: token map, two SPL
//! //   mints, vaults and a market created through the real instructions (module `market`)
//! ```
//!
//! # Semantics implemented
//!
//! * Account DB `Pubkey -> {owner, lamports, data, executable}`. For every top-level instruction the
//!   accounts named by the instruction are copied into a loader-like arena (`arena.rs`), `AccountInfo`s
//!   are built over it (duplicate metas share one `RefCell`, flags OR-ed), the program runs, and only on
//!   success the arena is written back (data incl. `realloc`, lamports, owner via `assign`); accounts
//!   left with 0 lamports are purged. A failed instruction / transaction therefore leaves the DB
//!   byte-identical (atomicity); `ExecResult::changed_before_rollback` tells whether the program had
//!   written anything before it failed.
//! * Transaction signatures: every meta flagged `is_signer` must be listed in `signers`
//!   (otherwise `MissingRequiredSignature` before the program runs).
//! * CPI (`invoke`/`invoke_signed`): callee account flags must be ⊆ caller flags ∪ PDAs derived from
//!   the passed seeds with the caller's program id (else "privilege escalated"); unknown accounts and
//!   unknown programs fail; depth limit 5; no reentrancy except direct self-recursion; a failed CPI
//!   fails the whole transaction even if the caller ignores the error; return data is cleared at every
//!   invocation and tagged with the setting program; `sol_get_stack_height`.
//! * After every invocation (top level and CPI) the real runtime's account rules are enforced
//!   (`strict`, on by default): only the owner may change data / size / debit lamports / reassign (and
//!   only zeroed data), read-only accounts are unchanged, lamports are conserved.
//! * Programs: System (create_account, assign, transfer, allocate — builtin in `system.rs`), SPL Token 7,
//!   Token-2022 6, Associated-Token 6 (real processors), the six gmsol programs (native `entry`).
//! * Sysvars by syscall: Clock (controllable), Rent (default), LastRestartSlot (controllable); sysvar
//!   accounts for Clock and Rent exist in the DB as well.
//! * `msg!` lines (solana-program 2.1 prints them to stdout natively; the runtime redirects fd 1 to a
//!   memfd while executing — do not print to stdout from a `ProgramFn`), `sol_log_data`, Anchor
//!   `emit_cpi!` self-CPI events are captured per execution.
//! * A panic in a program is data: `ExecResult{ok: false, panic: true}`, DB untouched.
//!
//! # Trusted / out of scope
//!
//! The runtime is part of the trusted base of every instruction-level property. NOT modelled: compute
//! budget and heap limits, transaction size / account-lock limits, fees and rent collection (rent
//! exemption is not enforced at the end of a transaction; programs still see the real `Rent`), the
//! BPF-vs-native layout difference (natively `u128` is 16-aligned; the arena places account data at
//! an address ≡ 8 mod 16 so Anchor zero-copy structs load), address lookup tables, the instructions
//! sysvar, native programs other than System. Top-level System `allocate`/`create_account` is limited
//! to 10 KiB like a CPI (use `World::set_account` to fabricate bigger accounts).
pub(crate) mod arena;
mod capture;
pub mod keys;
pub mod market;
pub mod spl;
pub mod store;
mod stubs;
pub mod system;

use anchor_lang::solana_program::{
    account_info::AccountInfo, bpf_loader_upgradeable, instruction::Instruction,
    program_error::ProgramError, pubkey::Pubkey, rent::Rent, system_program, sysvar,
};
use std::{
    collections::{BTreeMap, HashMap},
    hash::{Hash, Hasher},
    panic::{catch_unwind, AssertUnwindSafe},
    rc::Rc,
};

pub use stubs::{CpiEvent, CpiRecord, ProgramFn};
use stubs::with_ctx;

#[derive(Clone, Debug, PartialEq, Eq, Hash)]
pub struct Account {
    pub owner: Pubkey,
    pub lamports: u64,
    pub data: Vec<u8>,
    pub executable: bool,
}

impl Default for Account {
    fn default() -> Self {
        Account { owner: system_program::ID, lamports: 0, data: Vec::new(), executable: false }
    }
}

#[derive(Clone, Debug)]
pub struct ExecResult {
    pub ok: bool,
    pub err: Option<ProgramError>,
    /// `Custom(n)` code (Anchor / program error number)
    pub err_code: Option<u32>,
    /// Anchor's "Error Code: X" when logged, else the `ProgramError` debug text; "" when ok
    pub err_name: String,
    /// runtime-level reason when the runtime itself rejected (privilege escalation, verification)
    pub runtime_error: Option<String>,
    pub panic: bool,
    pub logs: Vec<String>,
    pub log_data: Vec<Vec<Vec<u8>>>,
    pub events: Vec<CpiEvent>,
    pub cpis: Vec<CpiRecord>,
    pub return_data: Option<(Pubkey, Vec<u8>)>,
    /// accounts whose lamports / owner / data differed from the DB when the (last) instruction
    /// returned — for a failed execution: BEFORE the rollback
    pub changed: Vec<Pubkey>,
    /// failed execution only: the program(s) had modified at least one account before failing
    pub changed_before_rollback: bool,
}

impl ExecResult {
    /// Anchor return value of the top-level instruction.
    pub fn return_value<T: anchor_lang::AnchorDeserialize>(&self) -> Option<T> {
        let (_, d) = self.return_data.as_ref()?;
        T::try_from_slice(d).ok()
    }
    /// Short result label for traces: "ok", the Anchor error name, or the ProgramError text.
    pub fn label(&self) -> String {
        if self.ok {
            "ok".into()
        } else if self.panic {
            "panic".into()
        } else {
            self.err_name.clone()
        }
    }
}

#[derive(Clone)]
pub struct World {
    accounts: BTreeMap<Pubkey, Account>,
    programs: HashMap<Pubkey, ProgramFn>,
    unix_timestamp: i64,
    slot: u64,
    last_restart_slot: u64,
    /// enforce the runtime's account-modification rules after each invocation (default true)
    pub strict: bool,
    /// echo program logs after each execution (env VERIF_SOL_LOG=1)
    pub print_logs: bool,
    /// capture the programs' `msg!` output (stdout) into `ExecResult::logs` (default true; needed
    /// for `ExecResult::err_name`)
    pub capture_logs: bool,
}

fn wrap<F>(f: F) -> ProgramFn
where
    F: Fn(&Pubkey, &'static [AccountInfo<'static>], &[u8]) -> anchor_lang::solana_program::entrypoint::ProgramResult
        + 'static,
{
    Rc::new(f)
}

impl Default for World {
    fn default() -> Self {
        Self::new()
    }
}

impl World {
    pub fn new() -> Self {
        stubs::install();
        let mut w = World {
            accounts: BTreeMap::new(),
            programs: HashMap::new(),
            unix_timestamp: 1_700_000_000,
            slot: 1_000,
            last_restart_slot: 0,
            strict: true,
            print_logs: std::env::var("VERIF_SOL_LOG").map(|v| v == "1").unwrap_or(false),
            capture_logs: true,
        };
        w.register_program(system_program::ID, wrap(|p, a, d| system::process(p, a, d)));
        w.accounts.get_mut(&system_program::ID).unwrap().owner =
            Pubkey::from_str_const("NativeLoader1111111111111111111111111111111");
        w.register_program(spl_token::ID, wrap(|p, a, d| spl_token::processor::Processor::process(p, a, d)));
        w.register_program(
            anchor_spl::token_2022::spl_token_2022::ID,
            wrap(|p, a, d| anchor_spl::token_2022::spl_token_2022::processor::Processor::process(p, a, d)),
        );
        w.register_program(
            spl_associated_token_account::ID,
            wrap(|p, a, d| spl_associated_token_account::processor::process_instruction(p, a, d)),
        );
        w.register_program(gmsol_store::ID, wrap(|p, a, d| gmsol_store::entry(p, a, d)));
        w.register_program(gmsol_treasury::ID, wrap(|p, a, d| gmsol_treasury::entry(p, a, d)));
        w.register_program(gmsol_timelock::ID, wrap(|p, a, d| gmsol_timelock::entry(p, a, d)));
        w.register_program(gmsol_competition::ID, wrap(|p, a, d| gmsol_competition::entry(p, a, d)));
        w.register_program(
            gmsol_liquidity_provider::ID,
            wrap(|p, a, d| gmsol_liquidity_provider::entry(p, a, d)),
        );
        w.register_program(gmsol_callback::ID, wrap(|p, a, d| gmsol_callback::entry(p, a, d)));
        w.sync_sysvar_accounts();
        w
    }

    /// Make `id` callable (top level and by CPI) and create its executable account.
    pub fn register_program(&mut self, id: Pubkey, f: ProgramFn) {
        self.programs.insert(id, f);
        self.accounts.insert(
            id,
            Account { owner: bpf_loader_upgradeable::ID, lamports: 1, data: Vec::new(), executable: true },
        );
    }

    fn sync_sysvar_accounts(&mut self) {
        let mut clock = Vec::with_capacity(40);
        clock.extend_from_slice(&self.slot.to_le_bytes());
        clock.extend_from_slice(&0i64.to_le_bytes());
        clock.extend_from_slice(&0u64.to_le_bytes());
        clock.extend_from_slice(&0u64.to_le_bytes());
        clock.extend_from_slice(&self.unix_timestamp.to_le_bytes());
        self.accounts.insert(
            sysvar::clock::ID,
            Account { owner: sysvar::ID, lamports: 1, data: clock, executable: false },
        );
        let r = Rent::default();
        let mut rent = Vec::with_capacity(17);
        rent.extend_from_slice(&r.lamports_per_byte_year.to_le_bytes());
        rent.extend_from_slice(&r.exemption_threshold.to_le_bytes());
        rent.push(r.burn_percent);
        self.accounts.insert(
            sysvar::rent::ID,
            Account { owner: sysvar::ID, lamports: 1, data: rent, executable: false },
        );
    }

    // ---- environment
    pub fn set_clock(&mut self, unix_timestamp: i64, slot: u64) {
        self.unix_timestamp = unix_timestamp;
        self.slot = slot;
        self.sync_sysvar_accounts();
    }
    pub fn advance_clock(&mut self, secs: i64, slots: u64) {
        self.set_clock(self.unix_timestamp + secs, self.slot + slots);
    }
    /// (unix_timestamp, slot)
    pub fn clock(&self) -> (i64, u64) {
        (self.unix_timestamp, self.slot)
    }
    pub fn set_last_restart_slot(&mut self, slot: u64) {
        self.last_restart_slot = slot;
    }
    pub fn last_restart_slot(&self) -> u64 {
        self.last_restart_slot
    }

    // ---- account DB
    pub fn airdrop(&mut self, key: &Pubkey, lamports: u64) {
        self.accounts.entry(*key).or_default().lamports += lamports;
    }
    pub fn account(&self, key: &Pubkey) -> Option<&Account> {
        self.accounts.get(key)
    }
    pub fn set_account(&mut self, key: Pubkey, account: Account) {
        self.accounts.insert(key, account);
    }
    pub fn remove_account(&mut self, key: &Pubkey) -> Option<Account> {
        self.accounts.remove(key)
    }
    pub fn account_bytes(&self, key: &Pubkey) -> Option<&[u8]> {
        self.accounts.get(key).map(|a| a.data.as_slice())
    }
    pub fn lamports(&self, key: &Pubkey) -> u64 {
        self.accounts.get(key).map(|a| a.lamports).unwrap_or(0)
    }
    /// Copy of an Anchor zero-copy account's struct (bytes after the 8 byte discriminator).
    pub fn account_data<T: bytemuck::Pod>(&self, key: &Pubkey) -> Option<T> {
        let d = &self.accounts.get(key)?.data;
        let n = std::mem::size_of::<T>();
        if d.len() < 8 + n {
            return None;
        }
        Some(bytemuck::pod_read_unaligned(&d[8..8 + n]))
    }
    /// Anchor (borsh) account / anything implementing `AccountDeserialize` (discriminator checked).
    pub fn anchor_account<T: anchor_lang::AccountDeserialize>(&self, key: &Pubkey) -> Option<T> {
        let d = &self.accounts.get(key)?.data;
        T::try_deserialize(&mut &d[..]).ok()
    }
    pub fn keys(&self) -> impl Iterator<Item = &Pubkey> {
        self.accounts.keys()
    }
    /// Hash of the complete account database.
    pub fn digest(&self) -> u64 {
        let mut h = std::collections::hash_map::DefaultHasher::new();
        for (k, a) in &self.accounts {
            k.hash(&mut h);
            a.hash(&mut h);
        }
        h.finish()
    }

    // ---- execution
    /// Execute one instruction as an atomic transaction signed by `signers`.
    pub fn execute(&mut self, ix: &Instruction, signers: &[Pubkey]) -> ExecResult {
        self.execute_tx(std::slice::from_ref(ix), signers)
    }

    /// Execute several instructions as one atomic transaction signed by `signers`.
    pub fn execute_tx(&mut self, ixs: &[Instruction], signers: &[Pubkey]) -> ExecResult {
        with_ctx(|c| {
            c.unix_timestamp = self.unix_timestamp;
            c.slot = self.slot;
            c.last_restart_slot = self.last_restart_slot;
            c.programs = self.programs.clone();
            c.stack.clear();
            c.pre_stack.clear();
            c.logs.clear();
            c.log_data.clear();
            c.events.clear();
            c.cpis.clear();
            c.return_data = None;
            c.cpi_failed = None;
            c.runtime_error = None;
            c.strict = self.strict;
            c.capturing = false;
        });
        let capturing = self.capture_logs && capture::begin();
        with_ctx(|c| c.capturing = capturing);
        let mut overlay: HashMap<Pubkey, Account> = HashMap::new();
        let mut result: Result<(), ProgramError> = Ok(());
        let mut panic = false;
        let mut changed: Vec<Pubkey> = Vec::new();
        for ix in ixs {
            let r = catch_unwind(AssertUnwindSafe(|| self.run_instruction(&overlay, ix, signers)));
            match r {
                Ok((res, post)) => {
                    changed = post.iter().filter(|(_, _, ch)| *ch).map(|(k, _, _)| *k).collect();
                    match res {
                        Ok(()) => {
                            for (k, a, ch) in post {
                                if ch {
                                    overlay.insert(k, a);
                                }
                            }
                        }
                        Err(e) => {
                            result = Err(e);
                            break;
                        }
                    }
                }
                Err(_) => {
                    panic = true;
                    result = Err(ProgramError::Custom(u32::MAX));
                    changed.clear();
                    break;
                }
            }
        }
        let captured = if capturing { capture::end() } else { String::new() };
        with_ctx(|c| {
            c.capturing = false;
            c.logs.extend(captured.lines().map(|l| l.to_string()));
        });
        if self.print_logs {
            print!("{captured}");
        }
        let ok = result.is_ok();
        let changed_before_rollback = !ok && (!changed.is_empty() || !overlay.is_empty());
        if ok {
            for (k, a) in overlay {
                if a.lamports == 0 {
                    self.accounts.remove(&k);
                } else {
                    self.accounts.insert(k, a);
                }
            }
        }
        let (logs, log_data, events, cpis, return_data, runtime_error) = with_ctx(|c| {
            c.stack.clear();
            c.pre_stack.clear();
            c.programs.clear();
            (
                std::mem::take(&mut c.logs),
                std::mem::take(&mut c.log_data),
                std::mem::take(&mut c.events),
                std::mem::take(&mut c.cpis),
                c.return_data.take(),
                c.runtime_error.take(),
            )
        });
        let err = result.err();
        let err_code = match &err {
            Some(ProgramError::Custom(n)) if !panic => Some(*n),
            _ => None,
        };
        let err_name = match &err {
            None => String::new(),
            Some(_) if panic => "panic".to_string(),
            Some(e) => anchor_error_name(&logs).unwrap_or_else(|| format!("{e:?}")),
        };
        ExecResult {
            ok,
            err,
            err_code,
            err_name,
            runtime_error,
            panic,
            logs,
            log_data,
            events,
            cpis,
            return_data,
            changed,
            changed_before_rollback,
        }
    }

    fn lookup(&self, overlay: &HashMap<Pubkey, Account>, k: &Pubkey) -> Account {
        overlay.get(k).or_else(|| self.accounts.get(k)).cloned().unwrap_or_default()
    }

    /// Runs one instruction on a fresh arena; returns the program result and, per account, the state
    /// the program left plus whether it differs from the state it started from.
    #[allow(clippy::type_complexity)]
    fn run_instruction(
        &self,
        overlay: &HashMap<Pubkey, Account>,
        ix: &Instruction,
        signers: &[Pubkey],
    ) -> (Result<(), ProgramError>, Vec<(Pubkey, Account, bool)>) {
        for m in &ix.accounts {
            if m.is_signer && !signers.contains(&m.pubkey) {
                with_ctx(|c| c.runtime_error = Some(format!("missing signature of {}", m.pubkey)));
                return (Err(ProgramError::MissingRequiredSignature), Vec::new());
            }
        }
        let program = self.lookup(overlay, &ix.program_id);
        if !program.executable {
            with_ctx(|c| c.runtime_error = Some(format!("program {} is not executable", ix.program_id)));
            return (Err(ProgramError::IncorrectProgramId), Vec::new());
        }
        let mut arena = arena::Arena::new();
        for m in &ix.accounts {
            if !arena.index.contains_key(&m.pubkey) {
                let a = self.lookup(overlay, &m.pubkey);
                arena.add(&m.pubkey, &a);
            }
        }
        let res = {
            let mut infos: Vec<AccountInfo<'static>> = Vec::with_capacity(ix.accounts.len());
            for m in &ix.accounts {
                // transaction-level flags are per key: OR over all occurrences
                let (s, w) = ix
                    .accounts
                    .iter()
                    .filter(|n| n.pubkey == m.pubkey)
                    .fold((false, false), |acc, n| (acc.0 | n.is_signer, acc.1 | n.is_writable));
                // executable accounts are never writable
                let i = arena.index[&m.pubkey];
                let w = w && !arena.slots[i].executable;
                infos.push(arena.info(i, s, w));
            }
            let r = stubs::invoke_program(&ix.program_id, infos, &ix.data);
            match (r, with_ctx(|c| c.cpi_failed.take())) {
                (Ok(()), Some(e)) => Err(e),
                (r, _) => r,
            }
            // all AccountInfos are dropped here, before the arena is read / freed
        };
        let mut post = Vec::with_capacity(arena.slots.len());
        for i in 0..arena.slots.len() {
            let a = arena.read(i);
            let ch = a != arena.slots[i].pre;
            post.push((arena.slots[i].key, a, ch));
        }
        (res, post)
    }
}

/// "Error Code: X. Error Number: n." from Anchor's error log line (last one wins).
fn anchor_error_name(logs: &[String]) -> Option<String> {
    for l in logs.iter().rev() {
        if let Some(p) = l.find("Error Code: ") {
            let rest = &l[p + 12..];
            if let Some(q) = rest.find(". Error Number") {
                return Some(rest[..q].to_string());
            }
        }
    }
    None
}
