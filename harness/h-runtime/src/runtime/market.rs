//! A market created through the REAL instructions: token map, two SPL mints, vaults, `initialize_market`.
use anchor_lang::solana_program::{pubkey::Pubkey, system_program};
use gmsol_store::states::RoleKey;
use gmsol_utils::token_config::UpdateTokenConfigParams;

use super::{keys::key, spl, store as st, ExecResult, World};

#[derive(Clone, Debug)]
pub struct MarketEnv {
    pub store: Pubkey,
    /// holds MARKET_KEEPER (granted by `setup_market` if necessary)
    pub keeper: Pubkey,
    pub token_map: Pubkey,
    pub long_mint: Pubkey,
    pub short_mint: Pubkey,
    /// index token = long token
    pub index_mint: Pubkey,
    pub long_vault: Pubkey,
    pub short_vault: Pubkey,
    pub market_token_mint: Pubkey,
    pub market: Pubkey,
}

pub fn market_token_mint_pda(store: &Pubkey, index: &Pubkey, long: &Pubkey, short: &Pubkey) -> Pubkey {
    Pubkey::find_program_address(
        &[gmsol_store::constants::MARKET_TOKEN_MINT_SEED, store.as_ref(), index.as_ref(), long.as_ref(), short.as_ref()],
        &gmsol_store::ID,
    )
    .0
}

pub fn market_pda(store: &Pubkey, market_token_mint: &Pubkey) -> Pubkey {
    Pubkey::find_program_address(
        &[<gmsol_store::states::Market as gmsol_store::states::Seed>::SEED, store.as_ref(), market_token_mint.as_ref()],
        &gmsol_store::ID,
    )
    .0
}

pub fn market_vault_pda(store: &Pubkey, mint: &Pubkey) -> Pubkey {
    Pubkey::find_program_address(
        &[gmsol_store::constants::MARKET_VAULT_SEED, store.as_ref(), mint.as_ref()],
        &gmsol_store::ID,
    )
    .0
}

fn must(what: &str, r: ExecResult) {
    assert!(r.ok, "{what} failed: {} {:?}\n{}", r.err_name, r.runtime_error, r.logs.join("\n"));
}

/// Store must exist with `admin` as authority. Enables MARKET_KEEPER (if needed), grants it to
/// `keeper`, creates token map + mints (`tag` distinguishes several markets) + vaults + market.
pub fn setup_market(w: &mut World, store: &Pubkey, admin: &Pubkey, keeper: &Pubkey, tag: &str) -> MarketEnv {
    let store = *store;
    w.airdrop(keeper, 1_000_000_000_000);
    let _ = st::enable_role(w, &store, admin, RoleKey::MARKET_KEEPER);
    let _ = st::grant_role(w, &store, admin, keeper, RoleKey::MARKET_KEEPER);
    // token map (one per store; reuse if already set)
    let token_map = key("token_map");
    if w.account(&token_map).is_none() {
        must(
            "initialize_token_map",
            w.execute(
                &st::ix(
                    gmsol_store::accounts::InitializeTokenMap { payer: *keeper, store, token_map, system_program: system_program::ID },
                    gmsol_store::instruction::InitializeTokenMap {},
                ),
                &[*keeper, token_map],
            ),
        );
    }
    let _ = w.execute(
        &st::ix(
            gmsol_store::accounts::SetTokenMap { authority: *keeper, store, token_map },
            gmsol_store::instruction::SetTokenMap {},
        ),
        &[*keeper],
    );
    let long_mint = key(&format!("mint-long-{tag}"));
    let short_mint = key(&format!("mint-short-{tag}"));
    for (mint, dec, name) in [(long_mint, 9u8, "LONG"), (short_mint, 6u8, "SHORT")] {
        must("create mint", spl::create_mint(w, keeper, &mint, dec, keeper));
        must(
            "push_to_token_map",
            w.execute(
                &st::ix(
                    gmsol_store::accounts::PushToTokenMap {
                        authority: *keeper,
                        store,
                        token_map,
                        token: mint,
                        system_program: system_program::ID,
                    },
                    gmsol_store::instruction::PushToTokenMap {
                        name: format!("{name}{tag}"),
                        builder: UpdateTokenConfigParams::default(),
                        enable: true,
                        new: true,
                    },
                ),
                &[*keeper],
            ),
        );
        must(
            "initialize_market_vault",
            w.execute(
                &st::ix(
                    gmsol_store::accounts::InitializeMarketVault {
                        authority: *keeper,
                        store,
                        mint,
                        vault: market_vault_pda(&store, &mint),
                        system_program: system_program::ID,
                        token_program: spl_token::ID,
                    },
                    gmsol_store::instruction::InitializeMarketVault {},
                ),
                &[*keeper],
            ),
        );
    }
    let index_mint = long_mint;
    let market_token_mint = market_token_mint_pda(&store, &index_mint, &long_mint, &short_mint);
    let market = market_pda(&store, &market_token_mint);
    must(
        "initialize_market",
        w.execute(
            &st::ix(
                gmsol_store::accounts::InitializeMarket {
                    authority: *keeper,
                    store,
                    market_token_mint,
                    long_token_mint: long_mint,
                    short_token_mint: short_mint,
                    market,
                    token_map,
                    long_token_vault: market_vault_pda(&store, &long_mint),
                    short_token_vault: market_vault_pda(&store, &short_mint),
                    system_program: system_program::ID,
                    token_program: spl_token::ID,
                },
                gmsol_store::instruction::InitializeMarket { index_token_mint: index_mint, name: format!("M{tag}"), enable: true },
            ),
            &[*keeper],
        ),
    );
    MarketEnv {
        store,
        keeper: *keeper,
        token_map,
        long_mint,
        short_mint,
        index_mint,
        long_vault: market_vault_pda(&store, &long_mint),
        short_vault: market_vault_pda(&store, &short_mint),
        market_token_mint,
        market,
    }
}
