//! Deterministic public keys from labels (drivers log the label, never the base58 key).
use anchor_lang::solana_program::{hash::hashv, pubkey::Pubkey};

/// Deterministic pubkey for a label ("u1", "admin", ...). Not guaranteed off-curve; used for wallets,
/// mints and keypair-style accounts, where any 32 bytes will do.
pub fn key(label: &str) -> Pubkey {
    Pubkey::new_from_array(hashv(&[b"verif-key", label.as_bytes()]).to_bytes())
}

/// Bidirectional label table for traces.
#[derive(Default, Clone)]
pub struct Labels {
    by_key: std::collections::HashMap<Pubkey, String>,
}
impl Labels {
    pub fn new() -> Self {
        Self::default()
    }
    /// Create (or look up) the key of `label` and remember the mapping.
    pub fn key(&mut self, label: &str) -> Pubkey {
        let k = key(label);
        self.by_key.insert(k, label.to_string());
        k
    }
    pub fn bind(&mut self, k: Pubkey, label: &str) {
        self.by_key.insert(k, label.to_string());
    }
    /// Label of `k`; the default pubkey is "none"; unknown keys are "?<first 6 base58 chars>".
    pub fn label(&self, k: &Pubkey) -> String {
        if *k == Pubkey::default() {
            return "none".into();
        }
        match self.by_key.get(k) {
            Some(s) => s.clone(),
            None => format!("?{}", &k.to_string()[..6]),
        }
    }
}
