//! System program (create_account, assign, transfer, allocate) as a runtime builtin working on
//! `AccountInfo`s, with the real program's checks and error codes for those four instructions.
use anchor_lang::solana_program::{
    account_info::AccountInfo, entrypoint::ProgramResult, program_error::ProgramError,
    pubkey::Pubkey, system_program,
};

const MAX_PERMITTED_DATA_LENGTH: u64 = 10 * 1024 * 1024;
// SystemError codes
const ACCOUNT_ALREADY_IN_USE: u32 = 0;
const RESULT_WITH_NEGATIVE_LAMPORTS: u32 = 1;
const INVALID_ACCOUNT_DATA_LENGTH: u32 = 3;

fn u64_at(d: &[u8], o: usize) -> Result<u64, ProgramError> {
    d.get(o..o + 8)
        .map(|b| u64::from_le_bytes(b.try_into().unwrap()))
        .ok_or(ProgramError::InvalidInstructionData)
}
fn key_at(d: &[u8], o: usize) -> Result<Pubkey, ProgramError> {
    d.get(o..o + 32)
        .map(|b| Pubkey::new_from_array(b.try_into().unwrap()))
        .ok_or(ProgramError::InvalidInstructionData)
}

fn allocate(a: &AccountInfo, space: u64) -> ProgramResult {
    if !a.is_signer {
        return Err(ProgramError::MissingRequiredSignature);
    }
    if !a.data_is_empty() || *a.owner != system_program::ID {
        return Err(ProgramError::Custom(ACCOUNT_ALREADY_IN_USE));
    }
    if space > MAX_PERMITTED_DATA_LENGTH {
        return Err(ProgramError::Custom(INVALID_ACCOUNT_DATA_LENGTH));
    }
    // in place, inside the arena (limited to MAX_PERMITTED_DATA_INCREASE like a CPI on chain)
    a.realloc(space as usize, true)
}

fn assign(a: &AccountInfo, owner: &Pubkey) -> ProgramResult {
    if a.owner == owner {
        return Ok(());
    }
    if !a.is_signer {
        return Err(ProgramError::MissingRequiredSignature);
    }
    if *a.owner != system_program::ID {
        return Err(ProgramError::Custom(ACCOUNT_ALREADY_IN_USE));
    }
    a.assign(owner);
    Ok(())
}

fn transfer(from: &AccountInfo, to: &AccountInfo, lamports: u64) -> ProgramResult {
    if !from.is_signer {
        return Err(ProgramError::MissingRequiredSignature);
    }
    if !from.data_is_empty() {
        return Err(ProgramError::InvalidArgument);
    }
    if *from.owner != system_program::ID {
        return Err(ProgramError::InvalidAccountOwner);
    }
    if from.lamports() < lamports {
        return Err(ProgramError::Custom(RESULT_WITH_NEGATIVE_LAMPORTS));
    }
    if !from.is_writable || !to.is_writable {
        return Err(ProgramError::Immutable);
    }
    if from.key == to.key {
        return Ok(());
    }
    **from.try_borrow_mut_lamports()? -= lamports;
    let mut t = to.try_borrow_mut_lamports()?;
    **t = t.checked_add(lamports).ok_or(ProgramError::ArithmeticOverflow)?;
    Ok(())
}

pub fn process(_program_id: &Pubkey, accounts: &[AccountInfo], data: &[u8]) -> ProgramResult {
    let tag = data
        .get(0..4)
        .map(|b| u32::from_le_bytes(b.try_into().unwrap()))
        .ok_or(ProgramError::InvalidInstructionData)?;
    let acc = |i: usize| accounts.get(i).ok_or(ProgramError::NotEnoughAccountKeys);
    match tag {
        // CreateAccount { lamports, space, owner }
        0 => {
            let (lamports, space, owner) = (u64_at(data, 4)?, u64_at(data, 12)?, key_at(data, 20)?);
            let (from, to) = (acc(0)?, acc(1)?);
            if to.lamports() > 0 {
                return Err(ProgramError::Custom(ACCOUNT_ALREADY_IN_USE));
            }
            allocate(to, space)?;
            assign(to, &owner)?;
            transfer(from, to, lamports)
        }
        // Assign { owner }
        1 => assign(acc(0)?, &key_at(data, 4)?),
        // Transfer { lamports }
        2 => transfer(acc(0)?, acc(1)?, u64_at(data, 4)?),
        // Allocate { space }
        8 => allocate(acc(0)?, u64_at(data, 4)?),
        _ => Err(ProgramError::InvalidInstructionData),
    }
}
