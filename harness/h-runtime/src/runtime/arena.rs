//! Loader-like account arena.
//!
//! Each account taking part in a top-level instruction gets one 16-byte aligned buffer laid out like
//! the BPF loader's input region for one account:
//!
//! ```text
//!  0   u32  padding          (the loader's dup/signer/writable/executable bytes live here)
//!  4   u32  original data len         <- `AccountInfo::original_data_len` reads key_ptr - 4
//!  8   [u8;32] key
//!  40  [u8;32] owner                  <- `AccountInfo::assign` writes through the `owner` reference
//!  72  u64  lamports
//!  80  u64  data len                  <- `AccountInfo::realloc` writes data_ptr - 8
//!  88  data .. (+ MAX_PERMITTED_DATA_INCREASE spare, zeroed)
//! ```
//!
//! The data starts at offset 88 ≡ 8 (mod 16): after Anchor's 8 byte discriminator a zero-copy struct
//! containing `u128` (native alignment 16) is aligned, so `bytemuck::from_bytes` succeeds natively.
use anchor_lang::solana_program::{
    account_info::AccountInfo, entrypoint::MAX_PERMITTED_DATA_INCREASE, pubkey::Pubkey,
};
use std::{cell::RefCell, collections::HashMap, rc::Rc};

use super::Account;

const OFF_ORIG_LEN: usize = 4;
const OFF_KEY: usize = 8;
const OFF_OWNER: usize = 40;
const OFF_LAMPORTS: usize = 72;
const OFF_DATA_LEN: usize = 80;
const OFF_DATA: usize = 88;

pub(crate) struct Slot {
    base: *mut u8,
    layout: std::alloc::Layout,
    cap: usize,
    pub key: Pubkey,
    pub executable: bool,
    pub pre: Account,
    lamports: Rc<RefCell<&'static mut u64>>,
    data: Rc<RefCell<&'static mut [u8]>>,
}

impl Drop for Slot {
    fn drop(&mut self) {
        // SAFETY: allocated with this layout in `Arena::add`; every AccountInfo referring to it has
        // been dropped by the time the arena goes away (see `World::run_instruction`).
        unsafe { std::alloc::dealloc(self.base, self.layout) }
    }
}

pub(crate) struct Arena {
    pub slots: Vec<Slot>,
    pub index: HashMap<Pubkey, usize>,
}

impl Arena {
    pub fn new() -> Self {
        Arena { slots: Vec::new(), index: HashMap::new() }
    }

    /// Add an account (idempotent per key); returns its slot index.
    pub fn add(&mut self, key: &Pubkey, acct: &Account) -> usize {
        if let Some(i) = self.index.get(key) {
            return *i;
        }
        let len = acct.data.len();
        let cap = len + MAX_PERMITTED_DATA_INCREASE + 16;
        let layout = std::alloc::Layout::from_size_align((OFF_DATA + cap + 15) / 16 * 16, 16).unwrap();
        // SAFETY: non-zero size; freed in `Drop for Slot`.
        let base = unsafe { std::alloc::alloc_zeroed(layout) };
        assert!(!base.is_null(), "arena allocation failed");
        // SAFETY: `base` points to `>= OFF_DATA + cap` zeroed, writable bytes; all header offsets are
        // in range and suitably aligned (base is 16-aligned).
        let (lamports, data) = unsafe {
            *(base.add(OFF_ORIG_LEN) as *mut u32) = len as u32;
            std::ptr::copy_nonoverlapping(key.as_ref().as_ptr(), base.add(OFF_KEY), 32);
            std::ptr::copy_nonoverlapping(acct.owner.as_ref().as_ptr(), base.add(OFF_OWNER), 32);
            *(base.add(OFF_LAMPORTS) as *mut u64) = acct.lamports;
            *(base.add(OFF_DATA_LEN) as *mut u64) = len as u64;
            std::ptr::copy_nonoverlapping(acct.data.as_ptr(), base.add(OFF_DATA), len);
            let lam: &'static mut u64 = &mut *(base.add(OFF_LAMPORTS) as *mut u64);
            let dat: &'static mut [u8] = std::slice::from_raw_parts_mut(base.add(OFF_DATA), len);
            (Rc::new(RefCell::new(lam)), Rc::new(RefCell::new(dat)))
        };
        let i = self.slots.len();
        self.slots.push(Slot {
            base,
            layout,
            cap,
            key: *key,
            executable: acct.executable,
            pre: acct.clone(),
            lamports,
            data,
        });
        self.index.insert(*key, i);
        i
    }

    /// An `AccountInfo` for slot `i`; every info of the same slot shares the same `RefCell`s.
    pub fn info(&self, i: usize, is_signer: bool, is_writable: bool) -> AccountInfo<'static> {
        let s = &self.slots[i];
        // SAFETY: key/owner live inside the slot's buffer which outlives every AccountInfo handed
        // out (the arena is dropped after the instruction returned and all infos were dropped).
        let (key, owner) = unsafe {
            (&*(s.base.add(OFF_KEY) as *const Pubkey), &*(s.base.add(OFF_OWNER) as *const Pubkey))
        };
        AccountInfo {
            key,
            lamports: s.lamports.clone(),
            data: s.data.clone(),
            owner,
            rent_epoch: u64::MAX,
            is_signer,
            is_writable,
            executable: s.executable,
        }
    }

    /// Current state of slot `i` as the programs left it (no borrow may be outstanding).
    pub fn read(&self, i: usize) -> Account {
        let s = &self.slots[i];
        let data = s.data.borrow();
        let lam = s.lamports.borrow();
        let ptr = data.as_ptr() as usize;
        let lo = s.base as usize + OFF_DATA;
        assert!(
            ptr == lo && data.len() <= s.cap,
            "account data slice left the arena (ptr {ptr:#x}, base {lo:#x}, len {})",
            data.len()
        );
        // SAFETY: owner bytes are inside the buffer
        let owner = unsafe { *(s.base.add(OFF_OWNER) as *const Pubkey) };
        Account { owner, lamports: **lam, data: data.to_vec(), executable: s.executable }
    }
}

/// Lightweight view used by the per-invocation verification.
pub(crate) struct Snap {
    pub key: Pubkey,
    pub owner: Pubkey,
    pub lamports: u64,
    pub len: usize,
    /// data copy, only taken when a change would be illegal for the callee
    pub data: Option<Vec<u8>>,
    pub writable: bool,
    pub executable: bool,
}

pub(crate) fn snap(info: &AccountInfo, callee: &Pubkey) -> Snap {
    let data = info.data.borrow();
    let may_write = info.is_writable && info.owner == callee;
    Snap {
        key: *info.key,
        owner: *info.owner,
        lamports: **info.lamports.borrow(),
        len: data.len(),
        data: if may_write { None } else { Some(data.to_vec()) },
        writable: info.is_writable,
        executable: info.executable,
    }
}
