//! Helpers shared by the oracle / GT / builder-fee drivers (C24, C25, C29, C30, C31, C32):
//! error projection, zeroed boxes of zero-copy structs, in-memory Anchor accounts.
use anchor_lang::prelude::*;

/// Name of an Anchor error (`CoreError` variant name, Anchor `ErrorCode` name, or the
/// `ProgramError` debug text).
pub fn err_name(e: &anchor_lang::error::Error) -> String {
    match e {
        anchor_lang::error::Error::AnchorError(a) => a.error_name.clone(),
        anchor_lang::error::Error::ProgramError(p) => format!("ProgramError::{:?}", p.program_error),
    }
}

/// Error code number (0 for program errors).
pub fn err_code(e: &anchor_lang::error::Error) -> u32 {
    match e {
        anchor_lang::error::Error::AnchorError(a) => a.error_code_number,
        anchor_lang::error::Error::ProgramError(_) => 0,
    }
}

/// A zeroed, heap-allocated (hence correctly aligned) zero-copy struct.
pub fn zbox<T: bytemuck::Zeroable>() -> Box<T> {
    // SAFETY: all-zero bytes are a valid `T` (`Zeroable`).
    unsafe { Box::<T>::new_zeroed().assume_init() }
}

/// Backing storage of one in-memory account: `data` starts at an address == 8 (mod 16) so that
/// the zero-copy struct behind the 8-byte discriminator is 16-byte aligned (u128 fields).
pub struct MemAccount {
    pub key: Pubkey,
    pub owner: Pubkey,
    pub lamports: u64,
    buf: Vec<u128>,
    len: usize,
}

impl MemAccount {
    /// An account owned by `owner` holding `disc ++ zeroed(space)`.
    pub fn new(key: Pubkey, owner: Pubkey, disc: &[u8], space: usize) -> Self {
        let len = 8 + space;
        let mut a = MemAccount { key, owner, lamports: 1_000_000_000, buf: vec![0u128; (len + 8) / 16 + 2], len };
        a.data_mut()[..8].copy_from_slice(disc);
        a
    }
    /// An account of zero-copy type `T` (discriminator + zeroed `T` + `extra` bytes).
    pub fn zero_copy<T: anchor_lang::Discriminator + bytemuck::Pod>(key: Pubkey, owner: Pubkey, extra: usize) -> Self {
        Self::new(key, owner, T::DISCRIMINATOR, std::mem::size_of::<T>() + extra)
    }
    pub fn data(&self) -> &[u8] {
        let bytes: &[u8] = bytemuck::cast_slice(&self.buf);
        &bytes[8..8 + self.len]
    }
    pub fn data_mut(&mut self) -> &mut [u8] {
        let len = self.len;
        let bytes: &mut [u8] = bytemuck::cast_slice_mut(&mut self.buf);
        &mut bytes[8..8 + len]
    }
    /// The zero-copy struct behind the discriminator.
    pub fn get<T: bytemuck::Pod>(&self) -> &T {
        bytemuck::from_bytes(&self.data()[8..8 + std::mem::size_of::<T>()])
    }
    pub fn get_mut<T: bytemuck::Pod>(&mut self) -> &mut T {
        bytemuck::from_bytes_mut(&mut self.data_mut()[8..8 + std::mem::size_of::<T>()])
    }
    /// Borrow as an `AccountInfo` (writable, not signer).
    pub fn info(&mut self) -> AccountInfo<'_> {
        let len = self.len;
        let bytes: &mut [u8] = bytemuck::cast_slice_mut(&mut self.buf);
        AccountInfo::new(&self.key, false, true, &mut self.lamports, &mut bytes[8..8 + len], &self.owner, false, 0)
    }
}

/// Deterministic pubkey from a small tag.
pub fn key(tag: u8, n: u8) -> Pubkey {
    let mut b = [0u8; 32];
    b[0] = tag;
    b[1] = n;
    b[31] = 1;
    Pubkey::new_from_array(b)
}

extern "C" {
    fn dup2(oldfd: i32, newfd: i32) -> i32;
}

/// `msg!` is a plain `println!` on native targets: send the process' stdout to /dev/null
/// (drivers report on stderr and write their traces to files).
pub fn silence_stdout() {
    use std::os::fd::AsRawFd;
    if std::env::var("VERIF_SOL_LOG").map(|v| v == "1").unwrap_or(false) {
        return;
    }
    if let Ok(f) = std::fs::OpenOptions::new().write(true).open("/dev/null") {
        // SAFETY: plain POSIX dup2 on two valid descriptors.
        unsafe { dup2(f.as_raw_fd(), 1) };
        std::mem::forget(f);
    }
}
