//! Path replay for opaque state machines: TLC prints one operation sequence per distinct state of
//! the bounded model; the sequences are merged into a prefix trie and visited depth-first, so every
//! distinct prefix is executed and LOGGED exactly once (its own prefix is re-executed silently on a
//! fresh instance by the driver).  Events carry `depth`, which lets the trace specification
//! continue from the state it remembered for depth-1.
use serde_json::Value;
use std::collections::HashMap;
use std::io::BufRead;

/// Read an ndjson file whose lines are JSON arrays of operations.
pub fn read_paths(path: &str) -> Vec<Vec<Value>> {
    let f = std::fs::File::open(path).expect("open paths file");
    std::io::BufReader::new(f)
        .lines()
        .map(|l| l.expect("read line"))
        .filter(|l| !l.trim().is_empty())
        .map(|l| match serde_json::from_str::<Value>(&l).expect("path line is JSON") {
            Value::Array(v) => v,
            other => panic!("path line is not an array: {other}"),
        })
        .collect()
}

struct Node {
    op: Value,
    children: Vec<usize>,
    index: HashMap<String, usize>,
}

/// Calls `visit(prefix)` once for every distinct non-empty prefix of the given paths, in
/// depth-first order (children in order of first appearance). `prefix.last()` is the operation to
/// log; `prefix.len()` its depth. Returns the number of visited prefixes.
pub fn dfs_prefixes(paths: &[Vec<Value>], mut visit: impl FnMut(&[Value])) -> usize {
    let mut nodes: Vec<Node> = vec![Node { op: Value::Null, children: vec![], index: HashMap::new() }];
    for p in paths {
        let mut cur = 0usize;
        for op in p {
            let key = op.to_string();
            let next = match nodes[cur].index.get(&key) {
                Some(&n) => n,
                None => {
                    let n = nodes.len();
                    nodes.push(Node { op: op.clone(), children: vec![], index: HashMap::new() });
                    nodes[cur].children.push(n);
                    nodes[cur].index.insert(key, n);
                    n
                }
            };
            cur = next;
        }
    }
    // iterative DFS
    let mut count = 0usize;
    let mut prefix: Vec<Value> = Vec::new();
    let mut stack: Vec<(usize, usize)> = vec![(0, 0)]; // (node, next child position)
    while let Some(&mut (node, ref mut pos)) = stack.last_mut() {
        if *pos < nodes[node].children.len() {
            let child = nodes[node].children[*pos];
            *pos += 1;
            prefix.push(nodes[child].op.clone());
            count += 1;
            visit(&prefix);
            stack.push((child, 0));
        } else {
            stack.pop();
            prefix.pop();
        }
    }
    count
}
