//! C25: custom price feed (programs/store/src/states/oracle/feed.rs, `PriceFeed::update`).
//! The real zero-copy `PriceFeed` is driven in memory through the cfg-guarded hooks with a stubbed
//! clock.  modes:
//!   small  [--full 1] --out F            state injection: every (feed state, request) of a finite domain
//!   random --seed S --n N --out F        random update sequences (runs of 16, `reset` between runs)
//!   replay --in F --out F                re-execute recorded events (pre state + request)
//!   wide   --seed S --n N --out F        type-limit tier: timestamps / clock at and around i64::MIN, i64::MAX, 0,
//!                                        +-1, +-2^31, +-2^62, slots and max_future_excess at the u64 limits, prices
//!                                        up to u128::MAX, mixed with small and realistic values.  Every number is
//!                                        logged as {s: decimal string, neg, l: 7 limbs base 2^20, most significant
//!                                        first} and judged by TLC with limb arithmetic (FeedBigProps.tla)
use anchor_lang::prelude::Pubkey;
use gmsol_store::states::oracle::verif::feed as hook;
use gmsol_store::states::{PriceFeed, PriceFeedPrice, PriceProviderKind};
use h_programs::eutil::{err_name, key, zbox};
use h_programs::stubs;
use h_programs::util::{guarded, Args, Rng, Sink};
use serde_json::{json, Value};

#[derive(Clone, Copy, Debug, PartialEq)]
struct St {
    slot: u64,
    publ: i64,
    ts: i64,
    price: u128,
    min: u128,
    max: u128,
}

#[derive(Clone, Copy, Debug)]
struct Req {
    price: u128,
    min: u128,
    max: u128,
    ts: i64,
    slot: u64,
    now: i64,
    excess: u64,
    idem: bool,
}

fn project(f: &PriceFeed) -> St {
    St {
        slot: f.last_published_at_slot(),
        publ: hook::last_published_at(f),
        ts: f.price().ts(),
        price: *f.price().price(),
        min: *f.price().min_price(),
        max: *f.price().max_price(),
    }
}

fn st_json(s: &St) -> Value {
    json!({"slot": s.slot, "pub": s.publ, "ts": s.ts, "price": s.price as u64, "min": s.min as u64, "max": s.max as u64})
}

fn new_feed() -> Box<PriceFeed> {
    let mut f: Box<PriceFeed> = zbox();
    let store = key(1, 0);
    hook::init(&mut f, 255, 0, PriceProviderKind::ChainlinkDataStreams, &store, &key(2, 0), &key(3, 0), &key(4, 0))
        .expect("init");
    let _: Pubkey = store;
    f
}

fn inject(f: &mut PriceFeed, s: &St) {
    let p = PriceFeedPrice::new(8, s.ts, s.price, s.min, s.max, 0);
    hook::set_state(f, s.slot, s.publ, &p);
}

/// One update on the real feed; logs the step.
fn step(sink: &mut Sink, f: &mut PriceFeed, r: &Req, reset: bool) {
    let pre = project(f);
    let before: Vec<u8> = bytemuck::bytes_of(&*f).to_vec();
    stubs::set_clock(r.now, r.slot);
    let p = PriceFeedPrice::new(8, r.ts, r.price, r.min, r.max, 0);
    let out = guarded(|| hook::update(f, &p, r.excess, r.idem));
    let post = project(f);
    let same = before.as_slice() == bytemuck::bytes_of(&*f);
    let (res, err, panic) = match &out {
        Err(()) => ("err".to_string(), "panic".to_string(), true),
        Ok(Ok(true)) => ("ok".to_string(), String::new(), false),
        Ok(Ok(false)) => ("skip".to_string(), String::new(), false),
        Ok(Err(e)) => ("err".to_string(), err_name(e), false),
    };
    sink.emit(json!({
        "op": "update", "reset": reset, "pre": st_json(&pre), "post": st_json(&post),
        "price": r.price as u64, "min": r.min as u64, "max": r.max as u64, "ts": r.ts, "slot": r.slot, "now": r.now,
        "excess": r.excess, "idem": r.idem, "res": res, "err": err, "same": same, "panic": panic,
    }));
}

fn small(args: &Args) -> i32 {
    let full = args.num("full", 0) != 0;
    let mut sink = Sink::create(&args.str("out", "c25-small.ndjson"));
    // pre-states (injected): clocks x price timestamps x stored (valid) prices
    let slots: &[u64] = if full { &[0, 1, 2] } else { &[0, 1] };
    let pubs: &[i64] = if full { &[0, 2, 3] } else { &[0, 2] };
    let tss: &[i64] = if full { &[0, 2, 3, 4] } else { &[0, 2, 3] };
    let stored: &[(u128, u128, u128)] =
        if full { &[(0, 0, 0), (1, 1, 1), (2, 1, 3), (2, 2, 2)] } else { &[(0, 0, 0), (2, 1, 3), (2, 2, 2)] };
    // requests: the domain of MC_Feed
    let lv: &[u128] = &[1, 2, 3];
    let rts: &[i64] = &[0, 1, 2, 3, 4];
    let rslots: &[u64] = &[0, 1];
    let rnow: &[i64] = if full { &[0, 1, 2, 3] } else { &[0, 2, 3] };
    let mut f = new_feed();
    let mut first = true;
    for &slot in slots {
        for &publ in pubs {
            for &ts in tss {
                for &(price, min, max) in stored {
                    let pre = St { slot, publ, ts, price, min, max };
                    for &p in lv {
                        for &mn in lv {
                            for &mx in lv {
                                for &t in rts {
                                    for &sl in rslots {
                                        for &now in rnow {
                                            for excess in [0u64, 1] {
                                                for idem in [false, true] {
                                                    inject(&mut f, &pre);
                                                    let r = Req { price: p, min: mn, max: mx, ts: t, slot: sl, now, excess, idem };
                                                    step(&mut sink, &mut f, &r, true);
                                                    first = false;
                                                }
                                            }
                                        }
                                    }
                                }
                            }
                        }
                    }
                }
            }
        }
    }
    let _ = first;
    eprintln!("c25 small: {} events", sink.finish());
    0
}

fn random(args: &Args) -> i32 {
    let mut rng = Rng::new(args.num("seed", 1));
    let n = args.num("n", 3000);
    let mut sink = Sink::create(&args.str("out", "c25-random.ndjson"));
    let mut f = new_feed();
    let mut k = 0u64;
    let mut clock_slot = 0u64;
    let mut clock_now = 0i64;
    for i in 0..n {
        let reset = i % 16 == 0;
        if reset {
            f = new_feed();
            clock_slot = rng.below(3);
            clock_now = rng.range(0, 3);
        }
        // mostly advancing clock, sometimes running backwards (must be rejected)
        if rng.chance(4, 5) {
            clock_slot += rng.below(3);
            clock_now += rng.range(0, 3);
        } else {
            clock_slot = clock_slot.saturating_sub(rng.below(3));
            clock_now -= rng.range(0, 3);
        }
        let cur = project(&f);
        // price ts around the stored ts and the clock
        let ts = if rng.chance(1, 2) { cur.ts + rng.range(-2, 3) } else { clock_now + rng.range(-3, 3) };
        let mid = rng.range(0, 6) as u128;
        let (min, price, max) = if rng.chance(3, 4) {
            let lo = mid.saturating_sub(rng.below(3) as u128);
            (lo, mid, mid + rng.below(3) as u128)
        } else {
            (rng.range(0, 6) as u128, mid, rng.range(0, 6) as u128)
        };
        let r = Req { price, min, max, ts, slot: clock_slot, now: clock_now, excess: rng.below(3), idem: rng.chance(1, 2) };
        step(&mut sink, &mut f, &r, reset);
        k += 1;
    }
    let _ = k;
    eprintln!("c25 random: {} events", sink.finish());
    0
}

fn replay(args: &Args) -> i32 {
    let input = std::fs::read_to_string(args.str("in", "")).expect("read --in");
    let mut sink = Sink::create(&args.str("out", "c25-replay.ndjson"));
    let mut f = new_feed();
    for line in input.lines().filter(|l| !l.trim().is_empty()) {
        let e: Value = serde_json::from_str(line).expect("json");
        let g = |v: &Value, k: &str| v[k].as_i64().unwrap_or(0);
        let p = &e["pre"];
        let pre = St {
            slot: g(p, "slot") as u64,
            publ: g(p, "pub"),
            ts: g(p, "ts"),
            price: g(p, "price") as u128,
            min: g(p, "min") as u128,
            max: g(p, "max") as u128,
        };
        inject(&mut f, &pre);
        let r = Req {
            price: g(&e, "price") as u128,
            min: g(&e, "min") as u128,
            max: g(&e, "max") as u128,
            ts: g(&e, "ts"),
            slot: g(&e, "slot") as u64,
            now: g(&e, "now"),
            excess: g(&e, "excess") as u64,
            idem: e["idem"].as_bool().unwrap_or(false),
        };
        step(&mut sink, &mut f, &r, true);
    }
    eprintln!("c25 replay: {} events", sink.finish());
    0
}

// ------------------------------------------------------------------------------------------
// type-limit tier
fn big(v: i128) -> Value {
    let mut m = v.unsigned_abs();
    let mut l = [0u32; 7];
    for i in (0..7).rev() {
        l[i] = (m & 0xF_FFFF) as u32;
        m >>= 20;
    }
    assert!(m == 0);
    json!({"s": v.to_string(), "neg": v < 0, "l": l})
}
fn bigu(v: u128) -> Value {
    let mut m = v;
    let mut l = [0u32; 7];
    for i in (0..7).rev() {
        l[i] = (m & 0xF_FFFF) as u32;
        m >>= 20;
    }
    assert!(m == 0);
    json!({"s": v.to_string(), "neg": false, "l": l})
}
fn st_big(s: &St) -> Value {
    json!({"slot": bigu(s.slot as u128), "pub": big(s.publ as i128), "ts": big(s.ts as i128), "price": bigu(s.price),
           "min": bigu(s.min), "max": bigu(s.max)})
}

fn pick_i64(rng: &mut Rng) -> i64 {
    const B: [i64; 17] = [i64::MIN, i64::MIN + 1, i64::MIN + 5, -(1 << 62), -(1 << 31) - 1, -(1 << 31), -1, 0, 1, 1 << 31,
        (1 << 31) + 1, 1_700_000_000, 1 << 62, i64::MAX - 5, i64::MAX - 1, i64::MAX, 1_000_000];
    match rng.below(10) {
        0..=5 => B[rng.below(17) as usize].saturating_add(if rng.chance(1, 3) { rng.range(-3, 3) } else { 0 }),
        6 | 7 => rng.range(-5, 50),
        8 => 1_700_000_000 + rng.range(-100, 100),
        _ => rng.next() as i64,
    }
}
fn pick_u64(rng: &mut Rng) -> u64 {
    const B: [u64; 9] = [0, 1, 2, 1 << 31, 1 << 32, 1 << 63, (1 << 63) - 1, u64::MAX - 1, u64::MAX];
    match rng.below(8) {
        0..=3 => B[rng.below(9) as usize],
        4 | 5 => rng.below(20),
        _ => rng.next(),
    }
}
fn pick_u128(rng: &mut Rng) -> u128 {
    const B: [u128; 9] = [0, 1, 2, 1 << 32, 1 << 64, (1 << 64) - 1, 1 << 127, u128::MAX - 1, u128::MAX];
    match rng.below(8) {
        0..=2 => B[rng.below(9) as usize],
        3..=5 => rng.below(10) as u128,
        _ => rng.next128(),
    }
}

fn wide(args: &Args) -> i32 {
    let mut rng = Rng::new(args.num("seed", 1));
    let n = args.num("n", 3000);
    let mut sink = Sink::create(&args.str("out", "c25-wide.ndjson"));
    let mut f = new_feed();
    for i in 0..n {
        // runs of 8 chained steps; every run starts from an injected (valid or arbitrary) state
        let reset = i % 8 == 0;
        if reset {
            let a = pick_u128(&mut rng);
            let b = pick_u128(&mut rng);
            let c = pick_u128(&mut rng);
            let mut v = [a, b, c];
            if rng.chance(5, 6) {
                v.sort();
            }
            let pre = St { slot: pick_u64(&mut rng) / 2, publ: pick_i64(&mut rng), ts: pick_i64(&mut rng), min: v[0], price: v[1], max: v[2] };
            inject(&mut f, &pre);
        }
        let cur = project(&f);
        let a = pick_u128(&mut rng);
        let b = pick_u128(&mut rng);
        let c = pick_u128(&mut rng);
        let mut v = [a, b, c];
        if rng.chance(4, 5) {
            v.sort();
        }
        // the clock mostly does not run backwards
        let slot = if rng.chance(4, 5) { cur.slot.saturating_add(pick_u64(&mut rng) % 1000) } else { pick_u64(&mut rng) };
        let now = if rng.chance(4, 5) { cur.publ.saturating_add((pick_u64(&mut rng) % 1000) as i64) } else { pick_i64(&mut rng) };
        let ts = match rng.below(4) {
            0 => cur.ts.saturating_add(rng.range(-2, 3)),
            1 => now.saturating_add(rng.range(-3, 3)),
            _ => pick_i64(&mut rng),
        };
        let r = Req { price: v[1], min: v[0], max: v[2], ts, slot, now, excess: pick_u64(&mut rng), idem: rng.chance(1, 2) };
        // one step, logged with big numbers
        let pre = project(&f);
        let before: Vec<u8> = bytemuck::bytes_of(&*f).to_vec();
        stubs::set_clock(r.now, r.slot);
        let p = PriceFeedPrice::new(8, r.ts, r.price, r.min, r.max, 0);
        let out = guarded(|| hook::update(&mut f, &p, r.excess, r.idem));
        let post = project(&f);
        let same = before.as_slice() == bytemuck::bytes_of(&*f);
        let (res, err, panic) = match &out {
            Err(()) => ("err".to_string(), "panic".to_string(), true),
            Ok(Ok(true)) => ("ok".to_string(), String::new(), false),
            Ok(Ok(false)) => ("skip".to_string(), String::new(), false),
            Ok(Err(e)) => ("err".to_string(), err_name(e), false),
        };
        sink.emit(json!({
            "op": "update", "reset": reset, "pre": st_big(&pre), "post": st_big(&post),
            "price": bigu(r.price), "min": bigu(r.min), "max": bigu(r.max), "ts": big(r.ts as i128), "slot": bigu(r.slot as u128),
            "now": big(r.now as i128), "excess": bigu(r.excess as u128), "idem": r.idem, "res": res, "err": err, "same": same,
            "panic": panic,
        }));
    }
    eprintln!("c25 wide: {} events", sink.finish());
    0
}

fn main() {
    h_programs::util::quiet_panics();
    stubs::install();
    h_programs::eutil::silence_stdout();
    let (mode, args) = Args::from_env();
    let rc = match mode.as_str() {
        "small" => small(&args),
        "random" => random(&args),
        "replay" => replay(&args),
        "wide" => wide(&args),
        _ => {
            eprintln!("unknown mode {mode}");
            2
        }
    };
    std::process::exit(rc);
}
