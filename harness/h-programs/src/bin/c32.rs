//! C32: builder fee helpers (programs/store/src/ops/order.rs, private; states/order.rs
//! `Order::record_builder_fee`) through cfg-guarded hooks.  Flat events, same keys on every line:
//!   op, size, f, pmin, x, pre, swap, ok, err, r1, r2, post, panic     (see BuilderFeeProps.tla)
//!   small --out F                    whole-percent factors (f = k, real factor k * 10^18), small values
//!   random --seed S --n N --out F    larger values (products below 2^31)
//!   wide --seed S --n N --out F      boundary-biased u128 / u64 operands, decimal strings
use gmsol_model::action::decrease_position::DecreasePositionSwapType;
use gmsol_model::price::Price;
use gmsol_store::ops::order::verif as hook;
use gmsol_store::states::order::verif as order_hook;
use gmsol_store::states::Order;
use h_programs::eutil::{err_name, zbox};
use h_programs::stubs;
use h_programs::util::{guarded, Args, Rng, Sink};
use serde_json::{json, Value};

const PCT: u128 = 1_000_000_000_000_000_000;

#[derive(Clone, Copy, Default)]
struct In {
    size: u128,
    f: u128, // real factor
    pmin: u128,
    pmax: u128,
    x: u128,
    pre: u64,
    swap: u8,
}
#[derive(Default)]
struct Out {
    ok: bool,
    err: String,
    r1: u128,
    r2: u128,
    post: u64,
    panic: bool,
}

fn swap_of(s: u8) -> DecreasePositionSwapType {
    match s {
        0 => DecreasePositionSwapType::NoSwap,
        1 => DecreasePositionSwapType::PnlTokenToCollateralToken,
        _ => DecreasePositionSwapType::CollateralToPnlToken,
    }
}

fn run(op: &str, i: &In, order: &mut Order) -> Out {
    let price = Price { min: i.pmin, max: i.pmax };
    order_hook::set_builder_fee_amount(order, i.pre);
    let r = guarded(|| -> std::result::Result<(u128, u128), anchor_lang::error::Error> {
        match op {
            "compute" => hook::compute_builder_fee_amount(i.size, i.f, &price).map(|v| (v, 0)),
            "clamp" => Ok((hook::clamp_builder_fee_amount(i.size, i.x), 0)),
            "charge" => hook::charge_builder_fee_on_collateral_increment(i.x as u64, i.size, i.f, &price).map(|(a, b)| (a as u128, b as u128)),
            "estimate" => hook::estimate_builder_fee_for_collateral_withdrawal(i.x, i.size, i.f, &price, swap_of(i.swap)).map(|v| (v, 0)),
            "record" => order_hook::record_builder_fee(order, i.x as u64).map(|_| (0, 0)),
            "decrease" => {
                // the decrease-side charge of execute_decrease_position: compute on the executed size at the
                // final output token's price, clamp to the output amount, record
                if i.f != 0 {
                    let payable = hook::compute_builder_fee_amount(i.size, i.f, &price)?;
                    let paid = hook::clamp_builder_fee_amount(payable, i.x);
                    let recorded = u64::try_from(paid).map_err(|_| anchor_lang::error!(gmsol_store::CoreError::TokenAmountOverflow))?;
                    order_hook::record_builder_fee(order, recorded)?;
                    Ok((payable, paid))
                } else {
                    Ok((0, 0))
                }
            }
            _ => panic!("op"),
        }
    });
    let post = order.builder_fee_amount();
    match r {
        Err(()) => Out { panic: true, err: "panic".into(), post, ..Default::default() },
        Ok(Ok((r1, r2))) => Out { ok: true, r1, r2, post, ..Default::default() },
        Ok(Err(e)) => Out { err: err_name(&e), post, ..Default::default() },
    }
}

fn emit_small(sink: &mut Sink, op: &str, i: &In, k: u128, o: &Out) {
    let n = |v: u128| json!(v as u64);
    sink.emit(json!({"op": op, "size": n(i.size), "f": n(k), "pmin": n(i.pmin), "x": n(i.x), "pre": i.pre, "swap": i.swap,
        "ok": o.ok, "err": o.err, "r1": n(o.r1), "r2": n(o.r2), "post": o.post, "panic": o.panic}));
}
fn emit_wide(sink: &mut Sink, op: &str, i: &In, o: &Out) {
    let s = |v: u128| Value::String(v.to_string());
    sink.emit(json!({"op": op, "size": s(i.size), "f": s(i.f), "pmin": s(i.pmin), "x": s(i.x), "pre": s(i.pre as u128), "swap": i.swap,
        "ok": o.ok, "err": o.err, "r1": s(o.r1), "r2": s(o.r2), "post": s(o.post as u128), "panic": o.panic}));
}

const KS: [u128; 8] = [0, 1, 5, 10, 33, 50, 100, 150];
const SIZES: [u128; 8] = [0, 7, 10, 19, 50, 100, 101, 250];

fn small(args: &Args) -> i32 {
    let mut sink = Sink::create(&args.str("out", "c32-small.ndjson"));
    let mut order: Box<Order> = zbox();
    let mut go = |sink: &mut Sink, op: &str, i: In, k: u128| {
        let o = run(op, &i, &mut order);
        emit_small(sink, op, &i, k, &o);
    };
    for size in 0..=120u128 {
        for k in KS {
            for pmin in 0..=6u128 {
                go(&mut sink, "compute", In { size, f: k * PCT, pmin, pmax: pmin + 2, ..Default::default() }, k);
            }
        }
    }
    for fee in 0..=12u128 {
        for avail in 0..=12u128 {
            go(&mut sink, "clamp", In { size: fee, x: avail, ..Default::default() }, 0);
        }
    }
    for size in SIZES {
        for k in KS {
            for pmin in 0..=4u128 {
                for x in 0..=12u128 {
                    go(&mut sink, "charge", In { size, f: k * PCT, pmin, pmax: pmin, x, ..Default::default() }, k);
                }
                for x in 0..=8u128 {
                    for pre in [0u64, 2] {
                        go(&mut sink, "decrease", In { size, f: k * PCT, pmin, pmax: pmin + 1, x, pre, ..Default::default() }, k);
                    }
                }
                if pmin <= 3 {
                    for x in [0u128, 1, 5] {
                        for swap in 0..=2u8 {
                            go(&mut sink, "estimate", In { size, f: k * PCT, pmin, pmax: pmin, x, swap, ..Default::default() }, k);
                        }
                    }
                }
            }
        }
    }
    for pre in [0u64, 1, 5, 100] {
        for x in 0..=5u128 {
            go(&mut sink, "record", In { x, pre, ..Default::default() }, 0);
        }
    }
    eprintln!("c32 small: {} events", sink.finish());
    0
}

fn random(args: &Args) -> i32 {
    let mut rng = Rng::new(args.num("seed", 1));
    let n = args.num("n", 3000);
    let mut sink = Sink::create(&args.str("out", "c32-random.ndjson"));
    let mut order: Box<Order> = zbox();
    for _ in 0..n {
        let k = *rng.pick(&[0u128, 1, 2, 3, 7, 10, 25, 50, 99, 100, 120]);
        let size = rng.below(10_000_000) as u128;
        let pmin = if rng.chance(1, 20) { 0 } else { 1 + rng.below(5000) as u128 };
        let fee_guess = size * k / 100 / pmin.max(1);
        let near = (fee_guess as i64 + rng.range(-3, 3)).max(0) as u128;
        let x = if rng.chance(1, 2) { near } else { rng.below(100_000) as u128 };
        let i = In { size, f: k * PCT, pmin, pmax: pmin + rng.below(10) as u128, x, pre: rng.below(1000), swap: rng.below(3) as u8 };
        let op = *rng.pick(&["compute", "charge", "charge", "estimate", "decrease", "decrease", "record", "clamp"]);
        let o = run(op, &i, &mut order);
        emit_small(&mut sink, op, &i, k, &o);
    }
    eprintln!("c32 random: {} events", sink.finish());
    0
}

fn big(rng: &mut Rng, max: u128) -> u128 {
    let v = match rng.below(10) {
        0 => 0,
        1 => 1,
        2 => max,
        3 => max - 1,
        4 => max / 2,
        5 => 1u128 << rng.below(127),
        6 => (rng.next() % 1_000_000) as u128,
        7 => 100_000_000_000_000_000_000u128,
        _ => rng.next128(),
    };
    v.min(max)
}

fn wide(args: &Args) -> i32 {
    let mut rng = Rng::new(args.num("seed", 1));
    let n = args.num("n", 150);
    let mut sink = Sink::create(&args.str("out", "c32-wide.ndjson"));
    let mut order: Box<Order> = zbox();
    for _ in 0..n {
        let op = *rng.pick(&["compute", "compute", "charge", "charge", "record", "decrease"]);
        let f = match rng.below(5) {
            0 => 0,
            1 => PCT / 100,                        // 1 bp
            2 => (rng.next() % 2000) as u128 * PCT / 10,
            3 => 100 * PCT,
            _ => big(&mut rng, u128::MAX),
        };
        let i = In {
            size: big(&mut rng, u128::MAX),
            f,
            pmin: big(&mut rng, u128::MAX),
            pmax: u128::MAX,
            x: big(&mut rng, u64::MAX as u128),
            pre: big(&mut rng, u64::MAX as u128) as u64,
            swap: 0,
        };
        let o = run(op, &i, &mut order);
        emit_wide(&mut sink, op, &i, &o);
    }
    eprintln!("c32 wide: {} events", sink.finish());
    0
}

fn main() {
    h_programs::util::quiet_panics();
    stubs::install();
    h_programs::eutil::silence_stdout();
    let (mode, args) = Args::from_env();
    let rc = match mode.as_str() {
        "small" => small(&args),
        "random" => random(&args),
        "wide" => wide(&args),
        _ => {
            eprintln!("unknown mode {mode}");
            2
        }
    };
    std::process::exit(rc);
}
