//! C17: a newly created market starts from the documented default configuration.
//! Real `Market::default()` + `Market::init` (clock stub), pure and impure markets; one event per
//! config key / flag (value after init + the values of all DEFAULT_* constants by name), one per
//! pool kind (pure flag, stored amounts, revision) and one for the revertible buffer revision.
//! modes:  all --out FILE
use anchor_lang::prelude::Pubkey;
use gmsol_model::PoolKind;
use gmsol_store::{
    constants,
    states::market::{
        config::{MarketConfigFlag, MarketConfigKey},
        pool::verif as pool_hook,
        revertible::buffer_verif,
    },
    states::Market,
};
use h_programs::{
    stubs,
    util::{quiet_panics, Args, Sink},
};
use serde_json::{json, Map, Value};
use strum::IntoEnumIterator;

/// name -> value of the documented default constants (programs/store/src/constants/market.rs)
macro_rules! consts {
    ($($name:ident),* $(,)?) => {
        vec![$((stringify!($name), constants::$name.to_string())),*]
    };
}

fn default_consts() -> Vec<(&'static str, String)> {
    consts![
        DEFAULT_RECEIVER_FACTOR,
        DEFAULT_SWAP_IMPACT_EXPONENT,
        DEFAULT_SWAP_IMPACT_POSITIVE_FACTOR,
        DEFAULT_SWAP_IMPACT_NEGATIVE_FACTOR,
        DEFAULT_SWAP_FEE_FACTOR_FOR_POSITIVE_IMPACT,
        DEFAULT_SWAP_FEE_FACTOR_FOR_NEGATIVE_IMPACT,
        DEFAULT_MIN_POSITION_SIZE_USD,
        DEFAULT_MIN_COLLATERAL_VALUE,
        DEFAULT_MIN_COLLATERAL_FACTOR,
        DEFAULT_MIN_COLLATERAL_FACTOR_FOR_LIQUIDATION,
        DEFAULT_MIN_COLLATERAL_FACTOR_FOR_OPEN_INTEREST_FOR_LONG,
        DEFAULT_MIN_COLLATERAL_FACTOR_FOR_OPEN_INTEREST_FOR_SHORT,
        DEFAULT_MAX_POSITIVE_POSITION_IMPACT_FACTOR,
        DEFAULT_MAX_NEGATIVE_POSITION_IMPACT_FACTOR,
        DEFAULT_MAX_POSITION_IMPACT_FACTOR_FOR_LIQUIDATIONS,
        DEFAULT_POSITION_IMPACT_EXPONENT,
        DEFAULT_POSITION_IMPACT_POSITIVE_FACTOR,
        DEFAULT_POSITION_IMPACT_NEGATIVE_FACTOR,
        DEFAULT_ORDER_FEE_FACTOR_FOR_POSITIVE_IMPACT,
        DEFAULT_ORDER_FEE_FACTOR_FOR_NEGATIVE_IMPACT,
        DEFAULT_LIQUIDATION_FEE_FACTOR,
        DEFAULT_POSITION_IMPACT_DISTRIBUTE_FACTOR,
        DEFAULT_MIN_POSITION_IMPACT_POOL_AMOUNT,
        DEFAULT_BORROWING_FEE_FACTOR_FOR_LONG,
        DEFAULT_BORROWING_FEE_FACTOR_FOR_SHORT,
        DEFAULT_BORROWING_FEE_EXPONENT_FOR_LONG,
        DEFAULT_BORROWING_FEE_EXPONENT_FOR_SHORT,
        DEFAULT_BORROWING_FEE_OPTIMAL_USAGE_FACTOR_FOR_LONG,
        DEFAULT_BORROWING_FEE_OPTIMAL_USAGE_FACTOR_FOR_SHORT,
        DEFAULT_BORROWING_FEE_BASE_FACTOR_FOR_LONG,
        DEFAULT_BORROWING_FEE_BASE_FACTOR_FOR_SHORT,
        DEFAULT_BORROWING_FEE_ABOVE_OPTIMAL_USAGE_FACTOR_FOR_LONG,
        DEFAULT_BORROWING_FEE_ABOVE_OPTIMAL_USAGE_FACTOR_FOR_SHORT,
        DEFAULT_FUNDING_FEE_EXPONENT,
        DEFAULT_FUNDING_FEE_FACTOR,
        DEFAULT_FUNDING_FEE_MAX_FACTOR_PER_SECOND,
        DEFAULT_FUNDING_FEE_MIN_FACTOR_PER_SECOND,
        DEFAULT_FUNDING_FEE_INCREASE_FACTOR_PER_SECOND,
        DEFAULT_FUNDING_FEE_DECREASE_FACTOR_PER_SECOND,
        DEFAULT_FUNDING_FEE_THRESHOLD_FOR_STABLE_FUNDING,
        DEFAULT_FUNDING_FEE_THRESHOLD_FOR_DECREASE_FUNDING,
        DEFAULT_RESERVE_FACTOR,
        DEFAULT_OPEN_INTEREST_RESERVE_FACTOR,
        DEFAULT_MAX_PNL_FACTOR_FOR_LONG_DEPOSIT,
        DEFAULT_MAX_PNL_FACTOR_FOR_SHORT_DEPOSIT,
        DEFAULT_MAX_PNL_FACTOR_FOR_LONG_WITHDRAWAL,
        DEFAULT_MAX_PNL_FACTOR_FOR_SHORT_WITHDRAWAL,
        DEFAULT_MAX_PNL_FACTOR_FOR_LONG_TRADER,
        DEFAULT_MAX_PNL_FACTOR_FOR_SHORT_TRADER,
        DEFAULT_MAX_PNL_FACTOR_FOR_LONG_ADL,
        DEFAULT_MAX_PNL_FACTOR_FOR_SHORT_ADL,
        DEFAULT_MIN_PNL_FACTOR_AFTER_LONG_ADL,
        DEFAULT_MIN_PNL_FACTOR_AFTER_SHORT_ADL,
        DEFAULT_MAX_POOL_AMOUNT_FOR_LONG_TOKEN,
        DEFAULT_MAX_POOL_AMOUNT_FOR_SHORT_TOKEN,
        DEFAULT_MAX_POOL_VALUE_FOR_DEPOSIT_LONG_TOKEN,
        DEFAULT_MAX_POOL_VALUE_FOR_DEPOSIT_SHORT_TOKEN,
        DEFAULT_MAX_OPEN_INTEREST_FOR_LONG,
        DEFAULT_MAX_OPEN_INTEREST_FOR_SHORT,
        DEFAULT_MIN_TOKENS_FOR_FIRST_DEPOSIT,
        DEFAULT_SKIP_BORROWING_FEE_FOR_SMALLER_SIDE,
        DEFAULT_IGNORE_OPEN_INTEREST_FOR_USAGE_FACTOR,
    ]
}

fn pk(i: u8) -> Pubkey {
    Pubkey::new_from_array([i; 32])
}

fn main() {
    quiet_panics();
    stubs::install();
    let (mode, args) = Args::from_env();
    if mode != "all" {
        std::process::exit(2);
    }
    let mut sink = Sink::create(&args.str("out", "c17.ndjson"));
    let consts: Value = Value::Object(
        default_consts().into_iter().map(|(k, v)| (k.to_string(), json!(v))).collect::<Map<_, _>>(),
    );
    for (pure, enabled) in [(false, true), (true, true), (false, false), (true, false)] {
        stubs::set_clock(1_700_000_123, 77);
        let mut m: Box<Market> = Box::default();
        let long = pk(3);
        let short = if pure { long } else { pk(4) };
        m.init(253, pk(9), "C17", pk(1), pk(2), long, short, enabled).expect("Market::init");
        let ev = |op: &str, key: &str, v: String, kind: &str, ppure: bool, l: String, s: String, rev: u64| -> Value {
            json!({"op": op, "pure": pure, "key": key, "v": v, "consts": consts, "kind": kind, "ppure": ppure,
                   "l": l, "s": s, "rev": rev})
        };
        for k in MarketConfigKey::iter() {
            let name = k.to_string();
            let v = m.get_config(&name).map(|v| v.to_string()).unwrap_or("unimplemented".into());
            sink.emit(ev("key", &name, v, "", false, "".into(), "".into(), 0));
        }
        for f in MarketConfigFlag::iter() {
            let name = f.to_string();
            let v = m.get_config_flag(&name).map(|v| v.to_string()).unwrap_or("unimplemented".into());
            sink.emit(ev("key", &format!("flag.{name}"), v, "", false, "".into(), "".into(), 0));
        }
        for kind in PoolKind::iter() {
            let Some(pool) = m.pool(kind) else { continue };
            let (l, s) = pool_hook::pool_amounts(&pool);
            let rev = buffer_verif::pool_slot_revs(&m, kind).map(|r| r.0).unwrap_or(u64::MAX);
            sink.emit(ev("pool", "", "".into(), &kind.to_string(), pool_hook::pool_is_pure(&pool), l.to_string(),
                         s.to_string(), rev));
        }
        sink.emit(ev("buffer", "", "".into(), "", false, "".into(), "".into(), buffer_verif::buffer_rev(&m)));
    }
    println!("events {}", sink.finish());
}
