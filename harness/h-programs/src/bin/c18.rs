//! C18: role membership on a real in-memory `Store` (zeroed + Store::init), LastRestartSlot stub.
//! One event per operation with the full observation of the watched addresses x roles:
//!   op, a, r, ok, err, panic, depth, cap_roles, cap_members, authority,
//!   obs = {role, member, rh (RoleStore::has_role), sh (Store::has_role), admin, nroles, nmembers, restarted}
//! modes:
//!   replay --in PATHS [--fill-roles N --fill-members M]   paths printed by MC_Roles, visited through a
//!          prefix trie; the fillers pre-occupy the real 32/64 capacity so that the scaled capacities of
//!          the model (2 roles / 2 members left) are the real limits
//!   random --seed S --n RUNS --len L                       linear histories over 40 role names and 70
//!          addresses at the real capacities (32 roles, 64 members); a fixed window is observed
use anchor_lang::prelude::Pubkey;
use anchor_lang::solana_program::hash::hashv;
use gmsol_store::states::{store::verif as store_hook, Store, MAX_MEMBERS, MAX_ROLES};
use h_programs::{
    stubs, trie,
    util::{guarded, quiet_panics, Args, Rng, Sink},
};
use serde_json::{json, Map, Value};

fn addr(name: &str) -> Pubkey {
    Pubkey::new_from_array(hashv(&[b"c18-address", name.as_bytes()]).to_bytes())
}

fn err_name(e: &anchor_lang::error::Error) -> String {
    match e {
        anchor_lang::error::Error::AnchorError(a) => a.error_name.clone(),
        anchor_lang::error::Error::ProgramError(p) => format!("ProgramError({})", p.program_error),
    }
}

struct World {
    store: Box<Store>,
    slot: u64,
    fill_roles: usize,
    fill_members: usize,
    authority: String,
}

impl World {
    fn new(authority: &str, fill_roles: usize, fill_members: usize) -> Self {
        stubs::set_last_restart_slot(0);
        let mut store: Box<Store> = Box::new(bytemuck::Zeroable::zeroed());
        store.init(addr(authority), "c18", 255, addr("receiver"), addr("holding")).expect("Store::init");
        for i in 0..fill_roles {
            store.enable_role(&format!("F{i:02}")).expect("filler role");
        }
        for i in 0..fill_members {
            store.grant(&addr(&format!("filler-{i}")), "F00").expect("filler member");
        }
        World { store, slot: 0, fill_roles, fill_members, authority: authority.to_string() }
    }

    /// (ok, err name, panicked)
    fn apply(&mut self, op: &str, a: &str, r: &str) -> (bool, String, bool) {
        if op == "restart" {
            self.slot += 1;
            stubs::set_last_restart_slot(self.slot);
            return (true, String::new(), false);
        }
        stubs::set_last_restart_slot(self.slot);
        let store = &mut self.store;
        let res = guarded(|| match op {
            "enable" => store.enable_role(r),
            "disable" => store.disable_role(r),
            "grant" => store.grant(&addr(a), r),
            "revoke" => store.revoke(&addr(a), r),
            "update" => store_hook::update_last_restarted_slot(store, true).map(|_| ()),
            other => panic!("unknown op {other}"),
        });
        match res {
            Ok(Ok(())) => (true, String::new(), false),
            Ok(Err(e)) => (false, err_name(&e), false),
            Err(()) => (false, String::new(), true),
        }
    }

    fn obs(&self, wa: &[String], wr: &[String]) -> Value {
        stubs::set_last_restart_slot(self.slot);
        let s = &self.store;
        let tri = |x: anchor_lang::Result<bool>| match x {
            Ok(true) => "true",
            Ok(false) => "false",
            Err(_) => "err",
        };
        let mut role = Map::new();
        for r in wr {
            let st = match s.role().role_index(r) {
                Ok(None) => "absent",
                Ok(Some(_)) => match s.role().enabled_role_index(r) {
                    Ok(Some(_)) => "enabled",
                    _ => "disabled",
                },
                Err(_) => "error",
            };
            role.insert(r.clone(), json!(st));
        }
        let mut member = Map::new();
        let mut rh = Map::new();
        let mut sh = Map::new();
        let mut admin = Map::new();
        for a in wa {
            let k = addr(a);
            member.insert(a.clone(), json!(s.role().role_value(&k).is_some()));
            let mut rha = Map::new();
            let mut sha = Map::new();
            for r in wr {
                rha.insert(r.clone(), json!(tri(s.role().has_role(&k, r))));
                sha.insert(r.clone(), json!(tri(s.has_role(&k, r))));
            }
            rh.insert(a.clone(), Value::Object(rha));
            sh.insert(a.clone(), Value::Object(sha));
            admin.insert(a.clone(), json!(tri(s.has_admin_role(&k))));
        }
        json!({
            "role": role, "member": member, "rh": rh, "sh": sh, "admin": admin,
            "nroles": s.role().num_roles() as i64 - self.fill_roles as i64,
            "nmembers": s.role().num_members() as i64 - self.fill_members as i64,
            "restarted": s.has_restarted().unwrap_or(false),
        })
    }

    #[allow(clippy::too_many_arguments)]
    fn event(&self, op: &str, a: &str, r: &str, res: (bool, String, bool), depth: usize, wa: &[String], wr: &[String]) -> Value {
        json!({
            "op": op, "a": a, "r": r, "ok": res.0, "err": res.1, "panic": res.2, "depth": depth,
            "cap_roles": MAX_ROLES - self.fill_roles, "cap_members": MAX_MEMBERS - self.fill_members,
            "authority": self.authority, "obs": self.obs(wa, wr),
        })
    }
}

fn field<'a>(op: &'a Value, k: &str) -> &'a str {
    op.get(k).and_then(|v| v.as_str()).unwrap_or("")
}

fn replay(args: &Args) -> i32 {
    let paths = trie::read_paths(&args.str("in", "paths.ndjson"));
    let fr = args.num("fill-roles", 0) as usize;
    let fm = args.num("fill-members", 0) as usize;
    let wa: Vec<String> = ["A1", "A2", "A3"].iter().map(|s| s.to_string()).collect();
    let wr: Vec<String> = ["R1", "R2", "R3", "RESTART_ADMIN"].iter().map(|s| s.to_string()).collect();
    let mut sink = Sink::create(&args.str("out", "c18-replay.ndjson"));
    let w0 = World::new("A1", fr, fm);
    sink.emit(w0.event("init", "", "", (true, String::new(), false), 0, &wa, &wr));
    let n = trie::dfs_prefixes(&paths, |prefix| {
        let mut w = World::new("A1", fr, fm);
        let (last, before) = prefix.split_last().unwrap();
        for op in before {
            w.apply(field(op, "op"), field(op, "a"), field(op, "r"));
        }
        let (op, a, r) = (field(last, "op"), field(last, "a"), field(last, "r"));
        let res = w.apply(op, a, r);
        sink.emit(w.event(op, a, r, res, prefix.len(), &wa, &wr));
    });
    println!("paths {} prefixes {} events {}", paths.len(), n, sink.finish());
    0
}

fn random(args: &Args) -> i32 {
    let runs = args.num("n", 10);
    let len = args.num("len", 400);
    let mut rng = Rng::new(args.num("seed", 1) ^ 0x18);
    let mut sink = Sink::create(&args.str("out", "c18-random.ndjson"));
    let names: Vec<String> = (0..40).map(|i| format!("N{i:02}")).chain(["RESTART_ADMIN".to_string()]).collect();
    let addrs: Vec<String> = (0..70).map(|i| format!("A{i:02}")).collect();
    let wa: Vec<String> = ["A00", "A01", "A02", "A03", "A66", "A67", "A68", "A69"].iter().map(|s| s.to_string()).collect();
    let wr: Vec<String> = ["N00", "N01", "N02", "N30", "N31", "N38", "N39", "RESTART_ADMIN"].iter().map(|s| s.to_string()).collect();
    for run in 0..runs {
        let mut w = World::new("A00", 0, 0);
        sink.emit(w.event("init", "", "", (true, String::new(), false), 0, &wa, &wr));
        // every run has a different character: small universes collide often, large ones hit the capacities
        let (nn, na) = match run % 4 {
            0 => (6usize, 6usize),
            1 => (41, 70),
            2 => (41, 8),
            _ => (8, 70),
        };
        let watched_bias = |rng: &mut Rng, all: &[String], w: &[String], lim: usize| -> String {
            if rng.chance(1, 3) {
                w[rng.below(w.len() as u64) as usize].clone()
            } else {
                all[rng.below(lim.min(all.len()) as u64) as usize].clone()
            }
        };
        // the large-universe runs start by walking up to both capacity limits: enable every name, then
        // grant one role to every address, each in a shuffled order; afterwards random churn
        let mut script: Vec<(&str, String, String)> = Vec::new();
        #[allow(unused_assignments)]
        let mut granted_role = names[0].clone();
        if nn > 32 {
            let mut order: Vec<usize> = (0..names.len()).collect();
            for i in (1..order.len()).rev() {
                order.swap(i, rng.below(i as u64 + 1) as usize);
            }
            granted_role = names[order[0]].clone();
            for i in order {
                script.push(("enable", String::new(), names[i].clone()));
            }
        }
        if na > 64 {
            let mut order: Vec<usize> = (0..addrs.len()).collect();
            for i in (1..order.len()).rev() {
                order.swap(i, rng.below(i as u64 + 1) as usize);
            }
            if nn <= 32 {
                script.push(("enable", String::new(), names[0].clone()));
            }
            for i in order {
                script.push(("grant", addrs[i].clone(), granted_role.clone()));
            }
        }
        script.reverse();
        for d in 1..=len as usize {
            let phase_fill = d < (len as usize) / 2; // first half: fill up; second half: churn
            let k = rng.below(100);
            let (op, a, r) = if let Some(x) = script.pop() {
                x
            } else if k < if phase_fill { 22 } else { 10 } {
                ("enable", String::new(), watched_bias(&mut rng, &names, &wr, nn))
            } else if k < if phase_fill { 26 } else { 22 } {
                ("disable", String::new(), watched_bias(&mut rng, &names, &wr, nn))
            } else if k < if phase_fill { 80 } else { 55 } {
                ("grant", watched_bias(&mut rng, &addrs, &wa, na), watched_bias(&mut rng, &names, &wr, nn))
            } else if k < 94 {
                ("revoke", watched_bias(&mut rng, &addrs, &wa, na), watched_bias(&mut rng, &names, &wr, nn))
            } else if k < 97 {
                ("restart", String::new(), String::new())
            } else {
                ("update", String::new(), String::new())
            };
            let res = w.apply(op, &a, &r);
            sink.emit(w.event(op, &a, &r, res, d, &wa, &wr));
        }
    }
    println!("events {}", sink.finish());
    0
}

fn main() {
    quiet_panics();
    stubs::install();
    let (mode, args) = Args::from_env();
    let code = match mode.as_str() {
        "replay" => replay(&args),
        "random" => random(&args),
        _ => 2,
    };
    std::process::exit(code);
}
