//! C31: order fee discount, program side (programs/store/src/states/store.rs
//! `Store::order_fee_discount_factor`, states/gt.rs `GtState::set_order_fee_discount_factors`).
//! A real zeroed `Store` with a real `GtState` (init + setter through cfg-guarded hooks); the referral
//! discount is written through the public `Store::get_factor_mut`.
//!   small --out-set F --out-query F --stores S     whole-percent factors (logged in units of 10^16, Unit = 10^4)
//!   wide  --seed S --n N --out F --stores S        arbitrary / boundary u128 factors (decimal strings)
//! `--stores` receives the raw bytes of every Store used (size_of::<Store>() each); the SDK side
//! (h-sdk c31s) evaluates its own copy of the formula on the same bytes.
use gmsol_store::states::gt::verif as gt_hook;
use gmsol_store::states::gt::GtState;
use gmsol_store::states::Store;
use h_programs::eutil::{err_name, zbox};
use h_programs::stubs;
use h_programs::util::{guarded, Args, Rng, Sink};
use serde_json::json;
use std::io::Write;

const U: u128 = 100_000_000_000_000_000_000;
const E16: u128 = 10_000_000_000_000_000;

fn gt_of(store: &mut Store) -> &mut GtState {
    let off = (store.gt() as *const GtState as usize) - (store as *const Store as usize);
    let bytes = bytemuck::bytes_of_mut(store);
    bytemuck::from_bytes_mut(&mut bytes[off..off + std::mem::size_of::<GtState>()])
}

/// A store whose GT state has `max_rank` ranks; returns None when the setter rejects the table.
fn make_store(max_rank: usize, factors: &[u128], b: u128) -> (Box<Store>, bool, String) {
    let mut s: Box<Store> = zbox();
    let ranks: Vec<u64> = (1..=max_rank as u64).map(|i| i * 10).collect();
    gt_hook::init(gt_of(&mut s), 0, 1, U, 1, &ranks).expect("gt init");
    let r = gt_hook::set_order_fee_discount_factors(gt_of(&mut s), factors);
    *s.get_factor_mut("order_fee_discount_for_referred_user").expect("factor key") = b;
    match r {
        Ok(()) => (s, true, String::new()),
        Err(e) => (s, false, err_name(&e)),
    }
}

struct Stores {
    f: std::io::BufWriter<std::fs::File>,
    n: usize,
}
impl Stores {
    fn push(&mut self, s: &Store) -> usize {
        self.f.write_all(bytemuck::bytes_of(s)).unwrap();
        self.n += 1;
        self.n - 1
    }
}

fn query(s: &Store, rank: u8, referred: bool) -> (bool, u128, String, bool) {
    match guarded(|| s.order_fee_discount_factor(rank, referred)) {
        Err(()) => (false, 0, "panic".into(), true),
        Ok(Ok(v)) => (true, v, String::new(), false),
        Ok(Err(e)) => (false, 0, err_name(&e), false),
    }
}

fn small(args: &Args) -> i32 {
    let mut sets = Sink::create(&args.str("out-set", "c31-set.ndjson"));
    let mut qs = Sink::create(&args.str("out-query", "c31-query.ndjson"));
    let mut stores = Stores { f: std::io::BufWriter::new(std::fs::File::create(args.str("stores", "c31-stores.bin")).unwrap()), n: 0 };
    let full = args.num("full", 0) != 0;
    let pct: Vec<u128> = if full { vec![0, 1, 10, 33, 50, 67, 99, 100] } else { vec![0, 1, 10, 33, 50, 99, 100] };
    let bs: Vec<u128> = vec![0, 1, 10, 25, 50, 99, 100, 101];
    // --- setter: caps at 100 %, length must be max_rank + 1
    for max_rank in 0..=2usize {
        for len in 0..=4usize {
            for top in [0u128, 50, 100, 101, 250] {
                for pos in 0..len.max(1) {
                    let mut f: Vec<u128> = (0..len).map(|i| (i as u128 * 7) % 100).collect();
                    if len > 0 {
                        f[pos] = top;
                    }
                    let fr: Vec<u128> = f.iter().map(|x| x * 100 * E16).collect();
                    let (_, ok, err) = make_store(max_rank, &fr, 0);
                    sets.emit(json!({"op": "set", "max_rank": max_rank, "factors": f.iter().map(|x| (x * 100) as u64).collect::<Vec<_>>(),
                        "ok": ok, "err": err}));
                }
            }
        }
    }
    // --- queries over every accepted table
    let mut skipped = 0usize;
    let mut tables: Vec<Vec<u128>> = vec![];
    for a in &pct {
        tables.push(vec![*a]);
        for b in &pct {
            tables.push(vec![*a, *b]);
            for c in &pct {
                tables.push(vec![*a, *b, *c]);
            }
        }
    }
    for t in &tables {
        let m = t.len() - 1;
        let fr: Vec<u128> = t.iter().map(|x| x * 100 * E16).collect();
        for b in &bs {
            let (s, ok, err) = make_store(m, &fr, b * 100 * E16);
            if !ok {
                // the setter's verdict is data (logged as a set event); no queries on a table it refused
                sets.emit(json!({"op": "set", "max_rank": m, "factors": t.iter().map(|x| (x * 100) as u64).collect::<Vec<_>>(),
                    "ok": ok, "err": err}));
                continue;
            }
            let cfg = stores.push(&s);
            for rank in 0..=(m as u8 + 1) {
                let (uok, uv, _, _) = query(&s, rank, false);
                for referred in [false, true] {
                    let (ok, v, err, panic) = query(&s, rank, referred);
                    // whole-percent inputs: the result is a whole multiple of 10^16
                    if v % E16 != 0 || uv % E16 != 0 {
                        // not representable in the small tier (units of 10^16): left to the wide tier
                        skipped += 1;
                        continue;
                    }
                    qs.emit(json!({"op": "query", "cfg": cfg, "factors": t.iter().map(|x| (x * 100) as u64).collect::<Vec<_>>(),
                        "b": (b * 100) as u64, "rank": rank, "referred": referred, "ok": ok, "err": err, "v": (v / E16) as u64,
                        "uok": uok, "uv": (uv / E16) as u64, "v_s": v.to_string(), "panic": panic}));
                }
            }
        }
    }
    stores.f.flush().unwrap();
    eprintln!("c31 small: {} set events, {} query events, {} stores, {} results outside the 10^16 grid skipped", sets.finish(),
        qs.finish(), stores.n, skipped);
    0
}

fn pick_factor(rng: &mut Rng, allow_over: bool) -> u128 {
    match rng.below(if allow_over { 12 } else { 9 }) {
        0 => 0,
        1 => 1,
        2 => U - 1,
        3 => U,
        4 => U / 2,
        5 => U / 3,
        6 => rng.next128() % (U + 1),
        7 => (rng.next() % 10_000) as u128 * E16,
        8 => U - (rng.next() % 1000) as u128,
        9 => U + 1,
        10 => 2 * U,
        _ => u128::MAX - (rng.next() % 3) as u128,
    }
}

fn wide(args: &Args) -> i32 {
    let mut rng = Rng::new(args.num("seed", 1));
    let n = args.num("n", 200);
    let mut out = Sink::create(&args.str("out", "c31-wide.ndjson"));
    let mut stores = Stores { f: std::io::BufWriter::new(std::fs::File::create(args.str("stores", "c31-wstores.bin")).unwrap()), n: 0 };
    let mut k = 0;
    while k < n {
        let m = *rng.pick(&[0usize, 1, 3, 7, 15]);
        let f: Vec<u128> = (0..=m).map(|_| pick_factor(&mut rng, false)).collect();
        let b = pick_factor(&mut rng, true);
        let (s, ok, _) = make_store(m, &f, b);
        if !ok {
            continue; // table refused by the setter: nothing to query
        }
        let cfg = stores.push(&s);
        for _ in 0..4 {
            let rank = if rng.chance(1, 10) { m as u8 + 1 + rng.below(3) as u8 } else { rng.below(m as u64 + 1) as u8 };
            let referred = rng.chance(2, 3);
            let (uok, uv, _, _) = query(&s, rank, false);
            let (ok, v, err, panic) = query(&s, rank, referred);
            let a = f.get(rank as usize).copied().unwrap_or(0);
            out.emit(json!({"op": "wide", "cfg": cfg, "max_rank": m, "rank": rank, "a": a.to_string(), "b": b.to_string(), "referred": referred,
                "ok": ok, "err": err, "v": v.to_string(), "uok": uok, "uv": uv.to_string(), "panic": panic}));
            k += 1;
        }
    }
    stores.f.flush().unwrap();
    eprintln!("c31 wide: {} events, {} stores", out.finish(), stores.n);
    0
}

fn main() {
    h_programs::util::quiet_panics();
    stubs::install();
    h_programs::eutil::silence_stdout();
    stubs::set_clock(1000, 10);
    let (mode, args) = Args::from_env();
    let rc = match mode.as_str() {
        "small" => small(&args),
        "wide" => wide(&args),
        _ => {
            eprintln!("unknown mode {mode}");
            2
        }
    };
    std::process::exit(rc);
}
