//! C24 / C29: oracle price validation and price adjustment of the store program
//! (states/oracle/{mod,validator,price_map,feed}.rs), driven in memory through cfg-guarded hooks
//! with a stubbed clock.
//!   <small|random> --kind batch   PriceValidator::try_from(&Store); validate_one; SmallPrices::from_price; finish
//!   <small|random> --kind adjust  try_adjust_price (-> try_adjust_price_with_max_deviation_factor);
//!                                 validate_one; from_price                                   (C29)
//!   <small|random> --kind with    Oracle::with_prices_opts end to end on in-memory accounts
//!                                 (Store, TokenMap, custom PriceFeed accounts); inside the wrapped operation the
//!                                 loaded set is judged by Oracle::validate_time (states/oracle/time.rs) against a
//!                                 harness-owned ValidateOracleTime target and by the real MaxAgeValidator
//! options: --seed S --n N --out F
//! Deviation factors are k percent: FeedConfig ratio = k * 10^6, factor = k * 10^18 (unit 10^20).
use anchor_lang::prelude::*;
use gmsol_store::states::oracle::price_map::verif as pm_hook;
use gmsol_store::states::oracle::validator::verif as v_hook;
use gmsol_store::states::oracle::verif as o_hook;
use gmsol_store::states::oracle::verif::feed as f_hook;
use gmsol_store::states::{
    Oracle, PriceFeed, PriceFeedPrice, PriceProviderKind, PriceValidator, Store, TokenMapAccessMut, TokenMapHeader,
    TokenMapLoader,
};
use gmsol_store::CoreError;
use gmsol_utils::price::{Decimal, Price, PriceFlag};
use gmsol_utils::token_config::{FeedConfig, TokenConfig, TokenConfigFlag};
use h_programs::eutil::{err_name, key, zbox, MemAccount};
use h_programs::stubs;
use h_programs::util::{guarded, Args, Rng, Sink};
use serde_json::{json, Value};

const PCT: u128 = 1_000_000_000_000_000_000; // 1 % of 10^20
const NOW: i64 = 6;

#[derive(Clone, Copy, Debug)]
struct Vs {
    now: i64,
    age: u64,
    range: u64,
    excess: u64,
}
#[derive(Clone, Copy, Debug)]
struct P {
    minv: u32,
    minm: u8,
    maxv: u32,
    maxm: u8,
}
#[derive(Clone, Copy, Debug)]
struct Ref {
    some: bool,
    v: u32,
    m: u8,
}
#[derive(Clone, Copy, Debug)]
struct Tok {
    feed: bool,
    adj: u32,
    dev: u32,
    ots: i64,
    slot: u64,
    p: P,
    r: Ref,
}

fn price_of(p: &P) -> Price {
    Price { min: Decimal { value: p.minv, decimal_multiplier: p.minm }, max: Decimal { value: p.maxv, decimal_multiplier: p.maxm } }
}
fn p_of(p: &Price) -> P {
    P { minv: p.min.value, minm: p.min.decimal_multiplier, maxv: p.max.value, maxm: p.max.decimal_multiplier }
}
fn ref_of(r: &Ref) -> Option<Decimal> {
    r.some.then_some(Decimal { value: r.v, decimal_multiplier: r.m })
}
fn vs_json(v: &Vs) -> Value {
    json!({"now": v.now, "age": v.age, "range": v.range, "excess": v.excess})
}
fn p_json(p: &P) -> Value {
    json!({"minv": p.minv, "minm": p.minm, "maxv": p.maxv, "maxm": p.maxm})
}
fn ref_json(r: &Ref) -> Value {
    json!({"some": r.some, "v": r.v, "m": r.m})
}
fn tok_json(t: &Tok) -> Value {
    json!({"cfg": {"feed": t.feed, "adj": t.adj, "dev": t.dev}, "ots": t.ots, "slot": t.slot, "p": p_json(&t.p), "ref": ref_json(&t.r)})
}

const PROVIDER: PriceProviderKind = PriceProviderKind::ChainlinkDataStreams;

/// Token config with one feed config for `PROVIDER` (or none).
fn token_config(feed: Option<Pubkey>, adj: u32, dev: u32) -> TokenConfig {
    let mut tc: TokenConfig = bytemuck::Zeroable::zeroed();
    tc.set_flag(TokenConfigFlag::Initialized, true);
    tc.set_enabled(true);
    tc.set_expected_provider(PROVIDER);
    tc.heartbeat_duration = 30;
    tc.token_decimals = 10;
    tc.precision = 10;
    if let Some(feed) = feed {
        let fc = FeedConfig::new(feed)
            .with_timestamp_adjustment(adj)
            .with_max_deviation_factor(if dev == 0 { None } else { Some(dev as u128 * PCT) })
            .expect("feed config");
        tc.set_feed_config(&PROVIDER, fc).expect("set feed config");
    }
    tc
}

/// A Store whose oracle amounts are set through the public config accessors.
fn store_with(vs: &Vs) -> Box<Store> {
    let mut s: Box<Store> = zbox();
    set_store(&mut s, vs);
    s
}
fn set_store(s: &mut Store, vs: &Vs) {
    *s.get_amount_mut("oracle_max_age").expect("key") = vs.age;
    *s.get_amount_mut("oracle_max_timestamp_range").expect("key") = vs.range;
    *s.get_amount_mut("oracle_max_future_timestamp_excess").expect("key") = vs.excess;
}

fn rs_json(v: &PriceValidator) -> Value {
    let (lo, hi, slot) = v_hook::state(v);
    let has = !(lo == i64::MAX && hi == i64::MIN);
    json!({"has": has, "lo": if has { lo } else { 0 }, "hi": if has { hi } else { 0 }, "slot": slot.map(|s| s as i64).unwrap_or(-1)})
}

// ------------------------------------------------------------------------------------------
// batch
fn batch(sink: &mut Sink, vs: &Vs, toks: &[Tok]) {
    stubs::set_clock(vs.now, 100);
    let store = store_with(vs);
    let out = guarded(|| {
        let mut n = 0usize;
        let mut err = String::new();
        let mut v = match PriceValidator::try_from(&*store) {
            Ok(v) => v,
            Err(e) => return (0, err_name(&e), false, json!({"has": false, "lo": 0, "hi": 0, "slot": -1})),
        };
        for t in toks {
            let tc = token_config(t.feed.then(|| key(20, 1)), t.adj, t.dev);
            let price = price_of(&t.p);
            let r = ref_of(&t.r);
            if let Err(e) = v_hook::validate_one(&mut v, &tc, &PROVIDER, t.ots, t.slot, &price, r.as_ref()) {
                err = err_name(&e);
                break;
            }
            if let Err(e) = pm_hook::small_prices_from_price(&price, false, true) {
                err = err_name(&e);
                break;
            }
            n += 1;
        }
        let rs = rs_json(&v);
        let mut fin = false;
        if err.is_empty() {
            match v_hook::finish(v) {
                Ok(_) => fin = true,
                Err(e) => err = err_name(&e),
            }
        }
        (n, err, fin, rs)
    });
    let (n, err, fin, rs, panic) = match out {
        Ok((n, err, fin, rs)) => (n, err, fin, rs, false),
        Err(()) => (0, "panic".into(), false, json!({"has": false, "lo": 0, "hi": 0, "slot": -1}), true),
    };
    sink.emit(json!({"op": "batch", "vs": vs_json(vs), "toks": toks.iter().map(tok_json).collect::<Vec<_>>(),
        "n": n, "err": err, "fin": fin, "rs": rs, "panic": panic}));
}

fn good_p() -> P {
    P { minv: 2, minm: 0, maxv: 3, maxm: 0 }
}
fn no_ref() -> Ref {
    Ref { some: false, v: 0, m: 0 }
}

fn price_domain() -> (Vec<P>, Vec<Ref>) {
    let mut ps = vec![];
    for minv in 0..=5u32 {
        for maxv in 0..=5u32 {
            for minm in 0..=1u8 {
                for maxm in 0..=1u8 {
                    ps.push(P { minv, minm, maxv, maxm });
                }
            }
        }
    }
    let mut rs = vec![no_ref()];
    for v in 1..=5u32 {
        for m in 0..=1u8 {
            rs.push(Ref { some: true, v, m });
        }
    }
    (ps, rs)
}

fn batch_small(sink: &mut Sink) {
    // time family (the domain of MC_OracleValidate "time")
    for age in 0..=3u64 {
        for range in 0..=3u64 {
            for excess in 0..=2u64 {
                let vs = Vs { now: NOW, age, range, excess };
                for a1 in 0..=2u32 {
                    for o1 in (NOW - 5)..=(NOW + 3) {
                        let t1 = Tok { feed: true, adj: a1, dev: 0, ots: o1, slot: 5, p: good_p(), r: no_ref() };
                        batch(sink, &vs, &[t1]);
                        if age % 2 == 1 && excess != 1 {
                            for a2 in 0..=2u32 {
                                for o2 in (NOW - 5)..=(NOW + 3) {
                                    let t2 = Tok { feed: true, adj: a2, dev: 0, ots: o2, slot: 4, p: good_p(), r: no_ref() };
                                    batch(sink, &vs, &[t1, t2]);
                                }
                            }
                        }
                    }
                }
            }
        }
    }
    // price family
    let (ps, rs) = price_domain();
    let vs = Vs { now: NOW, age: 0, range: 0, excess: 0 };
    for p in &ps {
        for r in &rs {
            for dev in [0u32, 10, 50, 100] {
                let t = Tok { feed: true, adj: 0, dev, ots: NOW, slot: 1, p: *p, r: *r };
                batch(sink, &vs, &[t]);
            }
        }
    }
    // missing feed config, empty batch
    batch(sink, &vs, &[Tok { feed: false, adj: 0, dev: 0, ots: NOW, slot: 1, p: good_p(), r: no_ref() }]);
    batch(sink, &vs, &[]);
}

fn rand_price(rng: &mut Rng, around: u32) -> (P, Ref) {
    let m = rng.below(3) as u8;
    let maxm = if rng.chance(1, 8) { rng.below(3) as u8 } else { m };
    let lo = (around as i64 + rng.range(-6, 3)).max(0) as u32;
    let hi = if rng.chance(1, 10) { (lo as i64 + rng.range(-4, 0)).max(0) as u32 } else { lo + rng.below(8) as u32 };
    let r = if rng.chance(1, 3) {
        no_ref()
    } else {
        Ref { some: true, v: (around as i64 + rng.range(-2, 2)).max(0) as u32, m: if rng.chance(1, 8) { rng.below(3) as u8 } else { m } }
    };
    (P { minv: lo, minm: m, maxv: hi, maxm }, r)
}

fn batch_random(sink: &mut Sink, rng: &mut Rng, n: u64) {
    for _ in 0..n {
        let now = rng.range(1000, 2000);
        let vs = Vs { now, age: rng.below(6), range: rng.below(5), excess: rng.below(4) };
        let k = 1 + rng.below(3) as usize;
        let base = now + rng.range(-3, 1);
        let around = 20 + rng.below(400) as u32;
        let toks: Vec<Tok> = (0..k)
            .map(|i| {
                let (p, r) = rand_price(rng, around);
                Tok {
                    feed: !rng.chance(1, 40),
                    adj: rng.below(3) as u32,
                    dev: *rng.pick(&[0u32, 1, 2, 5, 10, 25]),
                    ots: base + rng.range(-3, 4),
                    slot: 50 + rng.below(10) + i as u64,
                    p,
                    r,
                }
            })
            .collect();
        batch(sink, &vs, &toks);
    }
}

// ------------------------------------------------------------------------------------------
// adjust (C29)
fn adjust(sink: &mut Sink, k: u32, p: &P, r: &Ref) {
    stubs::set_clock(0, 100);
    // harness set-up (gmsol-utils config types, not code under test)
    let fc = FeedConfig::new(key(20, 1)).with_max_deviation_factor(Some(k as u128 * PCT)).expect("fc");
    let tc = token_config(Some(key(20, 1)), 0, k);
    let store = store_with(&Vs { now: 0, age: 0, range: 0, excess: 0 });
    // every result of code under test is data: (res, err, some, q, vok, sok, dsome, dq)
    let out = guarded(|| {
        // the inner function directly
        let direct = o_hook::try_adjust_price_with_max_deviation_factor(&(k as u128 * PCT), &price_of(p), ref_of(r).as_ref());
        let (dsome, dq) = (direct.is_some(), direct.map(|q| p_of(&q)).unwrap_or(*p));
        match o_hook::try_adjust_price(&fc, price_of(p), ref_of(r)) {
            // a returned error = the price is rejected: nothing is handed on, nothing is judged afterwards
            Err(e) => ("err".to_string(), err_name(&e), false, *p, false, false, dsome, dq),
            Ok((some, q)) => {
                // what happens to the resulting price next: validate_one with the same factor, then PriceMap::set
                let vok = match PriceValidator::try_from(&*store) {
                    Ok(mut v) => v_hook::validate_one(&mut v, &tc, &PROVIDER, 0, 0, &q, ref_of(r).as_ref()).is_ok(),
                    Err(_) => false,
                };
                let sok = pm_hook::small_prices_from_price(&q, false, true).is_ok();
                ("ok".to_string(), String::new(), some, p_of(&q), vok, sok, dsome, dq)
            }
        }
    });
    let (res, err, some, q, vok, sok, dsome, dq, panic) = match out {
        Ok((res, err, s, q, v, o, ds, dq)) => (res, err, s, q, v, o, ds, dq, false),
        Err(()) => ("err".to_string(), "panic".to_string(), false, *p, false, false, false, *p, true),
    };
    sink.emit(json!({"op": "adjust", "k": k, "p": p_json(p), "ref": ref_json(r), "res": res, "err": err, "some": some,
        "q": p_json(&q), "vok": vok, "sok": sok, "dsome": dsome, "dq": p_json(&dq), "panic": panic}));
}

fn adjust_small(sink: &mut Sink) {
    let (ps, rs) = price_domain();
    for p in &ps {
        for r in &rs {
            for k in [10u32, 50, 100] {
                adjust(sink, k, p, r);
            }
        }
    }
    // min/max/ref over 1..12, multiplier 1 and 0, factors 10/50/100 % (DESIGN C29)
    for m in 0..=1u8 {
        for minv in 1..=12u32 {
            for maxv in 1..=12u32 {
                for rv in 1..=12u32 {
                    for k in [10u32, 50, 100] {
                        adjust(sink, k, &P { minv, minm: m, maxv, maxm: m }, &Ref { some: true, v: rv, m });
                    }
                }
            }
        }
    }
}

fn adjust_random(sink: &mut Sink, rng: &mut Rng, n: u64) {
    for _ in 0..n {
        let around = 5 + rng.below(2000) as u32;
        let (p, r) = rand_price(rng, around);
        let k = *rng.pick(&[1u32, 2, 3, 5, 10, 20, 33, 50, 100, 150]);
        adjust(sink, k, &p, &r);
    }
}

// ------------------------------------------------------------------------------------------
// with_prices end to end
#[derive(Clone, Copy, Debug)]
struct Tc {
    expected: u8,
    feed_id_of: i64,
    heartbeat: u32,
    adj: u32,
    dev: u32,
    adjust: bool,
    mult: u8,
    enabled: bool,
}
#[derive(Clone, Copy, Debug)]
struct Fd {
    provider: u8,
    feed_id: i64,
    ts: i64,
    slot: u64,
    open: bool,
    price: u32,
    min: u32,
    max: u32,
}
#[derive(Clone, Copy, Debug)]
struct Item {
    known: bool,
    tc: Tc,
    fd: Fd,
}

/// An operation's oracle time requirements (the harness's own implementor of the public trait).
#[derive(Clone, Copy, Debug, Default)]
struct Target {
    after: Option<i64>,
    before: Option<i64>,
    after_slot: Option<u64>,
}
impl gmsol_store::states::ValidateOracleTime for Target {
    fn oracle_updated_after(&self) -> gmsol_store::CoreResult<Option<i64>> {
        Ok(self.after)
    }
    fn oracle_updated_before(&self) -> gmsol_store::CoreResult<Option<i64>> {
        Ok(self.before)
    }
    fn oracle_updated_after_slot(&self) -> gmsol_store::CoreResult<Option<u64>> {
        Ok(self.after_slot)
    }
}
fn bound_json(x: Option<i64>) -> Value {
    json!({"some": x.is_some(), "v": x.unwrap_or(0)})
}
fn core_name(r: gmsol_store::CoreResult<()>) -> String {
    match r {
        Ok(()) => String::new(),
        Err(e) => e.name(),
    }
}

struct World {
    store: &'static AccountInfo<'static>,
    token_map: &'static AccountInfo<'static>,
    feeds: &'static [AccountInfo<'static>],
}

const MAX_ITEMS: usize = 3;

fn leak_info(a: MemAccount) -> AccountInfo<'static> {
    let a: &'static mut MemAccount = Box::leak(Box::new(a));
    a.info()
}

fn world() -> World {
    let pid = gmsol_store::ID;
    let store = leak_info(MemAccount::zero_copy::<Store>(key(1, 0), pid, 0));
    let token_map = leak_info(MemAccount::zero_copy::<TokenMapHeader>(key(5, 0), pid, MAX_ITEMS * std::mem::size_of::<TokenConfig>()));
    let feeds: Vec<AccountInfo<'static>> =
        (0..MAX_ITEMS).map(|i| leak_info(MemAccount::zero_copy::<PriceFeed>(key(6, i as u8), pid, 0))).collect();
    World { store: Box::leak(Box::new(store)), token_map: Box::leak(Box::new(token_map)), feeds: Box::leak(feeds.into_boxed_slice()) }
}

fn provider_of(x: u8) -> PriceProviderKind {
    PriceProviderKind::try_from(x).expect("provider index")
}

fn item_json(it: &Item) -> Value {
    json!({"known": it.known,
        "tc": {"expected": it.tc.expected, "feedIdOf": it.tc.feed_id_of, "heartbeat": it.tc.heartbeat, "adj": it.tc.adj,
               "dev": it.tc.dev, "adjust": it.tc.adjust, "mult": it.tc.mult, "enabled": it.tc.enabled},
        "fd": {"provider": it.fd.provider, "feedId": it.fd.feed_id, "ts": it.fd.ts, "slot": it.fd.slot, "open": it.fd.open,
               "price": it.fd.price, "min": it.fd.min, "max": it.fd.max}})
}

#[allow(clippy::too_many_arguments)]
fn with_prices(sink: &mut Sink, w: &World, oracle: &mut Oracle, vs: &Vs, items: &[Item], allow_closed: bool, f_ok: bool, dirty: bool,
               tgt: &Target, max_age: u32) {
    assert!(items.len() <= MAX_ITEMS);
    stubs::set_clock(vs.now, 100);
    // ---- load the world
    {
        let mut d = w.store.try_borrow_mut_data().unwrap();
        let s: &mut Store = bytemuck::from_bytes_mut(&mut d[8..8 + std::mem::size_of::<Store>()]);
        set_store(s, vs);
    }
    {
        let mut d = w.token_map.try_borrow_mut_data().unwrap();
        d[8..].fill(0);
    }
    let tokens: Vec<Pubkey> = (0..items.len()).map(|i| key(10, i as u8)).collect();
    {
        let loader = AccountLoader::<TokenMapHeader>::try_from(w.token_map).expect("token map loader");
        let mut map = loader.load_token_map_mut().expect("token map");
        for (i, it) in items.iter().enumerate() {
            if !it.known {
                continue;
            }
            let mut tc: TokenConfig = bytemuck::Zeroable::zeroed();
            tc.set_flag(TokenConfigFlag::Initialized, true);
            tc.set_enabled(it.tc.enabled);
            tc.set_flag(TokenConfigFlag::AllowPriceAdjustment, it.tc.adjust);
            tc.set_expected_provider(provider_of(it.tc.expected));
            tc.heartbeat_duration = it.tc.heartbeat;
            // decimal multiplier = 20 - token_decimals - precision
            tc.token_decimals = 10 - it.tc.mult;
            tc.precision = 10;
            if it.tc.feed_id_of >= 0 {
                let fc = FeedConfig::new(key(20, it.tc.feed_id_of as u8))
                    .with_timestamp_adjustment(it.tc.adj)
                    .with_max_deviation_factor(if it.tc.dev == 0 { None } else { Some(it.tc.dev as u128 * PCT) })
                    .expect("fc");
                tc.set_feed_config(&provider_of(it.fd.provider), fc).expect("set fc");
            }
            map.push_with(&tokens[i], |dst| { *dst = tc; Ok(()) }, true).expect("push token config");
        }
    }
    for (i, it) in items.iter().enumerate() {
        let mut d = w.feeds[i].try_borrow_mut_data().unwrap();
        let f: &mut PriceFeed = bytemuck::from_bytes_mut(&mut d[8..8 + std::mem::size_of::<PriceFeed>()]);
        *f = bytemuck::Zeroable::zeroed();
        f_hook::init(f, 255, i as u16, provider_of(it.fd.provider), w.store.key, &key(2, 0), &tokens[i], &key(20, it.fd.feed_id as u8))
            .expect("feed init");
        // feed decimals 10: Decimal value = integer price, multiplier = tc.mult
        let mut p = PriceFeedPrice::new(10, it.fd.ts, it.fd.price as u128, it.fd.min as u128, it.fd.max as u128, 0);
        p.set_flag(PriceFlag::Open, it.fd.open);
        f_hook::set_state(f, it.fd.slot, it.fd.ts, &p);
    }
    o_hook::oracle_clear_all_prices(oracle);
    if dirty {
        o_hook::oracle_primary_set(oracle, &key(11, 0), price_of(&good_p()), false, true).expect("dirty");
    }
    let pre = json!({"cleared": oracle.is_cleared(), "n": o_hook::oracle_primary_len(oracle)});
    // ---- the call
    let feeds: &'static [AccountInfo<'static>] = &w.feeds[..items.len()];
    let mut seen: Vec<Value> = vec![];
    let mut srs = json!({"has": false, "lo": 0, "hi": 0, "slot": -1});
    let mut called = false;
    let mut vt = "-".to_string();
    let mut vma = "-".to_string();
    let out = guarded(|| {
        let store_loader = AccountLoader::<Store>::try_from(w.store).expect("store loader");
        let map_loader = AccountLoader::<TokenMapHeader>::try_from(w.token_map).expect("map loader");
        o_hook::oracle_with_prices_opts(
            oracle,
            &store_loader,
            &map_loader,
            &tokens,
            feeds,
            |o: &mut Oracle, _rest| {
                called = true;
                for t in &tokens {
                    match o_hook::oracle_get_primary_price_with_options(o, t, true, true) {
                        Ok(p) => seen.push(json!({"min": p.min as u64, "max": p.max as u64})),
                        Err(_) => {}
                    }
                }
                srs = json!({"has": !o.is_cleared(), "lo": if o.is_cleared() { 0 } else { o.min_oracle_ts() },
                    "hi": if o.is_cleared() { 0 } else { o.max_oracle_ts() },
                    "slot": o.min_oracle_slot().map(|s| s as i64).unwrap_or(-1)});
                // what an executing operation does with the loaded set: Oracle::validate_time against its own
                // requirements (time.rs validators), and the real MaxAgeValidator
                vt = core_name(o_hook::oracle_validate_time(o, tgt));
                vma = core_name(o_hook::oracle_validate_max_age(o, max_age));
                if f_ok { Ok(()) } else { Err(error!(CoreError::InvalidArgument)) }
            },
            allow_closed,
        )
    });
    let (res, err, panic) = match &out {
        Err(()) => ("err".to_string(), "panic".to_string(), true),
        Ok(Ok(())) => ("ok".to_string(), String::new(), false),
        Ok(Err(e)) => ("err".to_string(), err_name(e), false),
    };
    let post = json!({"cleared": oracle.is_cleared(), "n": o_hook::oracle_primary_len(oracle)});
    sink.emit(json!({"op": "with_prices", "vs": vs_json(vs), "allow_closed": allow_closed, "f_ok": f_ok, "pre": pre,
        "items": items.iter().map(item_json).collect::<Vec<_>>(), "res": res, "err": err, "called": called,
        "seen": seen, "srs": srs, "post": post, "panic": panic,
        "tgt": {"after": bound_json(tgt.after), "before": bound_json(tgt.before), "slot": bound_json(tgt.after_slot.map(|x| x as i64))},
        "max_age": max_age, "vt": vt, "vma": vma}));
}

fn good_item(now: i64) -> Item {
    Item {
        known: true,
        tc: Tc { expected: 0, feed_id_of: 7, heartbeat: 3, adj: 0, dev: 0, adjust: false, mult: 0, enabled: true },
        fd: Fd { provider: 0, feed_id: 7, ts: now, slot: 6, open: true, price: 3, min: 3, max: 3 },
    }
}

fn with_small_item(rng: &mut Rng, now: i64) -> Item {
    Item {
        known: true,
        tc: Tc {
            expected: *rng.pick(&[0u8, 0, 0, 1]),
            feed_id_of: *rng.pick(&[7i64, 7, 7, 8, -1]),
            heartbeat: *rng.pick(&[1u32, 3]),
            adj: rng.below(2) as u32,
            dev: *rng.pick(&[0u32, 10, 50]),
            adjust: rng.chance(1, 2),
            mult: rng.below(2) as u8,
            enabled: true,
        },
        fd: Fd {
            provider: 0,
            feed_id: 7,
            ts: *rng.pick(&[now - 3, now - 1, now + 1]),
            slot: 4,
            open: rng.chance(3, 4),
            price: *rng.pick(&[2u32, 4]),
            min: *rng.pick(&[1u32, 2, 4, 5]),
            max: *rng.pick(&[2u32, 4, 5]),
        },
    }
}

fn with_wide_item(rng: &mut Rng, now: i64, i: u64) -> Item {
    let price = 20 + rng.below(500) as u32;
    let lo = (price as i64 + rng.range(-12, 2)).max(0) as u32;
    let hi = if rng.chance(1, 12) { lo.saturating_sub(rng.below(3) as u32) } else { (price as i64 + rng.range(-2, 12)).max(0) as u32 };
    Item {
        known: !rng.chance(1, 30),
        tc: Tc {
            expected: if rng.chance(1, 25) { 1 } else { 0 },
            feed_id_of: if rng.chance(1, 25) { *rng.pick(&[8i64, -1]) } else { 7 },
            heartbeat: 1 + rng.below(5) as u32,
            adj: rng.below(3) as u32,
            dev: *rng.pick(&[0u32, 1, 2, 5, 10]),
            adjust: rng.chance(1, 2),
            mult: rng.below(3) as u8,
            enabled: !rng.chance(1, 30),
        },
        fd: Fd { provider: 0, feed_id: 7, ts: now + rng.range(-5, 2), slot: 40 + rng.below(9) + i, open: !rng.chance(1, 6), price, min: lo, max: hi },
    }
}

/// Bounds around the feeds' own adjusted timestamps / slots, so that they are straddled.
fn rand_target(rng: &mut Rng, items: &[Item], now: i64) -> Target {
    let it = items[rng.below(items.len() as u64) as usize];
    let base = if rng.chance(3, 4) { it.fd.ts - it.tc.adj as i64 } else { now };
    Target {
        after: rng.chance(2, 3).then(|| base + rng.range(-1, 1)),
        before: rng.chance(1, 3).then(|| base + rng.range(-1, 2)),
        after_slot: rng.chance(1, 3).then(|| (it.fd.slot as i64 + rng.range(-1, 1)).max(0) as u64),
    }
}

/// The bounded model's "tv" family: a good feed at `now` plus a second one around it, every bound.
fn with_tv(sink: &mut Sink) {
    let w = world();
    let mut oracle: Box<Oracle> = zbox();
    o_hook::oracle_init(&mut oracle, *w.store.key, key(2, 0));
    let bounds = |vals: &[i64]| -> Vec<Option<i64>> { std::iter::once(None).chain(vals.iter().map(|v| Some(*v))).collect() };
    for ts in (NOW - 3)..=(NOW + 1) {
        for adj in 0..=1u32 {
            for range in [0u64, 2, 3] {
                for two in [false, true] {
                    let mut it = good_item(NOW);
                    it.fd.ts = ts;
                    it.tc.adj = adj;
                    it.fd.slot = 4;
                    let items = if two { vec![good_item(NOW), it] } else { vec![it] };
                    let vs = Vs { now: NOW, age: 3, range, excess: 1 };
                    for after in bounds(&[NOW - 3, NOW - 2, NOW - 1, NOW, NOW + 1]) {
                        for before in bounds(&[NOW - 1, NOW]) {
                            for slot in bounds(&[5, 7]) {
                                let ma = ((ts + adj as i64 + range as i64).rem_euclid(4)) as u32;
                                let tgt = Target { after, before, after_slot: slot.map(|x| x as u64) };
                                with_prices(sink, &w, &mut oracle, &vs, &items, false, true, false, &tgt, ma);
                            }
                        }
                    }
                }
            }
        }
    }
}

fn with_random(sink: &mut Sink, rng: &mut Rng, n: u64) {
    let w = world();
    let mut oracle: Box<Oracle> = zbox();
    o_hook::oracle_init(&mut oracle, *w.store.key, key(2, 0));
    for i in 0..n {
        let small = i % 2 == 0;
        if small {
            let vs = Vs { now: NOW, age: *rng.pick(&[1u64, 3]), range: *rng.pick(&[0u64, 2]), excess: 1 };
            let it = with_small_item(rng, NOW);
            let items = if rng.chance(1, 2) { vec![good_item(NOW), it] } else { vec![it] };
            let tgt = rand_target(rng, &items, NOW);
            with_prices(sink, &w, &mut oracle, &vs, &items, rng.chance(1, 2), !rng.chance(1, 3), rng.chance(1, 40), &tgt, rng.below(4) as u32);
        } else {
            let now = rng.range(1000, 2000);
            let vs = Vs { now, age: 1 + rng.below(5), range: rng.below(5), excess: rng.below(3) };
            let k = 1 + rng.below(MAX_ITEMS as u64);
            let items: Vec<Item> = (0..k).map(|j| with_wide_item(rng, now, j)).collect();
            let tgt = rand_target(rng, &items, now);
            with_prices(sink, &w, &mut oracle, &vs, &items, rng.chance(1, 3), !rng.chance(1, 3), rng.chance(1, 40), &tgt, rng.below(7) as u32);
        }
    }
}

fn main() {
    h_programs::util::quiet_panics();
    stubs::install();
    h_programs::eutil::silence_stdout();
    let (mode, args) = Args::from_env();
    let kind = args.str("kind", "batch");
    let mut sink = Sink::create(&args.str("out", "c24.ndjson"));
    let mut rng = Rng::new(args.num("seed", 1));
    let n = args.num("n", 2000);
    match (mode.as_str(), kind.as_str()) {
        ("small", "batch") => batch_small(&mut sink),
        ("random", "batch") => batch_random(&mut sink, &mut rng, n),
        ("small", "adjust") => adjust_small(&mut sink),
        ("random", "adjust") => adjust_random(&mut sink, &mut rng, n),
        ("small", "with") => with_tv(&mut sink),
        (_, "with") => with_random(&mut sink, &mut rng, n),
        _ => {
            eprintln!("unknown mode/kind {mode}/{kind}");
            std::process::exit(2);
        }
    }
    eprintln!("c24 {mode} {kind}: {} events", sink.finish());
}
