//! C35 (program side): stored names in the store and timelock programs.
//!   store_key     : Store::init(key) -> Store::key()                         (32 bytes)
//!   role_metadata : RoleMetadata::new(name) -> RoleMetadata::name()          (32 bytes)
//!   role          : RoleStore::enable_role(name) -> roles() name; then grant -> has_role -> disable_role
//!   market        : Market::init(name) -> Market::name()                     (64 bytes)
//!   executor      : timelock Executor.role_name (32 bytes).  `Executor::try_init` is pub(crate); the
//!                   driver calls the same `gmsol_store::utils::fixed_str::fixed_str_to_bytes::<32>` it
//!                   calls and writes the bytes at the field's offset, then reads with `role_name()`.
//! modes: replay --in NAMES --out F | random --seed S --n N --out F
use anchor_lang::prelude::Pubkey;
use anchor_lang::solana_program::{clock::Clock, program_stubs};
use gmsol_store::states::{Market, RoleMetadata, RoleStore, Store};
use gmsol_timelock::states::Executor;
use h_programs::util::{guarded, Args, Rng, Sink};

include!("../../../h-model/src/c35_names.rs");

struct Stubs;
impl program_stubs::SyscallStubs for Stubs {
    fn sol_log(&self, _message: &str) {}
    fn sol_log_data(&self, _fields: &[&[u8]]) {}
    fn sol_get_clock_sysvar(&self, var_addr: *mut u8) -> u64 {
        let c = Clock { slot: 100, epoch_start_timestamp: 0, epoch: 0, leader_schedule_epoch: 0, unix_timestamp: 1_700_000_000 };
        // SAFETY: solana-program passes a pointer to a properly aligned, writable `Clock`.
        unsafe { std::ptr::write(var_addr as *mut Clock, c) };
        0
    }
    fn sol_get_last_restart_slot(&self, var_addr: *mut u8) -> u64 {
        // SAFETY: `LastRestartSlot` is a `#[repr(C)]` struct of one u64.
        unsafe { std::ptr::write(var_addr as *mut u64, 0) };
        0
    }
}

fn emit(sink: &mut Sink, tgt: &str, n: usize, name: &str, r: Result<(bool, Option<Vec<u8>>, bool, &'static str), ()>) {
    match r {
        Ok((acc, back, usable, stage)) => sink.emit(event(tgt, n, name, acc, back.as_deref(), usable, stage, false)),
        Err(()) => sink.emit(event(tgt, n, name, false, None, false, "panic", true)),
    }
}

fn zeroed_box<T: bytemuck::Zeroable>() -> Box<T> {
    let layout = std::alloc::Layout::new::<T>();
    assert!(layout.size() > 0);
    // SAFETY: T is Zeroable (all-zero bytes are a valid T); the allocation has T's layout.
    unsafe {
        let p = std::alloc::alloc_zeroed(layout) as *mut T;
        assert!(!p.is_null());
        Box::from_raw(p)
    }
}

fn store_key(name: &str, sink: &mut Sink) {
    let r = guarded(|| {
        let mut s: Box<Store> = zeroed_box();
        match s.init(Pubkey::new_unique(), name, 255, Pubkey::new_unique(), Pubkey::new_unique()) {
            Err(_) => (false, None, false, "init"),
            Ok(()) => (true, s.key().ok().map(|x| x.as_bytes().to_vec()), true, ""),
        }
    });
    emit(sink, "store_key", 32, name, r);
}

fn role_metadata(name: &str, sink: &mut Sink) {
    let r = guarded(|| match RoleMetadata::new(name, 0) {
        Err(_) => (false, None, false, "new"),
        Ok(m) => (true, m.name().ok().map(|x| x.as_bytes().to_vec()), true, ""),
    });
    emit(sink, "role_metadata", 32, name, r);
}

fn role(name: &str, sink: &mut Sink) {
    let r = guarded(|| {
        let mut rs: Box<RoleStore> = zeroed_box();
        if rs.enable_role(name).is_err() {
            return (false, None, false, "enable_role");
        }
        let back = rs.roles().next().and_then(|x| x.ok()).map(|x| x.as_bytes().to_vec());
        let who = Pubkey::new_unique();
        let stage = if rs.grant(&who, name).is_err() {
            "grant"
        } else if rs.has_role(&who, name).ok() != Some(true) {
            "has_role"
        } else if rs.disable_role(name).is_err() {
            "disable_role"
        } else {
            ""
        };
        (true, back, stage.is_empty(), stage)
    });
    emit(sink, "role", 32, name, r);
}

fn market(name: &str, sink: &mut Sink) {
    let r = guarded(|| {
        let mut m: Box<Market> = zeroed_box();
        let (a, b, c, d) = (Pubkey::new_unique(), Pubkey::new_unique(), Pubkey::new_unique(), Pubkey::new_unique());
        match m.init(254, Pubkey::new_unique(), name, a, b, c, d, true) {
            Err(_) => (false, None, false, "init"),
            Ok(()) => (true, m.name().ok().map(|x| x.as_bytes().to_vec()), true, ""),
        }
    });
    emit(sink, "market", 64, name, r);
}

const EXECUTOR_ROLE_NAME_OFFSET: usize = 1 + 1 + 1 + 13 + 32;

fn executor(name: &str, sink: &mut Sink) {
    let r = guarded(|| match gmsol_store::utils::fixed_str::fixed_str_to_bytes::<32>(name) {
        Err(_) => (false, None, false, "fixed_str_to_bytes"),
        Ok(bytes) => {
            let mut e: Box<Executor> = zeroed_box();
            bytemuck::bytes_of_mut(&mut *e)[EXECUTOR_ROLE_NAME_OFFSET..EXECUTOR_ROLE_NAME_OFFSET + 32].copy_from_slice(&bytes);
            (true, e.role_name().ok().map(|x| x.as_bytes().to_vec()), true, "")
        }
    });
    emit(sink, "executor", 32, name, r);
}

fn check_layout() {
    // only the position of the field is checked here (how a name reads back is the property's business)
    assert_eq!(std::mem::size_of::<Executor>(), EXECUTOR_ROLE_NAME_OFFSET + 32 + 256, "timelock Executor layout changed");
    let mut e: Box<Executor> = zeroed_box();
    let b = bytemuck::bytes_of_mut(&mut *e);
    b[EXECUTOR_ROLE_NAME_OFFSET - 1] = b'Z';
    b[EXECUTOR_ROLE_NAME_OFFSET..EXECUTOR_ROLE_NAME_OFFSET + 5].copy_from_slice(b"ABCD\0");
    let at_offset = guarded(|| e.role_name().map(|s| s.starts_with('A')).unwrap_or(false)).unwrap_or(false);
    assert!(at_offset, "timelock Executor layout changed: role_name is not at offset 48");
}

fn all(n32: &[String], n64: &[String], sink: &mut Sink) {
    for n in n32 {
        store_key(n, sink);
        role_metadata(n, sink);
        role(n, sink);
        executor(n, sink);
    }
    for n in n64 {
        market(n, sink);
    }
}

fn main() {
    program_stubs::set_syscall_stubs(Box::new(Stubs));
    h_programs::util::quiet_panics();
    if guarded(check_layout).is_err() {
        eprintln!("c35p: timelock Executor layout changed (size or role_name offset)");
        std::process::exit(3);
    }
    let (mode, args) = Args::from_env();
    let mut sink = Sink::create(&args.str("out", "c35p.ndjson"));
    match mode.as_str() {
        "replay" => {
            for name in read_names(&args.str("in", "names.ndjson")) {
                all(&rebase(&name, 32), &rebase(&name, 64), &mut sink);
            }
        }
        "random" => {
            let mut rng = Rng::new(args.num("seed", 1) ^ 0xC35F);
            for _ in 0..args.num("n", 300) {
                let (a, b) = (random_name(&mut rng, 32), random_name(&mut rng, 64));
                all(&[a], &[b], &mut sink);
            }
        }
        _ => std::process::exit(2),
    }
    println!("events {}", sink.finish());
}
