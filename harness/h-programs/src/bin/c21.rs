//! C21: the revertible (copy-on-write) buffer of a REAL `Market` account in memory.
//! The market lives in an `AccountLoader` (discriminator + zero-copy bytes, 16-byte aligned); an
//! operation is a real `RevertibleMarket::new` (hook `begin`) wrapped into a real
//! `RevertibleLiquidityMarket`; commit goes through `Revertible::commit` and emits its event / token
//! CPIs into the recording `sol_invoke_signed` stub; abandon = drop.
//! Slots: "pool.<kind>" (fields long, short), "clocks" (five clocks), "other" (trade_count,
//! long_token_balance, short_token_balance, funding_factor_per_second).
//! Event: op, slot, field, fv, how, ok, panic, depth, val, storage{slot->fields}, rev, slot_revs, events, tok.
//! modes:
//!   replay --in PATHS --pool KIND [--pure 0|1]   paths of MC_Revertible (model slots p / c / o mapped to the
//!                                                given pool kind, clocks.borrowing, other.funding)
//!   random --seed S --n RUNS --len L             linear histories over all slots, fields, both market kinds
use std::str::FromStr;

use anchor_lang::prelude::*;
use anchor_spl::token::{spl_token, Mint};
use gmsol_model::{ClockKind, LiquidityMarketMut, PerpMarketMut, PoolKind};
use gmsol_store::states::{
    market::{
        pool::verif as pool_hook,
        revertible::{
            buffer_verif, liquidity_market::verif as lp_hook, market::verif as rm_hook, Revertible,
            RevertibleLiquidityMarket,
        },
    },
    Market, Store,
};
use h_programs::{
    stubs, trie,
    util::{guarded, quiet_panics, Args, Rng, Sink},
};
use serde_json::{json, Map, Value};
use strum::IntoEnumIterator;

fn pk(i: u8) -> Pubkey {
    Pubkey::new_from_array([i; 32])
}

/// A leaked account whose data pointer is = 8 (mod 16), so that the zero-copy struct behind the
/// 8-byte discriminator is 16-byte aligned (u128 fields) on the native target.
fn leak_account(key: Pubkey, owner: Pubkey, len: usize, fill: impl FnOnce(&mut [u8]), executable: bool) -> &'static AccountInfo<'static> {
    let words = (len + 8) / 16 + 2;
    let buf: &'static mut [u128] = Box::leak(vec![0u128; words].into_boxed_slice());
    let bytes: &'static mut [u8] = bytemuck::cast_slice_mut(buf);
    let data: &'static mut [u8] = &mut bytes[8..8 + len];
    fill(data);
    let lamports: &'static mut u64 = Box::leak(Box::new(1_000_000_000u64));
    let key: &'static Pubkey = Box::leak(Box::new(key));
    let owner: &'static Pubkey = Box::leak(Box::new(owner));
    Box::leak(Box::new(AccountInfo::new(key, false, true, lamports, data, owner, executable, 0)))
}

struct World {
    market: &'static AccountLoader<'static, Market>,
    store: &'static AccountLoader<'static, Store>,
    mint: &'static Account<'static, Mint>,
    token_program: &'static AccountInfo<'static>,
    receiver: &'static AccountInfo<'static>,
    vault: &'static AccountInfo<'static>,
    event_authority: &'static AccountInfo<'static>,
    open: Option<RevertibleLiquidityMarket<'static, 'static>>,
    pure: bool,
}

const NOW: i64 = 5;

impl World {
    fn create() -> World {
        stubs::set_clock(NOW, 1);
        let msize = 8 + std::mem::size_of::<Market>();
        let market_info = leak_account(pk(20), gmsol_store::ID, msize, |d| d[..8].copy_from_slice(Market::DISCRIMINATOR), false);
        let market: &'static AccountLoader<'static, Market> =
            Box::leak(Box::new(AccountLoader::try_from(market_info).expect("market loader")));
        let ssize = 8 + std::mem::size_of::<Store>();
        let store_info = leak_account(pk(21), gmsol_store::ID, ssize, |d| d[..8].copy_from_slice(Store::DISCRIMINATOR), false);
        let store: &'static AccountLoader<'static, Store> =
            Box::leak(Box::new(AccountLoader::try_from(store_info).expect("store loader")));
        store.load_mut().unwrap().init(pk(22), "c21", 255, pk(23), pk(24)).expect("Store::init");
        let mint_info = leak_account(pk(1), spl_token::ID, Mint::LEN, |d| {
            use anchor_lang::solana_program::program_pack::Pack;
            let m = spl_token::state::Mint {
                mint_authority: Some(pk(21)).into(),
                supply: 1_000,
                decimals: 9,
                is_initialized: true,
                freeze_authority: None.into(),
            };
            spl_token::state::Mint::pack(m, d).expect("pack mint");
        }, false);
        let mint: &'static Account<'static, Mint> = Box::leak(Box::new(Account::try_from(mint_info).expect("mint account")));
        World {
            market,
            store,
            mint,
            token_program: leak_account(spl_token::ID, pk(0), 0, |_| {}, true),
            receiver: leak_account(pk(30), spl_token::ID, 0, |_| {}, false),
            vault: leak_account(pk(31), spl_token::ID, 0, |_| {}, false),
            event_authority: leak_account(pk(32), gmsol_store::ID, 0, |_| {}, false),
            open: None,
            pure: false,
        }
    }

    fn reset(&mut self, pure: bool) {
        self.open = None;
        self.pure = pure;
        stubs::set_clock(NOW, 1);
        stubs::take_cpis();
        let mut m = self.market.load_mut().expect("load market");
        *m = bytemuck::Zeroable::zeroed();
        let long = pk(3);
        let short = if pure { long } else { pk(4) };
        m.init(250, pk(21), "C21", pk(1), pk(2), long, short, true).expect("Market::init");
    }

    fn with_market<T>(&self, f: impl FnOnce(&Market) -> T) -> T {
        match &self.open {
            Some(lm) => f(lp_hook::base(lm).as_ref()),
            None => f(&self.market.load().expect("load market")),
        }
    }
}

#[derive(Clone, Debug, PartialEq)]
enum Slot {
    Pool(PoolKind),
    Clocks,
    Other,
}

const CLOCKS: [ClockKind; 5] = [
    ClockKind::PriceImpactDistribution,
    ClockKind::Borrowing,
    ClockKind::Funding,
    ClockKind::AdlForLong,
    ClockKind::AdlForShort,
];

impl Slot {
    fn name(&self) -> String {
        match self {
            Slot::Pool(k) => format!("pool.{k}"),
            Slot::Clocks => "clocks".into(),
            Slot::Other => "other".into(),
        }
    }
    fn parse(s: &str) -> Slot {
        match s {
            "clocks" => Slot::Clocks,
            "other" => Slot::Other,
            _ => Slot::Pool(PoolKind::from_str(s.strip_prefix("pool.").expect("slot name")).expect("pool kind")),
        }
    }
    fn all() -> Vec<Slot> {
        PoolKind::iter().map(Slot::Pool).chain([Slot::Clocks, Slot::Other]).collect()
    }
    fn fields(&self) -> usize {
        match self {
            Slot::Pool(_) => 2,
            Slot::Clocks => 5,
            Slot::Other => 4,
        }
    }
}

/// stored value of a slot (public getters of `Market`)
fn storage_slot(m: &Market, slot: &Slot) -> Vec<i64> {
    match slot {
        Slot::Pool(k) => {
            let p = m.pool(*k).expect("pool kind exists");
            let (l, s) = pool_hook::pool_amounts(&p);
            vec![l as i64, s as i64]
        }
        Slot::Clocks => CLOCKS.iter().map(|k| m.clock(*k).expect("clock kind exists")).collect(),
        Slot::Other => {
            let o = m.state();
            vec![o.trade_count() as i64, o.long_token_balance_raw() as i64, o.short_token_balance_raw() as i64,
                 o.funding_factor_per_second() as i64]
        }
    }
}

/// value of a slot as the operation in progress sees it
fn read_slot(lm: &RevertibleLiquidityMarket<'static, 'static>, slot: &Slot) -> Vec<i64> {
    let rm = lp_hook::base(lm);
    match slot {
        Slot::Pool(k) => {
            let p = rm_hook::pool(rm, *k).expect("pool kind exists");
            let (l, s) = pool_hook::pool_amounts(&p);
            vec![l as i64, s as i64]
        }
        Slot::Clocks => CLOCKS.iter().map(|k| rm_hook::clock(rm, *k).expect("clock kind exists")).collect(),
        Slot::Other => {
            let o = rm_hook::other(rm);
            vec![o.trade_count() as i64, o.long_token_balance_raw() as i64, o.short_token_balance_raw() as i64,
                 o.funding_factor_per_second() as i64]
        }
    }
}

/// write one field through the operation in progress; returns (ok, value written)
fn write_slot(lm: &mut RevertibleLiquidityMarket<'static, 'static>, slot: &Slot, field: usize, x: i64, how: &str) -> (bool, i64) {
    match slot {
        Slot::Pool(k) => {
            let p = rm_hook::pool_mut(lp_hook::base_mut(lm), *k).expect("pool kind exists");
            let (l, s) = pool_hook::pool_amounts(p);
            if field == 1 {
                pool_hook::pool_set_amounts(p, x as u128, s);
            } else {
                pool_hook::pool_set_amounts(p, l, x as u128);
            }
            (true, x)
        }
        Slot::Clocks => {
            *rm_hook::clock_mut(lp_hook::base_mut(lm), CLOCKS[field - 1]).expect("clock kind exists") = x;
            (true, x)
        }
        Slot::Other => match (field, how) {
            (1, _) => match rm_hook::next_trade_id(lp_hook::base_mut(lm)) {
                Ok(id) => (true, id as i64),
                Err(_) => (false, 0),
            },
            (4, _) => {
                *lp_hook::base_mut(lm).funding_factor_per_second_mut() = x as i128;
                (true, x)
            }
            (f, _) => {
                // balances: move the difference in or out so that the field becomes x
                let is_long = f == 2;
                let cur = read_slot(lm, slot)[f - 1];
                let rm = lp_hook::base_mut(lm);
                let r = if x >= cur {
                    rm_hook::record_transferred_in(rm, is_long, (x - cur) as u64)
                } else {
                    rm_hook::record_transferred_out(rm, is_long, (cur - x) as u64)
                };
                (r.is_ok(), x)
            }
        },
    }
}

/// (anchor events, token CPIs as +minted / -burned) recorded by the syscall stub since the last call
fn drain_cpis() -> (usize, Vec<i64>) {
    let mut events = 0;
    let mut tok = Vec::new();
    for c in stubs::take_cpis() {
        if c.is_anchor_event() {
            events += 1;
        } else if c.program_id == spl_token::ID && c.data.len() >= 9 {
            let amount = u64::from_le_bytes(c.data[1..9].try_into().unwrap()) as i64;
            match c.data[0] {
                7 => tok.push(amount),
                8 => tok.push(-amount),
                _ => tok.push(i64::MIN / 2),
            }
        } else {
            tok.push(i64::MAX / 2);
        }
    }
    (events, tok)
}

struct OpOut {
    ok: bool,
    panic: bool,
    fv: i64,
    val: Vec<i64>,
}

fn apply(w: &mut World, op: &str, slot: &Slot, field: usize, x: i64, how: &str) -> OpOut {
    let mut out = OpOut { ok: true, panic: false, fv: x, val: vec![] };
    let r = guarded(|| match op {
        "begin" => {
            let rm = rm_hook::begin(w.market, w.event_authority, 255).expect("RevertibleMarket::new");
            let lm = lp_hook::from_revertible_market(rm, w.mint, w.token_program, w.store, Some(w.receiver), Some(w.vault))
                .expect("RevertibleLiquidityMarket");
            w.open = Some(lm);
        }
        "read" => out.val = read_slot(w.open.as_ref().expect("open"), slot),
        "write" => {
            let lm = w.open.as_mut().expect("open");
            let (ok, fv) = write_slot(lm, slot, field, x, how);
            out.ok = ok;
            out.fv = fv;
            out.val = read_slot(lm, slot);
        }
        "mint" => out.ok = w.open.as_mut().expect("open").mint(&(x as u128)).is_ok(),
        "burn" => out.ok = w.open.as_mut().expect("open").burn(&(x as u128)).is_ok(),
        "commit" => w.open.take().expect("open").commit(),
        "abandon" => drop(w.open.take().expect("open")),
        other => panic!("unknown op {other}"),
    });
    if r.is_err() {
        out.panic = true;
        out.ok = false;
        w.open = None;
    }
    out
}

fn event(w: &World, op: &str, slot: &Slot, field: usize, how: &str, depth: usize, o: &OpOut) -> Value {
    let (events, tok) = drain_cpis();
    let (storage, revs, rev) = w.with_market(|m| {
        let mut st = Map::new();
        let mut rv = Map::new();
        for s in Slot::all() {
            st.insert(s.name(), json!(storage_slot(m, &s)));
            let r = match &s {
                Slot::Pool(k) => buffer_verif::pool_slot_revs(m, *k).expect("pool kind exists").1,
                Slot::Clocks => buffer_verif::clocks_slot_revs(m).1,
                Slot::Other => buffer_verif::other_slot_revs(m).1,
            };
            rv.insert(s.name(), json!(r));
        }
        (st, rv, buffer_verif::buffer_rev(m))
    });
    let has_slot = matches!(op, "read" | "write");
    json!({
        "op": op, "slot": if has_slot { slot.name() } else { String::new() }, "field": if has_slot { field } else { 0 },
        "fv": o.fv, "how": how, "ok": o.ok, "panic": o.panic, "depth": depth, "pure": w.pure,
        "val": o.val, "storage": storage, "rev": rev, "slot_revs": revs, "events": events, "tok": tok,
    })
}

/// model operation -> real (op, slot, field, x, how)
fn map_op(op: &Value, pool: PoolKind) -> (String, Slot, usize, i64, &'static str) {
    let name = op["op"].as_str().unwrap().to_string();
    let x = op["fv"].as_i64().unwrap_or(0);
    let (slot, field) = match op["slot"].as_str().unwrap_or("") {
        "p" => (Slot::Pool(pool), 1),
        "c" => (Slot::Clocks, 2),
        "o" => (Slot::Other, 4),
        _ => (Slot::Other, 0),
    };
    (name, slot, field, x, "set")
}

fn replay(args: &Args) -> i32 {
    let paths = trie::read_paths(&args.str("in", "paths.ndjson"));
    let pool = PoolKind::from_str(&args.str("pool", "primary")).expect("pool kind");
    let pure = args.num("pure", 0) != 0;
    let mut sink = Sink::create(&args.str("out", "c21-replay.ndjson"));
    let mut w = World::create();
    w.reset(pure);
    sink.emit(event(&w, "init", &Slot::Other, 0, "", 0, &OpOut { ok: true, panic: false, fv: 0, val: vec![] }));
    let n = trie::dfs_prefixes(&paths, |prefix| {
        w.reset(pure);
        let (last, before) = prefix.split_last().unwrap();
        for op in before {
            let (name, slot, field, x, how) = map_op(op, pool);
            apply(&mut w, &name, &slot, field, x, how);
        }
        drain_cpis();
        let (name, slot, field, x, how) = map_op(last, pool);
        let o = apply(&mut w, &name, &slot, field, x, how);
        sink.emit(event(&w, &name, &slot, field, how, prefix.len(), &o));
    });
    w.open = None;
    println!("paths {} prefixes {} events {}", paths.len(), n, sink.finish());
    0
}

fn random(args: &Args) -> i32 {
    let runs = args.num("n", 10);
    let len = args.num("len", 300) as usize;
    let mut rng = Rng::new(args.num("seed", 1) ^ 0x21);
    let mut sink = Sink::create(&args.str("out", "c21-random.ndjson"));
    let mut w = World::create();
    let slots = Slot::all();
    for run in 0..runs {
        let pure = run % 2 == 1;
        w.reset(pure);
        sink.emit(event(&w, "init", &Slot::Other, 0, "", 0, &OpOut { ok: true, panic: false, fv: 0, val: vec![] }));
        // a run concentrates on a few slots so that operations collide on them
        let hot: Vec<Slot> = (0..3).map(|_| slots[rng.below(slots.len() as u64) as usize].clone()).collect();
        for d in 1..=len {
            let pick = |rng: &mut Rng| -> Slot {
                if rng.chance(2, 3) { hot[rng.below(3) as usize].clone() } else { slots[rng.below(slots.len() as u64) as usize].clone() }
            };
            let (op, slot, field, x, how): (&str, Slot, usize, i64, &str) = if w.open.is_none() {
                ("begin", Slot::Other, 0, 0, "")
            } else {
                let k = rng.below(100);
                if k < 35 {
                    let s = pick(&mut rng);
                    ("read", s, 1, 0, "")
                } else if k < 75 {
                    let s = pick(&mut rng);
                    let mut f = 1 + rng.below(s.fields() as u64) as usize;
                    if s == Slot::Other && f == 3 && pure {
                        f = 2; // a single-token market books both tokens on the long balance
                    }
                    let how = if s == Slot::Other && f == 1 { "next_trade_id" } else { "set" };
                    ("write", s, f, rng.below(10) as i64, how)
                } else if k < 80 {
                    ("mint", Slot::Other, 0, 1 + rng.below(5) as i64, "")
                } else if k < 84 {
                    ("burn", Slot::Other, 0, 1 + rng.below(5) as i64, "")
                } else if k < 93 {
                    ("commit", Slot::Other, 0, 0, "")
                } else {
                    ("abandon", Slot::Other, 0, 0, "")
                }
            };
            let o = apply(&mut w, op, &slot, field, x, how);
            sink.emit(event(&w, op, &slot, field, how, d, &o));
        }
        w.open = None;
    }
    println!("events {}", sink.finish());
    0
}

fn main() {
    quiet_panics();
    stubs::install();
    let (mode, args) = Args::from_env();
    let code = match mode.as_str() {
        "replay" => replay(&args),
        "random" => random(&args),
        _ => 2,
    };
    std::process::exit(code);
}
