//! C34 (store side): the store program's own instantiations of `fixed_map!` — RoleMap (32, str keys,
//! RoleMetadata values), Members (64, Pubkey keys, u32 role bitmaps), Tokens (token map header) —
//! driven by the same engine and model paths as h-model/src/bin/c34.rs.
//! modes: replay --in PATHS --seed S --out F | random --seed S --n N --out F
use anchor_lang::prelude::Pubkey;
use gmsol_store::states::{Members, RoleMap, RoleMetadata, Tokens};
use h_programs::util::{guarded, Args, Rng, Sink};

include!("../../../h-model/src/c34_engine.rs");

const TOKENS_CAP: usize = 256; // token_config.rs MAX_TOKENS (private constant; a wrong value shows up as a MonSorted/MonRef failure)

fn mk_str(id: usize) -> String {
    format!("ROLE_{id}")
}
fn mk_pk(id: usize) -> Pubkey {
    let mut r = Rng::new(0xabcd ^ id as u64);
    let mut b = [0u8; 32];
    for c in b.chunks_mut(8) {
        c.copy_from_slice(&r.next().to_le_bytes());
    }
    if id % 5 == 0 {
        b = [0x77; 32];
        b[31] = id as u8;
    }
    Pubkey::new_from_array(b)
}
fn str_key_bytes(k: &String) -> Vec<u8> {
    gmsol_utils::fixed_map::to_key(k).to_vec()
}
fn role_val(_id: usize, v: u64) -> RoleMetadata {
    RoleMetadata::new(&format!("r{v}"), v as u8).expect("role metadata")
}
fn role_val_id(x: &RoleMetadata) -> u64 {
    x.name().expect("role name")[1..].parse().expect("role value id")
}

impl_fmap!(TRoles, RoleMap, "store-RoleMap-32", 32, String, str, mk_str, str_key_bytes, RoleMetadata, role_val, role_val_id);
impl_fmap!(TMembers, Members, "store-Members-64", 64, Pubkey, Pubkey, mk_pk, |k: &Pubkey| k.to_bytes().to_vec(), u32, |_id, v: u64| v as u32, |x: &u32| *x as u64);
impl_fmap!(TTokens, Tokens, "store-Tokens", TOKENS_CAP, Pubkey, Pubkey, mk_pk, |k: &Pubkey| k.to_bytes().to_vec(), u8, |_id, v: u64| v as u8, |x: &u8| *x as u64);

fn main() {
    h_programs::util::quiet_panics();
    let (mode, args) = Args::from_env();
    let seed = args.num("seed", 1);
    let mut sink = Sink::create(&args.str("out", "c34p.ndjson"));
    match mode.as_str() {
        "replay" => {
            let t = read_paths(&args.str("in", "paths.ndjson"), 1);
            replay::<TRoles>(&t, seed, &mut sink);
            replay::<TMembers>(&t, seed, &mut sink);
            let tb = read_paths(&args.str("in", "paths.ndjson"), args.num("big-every", 16) as usize);
            replay::<TTokens>(&tb, seed, &mut sink);
        }
        "random" => {
            let n = args.num("n", 2000);
            random_ops::<TRoles>(seed, n, &mut sink);
            random_ops::<TMembers>(seed, n, &mut sink);
            random_ops::<TTokens>(seed, (n / 4).max(TOKENS_CAP as u64 * 2 + 100), &mut sink);
        }
        _ => std::process::exit(2),
    }
    println!("events {}", sink.finish());
}
