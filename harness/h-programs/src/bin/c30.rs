//! C30: GT state machine (programs/store/src/states/gt.rs, user.rs, order.rs `unchecked_process_gt`)
//! on the real zero-copy structs (`Store` holding `GtState`, `UserHeader`, `GtExchangeVault`,
//! `GtExchange`, `Order`), driven in memory through cfg-guarded hooks with a stubbed clock.
//!   small  --depth D [--full 1] --out F   breadth-first exploration of the REAL code's state graph over the
//!                                          bounded model's configurations and action alphabet (each
//!                                          distinct abstract state is expanded once; states are byte snapshots)
//!   random --seed S --n N --out F         random sequences (runs of 24 steps, larger values)
//! Grow factors are logged in tenths (GUnit = 10): real factor = grow * 10^19.
use anchor_lang::prelude::*;
use gmsol_store::states::gt::verif as gt_hook;
use gmsol_store::states::gt::{GtExchange, GtExchangeVault, GtState};
use gmsol_store::states::order::verif as order_hook;
use gmsol_store::states::user::verif as user_hook;
use gmsol_store::states::{Order, Store, UserHeader};
use h_programs::eutil::{err_name, key, zbox, MemAccount};
use h_programs::stubs;
use h_programs::util::{guarded, Args, Rng, Sink};
use serde_json::{json, Value};
use std::collections::{HashSet, VecDeque};

const TENTH: u128 = 10_000_000_000_000_000_000; // 0.1 in units of 10^20
const NUSERS: usize = 2;

#[derive(Clone, Debug)]
struct Cfg {
    step: u64,
    grow: u64, // tenths
    cost0: u128,
    ranks: Vec<u64>,
    window: u32,
}

fn cfg_json(c: &Cfg) -> Value {
    json!({"step": c.step, "grow": c.grow, "cost0": c.cost0 as u64, "ranks": c.ranks, "window": c.window})
}

/// The implementation state: real structs, byte-copyable.
struct World {
    store: Box<Store>,
    users: Vec<Box<UserHeader>>,
    vault: Box<GtExchangeVault>,
    exchanges: Vec<Box<GtExchange>>,
    order: Box<Order>,
    now: i64,
}

type Snap = (Vec<u8>, Vec<Vec<u8>>, Vec<u8>, Vec<Vec<u8>>, i64);

fn gt_of(store: &mut Store) -> &mut GtState {
    // `Store::gt_mut` is pub(crate); reach the embedded GtState through the Pod bytes of the Store.
    let off = (store.gt() as *const GtState as usize) - (store as *const Store as usize);
    let bytes = bytemuck::bytes_of_mut(store);
    bytemuck::from_bytes_mut(&mut bytes[off..off + std::mem::size_of::<GtState>()])
}

impl World {
    fn new(c: &Cfg, now: i64) -> World {
        stubs::set_clock(now, 10);
        let mut store: Box<Store> = zbox();
        let ranks: Vec<u64> = c.ranks.clone();
        gt_hook::init(gt_of(&mut store), 0, c.cost0, c.grow as u128 * TENTH, c.step, &ranks).expect("gt init");
        gt_of(&mut store).set_exchange_time_window(c.window).expect("window");
        let skey = key(1, 0);
        let mut users = vec![];
        let mut exchanges = vec![];
        for i in 0..NUSERS {
            let mut u: Box<UserHeader> = zbox();
            user_hook::init(&mut u, &skey, &key(7, i as u8), 255).expect("user init");
            users.push(u);
            let mut x: Box<GtExchange> = zbox();
            gt_hook::exchange_init(&mut x, 255, &key(7, i as u8), &skey, &key(8, 0)).expect("exchange init");
            exchanges.push(x);
        }
        World { store, users, vault: zbox(), exchanges, order: zbox(), now }
    }
    fn snap(&self) -> Snap {
        (
            bytemuck::bytes_of(&*self.store).to_vec(),
            self.users.iter().map(|u| bytemuck::bytes_of(&**u).to_vec()).collect(),
            bytemuck::bytes_of(&*self.vault).to_vec(),
            self.exchanges.iter().map(|x| bytemuck::bytes_of(&**x).to_vec()).collect(),
            self.now,
        )
    }
    fn restore(&mut self, s: &Snap) {
        bytemuck::bytes_of_mut(&mut *self.store).copy_from_slice(&s.0);
        for (u, b) in self.users.iter_mut().zip(&s.1) {
            bytemuck::bytes_of_mut(&mut **u).copy_from_slice(b);
        }
        bytemuck::bytes_of_mut(&mut *self.vault).copy_from_slice(&s.2);
        for (x, b) in self.exchanges.iter_mut().zip(&s.3) {
            bytemuck::bytes_of_mut(&mut **x).copy_from_slice(b);
        }
        self.now = s.4;
    }
    fn project(&self) -> Value {
        let gt = self.store.gt();
        json!({
            "supply": gt.supply(), "total": gt.total_minted(), "steps": gt.grow_steps(), "cost": gt.minting_cost() as u64,
            "vault": gt.gt_vault(),
            "users": self.users.iter().map(|u| json!({
                "amount": u.gt().amount(), "rank": u.gt().rank(), "utotal": user_hook::gt_total_minted(u),
                "paid": u.gt().paid_fee_value() as u64, "mintedv": u.gt().minted_fee_value() as u64})).collect::<Vec<_>>(),
            "ev": {"init": self.vault.is_initialized(), "confirmed": self.vault.is_confirmed(),
                   "ts": if self.vault.is_initialized() { self.vault.time_window_index_ts() } else { 0 }, "amount": self.vault.amount()},
            "ex": self.exchanges.iter().map(|x| x.amount()).collect::<Vec<_>>(),
            "now": self.now,
        })
    }
}

/// `GtExchangeVault.ts` is private without a getter: read it from the Pod bytes.
trait VaultTs {
    fn time_window_index_ts(&self) -> i64;
}
impl VaultTs for GtExchangeVault {
    fn time_window_index_ts(&self) -> i64 {
        // ts is recoverable from the struct bytes: bump(1) flags(1) padding(6) ts(8)
        let b = bytemuck::bytes_of(self);
        i64::from_le_bytes(b[8..16].try_into().unwrap())
    }
}

#[derive(Clone, Debug)]
struct Act {
    op: &'static str,
    u: usize, // 1-based, 0 = none
    n: u64,
}

fn event_authority() -> &'static AccountInfo<'static> {
    let a: &'static mut MemAccount = Box::leak(Box::new(MemAccount::new(key(9, 0), gmsol_store::ID, &[0u8; 8], 0)));
    Box::leak(Box::new(a.info()))
}

/// Apply one action on the real code. Returns (ok, err, out, panic).
fn apply(w: &mut World, a: &Act, ea: &'static AccountInfo<'static>) -> (bool, String, Value, bool) {
    stubs::set_clock(w.now, 10 + w.now as u64);
    let no_out = json!({"minted": 0, "value": 0, "cost": 0});
    let before = w.snap();
    let ui = a.u.saturating_sub(1);
    let mut out = no_out.clone();
    let r = guarded(|| -> std::result::Result<(), anchor_lang::error::Error> {
        match a.op {
            "mint" => gt_hook::mint_to(gt_of(&mut w.store), &mut w.users[ui], a.n),
            "burn" => gt_hook::unchecked_burn_from(gt_of(&mut w.store), &mut w.users[ui], a.n),
            "mfv" => {
                let cost = w.store.gt().minting_cost();
                let value = (w.users[ui].gt().paid_fee_value() + a.n as u128).saturating_sub(w.users[ui].gt().minted_fee_value());
                *w.order = bytemuck::Zeroable::zeroed();
                order_hook::unchecked_process_gt(&mut w.order, &mut w.store, &mut w.users[ui], a.n as u128, ea, 255)?;
                if a.n != 0 {
                    out = json!({"minted": order_hook::gt_reward(&w.order), "value": value as u64, "cost": cost as u64});
                }
                Ok(())
            }
            "request" => {
                let (store, users, vault, exchanges) = (&mut w.store, &mut w.users, &mut w.vault, &mut w.exchanges);
                gt_hook::unchecked_request_exchange(gt_of(store), &mut users[ui], vault, &mut exchanges[ui], a.n)
            }
            "confirm" => gt_hook::unchecked_confirm_exchange_vault(gt_of(&mut w.store), &mut w.vault).map(|_| ()),
            "newvault" => {
                *w.vault = bytemuck::Zeroable::zeroed();
                let window = w.store.gt().exchange_time_window();
                gt_hook::exchange_vault_init(&mut w.vault, 255, &key(1, 0), window)
            }
            "tick" => {
                w.now += a.n as i64;
                Ok(())
            }
            _ => panic!("op"),
        }
    });
    match r {
        Err(()) => {
            w.restore(&before);
            (false, "panic".into(), no_out, true)
        }
        Ok(Ok(())) => (true, String::new(), out, false),
        Ok(Err(e)) => {
            // a failed instruction is reverted by the runtime (request_exchange is documented as non-atomic)
            w.restore(&before);
            (false, err_name(&e), no_out, false)
        }
    }
}

fn emit(sink: &mut Sink, c: &Cfg, pre: &Value, post: &Value, a: &Act, res: &(bool, String, Value, bool), reset: bool) {
    sink.emit(json!({"cfg": cfg_json(c), "reset": reset, "pre": pre, "post": post, "op": a.op, "u": a.u, "n": a.n,
        "ok": res.0, "err": res.1, "out": res.2, "panic": res.3}));
}

/// Cost a mint-only history reaching `total` would have (sequential floors): only used to keep the numbers
/// of generated histories inside TLC's 32-bit range, never as an oracle.
fn cost_after(c: &Cfg, total: u64) -> u128 {
    let mut cost = c.cost0;
    for _ in 0..(total / c.step).min(200) {
        cost = cost * c.grow as u128 / 10;
        if cost > 1 << 60 {
            break;
        }
    }
    cost
}

/// Scripted histories around the grow-step boundaries: mint to just below a step, burn / request an
/// exchange (supply < total minted from here on), mint across the step, across two steps, repeat.
fn scripted(sink: &mut Sink, ea: &'static AccountInfo<'static>) {
    for step in [2u64, 3, 5, 8] {
        for grow in [15u64, 20] {
            for cost0 in [3u128, 10] {
                let c = Cfg { step, grow, cost0, ranks: vec![1, step, 2 * step + 1], window: 2 };
                let mut w = World::new(&c, 0);
                let mut script: Vec<Act> = vec![Act { op: "newvault", u: 0, n: 0 }];
                for round in 0..3u64 {
                    let (a, b) = if round % 2 == 0 { (1usize, 2usize) } else { (2, 1) };
                    script.push(Act { op: "mint", u: a, n: step - 1 });          // just below the next step
                    script.push(Act { op: "burn", u: a, n: 1 });
                    script.push(Act { op: "mint", u: a, n: 1 });                 // across the step after a burn
                    script.push(Act { op: "request", u: a, n: (step - 1).min(2) });
                    script.push(Act { op: "mint", u: b, n: step });              // across the next step after a request
                    script.push(Act { op: "burn", u: b, n: step - 1 });
                    script.push(Act { op: "mint", u: b, n: 2 * step });          // across two steps
                    script.push(Act { op: "burn", u: b, n: 2 * step });          // supply far below the total
                    script.push(Act { op: "mint", u: a, n: 1 });                 // inside a step
                    script.push(Act { op: "mfv", u: a, n: 0 });                  // replaced below: pay for step + 1 units
                }
                let mut first = true;
                for mut a in script {
                    if a.op == "mfv" {
                        a.n = (w.store.gt().minting_cost() as u64).saturating_mul(step + 1) + 1;
                    }
                    if cost_after(&c, w.store.gt().total_minted() + 3 * step) > 20_000_000 || w.store.gt().minting_cost() > 20_000_000 {
                        break;
                    }
                    let pre = w.project();
                    let res = apply(&mut w, &a, ea);
                    let post = w.project();
                    emit(sink, &c, &pre, &post, &a, &res, first);
                    first = false;
                }
            }
        }
    }
}

fn alphabet() -> Vec<Act> {
    let mut v = vec![];
    for u in 1..=NUSERS {
        for n in 0..=3u64 {
            v.push(Act { op: "mint", u, n });
            v.push(Act { op: "burn", u, n });
            v.push(Act { op: "request", u, n });
        }
        for n in [1u64, 4, 7] {
            v.push(Act { op: "mfv", u, n });
        }
    }
    v.push(Act { op: "confirm", u: 0, n: 0 });
    v.push(Act { op: "newvault", u: 0, n: 0 });
    v.push(Act { op: "tick", u: 0, n: 1 });
    v
}

fn small(args: &Args) -> i32 {
    let depth = args.num("depth", 3) as usize;
    let full = args.num("full", 0) != 0;
    let max_total = args.num("max-total", 6);
    let mut sink = Sink::create(&args.str("out", "c30-small.ndjson"));
    let ea = event_authority();
    let grows: &[u64] = if full { &[10, 15, 20] } else { &[15, 20] };
    let tables: Vec<Vec<u64>> = if full { vec![vec![], vec![1], vec![2, 4], vec![1, 3, 5]] } else { vec![vec![], vec![1, 3, 5]] };
    let acts = alphabet();
    let mut states_total = 0usize;
    for &grow in grows {
        for cost0 in [1u128, 3] {
            for ranks in &tables {
                let c = Cfg { step: 2, grow, cost0, ranks: ranks.clone(), window: 2 };
                let mut w = World::new(&c, 0);
                let mut seen: HashSet<String> = HashSet::new();
                let mut queue: VecDeque<(Snap, usize)> = VecDeque::new();
                seen.insert(w.project().to_string());
                queue.push_back((w.snap(), 0));
                let mut first = true;
                while let Some((snap, d)) = queue.pop_front() {
                    for a in &acts {
                        w.restore(&snap);
                        let pre = w.project();
                        let res = apply(&mut w, a, ea);
                        let post = w.project();
                        if post["total"].as_u64().unwrap() > max_total {
                            continue; // same bound as the model's CONSTRAINT-like guard
                        }
                        emit(&mut sink, &c, &pre, &post, a, &res, first);
                        first = false;
                        if d + 1 < depth && seen.insert(post.to_string()) {
                            queue.push_back((w.snap(), d + 1));
                        }
                    }
                }
                states_total += seen.len();
            }
        }
    }
    scripted(&mut sink, ea);
    eprintln!("c30 small: {} events, {} expanded-or-seen states", sink.finish(), states_total);
    0
}

fn random(args: &Args) -> i32 {
    let mut rng = Rng::new(args.num("seed", 1));
    let n = args.num("n", 3000);
    let mut sink = Sink::create(&args.str("out", "c30-random.ndjson"));
    let ea = event_authority();
    let mut c = Cfg { step: 2, grow: 10, cost0: 1, ranks: vec![], window: 2 };
    let mut w = World::new(&c, 0);
    for i in 0..n {
        let reset = i % 24 == 0;
        if reset {
            let k = rng.below(4) as usize;
            let mut ranks = vec![];
            let mut t = 0u64;
            for _ in 0..k {
                t += 1 + rng.below(40);
                ranks.push(t);
            }
            c = Cfg {
                step: 1 + rng.below(50),
                grow: *rng.pick(&[10u64, 11, 12, 15, 20]),
                cost0: 1 + rng.below(1000) as u128,
                ranks,
                window: 1 + rng.below(5) as u32,
            };
            w = World::new(&c, rng.range(0, 50));
        }
        // keep numbers inside TLC's 32-bit range
        if w.store.gt().minting_cost() > 5_000_000 || w.store.gt().total_minted() > 100_000
            || cost_after(&c, w.store.gt().total_minted() + 8 * c.step + 8) > 50_000_000
        {
            w = World::new(&c, 0);
        }
        let u = 1 + rng.below(NUSERS as u64) as usize;
        let bal = w.users[u - 1].gt().amount();
        let cost = w.store.gt().minting_cost() as u64;
        let a = match rng.below(12) {
            0 | 1 => Act { op: "mint", u, n: rng.below(3 * c.step + 2) },
            // land exactly on / just across the next grow step (also after burns and exchange requests)
            2 => Act { op: "mint", u, n: c.step - w.store.gt().total_minted() % c.step + c.step * rng.below(2) + rng.below(2) },
            3 | 4 => Act { op: "burn", u, n: if rng.chance(3, 4) { rng.below(bal + 1) } else { bal + 1 + rng.below(3) } },
            5..=7 => Act { op: "mfv", u, n: rng.below(cost.saturating_mul((3 * c.step + 1).min(6)).min(40_000_000) + 2) },
            8 => Act { op: "request", u, n: if rng.chance(3, 4) { rng.below(bal + 1) } else { bal + 1 } },
            9 => Act { op: "confirm", u: 0, n: 0 },
            10 => Act { op: "newvault", u: 0, n: 0 },
            _ => Act { op: "tick", u: 0, n: 1 + rng.below(3) },
        };
        let pre = w.project();
        let res = apply(&mut w, &a, ea);
        let post = w.project();
        if w.store.gt().minting_cost() > 50_000_000 {
            // beyond TLC's 32-bit products (cost * grow): abandon this run
            w = World::new(&c, 0);
            continue;
        }
        emit(&mut sink, &c, &pre, &post, &a, &res, reset);
    }
    eprintln!("c30 random: {} events", sink.finish());
    0
}

fn main() {
    h_programs::util::quiet_panics();
    stubs::install();
    h_programs::eutil::silence_stdout();
    let (mode, args) = Args::from_env();
    let rc = match mode.as_str() {
        "small" => small(&args),
        "random" => random(&args),
        _ => {
            eprintln!("unknown mode {mode}");
            2
        }
    };
    std::process::exit(rc);
}
