//! C16: every configuration key reads and writes its own setting.
//! Real `Market` (Market::default() + Market::init) and real `Store` (zeroed + Store::init) in memory.
//! Key sets are read from the code's enums at run time (strum iteration).
//! One event per write, self-contained:
//!   scope ("market"|"store"), kind, key (namespaced as in `cfg`), v, ok, err, closed,
//!   cfg0 / cfg : every key -> value (strings) before / after,
//!   params     : every model-trait accessor -> value after the write.
//! modes:  all --out FILE   (the whole finite domain; there is nothing to sample)
use std::collections::BTreeMap;

use anchor_lang::prelude::Pubkey;
use gmsol_model::{
    pool::delta::BalanceChange, BaseMarket, BorrowingFeeMarket, PerpMarket, PnlFactorKind,
    PositionImpactMarket, SwapMarket,
};
use gmsol_store::states::{
    market::config::{MarketConfigFlag, MarketConfigKey},
    AddressKey, AmountKey, FactorKey, Market, Store,
};
use gmsol_utils::market::MarketFlag;
use h_programs::{
    stubs,
    util::{guarded, quiet_panics, Args, Sink},
};
use serde_json::{json, Map, Value};
use strum::IntoEnumIterator;

const UNIT: u128 = gmsol_store::constants::MARKET_USD_UNIT;

type KV = BTreeMap<String, String>;

fn to_obj(m: &KV) -> Value {
    Value::Object(m.iter().map(|(k, v)| (k.clone(), json!(v))).collect::<Map<_, _>>())
}

fn pk(i: u8) -> Pubkey {
    Pubkey::new_from_array([i; 32])
}

fn new_market(pure: bool) -> Box<Market> {
    let mut m: Box<Market> = Box::default();
    let long = pk(3);
    let short = if pure { long } else { pk(4) };
    m.init(254, pk(9), "C16", pk(1), pk(2), long, short, true).expect("Market::init");
    m
}

/// Full projection of the market configuration through the public getters (by string key).
fn market_cfg(m: &Market) -> KV {
    let mut out = KV::new();
    for k in MarketConfigKey::iter() {
        let name = k.to_string();
        let v = match m.get_config(&name) {
            Ok(v) => v.to_string(),
            Err(_) => "unimplemented".to_string(),
        };
        out.insert(name, v);
    }
    for f in MarketConfigFlag::iter() {
        let name = f.to_string();
        let v = match m.get_config_flag(&name) {
            Ok(v) => v.to_string(),
            Err(_) => "unimplemented".to_string(),
        };
        out.insert(format!("flag.{name}"), v);
    }
    out
}

fn r<T: ToString, E>(x: Result<T, E>) -> String {
    match x {
        Ok(v) => v.to_string(),
        Err(_) => "err".to_string(),
    }
}

/// `name: value` of a private field, read from the struct's `Debug` rendering (the parameter
/// struct has no public getter for it).
fn debug_field(dbg: &str, field: &str) -> String {
    let pat = format!("{field}: ");
    let mut best: Option<String> = None;
    let mut from = 0;
    while let Some(i) = dbg[from..].find(&pat) {
        let at = from + i;
        let boundary = at == 0 || !dbg.as_bytes()[at - 1].is_ascii_alphanumeric() && dbg.as_bytes()[at - 1] != b'_';
        if boundary {
            let rest = &dbg[at + pat.len()..];
            let end = rest.find(|c: char| c == ',' || c == ' ' || c == '}').unwrap_or(rest.len());
            best = Some(rest[..end].to_string());
            break;
        }
        from = at + pat.len();
    }
    best.unwrap_or_else(|| "err".into())
}

/// Every configuration-backed parameter of the model traits implemented for `Market`.
fn market_params(m: &Market) -> KV {
    let mut p = KV::new();
    let side = |l: bool| if l { "long" } else { "short" };
    for l in [true, false] {
        p.insert(format!("max_pool_amount.{}", side(l)), r(m.max_pool_amount(l)));
        p.insert(format!("max_open_interest.{}", side(l)), r(m.max_open_interest(l)));
        p.insert(format!("max_pool_value_for_deposit.{}", side(l)), r(m.max_pool_value_for_deposit(l)));
        p.insert(
            format!("min_collateral_factor_for_open_interest_multiplier.{}", side(l)),
            r(m.min_collateral_factor_for_open_interest_multiplier(l)),
        );
        for kind in PnlFactorKind::iter() {
            p.insert(format!("pnl_factor_config.{kind}.{}", side(l)), r(m.pnl_factor_config(kind, l)));
        }
    }
    p.insert("reserve_factor".into(), r(m.reserve_factor()));
    p.insert("open_interest_reserve_factor".into(), r(m.open_interest_reserve_factor()));
    p.insert("ignore_open_interest_for_usage_factor".into(), r(m.ignore_open_interest_for_usage_factor()));
    match m.swap_impact_params() {
        Ok(x) => {
            p.insert("swap_impact_params.exponent".into(), x.exponent().to_string());
            p.insert("swap_impact_params.positive_factor".into(), x.positive_factor().to_string());
            p.insert("swap_impact_params.negative_factor".into(), x.negative_factor().to_string());
        }
        Err(_) => {
            p.insert("swap_impact_params.exponent".into(), "err".into());
        }
    }
    // FeeParams has no getters for the two factors: fee(change, 1 unit) = the factor that is applied
    let fee = |x: &gmsol_model::params::FeeParams<u128>, c: BalanceChange| -> String {
        x.fee::<{ gmsol_store::constants::MARKET_DECIMALS }>(c, &UNIT).map(|v| v.to_string()).unwrap_or("err".into())
    };
    if let Ok(x) = m.swap_fee_params() {
        p.insert("swap_fee_params.receiver_factor".into(), x.receiver_factor().to_string());
        p.insert("swap_fee_params.positive_impact_fee_factor".into(), fee(&x, BalanceChange::Improved));
        p.insert("swap_fee_params.negative_impact_fee_factor".into(), fee(&x, BalanceChange::Worsened));
    }
    if let Ok(x) = m.order_fee_params() {
        p.insert("order_fee_params.receiver_factor".into(), x.receiver_factor().to_string());
        p.insert("order_fee_params.positive_impact_fee_factor".into(), fee(&x, BalanceChange::Improved));
        p.insert("order_fee_params.negative_impact_fee_factor".into(), fee(&x, BalanceChange::Worsened));
    }
    if let Ok(x) = m.position_impact_params() {
        p.insert("position_impact_params.exponent".into(), x.exponent().to_string());
        p.insert("position_impact_params.positive_factor".into(), x.positive_factor().to_string());
        p.insert("position_impact_params.negative_factor".into(), x.negative_factor().to_string());
    }
    if let Ok(x) = m.position_impact_distribution_params() {
        p.insert("position_impact_distribution_params.distribute_factor".into(), x.distribute_factor().to_string());
        p.insert(
            "position_impact_distribution_params.min_position_impact_pool_amount".into(),
            x.min_position_impact_pool_amount().to_string(),
        );
    }
    if let Ok(x) = m.borrowing_fee_params() {
        p.insert("borrowing_fee_params.receiver_factor".into(), x.receiver_factor().to_string());
        p.insert(
            "borrowing_fee_params.skip_borrowing_fee_for_smaller_side".into(),
            x.skip_borrowing_fee_for_smaller_side().to_string(),
        );
        for l in [true, false] {
            p.insert(format!("borrowing_fee_params.factor.{}", side(l)), x.factor(l).to_string());
            p.insert(format!("borrowing_fee_params.exponent.{}", side(l)), x.exponent(l).to_string());
        }
    }
    if let Ok(x) = m.borrowing_fee_kink_model_params() {
        for l in [true, false] {
            p.insert(
                format!("borrowing_fee_kink_model_params.optimal_usage_factor.{}", side(l)),
                x.optimal_usage_factor(l).to_string(),
            );
            p.insert(
                format!("borrowing_fee_kink_model_params.base_borrowing_factor.{}", side(l)),
                x.base_borrowing_factor(l).to_string(),
            );
            p.insert(
                format!("borrowing_fee_kink_model_params.above_optimal_usage_borrowing_factor.{}", side(l)),
                x.above_optimal_usage_borrowing_factor(l).to_string(),
            );
        }
    }
    if let Ok(x) = m.funding_fee_params() {
        p.insert("funding_fee_params.exponent".into(), x.exponent().to_string());
        p.insert("funding_fee_params.factor".into(), x.factor().to_string());
        p.insert("funding_fee_params.max_factor_per_second".into(), x.max_factor_per_second().to_string());
        p.insert("funding_fee_params.min_factor_per_second".into(), x.min_factor_per_second().to_string());
        p.insert("funding_fee_params.increase_factor_per_second".into(), x.increase_factor_per_second().to_string());
        p.insert("funding_fee_params.decrease_factor_per_second".into(), x.decrease_factor_per_second().to_string());
        p.insert("funding_fee_params.threshold_for_stable_funding".into(), x.threshold_for_stable_funding().to_string());
        p.insert(
            "funding_fee_params.threshold_for_decrease_funding".into(),
            x.threshold_for_decrease_funding().to_string(),
        );
    }
    if let Ok(x) = m.position_params() {
        p.insert("position_params.min_position_size_usd".into(), x.min_position_size_usd().to_string());
        p.insert("position_params.min_collateral_value".into(), x.min_collateral_value().to_string());
        p.insert("position_params.min_collateral_factor".into(), x.min_collateral_factor().to_string());
        p.insert(
            "position_params.min_collateral_factor_for_liquidation".into(),
            x.min_collateral_factor_for_liquidation().to_string(),
        );
        p.insert(
            "position_params.max_positive_position_impact_factor".into(),
            x.max_positive_position_impact_factor().to_string(),
        );
        p.insert(
            "position_params.max_negative_position_impact_factor".into(),
            x.max_negative_position_impact_factor().to_string(),
        );
        p.insert(
            "position_params.max_position_impact_factor_for_liquidations".into(),
            x.max_position_impact_factor_for_liquidations().to_string(),
        );
    }
    if let Ok(x) = m.liquidation_fee_params() {
        let d = format!("{x:?}");
        p.insert("liquidation_fee_params.factor".into(), debug_field(&d, "factor"));
        p.insert("liquidation_fee_params.receiver_factor".into(), debug_field(&d, "receiver_factor"));
    }
    p
}

struct Out {
    sink: Sink,
}

impl Out {
    #[allow(clippy::too_many_arguments)]
    fn emit(&mut self, scope: &str, kind: &str, key: &str, v: &str, ok: bool, err: &str, panic: bool, closed: bool,
            cfg0: &KV, cfg: &KV, params: &KV) {
        self.sink.emit(json!({
            "op": "write", "scope": scope, "kind": kind, "key": key, "v": v, "ok": ok, "err": err, "panic": panic,
            "closed": closed, "cfg0": to_obj(cfg0), "cfg": to_obj(cfg), "params": to_obj(params),
        }));
    }
}

fn write_factor(out: &mut Out, m: &mut Market, key: MarketConfigKey, v: u128) {
    let name = key.to_string();
    let cfg0 = market_cfg(m);
    let res = guarded(|| match m.get_config_mut(&name) {
        Ok(slot) => {
            *slot = v;
            Ok(())
        }
        Err(e) => Err(format!("{e:?}")),
    });
    let (ok, err, panic) = match res {
        Ok(Ok(())) => (true, String::new(), false),
        Ok(Err(e)) => (false, e.chars().take(80).collect(), false),
        Err(()) => (false, String::new(), true),
    };
    out.emit("market", "factor", &name, &v.to_string(), ok, &err, panic, m.is_closed(), &cfg0, &market_cfg(m), &market_params(m));
}

fn write_flag(out: &mut Out, m: &mut Market, flag: MarketConfigFlag, v: bool) {
    let name = flag.to_string();
    let cfg0 = market_cfg(m);
    let res = guarded(|| m.set_config_flag(&name, v).map(|_| ()).map_err(|e| format!("{e:?}")));
    let (ok, err, panic) = match res {
        Ok(Ok(())) => (true, String::new(), false),
        Ok(Err(e)) => (false, e.chars().take(80).collect(), false),
        Err(()) => (false, String::new(), true),
    };
    out.emit("market", "flag", &format!("flag.{name}"), &v.to_string(), ok, &err, panic, m.is_closed(), &cfg0,
             &market_cfg(m), &market_params(m));
}

fn market_part(out: &mut Out) {
    for pure in [false, true] {
        for closed in [false, true] {
            for enable in [false, true] {
                let mut m = new_market(pure);
                m.set_flag(MarketFlag::Closed, closed);
                write_flag(out, &mut m, MarketConfigFlag::EnableMarketClosedParams, enable);
                // pass 1: a distinct value per key (defaults contain duplicates)
                for (i, k) in MarketConfigKey::iter().enumerate() {
                    write_factor(out, &mut m, k, 1000 + i as u128);
                }
                // pass 2: rewrite every key while all others hold distinct values
                for (i, k) in MarketConfigKey::iter().enumerate() {
                    write_factor(out, &mut m, k, 5000 + i as u128);
                }
                // zero is the documented "unset" of the liquidation collateral factors
                for (i, k) in MarketConfigKey::iter().enumerate() {
                    if k.to_string().contains("min_collateral_factor_for_liquidation") {
                        write_factor(out, &mut m, k, 0);
                        write_factor(out, &mut m, k, 9000 + i as u128);
                    }
                }
                // flags: walk all assignments of the flags (Gray code), toggling one flag per step
                let flags: Vec<MarketConfigFlag> = MarketConfigFlag::iter().collect();
                let n = flags.len().min(6);
                let mut cur = vec![false; n];
                for (j, f) in flags.iter().take(n).enumerate() {
                    cur[j] = m.get_config_flag_by_key(*f);
                }
                for step in 1u32..(1 << n) + 1 {
                    let j = step.trailing_zeros() as usize % n;
                    cur[j] = !cur[j];
                    write_flag(out, &mut m, flags[j], cur[j]);
                    // idempotent write of the same value
                    if step % 5 == 0 {
                        write_flag(out, &mut m, flags[j], cur[j]);
                    }
                }
            }
        }
    }
    // unknown keys are rejected without effect
    let mut m = new_market(false);
    let cfg0 = market_cfg(&m);
    let ok = m.get_config_mut("no_such_key").is_ok();
    out.emit("market", "factor", "no_such_key", "1", ok, "InvalidMarketConfigKey", false, false, &cfg0, &market_cfg(&m),
             &market_params(&m));
}

fn store_cfg(s: &Store) -> KV {
    let mut out = KV::new();
    for k in AmountKey::iter() {
        let name = k.to_string();
        out.insert(format!("amount.{name}"), s.get_amount(&name).map(|v| v.to_string()).unwrap_or("unimplemented".into()));
    }
    for k in FactorKey::iter() {
        let name = k.to_string();
        out.insert(format!("factor.{name}"), s.get_factor(&name).map(|v| v.to_string()).unwrap_or("unimplemented".into()));
    }
    for k in AddressKey::iter() {
        let name = k.to_string();
        out.insert(format!("address.{name}"), s.get_address(&name).map(|v| v.to_string()).unwrap_or("unimplemented".into()));
    }
    out
}

fn store_params(s: &Store) -> KV {
    let mut p = KV::new();
    p.insert("request_expiration_at".into(), r(s.request_expiration_at(0)));
    p.insert("claimable_time_window".into(), r(s.claimable_time_window()));
    p.insert("holding".into(), s.holding().to_string());
    p
}

fn store_part(out: &mut Out) {
    let mut s: Box<Store> = Box::new(bytemuck::Zeroable::zeroed());
    s.init(pk(7), "c16", 255, pk(8), pk(6)).expect("Store::init");
    let emit = |out: &mut Out, kind: &str, key: &str, v: String, res: Result<Result<(), String>, ()>, cfg0: &KV, s: &Store| {
        let (ok, err, panic) = match res {
            Ok(Ok(())) => (true, String::new(), false),
            Ok(Err(e)) => (false, e.chars().take(80).collect(), false),
            Err(()) => (false, String::new(), true),
        };
        out.emit("store", kind, key, &v, ok, &err, panic, false, cfg0, &store_cfg(s), &store_params(s));
    };
    for pass in 0..2u64 {
        for (i, k) in AmountKey::iter().enumerate() {
            let name = k.to_string();
            let v = 100 + pass * 50 + i as u64;
            let cfg0 = store_cfg(&s);
            let res = guarded(|| s.get_amount_mut(&name).map(|slot| *slot = v).map_err(|e| format!("{e:?}")));
            emit(out, "amount", &format!("amount.{name}"), v.to_string(), res, &cfg0, &s);
        }
        for (i, k) in FactorKey::iter().enumerate() {
            let name = k.to_string();
            let v = 300 + pass as u128 * 50 + i as u128;
            let cfg0 = store_cfg(&s);
            let res = guarded(|| s.get_factor_mut(&name).map(|slot| *slot = v).map_err(|e| format!("{e:?}")));
            emit(out, "factor", &format!("factor.{name}"), v.to_string(), res, &cfg0, &s);
        }
        for (i, k) in AddressKey::iter().enumerate() {
            let name = k.to_string();
            let v = pk(40 + pass as u8 * 10 + i as u8);
            let cfg0 = store_cfg(&s);
            let res = guarded(|| s.get_address_mut(&name).map(|slot| *slot = v).map_err(|e| format!("{e:?}")));
            emit(out, "address", &format!("address.{name}"), v.to_string(), res, &cfg0, &s);
        }
    }
    let cfg0 = store_cfg(&s);
    let res = guarded(|| s.get_amount_mut("no_such_key").map(|slot| *slot = 1).map_err(|e| format!("{e:?}")));
    emit(out, "amount", "amount.no_such_key", "1".into(), res, &cfg0, &s);
}

fn main() {
    quiet_panics();
    stubs::install();
    let (mode, args) = Args::from_env();
    if mode != "all" {
        std::process::exit(2);
    }
    let mut out = Out { sink: Sink::create(&args.str("out", "c16.ndjson")) };
    market_part(&mut out);
    store_part(&mut out);
    println!("events {}", out.sink.finish());
}
