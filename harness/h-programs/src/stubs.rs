//! Native syscall stubs shared by the in-memory drivers of h-programs.
//!
//! `install()` (idempotent) replaces solana-program's default stubs by ones backed by a
//! process-global, controllable world:
//!   * `Clock::get()`            -> `set_clock(unix_timestamp, slot)` / `advance_clock(secs)`
//!   * `LastRestartSlot::get()`  -> `set_last_restart_slot(slot)`
//!   * `Rent::get()`             -> `Rent::default()`
//!   * `invoke` / `invoke_signed` (CPI, incl. Anchor-style `emit_cpi` events): every call is
//!     RECORDED (`take_cpis()`, `cpi_count()`) and then swallowed with `Ok(())`, unless a handler
//!     installed with `set_cpi_handler` returns `Some(result)` for it.
//!   * `msg!` / `sol_log_data`: kept silent (set env `VERIF_SOL_LOG=1` to print), log data recorded.
//!
//! The drivers are single-threaded; the state lives behind a mutex only because the stub trait
//! object must be `Sync + Send`.
use anchor_lang::solana_program::{
    account_info::AccountInfo, clock::Clock, entrypoint::ProgramResult, instruction::Instruction,
    program_stubs, pubkey::Pubkey, rent::Rent,
};
use std::sync::{Mutex, Once};

/// One recorded cross-program invocation.
#[derive(Clone, Debug)]
pub struct RecordedCpi {
    pub program_id: Pubkey,
    /// (pubkey, is_signer, is_writable) as given in the instruction
    pub accounts: Vec<(Pubkey, bool, bool)>,
    pub data: Vec<u8>,
    pub signer_seeds: Vec<Vec<Vec<u8>>>,
}

impl RecordedCpi {
    /// Anchor self-CPI event (`emit_cpi!`): data = EVENT_IX_TAG_LE (8) ++ event discriminator (8) ++ borsh.
    pub fn is_anchor_event(&self) -> bool {
        self.data.len() >= 16 && self.data[..8] == *anchor_lang::event::EVENT_IX_TAG_LE
    }
    /// (event discriminator, borsh payload) of an Anchor self-CPI event.
    pub fn anchor_event(&self) -> Option<(&[u8], &[u8])> {
        self.is_anchor_event().then(|| (&self.data[8..16], &self.data[16..]))
    }
}

pub type CpiHandler =
    Box<dyn Fn(&Instruction, &[AccountInfo], &[&[&[u8]]]) -> Option<ProgramResult> + Send + Sync>;

struct World {
    unix_timestamp: i64,
    slot: u64,
    last_restart_slot: u64,
    cpis: Vec<RecordedCpi>,
    cpi_total: u64,
    log_data: Vec<Vec<Vec<u8>>>,
    logs: Vec<String>,
    keep_logs: bool,
    return_data: Option<(Pubkey, Vec<u8>)>,
    clock_fails: bool,
}

static WORLD: Mutex<World> = Mutex::new(World {
    unix_timestamp: 1_700_000_000,
    slot: 1_000,
    last_restart_slot: 0,
    cpis: Vec::new(),
    cpi_total: 0,
    log_data: Vec::new(),
    logs: Vec::new(),
    keep_logs: false,
    return_data: None,
    clock_fails: false,
});
static HANDLER: Mutex<Option<CpiHandler>> = Mutex::new(None);
static INSTALL: Once = Once::new();

fn world() -> std::sync::MutexGuard<'static, World> {
    // a panic of code under test while a guard is alive must not poison the harness
    WORLD.lock().unwrap_or_else(|e| e.into_inner())
}

struct Stubs {
    print: bool,
}

const SUCCESS: u64 = 0;

impl program_stubs::SyscallStubs for Stubs {
    fn sol_log(&self, message: &str) {
        if self.print {
            println!("{message}");
        }
        let mut w = world();
        if w.keep_logs {
            w.logs.push(message.to_string());
        }
    }
    fn sol_log_compute_units(&self) {}
    fn sol_remaining_compute_units(&self) -> u64 {
        1_400_000
    }
    fn sol_invoke_signed(
        &self,
        instruction: &Instruction,
        account_infos: &[AccountInfo],
        signers_seeds: &[&[&[u8]]],
    ) -> ProgramResult {
        {
            let mut w = world();
            w.cpi_total += 1;
            w.cpis.push(RecordedCpi {
                program_id: instruction.program_id,
                accounts: instruction
                    .accounts
                    .iter()
                    .map(|m| (m.pubkey, m.is_signer, m.is_writable))
                    .collect(),
                data: instruction.data.clone(),
                signer_seeds: signers_seeds
                    .iter()
                    .map(|s| s.iter().map(|x| x.to_vec()).collect())
                    .collect(),
            });
        }
        let h = HANDLER.lock().unwrap_or_else(|e| e.into_inner());
        if let Some(h) = h.as_ref() {
            if let Some(r) = h(instruction, account_infos, signers_seeds) {
                return r;
            }
        }
        Ok(())
    }
    fn sol_get_clock_sysvar(&self, var_addr: *mut u8) -> u64 {
        let w = world();
        if w.clock_fails {
            return anchor_lang::solana_program::program_error::UNSUPPORTED_SYSVAR;
        }
        let c = Clock {
            slot: w.slot,
            epoch_start_timestamp: 0,
            epoch: 0,
            leader_schedule_epoch: 0,
            unix_timestamp: w.unix_timestamp,
        };
        // SAFETY: solana-program passes a pointer to a properly aligned, writable `Clock`.
        unsafe { std::ptr::write(var_addr as *mut Clock, c) };
        SUCCESS
    }
    fn sol_get_rent_sysvar(&self, var_addr: *mut u8) -> u64 {
        // SAFETY: pointer to a properly aligned, writable `Rent`.
        unsafe { std::ptr::write(var_addr as *mut Rent, Rent::default()) };
        SUCCESS
    }
    fn sol_get_last_restart_slot(&self, var_addr: *mut u8) -> u64 {
        let s = world().last_restart_slot;
        // SAFETY: `LastRestartSlot` is a `#[repr(C)]` struct of one u64.
        unsafe { std::ptr::write(var_addr as *mut u64, s) };
        SUCCESS
    }
    fn sol_get_return_data(&self) -> Option<(Pubkey, Vec<u8>)> {
        world().return_data.clone()
    }
    fn sol_set_return_data(&self, data: &[u8]) {
        world().return_data = Some((Pubkey::default(), data.to_vec()));
    }
    fn sol_log_data(&self, fields: &[&[u8]]) {
        world().log_data.push(fields.iter().map(|f| f.to_vec()).collect());
    }
    fn sol_get_stack_height(&self) -> u64 {
        1
    }
}

/// Install the stubs (idempotent).
pub fn install() {
    INSTALL.call_once(|| {
        let print = std::env::var("VERIF_SOL_LOG").map(|v| v == "1").unwrap_or(false);
        program_stubs::set_syscall_stubs(Box::new(Stubs { print }));
    });
}

pub fn set_clock(unix_timestamp: i64, slot: u64) {
    let mut w = world();
    w.unix_timestamp = unix_timestamp;
    w.slot = slot;
}
pub fn set_unix_timestamp(unix_timestamp: i64) {
    world().unix_timestamp = unix_timestamp;
}
pub fn set_slot(slot: u64) {
    world().slot = slot;
}
pub fn advance_clock(secs: i64, slots: u64) {
    let mut w = world();
    w.unix_timestamp += secs;
    w.slot += slots;
}
/// (unix_timestamp, slot)
pub fn clock() -> (i64, u64) {
    let w = world();
    (w.unix_timestamp, w.slot)
}
pub fn set_last_restart_slot(slot: u64) {
    world().last_restart_slot = slot;
}
pub fn last_restart_slot() -> u64 {
    world().last_restart_slot
}

/// CPIs recorded since the last call (drained).
pub fn take_cpis() -> Vec<RecordedCpi> {
    std::mem::take(&mut world().cpis)
}
/// Number of CPIs recorded and not yet taken.
pub fn cpi_count() -> usize {
    world().cpis.len()
}
/// Total number of CPIs since process start.
pub fn cpi_total() -> u64 {
    world().cpi_total
}
pub fn take_log_data() -> Vec<Vec<Vec<u8>>> {
    std::mem::take(&mut world().log_data)
}
/// Keep `msg!` lines in memory (`take_logs`).
pub fn keep_logs(on: bool) {
    world().keep_logs = on;
}
pub fn take_logs() -> Vec<String> {
    std::mem::take(&mut world().logs)
}
/// Install (or remove) a CPI handler; it runs after recording. `None` result = swallow with Ok(()).
pub fn set_cpi_handler(h: Option<CpiHandler>) {
    *HANDLER.lock().unwrap_or_else(|e| e.into_inner()) = h;
}
/// Make `Clock::get()` fail (UnsupportedSysvar) while set.
pub fn set_clock_fails(on: bool) {
    world().clock_fails = on;
}
