fn main(){println!("ok");}
