//! h-programs: shared pieces for the property drivers (each driver is a binary under src/bin/).
pub mod util;
pub mod stubs;
pub mod eutil;
pub mod trie;
