----------------------------- MODULE MC_Exchange -----------------------------
(* Bounded model of the WHOLE market: the state machine whose transitions are the actions of
   Exchange.tla (every operation of gmsol-model on one state, all enabled together), under the
   programs' atomicity (Revert) and -- with Protocol = TRUE -- under the programs' ordering rule: a
   deposit / withdrawal / increase / decrease runs on a market whose fee state was just updated
   (update_fees_state), a swap on one whose borrowing state was.

   Checked on every transition: the conjunction of ALL market-level monitors of ExchangeProps
   (C04 - C14), in the form the design satisfies (the classes of known_findings.json excluded: C06 literal
   round trip, C08 literal residual + fee-remainder dust, C10 outside the cap convention, C11 with the
   trader cap active).  The name of the first failing monitor of a transition is kept in `bad`; the
   invariant is bad = "".
   Exhaustive to MaxDepth (MC_Exchange.cfg), and TLC -simulate for deep histories
   (MC_Exchange_sim.cfg).  Sampled behaviours are printed as operation scripts ("T|...") and replayed
   on the real code by the hist driver; Trace_Exchange then demands exact conformance of every step. *)
EXTENDS ExchangeProps, TLC, Json

CONSTANTS Protocol,      \* TRUE: the programs' ordering rule (see above); FALSE: any action at any time
          CfgIds,        \* indices into Presets
          MaxDepth,      \* operations per behaviour (after the seeding deposit)
          Sample,        \* print one script out of Sample finished behaviours
          PriceMoves,    \* index / long token prices the market can move to
          Rich,          \* TRUE: the larger argument domain (simulation)
          GuardShares    \* TRUE: the C06 share / round-trip monitors are required only of liquidity operations that
                         \* run on an up-to-date fee state (always the case under Protocol); FALSE: of all

VARIABLES st,            \* the one state of Exchange.tla
          ci, px,        \* configuration (index), current prices
          xl,            \* C08 token ledger (history): [led, dust]
          depth, bad,
          script         \* operations so far (hidden by the VIEW)
vars == <<st, ci, px, xl, depth, bad, script>>
View == <<st, ci, px, xl, depth, bad>>

-----------------------------------------------------------------------------
(* configurations: the driver's presets (hist.rs Cfg::presets at DECIMALS = 1), rebuilt here *)
Base ==
  [f_exp |-> 10, f_factor |-> 0, f_max |-> 0, f_min |-> 0, f_inc |-> 0, f_dec |-> 0, f_stable |-> 0, f_decthr |-> 0,
   b_recv |-> 4, b_factor |-> <<0, 0>>, b_exp |-> <<10, 10>>, b_skip |-> TRUE, k_opt |-> 0, k_base |-> 0, k_above |-> 0,
   o_pos |-> 0, o_neg |-> 0, o_recv |-> 4, s_pos |-> 0, s_neg |-> 0, s_recv |-> 4, l_factor |-> 0, l_recv |-> 5,
   pi_exp |-> 10, pi_pos |-> 0, pi_neg |-> 0, si_exp |-> 10, si_pos |-> 0, si_neg |-> 0, dist_factor |-> 0, dist_min |-> 0,
   min_size |-> 10, min_coll_value |-> 10, min_coll_factor |-> 1, max_pos_impact |-> 1, max_neg_impact |-> 1,
   max_liq_impact |-> 1, mcf_oi |-> 0, reserve |-> 10, oi_reserve |-> 10, max_oi |-> 4000, ignore_oi |-> FALSE,
   pnl_deposit |-> 9, pnl_withdrawal |-> 7, pnl_trader |-> 5, pnl_adl |-> 5, min_pnl_adl |-> 0,
   max_pool_amount |-> 100000, max_pool_value |-> 10000000, adj |-> 10, divisor |-> 1, vi |-> FALSE]
Fp(c, k) == CASE k = 0 -> [c EXCEPT !.f_factor = 5, !.f_max = 2, !.f_min = 1]
              [] k = 2 -> [c EXCEPT !.f_factor = 5, !.f_inc = 2, !.f_max = 3, !.f_min = 1]
              [] k = 3 -> [c EXCEPT !.f_factor = 5, !.f_inc = 2, !.f_dec = 1, !.f_max = 4, !.f_stable = 5, !.f_decthr = 3]
              [] k = 7 -> [c EXCEPT !.f_factor = 20, !.f_max = 5, !.f_min = 2]
              [] OTHER -> c
Bp(c, k) == CASE k = 0 -> [c EXCEPT !.k_opt = 7, !.k_base = 5, !.k_above = 20]
              [] k = 1 -> [c EXCEPT !.b_factor = <<10, 15>>, !.b_skip = FALSE]
              [] k = 3 -> [c EXCEPT !.k_opt = 5, !.k_base = 10, !.k_above = 5, !.b_skip = FALSE, !.ignore_oi = TRUE]
              [] OTHER -> c
Fe(c, k) == CASE k = 1 -> [c EXCEPT !.o_neg = 1, !.s_neg = 1]
              [] k = 2 -> [c EXCEPT !.o_pos = 1, !.o_neg = 2, !.l_factor = 1]
              [] k = 3 -> [c EXCEPT !.o_pos = 1, !.o_neg = 1, !.s_pos = 1, !.s_neg = 2, !.l_factor = 2]
              [] OTHER -> c
Ip(c, k) == CASE k = 1 -> [c EXCEPT !.pi_neg = 1, !.dist_factor = 10, !.dist_min = 2]
              [] k = 2 -> [c EXCEPT !.pi_pos = 1, !.pi_neg = 1, !.si_neg = 1, !.dist_factor = 5]
              [] k = 3 -> [c EXCEPT !.si_pos = 1, !.si_neg = 1, !.reserve = 8, !.oi_reserve = 7]
              [] OTHER -> c
(* <<fp, bp, fe, ip, vi>> *)
Presets == << <<0, 1, 2, 1, FALSE>>, <<2, 0, 3, 2, TRUE>>, <<3, 3, 1, 3, FALSE>>, <<7, 1, 0, 0, TRUE>>,
              <<4, 2, 0, 0, FALSE>>, <<0, 0, 3, 2, TRUE>> >>
CfgOf(k) == LET q == Presets[k] IN [Ip(Fe(Bp(Fp(Base, q[1]), q[2]), q[3]), q[4]) EXCEPT !.vi = q[5]]
C == CfgOf(ci)
ASSUME PrintT("CFGS|" \o ToJson([k \in CfgIds |-> [preset |-> Presets[k], cx |-> CfgOf(k)]]))

Slots == [k \in 1..8 |-> EmptyPos((k - 1) % 4 < 2, (k - 1) % 2 = 0)]
Init0(viOn) == [Empty(viOn) EXCEPT !.ps = Slots]
Px0 == [imin |-> 10, imax |-> 10, lmin |-> 10, lmax |-> 10, smin |-> 1, smax |-> 1]

-----------------------------------------------------------------------------
(* operations: the driver's op records (every argument field present) *)
ZArg == [pos |-> 0, coll |-> 0, size |-> 0, wd |-> 0, acc |-> 0, liq |-> FALSE, ins |-> FALSE, cap |-> FALSE,
         swap |-> 0, l |-> 0, s |-> 0, mt |-> 0, long_in |-> FALSE, amt |-> 0, dt |-> 0]
Op(name, a) == [op |-> name, a |-> a]
SeedOp == Op("deposit", [ZArg EXCEPT !.l = 300, !.s = 3000])

PosSlots == IF Rich THEN 1..4 ELSE {1, 2, 4}
CollFor(k, usd) == IF Slots[k].cl THEN usd \div 10 + 1 ELSE usd + 1
DecArgs(z) ==
  {<<z, 0, FALSE, 0>>, <<z \div 2, 0, FALSE, 1>>}
  \cup (IF Rich THEN {<<z + 7, 0, TRUE, 2>>, <<0, 2, FALSE, 0>>, <<z \div 3, 1, FALSE, 0>>, <<z - 3, 0, FALSE, 0>>} ELSE {})
Ops ==
  LET sup == st.m.supply IN
  {Op("deposit", [ZArg EXCEPT !.l = d[1], !.s = d[2]]) : d \in (IF Rich THEN {<<20, 0>>, <<0, 150>>, <<12, 90>>} ELSE {<<20, 0>>, <<5, 150>>})}
  \cup {Op("withdraw", [ZArg EXCEPT !.mt = x]) : x \in ({sup \div 7 + 1} \cup (IF Rich THEN {sup, 40} ELSE {}))}
  \cup {Op("swap", [ZArg EXCEPT !.long_in = d[1], !.amt = d[2]]) : d \in {<<TRUE, 9>>, <<FALSE, 120>>}}
  \cup {Op("increase", [ZArg EXCEPT !.pos = k, !.size = d[1], !.coll = CollFor(k, d[2])]) :
          k \in PosSlots, d \in (IF Rich THEN {<<150, 60>>, <<400, 60>>, <<60, 30>>, <<0, 20>>} ELSE {<<150, 60>>, <<400, 60>>})}
  \cup UNION {{Op("decrease", [ZArg EXCEPT !.pos = k, !.size = d[1], !.wd = d[2], !.cap = d[3], !.swap = d[4]]) :
                 d \in DecArgs(st.ps[k].size)} : k \in {j \in PosSlots : st.ps[j].size > 0}}
  \cup {Op("decrease", [ZArg EXCEPT !.pos = k, !.size = st.ps[k].size, !.liq = TRUE, !.ins = TRUE]) :
          k \in {j \in PosSlots : st.ps[j].size > 0}}
  \cup {Op("tick", [ZArg EXCEPT !.dt = x]) : x \in (IF Rich THEN {1, 3, 9} ELSE {2})}
  \cup {Op(x, ZArg) : x \in {"update_fees"} \cup (IF Rich THEN {"update_funding", "update_borrowing", "distribute"} ELSE {})}

(* the programs' ordering rule *)
Allowed(o) ==
  ~Protocol \/ CASE o.op \in {"deposit", "withdraw", "increase", "decrease"} -> FeesUpdated(st)
                 [] o.op = "swap" -> BorrowingUpdated(st)
                 [] OTHER -> TRUE

-----------------------------------------------------------------------------
(* the exchange event of one transition, and every monitor on it *)
JOf(o, r) == [reset |-> FALSE, op |-> o.op, a |-> o.a, c |-> C, px |-> px, ok |-> r.ok, panic |-> FALSE,
              s0 |-> st, s1 |-> Revert(st, r), sp |-> r.s, rep |-> r.rep]
FirstBad(mons) == IF \A k \in DOMAIN mons : mons[k][2] THEN ""
                  ELSE mons[CHOOSE k \in DOMAIN mons : ~mons[k][2] /\ \A j \in 1..(k - 1) : mons[j][2]][1]

(* hypothetical continuations judged with the step (they do not change the behaviour): the immediate
   withdrawal of what a deposit minted, the immediate full close of a position just opened *)
LpBack(J) ==
  LET a == [ZArg EXCEPT !.mt = J.rep.minted]
      r == Apply(J.s1, C, px, "withdraw", a)
  IN [reset |-> FALSE, op |-> "withdraw", a |-> a, c |-> C, px |-> px, ok |-> r.ok, panic |-> FALSE,
      s0 |-> J.s1, s1 |-> Revert(J.s1, r), sp |-> r.s, rep |-> r.rep]
CloseBack(J) ==
  LET a == [ZArg EXCEPT !.pos = J.a.pos, !.size = J.s1.ps[J.a.pos].size]
      r == Apply(J.s1, C, px, "decrease", a)
  IN [reset |-> FALSE, op |-> "decrease", a |-> a, c |-> C, px |-> px, ok |-> r.ok, panic |-> FALSE,
      s0 |-> J.s1, s1 |-> Revert(J.s1, r), sp |-> r.s, rep |-> r.rep]

(* pool_value prices PENDING borrowing fees at the current utilisation; a deposit / withdrawal changes the
   utilisation and with it the fees of the time already passed.  The share statements of C06 therefore hold
   for liquidity operations on a market whose fee state was just updated -- which is how the programs run them. *)
Guarded(mons, J) ==
  [k \in 1..Len(mons) |->
     IF GuardShares /\ mons[k][1] \in {"C06.DepositShare", "C06.WithdrawShare"} /\ ~FeesUpdated(J.s0)
     THEN <<mons[k][1], TRUE>> ELSE mons[k]]
DesignMonitors(J, he, nl, dust1) ==
  LET preM == J.s0.m
      hm   == HistMonitors(TRUE, preM, he, xl.led, nl)
      keep == {k \in DOMAIN hm : hm[k][1] \notin {"C08.Conserved", "C08.ResidualBacked", "C08.ResidualLiteral"}}
  IN [k \in 1..Len(hm) |-> IF k \in keep THEN hm[k] ELSE <<hm[k][1], TRUE>>]
     \o << <<"C08.Conserved(design)", C08ConservedDesign(J, he, xl.led, preM, nl)>>,
           <<"C08.ResidualBacked(design)", C08BackedDesign(nl, dust1, he.m, he.c, he.ps)>> >>
     \o (IF IsLiqOp(J) THEN Guarded(MarketMonitors(J), J) ELSE <<>>)
     \o (IF J.op = "deposit" /\ J.ok /\ J.rep.minted > 0 /\ (GuardShares => FeesUpdated(J.s0))
         THEN LET w == LpBack(J) IN
              << <<"C06.RoundTripFunded", (LpRoundTripMonitors(J, w))[2][2]>>,
                 <<"C06.WithdrawShare(rt)", (MarketMonitors(w))[8][2]>> >>
         ELSE <<>>)
     \o (IF IsPosOp(J) THEN PositionMonitors(J) ELSE <<>>)
     \o (IF J.op = "increase" /\ J.ok /\ J.s0.ps[J.a.pos].size = 0 /\ J.s0.ps[J.a.pos].col = 0
         THEN << <<"C10.RoundTrip(convention)", PosRoundTripDesign(J, CloseBack(J))>> >> ELSE <<>>)
     \o (IF IsPosOp(J) /\ J.s1.ps[J.a.pos].size > 0
         THEN << <<"C11(design)", \A up \in {1, 3} :
                     PnlDesign(SpecCEv(J.s1, C, px, J.a.pos, up, J.s1.ps[J.a.pos].size \div 3 + 1))>> >>
         ELSE <<>>)
     \o (IF J.op = "distribute" THEN DistributionMonitors(J) ELSE <<>>)

-----------------------------------------------------------------------------
Init ==
  /\ ci \in CfgIds
  /\ st = Init0(CfgOf(ci).vi) /\ px = Px0
  /\ xl = [led |-> Led0, dust |-> <<0, 0>>]
  /\ depth = -1 /\ bad = "" /\ script = <<>>

Do(o) ==
  LET r    == Apply(st, C, px, o.op, o.a)
      J    == JOf(o, r)
      he   == SpecHEv(J)
      nl   == NextLedger(xl.led, he)
      d    == DustOf(J, he, xl.led, J.s0.m, nl)
      du1  == <<xl.dust[1] + d[1], xl.dust[2] + d[2]>>
  IN /\ st' = J.s1
     /\ xl' = [led |-> nl, dust |-> du1]
     /\ bad' = FirstBad(DesignMonitors(J, he, nl, du1))
     /\ script' = Append(script, [op |-> o.op] @@ o.a)
     /\ depth' = depth + 1
     /\ UNCHANGED <<ci, px>>

Move(np) ==
  /\ depth >= 0 /\ np # px.imin
  /\ px' = [px EXCEPT !.imin = np, !.imax = np + (np % 2), !.lmin = np, !.lmax = np]
  /\ script' = Append(script, [op |-> "price", imin |-> np, imax |-> np + (np % 2), lmin |-> np, lmax |-> np,
                               smin |-> px.smin, smax |-> px.smax])
  /\ depth' = depth + 1
  /\ UNCHANGED <<st, ci, xl, bad>>

Next ==
  /\ bad = "" /\ depth < MaxDepth
  /\ IF depth = -1 THEN Do(SeedOp)
     ELSE \/ \E o \in Ops : Allowed(o) /\ Do(o)
          \/ \E np \in PriceMoves : Move(np)
Spec == Init /\ [][Next]_vars

MonitorsHold == bad = ""
(* scripts for replay on the real code: finished behaviours, sampled *)
Digest == st.m.liq[1] + 3 * st.m.liq[2] + 7 * st.m.fee[1] + 11 * st.m.pimp + 13 * st.m.tb[1] + 17 * st.m.now
          + 19 * st.m.oi[1][1] + 23 * st.m.oi[2][2] + 29 * st.m.supply + depth
Emitted == (depth = MaxDepth /\ Digest % Sample = 0) =>
             PrintT("T|" \o ToJson([preset |-> Presets[ci], ops |-> script]))
=============================================================================
