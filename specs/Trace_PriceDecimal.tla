------------------------- MODULE Trace_PriceDecimal -------------------------
(* 31-bit tier: every recorded call of the real code whose quantities fit TLC's integers.
   MonBracket (the literal, multiplied-up form) is left to the wide tier; here the floor is judged
   in its division form (MonTruncates), which MC_PriceDecimal shows equivalent. *)
EXTENDS PriceDecimalProps, TraceLib
VARIABLE i
Init == i = 0
Next ==
  /\ i < NRec
  /\ i' = i + 1
  /\ LET e == Rec[i'] IN
       /\ Judge(i', << <<"NoPanic", MonNoPanic(e)>>, <<"Rejects", MonRejects(e)>>,
                       <<"Truncates", MonTruncates(e)>>, <<"Yields", MonYields(e)>>,
                       <<"ToUnit", MonToUnit(e)>>, <<"WithUnit", MonWithUnit(e)>>,
                       <<"Pyth", MonPyth(e)>> >>)
       /\ Drift(i', Conforms(e), e.op)
Spec == Init /\ [][Next]_i
Done == Emit("DONE", [events |-> TLCGet("stats").diameter - 1])
=============================================================================
