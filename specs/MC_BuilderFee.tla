--------------------------- MODULE MC_BuilderFee ---------------------------
(* Bounded model for C32.
   Kind = "laws":   every (size, f, pmin, x, pre, swap) of the small ranges: the precise helpers satisfy
                    the monitors (formula, increase split, decrease bound, record).
   Kind = "settle": the order / escrow / claim vault state machine: charges on increase and decrease
                    (the charged amount is routed into the escrow together with the payout), arbitrary
                    escrow withdrawals by a (hypothetical) bug, settlements and repeated settlements. *)
EXTENDS BuilderFeeProps, TLC
CONSTANTS Kind, MaxSize, MaxF, MaxP, MaxX, MaxAmt, MaxDepth
VARIABLES c, s, act, depth
vars == <<c, s, act, depth>>

Ev(op, size, f, pmin, x, pre, swap, ok, err, r1, r2, post) ==
  [op |-> op, size |-> size, f |-> f, pmin |-> pmin, x |-> x, pre |-> pre, swap |-> swap, ok |-> ok, err |-> err,
   r1 |-> r1, r2 |-> r2, post |-> post, panic |-> FALSE]
EvsOf(p) ==
  LET cp == Compute(p.size, p.f, p.pmin)
      ch == ChargeOnIncrement(p.x, p.size, p.f, p.pmin)
      es == EstimateWithdrawal(p.x, p.size, p.f, p.pmin, p.swap)
      rc == Record(p.pre, p.x)
      dc == ChargeOnDecrease(p.pre, p.size, p.f, p.pmin, p.x)
  IN { Ev("compute", p.size, p.f, p.pmin, 0, 0, 0, cp.ok, "", cp.v, 0, 0),
       Ev("clamp", p.size, 0, 0, p.x, 0, 0, TRUE, "", Clamp(p.size, p.x), 0, 0),
       Ev("charge", p.size, p.f, p.pmin, p.x, 0, 0, ch.ok, ch.err, ch.after, ch.fee, 0),
       Ev("estimate", p.size, p.f, p.pmin, p.x, 0, p.swap, es.ok, es.err, es.v, 0, 0),
       Ev("record", 0, 0, 0, p.x, p.pre, 0, rc.ok, rc.err, 0, 0, rc.v),
       Ev("decrease", p.size, p.f, p.pmin, p.x, p.pre, 0, dc.ok, dc.err, dc.payable, dc.paid, dc.recorded) }

NoState == [recorded |-> 0, escrow |-> 0, vault |-> 0]
NoAct == [op |-> "none", moved |-> 0, pre |-> NoState, post |-> NoState, amt |-> 0]
InitLaws ==
  /\ c \in [size : 0..MaxSize, f : 0..MaxF, pmin : 0..MaxP, x : 0..MaxX, pre : {0, 1, Max64 - 2}, swap : 0..2]
  /\ s = NoState /\ act = NoAct /\ depth = 0
InitSettle ==
  /\ c = [size |-> 0, f |-> 0, pmin |-> 0, x |-> 0, pre |-> 0, swap |-> 0]
  /\ s = NoState /\ act = NoAct /\ depth = 0
Init == IF Kind = "laws" THEN InitLaws ELSE InitSettle

(* a charge records `fee` and routes it (with `pay`, the user's own payout) into the escrow *)
Charge == \E fee \in 0..MaxAmt, pay \in 0..MaxAmt :
  LET r == Record(s.recorded, fee) IN
    /\ r.ok
    /\ s' = [s EXCEPT !.recorded = r.v, !.escrow = s.escrow + fee + pay]
    /\ act' = [op |-> "charge", moved |-> 0, pre |-> s, post |-> s', amt |-> fee]
(* anything else that takes tokens out of the escrow (user payout on close, or a bug) *)
Drain == \E d \in 1..MaxAmt :
  /\ d <= s.escrow
  /\ s' = [s EXCEPT !.escrow = s.escrow - d]
  /\ act' = [op |-> "drain", moved |-> 0, pre |-> s, post |-> s', amt |-> d]
DoSettle ==
  LET r == Settle(s) IN
    /\ s' = r.s
    /\ act' = [op |-> "settle", moved |-> r.moved, pre |-> s, post |-> r.s, amt |-> 0]
NextSettle == depth < MaxDepth /\ depth' = depth + 1 /\ UNCHANGED c /\ (Charge \/ Drain \/ DoSettle)
Next == IF Kind = "laws" THEN UNCHANGED vars ELSE NextSettle
Spec == Init /\ [][Next]_vars
View == <<c, s, depth>>

(* ---- laws ---- *)
LMons == Kind = "laws" => \A e \in EvsOf(c) :
  MonFormula(e) /\ MonIncrease(e) /\ MonDecrease(e) /\ MonClamp(e) /\ MonRecord(e) /\ Conforms(e)
(* the fee is never under-collected and over-collects by less than one token *)
LNeverUnder == (Kind = "laws" /\ c.f # 0 /\ c.pmin > 0) =>
  LET r == Compute(c.size, c.f, c.pmin) IN r.ok => (r.v * c.pmin >= (c.size * c.f) \div Unit /\ (r.v - 1) * c.pmin < (c.size * c.f) \div Unit)

(* ---- settlement ---- *)
(* transfers exactly min(recorded, escrow): at most the recorded amount, never more than the escrow holds;
   then zeroes the record; repeating it is a no-op *)
SettleOK(a) ==
  a.op = "settle" =>
    /\ a.moved = Min(a.pre.recorded, a.pre.escrow)
    /\ a.moved <= a.pre.recorded /\ a.moved <= a.pre.escrow
    /\ a.post.recorded = 0
    /\ a.post.escrow = a.pre.escrow - a.moved /\ a.post.vault = a.pre.vault + a.moved
    /\ Settle(a.post) = [s |-> a.post, moved |-> 0]            \* a second settlement transfers nothing, changes nothing
PSettle == [][SettleOK(act')]_vars
InvNonNeg == s.escrow >= 0 /\ s.recorded >= 0 /\ s.vault >= 0
=============================================================================
