----------------------------- MODULE MarketView -----------------------------
(* C40.  One Market account image, two readers.

   An image b (the part of the account that the duplicated, hand-written code interprets):
     mflags   set of bit positions set in Market.flags          cflags  ... in MarketConfig.flag
     cfg      config field name -> value                         pools   pool kind -> [pure, l, s]

   Prog* is transcribed from the program (crates/utils/src/market.rs flag enums,
   programs/store/src/states/market/{config,model,pool}.rs), Sdk* from the SDK's re-declaration
   (crates/programs/src/model/{market,pool}.rs).  Both produce the same abstract view record: pools by
   accessor and side, parameters by accessor and side, flags.  The property is  ProgView(b) = SdkView(b). *)
EXTENDS Integers, FiniteSets

(* ---- bit orders of the flag enums: declared twice in the code ---- *)
ProgMarketFlag == [enabled |-> 0, pure |-> 1, adl_long |-> 2, adl_short |-> 3, gt |-> 4, closed |-> 5]
SdkMarketFlag  == [enabled |-> 0, pure |-> 1, adl_long |-> 2, adl_short |-> 3, gt |-> 4, closed |-> 5]
ProgConfigFlag == [skip_borrowing |-> 0, ignore_oi |-> 1, enable_closed |-> 2, closed_skip_borrowing |-> 3]
SdkConfigFlag  == [skip_borrowing |-> 0, ignore_oi |-> 1, enable_closed |-> 2, closed_skip_borrowing |-> 3]

CeilHalf(t)  == (t + 1) \div 2
FloorHalf(t) == t \div 2
(* Balance for Pool (both pool.rs): a pure pool keeps the total in long_token_amount *)
PoolLong(p)  == IF p.pure THEN CeilHalf(p.l) ELSE p.l
PoolShort(p) == IF p.pure THEN FloorHalf(p.l) ELSE p.s
(* Pool::apply_delta_to_long/short_amount *)
ApplyLong(p, d)  == [p EXCEPT !.l = p.l + d]
ApplyShort(p, d) == IF p.pure THEN [p EXCEPT !.l = p.l + d] ELSE [p EXCEPT !.s = p.s + d]

Side(is_long, l, s) == IF is_long THEN l ELSE s

(* ---- program ---- *)
ProgFlag(b, f)  == ProgMarketFlag[f] \in b.mflags
ProgCFlag(b, f) == ProgConfigFlag[f] \in b.cflags
ProgUseClosed(b) == ProgFlag(b, "closed") /\ ProgCFlag(b, "enable_closed")
ProgView(b) ==
  LET c == b.cfg
      closed == ProgUseClosed(b)
      pool(k) == <<PoolLong(b.pools[k]), PoolShort(b.pools[k])>> IN
  [ flags |-> [f \in DOMAIN ProgMarketFlag |-> ProgFlag(b, f)],
    primary |-> pool("primary"), swap_impact |-> pool("swap_impact"), claimable_fee |-> pool("claimable_fee"),
    position_impact |-> pool("position_impact"), borrowing_factor |-> pool("borrowing_factor"),
    total_borrowing |-> pool("total_borrowing"),
    open_interest |-> [l \in BOOLEAN |-> pool(Side(l, "open_interest_for_long", "open_interest_for_short"))],
    open_interest_in_tokens |-> [l \in BOOLEAN |-> pool(Side(l, "open_interest_in_tokens_for_long", "open_interest_in_tokens_for_short"))],
    collateral_sum |-> [l \in BOOLEAN |-> pool(Side(l, "collateral_sum_for_long", "collateral_sum_for_short"))],
    funding_amount_per_size |-> [l \in BOOLEAN |-> pool(Side(l, "funding_amount_per_size_for_long", "funding_amount_per_size_for_short"))],
    claimable_funding_amount_per_size |-> [l \in BOOLEAN |-> pool(Side(l, "claimable_funding_amount_per_size_for_long", "claimable_funding_amount_per_size_for_short"))],
    max_pool_amount |-> [l \in BOOLEAN |-> Side(l, c.max_pool_amount_for_long_token, c.max_pool_amount_for_short_token)],
    max_pool_value_for_deposit |-> [l \in BOOLEAN |-> Side(l, c.max_pool_value_for_deposit_for_long_token, c.max_pool_value_for_deposit_for_short_token)],
    max_open_interest |-> [l \in BOOLEAN |-> Side(l, c.max_open_interest_for_long, c.max_open_interest_for_short)],
    min_collateral_factor_for_oi_multiplier |-> [l \in BOOLEAN |-> Side(l, c.min_collateral_factor_for_open_interest_multiplier_for_long, c.min_collateral_factor_for_open_interest_multiplier_for_short)],
    pnl_deposit |-> [l \in BOOLEAN |-> Side(l, c.max_pnl_factor_for_long_deposit, c.max_pnl_factor_for_short_deposit)],
    pnl_withdrawal |-> [l \in BOOLEAN |-> Side(l, c.max_pnl_factor_for_long_withdrawal, c.max_pnl_factor_for_short_withdrawal)],
    pnl_trader |-> [l \in BOOLEAN |-> Side(l, c.max_pnl_factor_for_long_trader, c.max_pnl_factor_for_short_trader)],
    pnl_adl |-> [l \in BOOLEAN |-> Side(l, c.max_pnl_factor_for_long_adl, c.max_pnl_factor_for_short_adl)],
    pnl_min_after_adl |-> [l \in BOOLEAN |-> Side(l, c.min_pnl_factor_after_long_adl, c.min_pnl_factor_after_short_adl)],
    borrowing_factor_param |-> [l \in BOOLEAN |-> Side(l, c.borrowing_fee_factor_for_long, c.borrowing_fee_factor_for_short)],
    borrowing_exponent |-> [l \in BOOLEAN |-> Side(l, c.borrowing_fee_exponent_for_long, c.borrowing_fee_exponent_for_short)],
    borrowing_optimal_usage |-> [l \in BOOLEAN |-> Side(l, c.borrowing_fee_optimal_usage_factor_for_long, c.borrowing_fee_optimal_usage_factor_for_short)],
    borrowing_base |-> [l \in BOOLEAN |-> IF closed THEN c.market_closed_borrowing_fee_base_factor
                                           ELSE Side(l, c.borrowing_fee_base_factor_for_long, c.borrowing_fee_base_factor_for_short)],
    borrowing_above_optimal |-> [l \in BOOLEAN |-> IF closed THEN c.market_closed_borrowing_fee_above_optimal_usage_factor
                                           ELSE Side(l, c.borrowing_fee_above_optimal_usage_factor_for_long, c.borrowing_fee_above_optimal_usage_factor_for_short)],
    skip_borrowing_fee_for_smaller_side |-> IF closed THEN ProgCFlag(b, "closed_skip_borrowing") ELSE ProgCFlag(b, "skip_borrowing"),
    ignore_open_interest_for_usage_factor |-> ProgCFlag(b, "ignore_oi"),
    (* 0 stands for None *)
    min_collateral_factor_for_liquidation |-> IF closed THEN c.market_closed_min_collateral_factor_for_liquidation
                                              ELSE c.min_collateral_factor_for_liquidation ]

(* ---- SDK ---- *)
SdkFlag(b, f)  == SdkMarketFlag[f] \in b.mflags
SdkCFlag(b, f) == SdkConfigFlag[f] \in b.cflags
SdkUseClosed(b) == SdkFlag(b, "closed") /\ SdkCFlag(b, "enable_closed")
SdkView(b) ==
  LET c == b.cfg
      closed == SdkUseClosed(b)
      pool(k) == <<PoolLong(b.pools[k]), PoolShort(b.pools[k])>> IN
  [ flags |-> [f \in DOMAIN SdkMarketFlag |-> SdkFlag(b, f)],
    primary |-> pool("primary"), swap_impact |-> pool("swap_impact"), claimable_fee |-> pool("claimable_fee"),
    position_impact |-> pool("position_impact"), borrowing_factor |-> pool("borrowing_factor"),
    total_borrowing |-> pool("total_borrowing"),
    open_interest |-> [l \in BOOLEAN |-> pool(IF l THEN "open_interest_for_long" ELSE "open_interest_for_short")],
    open_interest_in_tokens |-> [l \in BOOLEAN |-> pool(IF l THEN "open_interest_in_tokens_for_long" ELSE "open_interest_in_tokens_for_short")],
    collateral_sum |-> [l \in BOOLEAN |-> pool(IF l THEN "collateral_sum_for_long" ELSE "collateral_sum_for_short")],
    funding_amount_per_size |-> [l \in BOOLEAN |-> pool(IF l THEN "funding_amount_per_size_for_long" ELSE "funding_amount_per_size_for_short")],
    claimable_funding_amount_per_size |-> [l \in BOOLEAN |-> pool(IF l THEN "claimable_funding_amount_per_size_for_long" ELSE "claimable_funding_amount_per_size_for_short")],
    max_pool_amount |-> [l \in BOOLEAN |-> IF l THEN c.max_pool_amount_for_long_token ELSE c.max_pool_amount_for_short_token],
    max_pool_value_for_deposit |-> [l \in BOOLEAN |-> IF l THEN c.max_pool_value_for_deposit_for_long_token ELSE c.max_pool_value_for_deposit_for_short_token],
    max_open_interest |-> [l \in BOOLEAN |-> IF l THEN c.max_open_interest_for_long ELSE c.max_open_interest_for_short],
    min_collateral_factor_for_oi_multiplier |-> [l \in BOOLEAN |-> IF l THEN c.min_collateral_factor_for_open_interest_multiplier_for_long ELSE c.min_collateral_factor_for_open_interest_multiplier_for_short],
    pnl_deposit |-> [l \in BOOLEAN |-> IF l THEN c.max_pnl_factor_for_long_deposit ELSE c.max_pnl_factor_for_short_deposit],
    pnl_withdrawal |-> [l \in BOOLEAN |-> IF l THEN c.max_pnl_factor_for_long_withdrawal ELSE c.max_pnl_factor_for_short_withdrawal],
    pnl_trader |-> [l \in BOOLEAN |-> IF l THEN c.max_pnl_factor_for_long_trader ELSE c.max_pnl_factor_for_short_trader],
    pnl_adl |-> [l \in BOOLEAN |-> IF l THEN c.max_pnl_factor_for_long_adl ELSE c.max_pnl_factor_for_short_adl],
    pnl_min_after_adl |-> [l \in BOOLEAN |-> IF l THEN c.min_pnl_factor_after_long_adl ELSE c.min_pnl_factor_after_short_adl],
    borrowing_factor_param |-> [l \in BOOLEAN |-> IF l THEN c.borrowing_fee_factor_for_long ELSE c.borrowing_fee_factor_for_short],
    borrowing_exponent |-> [l \in BOOLEAN |-> IF l THEN c.borrowing_fee_exponent_for_long ELSE c.borrowing_fee_exponent_for_short],
    borrowing_optimal_usage |-> [l \in BOOLEAN |-> IF l THEN c.borrowing_fee_optimal_usage_factor_for_long ELSE c.borrowing_fee_optimal_usage_factor_for_short],
    borrowing_base |-> [l \in BOOLEAN |-> CASE closed -> c.market_closed_borrowing_fee_base_factor
                                            [] ~closed /\ l -> c.borrowing_fee_base_factor_for_long
                                            [] ~closed /\ ~l -> c.borrowing_fee_base_factor_for_short],
    borrowing_above_optimal |-> [l \in BOOLEAN |-> CASE closed -> c.market_closed_borrowing_fee_above_optimal_usage_factor
                                            [] ~closed /\ l -> c.borrowing_fee_above_optimal_usage_factor_for_long
                                            [] ~closed /\ ~l -> c.borrowing_fee_above_optimal_usage_factor_for_short],
    skip_borrowing_fee_for_smaller_side |-> IF closed THEN SdkCFlag(b, "closed_skip_borrowing") ELSE SdkCFlag(b, "skip_borrowing"),
    ignore_open_interest_for_usage_factor |-> SdkCFlag(b, "ignore_oi"),
    min_collateral_factor_for_liquidation |-> IF closed THEN c.market_closed_min_collateral_factor_for_liquidation
                                              ELSE c.min_collateral_factor_for_liquidation ]
=============================================================================
