---------------------------- MODULE Trace_Discount ----------------------------
EXTENDS DiscountProps, TraceLib
VARIABLE i
Init == i = 0
Next ==
  /\ i < NRec
  /\ i' = i + 1
  /\ LET e == Rec[i'] IN
       CASE e.op = "query" ->
              /\ Judge(i', << <<"NoPanic", MonNoPanic(e)>>, <<"Range", MonRange(e)>>, <<"Referred", MonReferred(e)>>,
                              <<"Formula", MonFormula(e)>>, <<"RankLimit", MonRankLimit(e)>>, <<"Sdk", MonSdk(e)>> >>)
              /\ Drift(i', ConformsQuery(e), "query")
         [] e.op = "set" ->
              /\ Judge(i', << <<"SetCap", MonSetCap(e)>> >>)
              /\ Drift(i', ConformsSet(e), "set")
Spec == Init /\ [][Next]_i
Done == Emit("DONE", [events |-> TLCGet("stats").diameter - 1])
=============================================================================
