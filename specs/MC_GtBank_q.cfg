SPECIFICATION Spec
CONSTANTS
  NTok = 2
  BMax = 8
  NCl = 3
  GMax = 4
VIEW View
INVARIANTS BadFails Conservation FloorShare Drained FactorsOk
PROPERTIES StepMon
CHECK_DEADLOCK FALSE
