SPECIFICATION Spec
CONSTANTS
  MaxRepr = 2147483647
  MaxScale = 28
  MaxU = 2147483647
  MaxI = 2147483647
  AmtMax = 2147483647
  AmtScale = 19
  PowMax = 38
POSTCONDITION Done
CHECK_DEADLOCK FALSE
