SPECIFICATION Spec
CONSTANTS
  NB = 2
  NA = 2
  Delays = {1, 2}
  Depth = 6
  PrintPaths = TRUE
VIEW View
INVARIANTS NoBadShape PathOut
PROPERTIES StepMon
CHECK_DEADLOCK FALSE
