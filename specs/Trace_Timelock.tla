---------------------------- MODULE Trace_Timelock ----------------------------
EXTENDS TimelockProps, TraceLib
VARIABLE i
(* JSON has no sets: holds arrives as a sequence *)
FixS(st) == [st EXCEPT !.holds = {st.holds[k] : k \in DOMAIN st.holds}]
Fix(e)   == [e EXCEPT !.pre = FixS(e.pre), !.post = FixS(e.post)]
Init == i = 0
Next ==
  /\ i < NRec
  /\ i' = i + 1
  /\ LET e == Fix(Rec[i']) IN
       /\ Judge(i', << <<"NoPanic", ~e.panic>>, <<"Execute", MonExecute(e)>>, <<"Approve", MonApprove(e)>>,
                       <<"ApprovalStable", MonApprovalStable(e)>>, <<"Delay", MonDelay(e)>>,
                       <<"NoRerun", MonNoRerun(e)>>, <<"Delivered", MonDelivered(e)>>,
                       <<"Signer", MonSigner(e)>>, <<"Failed", MonFailed(e)>> >>)
       /\ Drift(i', ~e.panic /\ Conforms(e), e.op)
Spec == Init /\ [][Next]_i
Done == Emit("DONE", [events |-> TLCGet("stats").diameter - 1])
=============================================================================
