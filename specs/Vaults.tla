------------------------------- MODULE Vaults -------------------------------
(* Recorded market balances versus the shared market vaults (store program):
   states/market/revertible/market.rs (record_transferred_in/out), ops/market.rs (MarketTransferIn /
   MarketTransferOut operations), states/market/revertible/swap_market.rs (hops between markets
   that share a vault), states/market/utils.rs (validate_market_balances), instructions/market.rs
   (market_transfer_in, claim_fees_from_market).

   Meta M: [market -> [long, short]] (token labels); a market is pure when long = short.
   A state s:
     bal[m]   [long, short]  OtherState.long_token_balance / short_token_balance: the tokens of the
                             shared vaults attributed to market m (pure markets use `long` only)
     liq[m], imp[m], fee[m]  [long, short]  primary pool, swap impact pool, claimable fee pool amounts
     col[m]   [long, short]  total position collateral (collateral-sum pools of both position sides)
     vault[t]                amount held by the market vault token account of token t
   Every vault movement of the program is paired with record_transferred_in / _out of exactly one
   market, and a hop moves an amount from the recorded balance of one market to the next one without
   touching the vault.  The operators below are that routing; how much of an incoming amount lands
   in which POOL (fees, impact) is market arithmetic specified elsewhere - here it is a parameter
   constrained only by "what comes in is distributed over the pools, what goes out is taken from
   the liquidity pool". *)
EXTENDS Integers, FiniteSets

Sides == {"long", "short"}
Pure(M, m) == M[m].long = M[m].short
Tok(M, m, side) == IF side = "long" THEN M[m].long ELSE M[m].short
(* the balance field a token of market m is recorded in *)
BalSide(M, m, side) == IF Pure(M, m) THEN "long" ELSE side
Other(side) == IF side = "long" THEN "short" ELSE "long"

Zero2 == [long |-> 0, short |-> 0]
InitState(Ms, Ts) ==
  [bal |-> [m \in Ms |-> Zero2], liq |-> [m \in Ms |-> Zero2], imp |-> [m \in Ms |-> Zero2],
   fee |-> [m \in Ms |-> Zero2], col |-> [m \in Ms |-> Zero2], vault |-> [t \in Ts |-> 0]]

(* ---- routing primitives ---- *)
RecordIn(s, M, m, side, a)  == [s EXCEPT !.bal[m][BalSide(M, m, side)] = @ + a]
RecordOut(s, M, m, side, a) == [s EXCEPT !.bal[m][BalSide(M, m, side)] = @ - a]
VaultIn(s, t, a)  == [s EXCEPT !.vault[t] = @ + a]
VaultOut(s, t, a) == [s EXCEPT !.vault[t] = @ - a]
CanRecordOut(s, M, m, side, a) == s.bal[m][BalSide(M, m, side)] >= a

(* MarketTransferInOperation: token transfer into the vault + record_transferred_in, committed *)
TransferIn(s, M, m, side, a)  == RecordIn(VaultIn(s, Tok(M, m, side), a), M, m, side, a)
(* MarketTransferOutOperation *)
TransferOut(s, M, m, side, a) == RecordOut(VaultOut(s, Tok(M, m, side), a), M, m, side, a)

(* ---- instruction kinds (design level; f = the part of the input that becomes a claimable fee) ---- *)
(* executed deposit of `a` of one side *)
Deposit(s, M, m, side, a, f) ==
  LET s1 == TransferIn(s, M, m, side, a) IN
  [s1 EXCEPT !.liq[m][side] = @ + (a - f), !.fee[m][side] = @ + f]

(* executed withdrawal paying out `o` of one side *)
CanWithdraw(s, m, side, o) == s.liq[m][side] >= o
Withdraw(s, M, m, side, o) ==
  TransferOut([s EXCEPT !.liq[m][side] = @ - o], M, m, side, o)

(* one swap step inside market m: x of `side` in, y of the other side out (pools only) *)
CanHop(s, m, side, y) == s.liq[m][Other(side)] >= y
Hop(s, m, side, x, f, y) ==
  [s EXCEPT !.liq[m][side] = @ + (x - f), !.fee[m][side] = @ + f, !.liq[m][Other(side)] = @ - y]

(* swap order over one market: vault -> m -> vault *)
Swap1(s, M, m, side, x, f, y) ==
  TransferOut(Hop(TransferIn(s, M, m, side, x), m, side, x, f, y), M, m, Other(side), y)

(* swap order over two markets sharing the middle token: the amount y1 hops from m1 to m2 *)
Swap2(s, M, m1, side1, m2, side2, x, f, y1, y2) ==
  LET a == Hop(TransferIn(s, M, m1, side1, x), m1, side1, x, f, y1)
      b == RecordIn(RecordOut(a, M, m1, Other(side1), y1), M, m2, side2, y1)
      c == Hop(b, m2, side2, y1, 0, y2)
  IN TransferOut(c, M, m2, Other(side2), y2)

(* shift: o of one side leaves m1's pool and recorded balance for m2's, the vault is not touched *)
Shift(s, M, m1, m2, side, o) ==
  LET a == RecordOut([s EXCEPT !.liq[m1][side] = @ - o], M, m1, side, o) IN
  RecordIn([a EXCEPT !.liq[m2][side] = @ + o], M, m2, side, o)

(* claim_fees_from_market: the whole claimable fee of one side leaves the pool, the balance, the vault *)
ClaimFees(s, M, m, side) ==
  LET f == s.fee[m][side] IN TransferOut([s EXCEPT !.fee[m][side] = 0], M, m, side, f)

(* position collateral in / out (increase / decrease orders) *)
CollateralIn(s, M, m, side, c)  == [TransferIn(s, M, m, side, c) EXCEPT !.col[m][side] = @ + c]
CollateralOut(s, M, m, side, c) == TransferOut([s EXCEPT !.col[m][side] = @ - c], M, m, side, c)

(* somebody sends tokens straight to a vault token account (not an instruction of the program) *)
Donate(s, t, a) == VaultIn(s, t, a)

(* ---- observations used by monitors and conformance ---- *)
Need(s, m, side) == s.liq[m][side] + s.imp[m][side] + s.fee[m][side]
BalOf(s, M, m, t) == (IF M[m].long = t THEN s.bal[m].long ELSE 0) + (IF M[m].short = t THEN s.bal[m].short ELSE 0)
SumOver(S, F(_)) ==
  LET R[B \in SUBSET S] == IF B = {} THEN 0 ELSE LET x == CHOOSE y \in B : TRUE IN F(x) + R[B \ {x}]
  IN R[S]
Attributed(s, M, t) == SumOver(DOMAIN M, LAMBDA m : BalOf(s, M, m, t))
MarketView(s, m) == [bal |-> s.bal[m], liq |-> s.liq[m], imp |-> s.imp[m], fee |-> s.fee[m], col |-> s.col[m]]
=============================================================================
