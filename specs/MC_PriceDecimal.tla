--------------------------- MODULE MC_PriceDecimal ---------------------------
(* Bounded exhaustive check, on a scaled copy (MaxDecimals = 3, value type 0..255, price type
   0..4095), that the division-based operators of PriceDecimal mean what the property says:
   the returned value/unit price is the exact rational price truncated to the precision (bracket
   laws written by cross-multiplication), failure exactly when the decimals are illegal or the
   truncated value is not representable.  All (p, d, td, prec) incl. illegal decimals (MaxDecimals+1). *)
EXTENDS PriceDecimalProps, TLC
VARIABLES p, d, td, prec
vars == <<p, d, td, prec>>

ASSUME MaxPrice \div Pow10(PriceDigits - 1) < 10      \* MaxPrice < 10^PriceDigits
ASSUME MaxValue <= MaxPrice

Dec == 0..(MaxDecimals + 1)
Init == p \in 0..MaxPrice /\ d \in Dec /\ td \in Dec /\ prec \in Dec
Next == UNCHANGED vars

LFromPrice ==
  LET r == TryFromPrice(p, d, td, prec) IN
  /\ r.ok => /\ Legal(d, td, prec)
             /\ r.value <= MaxValue
             /\ r.dm = MaxDecimals - td - prec /\ r.dm >= 0
             /\ r.value * Pow10(d) <= p * Pow10(prec)             \* never rounds up
             /\ p * Pow10(prec) < (r.value + 1) * Pow10(d)        \* off by less than one step
  /\ ~r.ok => \/ ~Legal(d, td, prec)
              \/ (MaxValue + 1) * Pow10(d) <= p * Pow10(prec)     \* truncated value not representable

(* the same on the unit price: unit <= exact < unit + 10^dm, exact = p * 10^(MaxDecimals - d - td) *)
LUnitBracket ==
  LET r == TryFromPrice(p, d, td, prec)
      u == ToUnitPrice(r.value, r.dm) IN
  r.ok => /\ u * Pow10(d + td) <= p * Pow10(MaxDecimals)
          /\ p * Pow10(MaxDecimals) < (u + Pow10(r.dm)) * Pow10(d + td)

(* monitors agree with the operator on its own results (calibration of the monitors) *)
Ev(r) == [op |-> "from_price", p |-> p, d |-> d, td |-> td, prec |-> prec, ru |-> FALSE, dm |-> r.dm,
          ok |-> r.ok, value |-> r.value, unit |-> IF r.ok THEN ToUnitPrice(r.value, r.dm) ELSE 0,
          panic |-> FALSE]
LMonitors == LET e == Ev(TryFromPrice(p, d, td, prec)) IN MonAll(e) /\ Conforms(e)
(* ... and reject a result that is one step too high or too low, or a refusal of a representable price *)
LMonitorsSharp ==
  LET r == TryFromPrice(p, d, td, prec) IN
  r.ok => /\ ~MonTruncates(Ev([r EXCEPT !.value = r.value + 1]))
          /\ (r.value > 0 => ~MonTruncates(Ev([r EXCEPT !.value = r.value - 1])))
          /\ ~MonYields(Ev(DFail))
          /\ ~MonBracket([Ev(r) EXCEPT !.value = r.value + 1, !.unit = ToUnitPrice(r.value + 1, r.dm)])

(* with_unit_price: dm := d, price := p *)
LWithUnit ==
  LET dm == d
      f == WithUnitPrice(dm, p, FALSE)
      c == WithUnitPrice(dm, p, TRUE) IN
  /\ f.ok => f.value * Pow10(dm) <= p /\ p < (f.value + 1) * Pow10(dm) /\ f.value <= MaxValue
  /\ ~f.ok => (MaxValue + 1) * Pow10(dm) <= p
  /\ c.ok => (c.value = 0 \/ (c.value - 1) * Pow10(dm) < p) /\ p <= c.value * Pow10(dm) /\ c.value <= MaxValue
  /\ ~c.ok => MaxValue * Pow10(dm) < p
  /\ (p <= MaxValue /\ MulFits(p, dm, MaxPrice)) =>
        /\ WithUnitPrice(dm, ToUnitPrice(p, dm), FALSE) = DOk(p, dm)       \* round trip
        /\ WithUnitPrice(dm, ToUnitPrice(p, dm), TRUE) = DOk(p, dm)

(* convert_to_u128_storage on a number wider than the price type: num := 37 * p, decimals := d *)
LToU128 ==
  LET num == 37 * p
      r == ToU128Storage(num, d) IN
  /\ r.ok => /\ r.value <= MaxPrice /\ r.dm <= d /\ r.dm >= 0
             /\ r.value = num \div Pow10(d - r.dm)                 \* pure truncation
             /\ MonToU128([Ev(r) EXCEPT !.op = "to_u128", !.p = num, !.d = d])
  /\ ~r.ok => num > MaxPrice * Pow10(d)                            \* too wide even after dropping d digits
  /\ ToU128Rel(num, d, r.ok, r.value, r.dm)                        \* relational form agrees ...
  /\ r.ok => /\ ~ToU128Rel(num, d, FALSE, 0, 0)                    \* ... and is functional
             /\ (r.dm > 0 => ~ToU128Rel(num, d, TRUE, num \div Pow10(d - r.dm + 1), r.dm - 1))
             /\ (r.dm < d => ~ToU128Rel(num, d, TRUE, num \div Pow10(d - r.dm - 1), r.dm + 1))

(* pyth: exponent x := d - 2 (negative, zero and positive), value := p *)
LPyth ==
  LET x == d - 2
      r == PythPrecise(p, x, td, prec) IN
  r.ok => /\ Legal(0, td, prec)
          /\ IF x <= 0 THEN r.value * Pow10(-x) <= p * Pow10(prec) /\ p * Pow10(prec) < (r.value + 1) * Pow10(-x)
                       ELSE r.value = p * Pow10(x + prec)
          /\ MonPyth([Ev(r) EXCEPT !.op = "pyth", !.d = x])
=============================================================================
