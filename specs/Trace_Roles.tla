----------------------------- MODULE Trace_Roles -----------------------------
(* C18: walks the trace recorded from the real Store.  Events come in depth-first order over a
   prefix trie of operation sequences: `depth` says where the operation sits in its sequence
   (0 = a fresh store was created), so the state to continue from is the one remembered at
   depth-1 on the stack - for a linear history depth is just 1, 2, 3, ...
   Each stack entry keeps the ghost (history) state g, the specification's state s (for
   conformance) and the previous observation o. *)
EXTENDS RolesProps, TraceLib
VARIABLES i, stk
vars == <<i, stk>>
Init == i = 0 /\ stk = <<>>

Entry(e) ==
  IF e.depth = 0
  THEN [s |-> InitState(e.cap_roles, e.cap_members, e.authority), g |-> Ghost0, o |-> e.obs,
        ok |-> TRUE, err |-> "", first |-> TRUE, g0 |-> Ghost0, o0 |-> e.obs]
  ELSE LET prev == stk[e.depth]
           res  == Step(prev.s, e.op, e.a, e.r)
       IN [s |-> res.s, g |-> GhostNext(prev.g, e), o |-> e.obs, ok |-> res.ok, err |-> res.err,
           first |-> FALSE, g0 |-> prev.g, o0 |-> prev.o]

Next ==
  /\ i < NRec
  /\ i' = i + 1
  /\ LET e == Rec[i']
         n == Entry(e)
         A == DOMAIN e.obs.member
         R == DOMAIN e.obs.role
     IN \* all variables are assigned BEFORE the reporting conjuncts: TLC then evaluates those as
        \* plain predicates (short-circuit "holds \/ Emit") instead of branching on the disjunction
        /\ stk' = SubSeq(stk, 1, e.depth) \o << [s |-> n.s, g |-> n.g, o |-> n.o] >>
        /\ Judge(i', << <<"NoPanic", ~e.panic>> >> \o StateMonitors(n.g, e.obs, e.authority)
                        \o StepMonitors(n.g0, e, n.o0, e.obs, e.cap_roles, e.cap_members))
        /\ Drift(i', e.ok = n.ok /\ e.err = n.err /\ e.obs = Obs(n.s, A, R), e.op)
Spec == Init /\ [][Next]_vars
Done == Emit("DONE", [events |-> TLCGet("stats").diameter - 1])
=============================================================================
