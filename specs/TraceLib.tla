------------------------------ MODULE TraceLib ------------------------------
(* Shared by every trace specification: the recorded ndjson trace of the real code
   (environment variable TRACE), a cursor, and the reporting channel to the glue.
   Monitor failures and conformance drift are *printed*, not raised, so that one TLC run judges
   the whole trace and the glue can separate known findings from new violations. *)
EXTENDS Integers, Sequences, TLC, Json, IOUtils

Rec == ndJsonDeserialize(IOEnv.TRACE)
NRec == Len(Rec)

Emit(tag, x) == PrintT(tag \o "|" \o ToJson(x))

(* mons: a sequence of <<name, holds>> pairs; prints one MONFAIL line per failing monitor *)
Judge(i, mons) ==
  \A k \in DOMAIN mons : mons[k][2] \/ Emit("MONFAIL", [i |-> i, mon |-> mons[k][1]])

(* conformance with the precise specification: never a violation, only counted *)
Drift(i, conforms, what) == conforms \/ Emit("DRIFT", [i |-> i, what |-> what])

Has(r, f) == f \in DOMAIN r
=============================================================================
