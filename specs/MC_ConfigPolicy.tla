--------------------------- MODULE MC_ConfigPolicy ---------------------------
(* Bounded model of ConfigPolicy: 3 real keys + 2 real flags, all `updatable` subsets, signers
   holding MARKET_KEEPER / MARKET_CONFIG_KEEPER / nothing, one buffer of <= 3 entries created
   expired-at-creation or 10 s in the future, time steps of 10 s (so expiry is before / at / after
   now).  Monitors are checked on every transition of the design; each distinct state is printed
   with a history that reaches it; the driver replays it through the real instructions and then
   attempts every operation of the action domain from that state. *)
EXTENDS ConfigPolicyProps, TLC, Json, SequencesExt

CONSTANTS MaxDepth

VARIABLES st, last, hist
vars == <<st, last, hist>>
View == st

Signers == {"mk", "mck", "none"}
RolesOf(x) == CASE x = "mk" -> {MK} [] x = "mck" -> {MCK} [] OTHER -> {}
KeySet  == {"swap_impact_exponent", "swap_impact_positive_factor", "swap_impact_negative_factor"}
FlagSet == {"skip_borrowing_fee_for_smaller_side", "ignore_open_interest_for_usage_factor"}
Default == "d"           \* the value / flag setting the market was created with

A(op, s, k, v, b, flag, es, n) ==
  [op |-> op, s |-> s, k |-> k, v |-> v, b |-> b, flag |-> flag, es |-> es, n |-> n]
E(k, v) == [k |-> k, v |-> v]
EntryLists ==
  {<<E(k, "7")>> : k \in KeySet}
    \cup {<<E("swap_impact_exponent", "7"), E("swap_impact_positive_factor", "8")>>}

Actions ==
  {A("update", s, k, v, FALSE, FALSE, <<>>, 0) : s \in Signers, k \in KeySet, v \in {"1", "2"}}
    \cup {A("update_flag", s, f, "", b, TRUE, <<>>, 0) : s \in Signers, f \in FlagSet, b \in BOOLEAN}
    \cup {A("set_updatable", s, k, "", b, FALSE, <<>>, 0) : s \in Signers, k \in KeySet, b \in BOOLEAN}
    \cup {A("set_updatable", s, f, "", b, TRUE, <<>>, 0) : s \in Signers, f \in FlagSet, b \in BOOLEAN}
    \cup {A("init_buffer", s, "", "", FALSE, FALSE, <<>>, n) : s \in Signers, n \in {0, 10}}
    \cup {A("push_buffer", s, "", "", FALSE, FALSE, es, 0) : s \in Signers, es \in EntryLists}
    \cup {A("set_buffer_auth", s, x, "", FALSE, FALSE, <<>>, 0) : s \in Signers, x \in Signers}
    \cup {A("close_buffer", s, "", "", FALSE, FALSE, <<>>, 0) : s \in Signers}
    \cup {A("with_buffer", s, "", "", FALSE, FALSE, <<>>, 0) : s \in Signers}
    \cup {A("tick", "none", "", "", FALSE, FALSE, <<>>, 10)}

Init ==
  /\ st = [cfg |-> [k \in KeySet |-> Default], flg |-> [f \in FlagSet |-> FALSE], upd |-> {},
           buf |-> NoBuf, now |-> 1000, rest |-> "r"]
  /\ last = [a |-> A("init", "none", "", "", FALSE, FALSE, <<>>, 0), ok |-> TRUE]
  /\ hist = <<>>

Step(a) ==
  LET r == Apply(st, RolesOf(a.s), a) IN
  /\ st' = r.st
  /\ last' = [a |-> a, ok |-> r.ok]
  /\ hist' = IF r.ok THEN Append(hist, a) ELSE hist

DoUpdate       == \E a \in Actions : a.op = "update" /\ Step(a)
DoUpdateFlag   == \E a \in Actions : a.op = "update_flag" /\ Step(a)
DoSetUpdatable == \E a \in Actions : a.op = "set_updatable" /\ Step(a)
DoInitBuffer   == \E a \in Actions : a.op = "init_buffer" /\ Step(a)
DoPushBuffer   == \E a \in Actions : a.op = "push_buffer" /\ Len(st.buf.entries) + Len(a.es) <= 3 /\ Step(a)
DoSetBufAuth   == \E a \in Actions : a.op = "set_buffer_auth" /\ Step(a)
DoCloseBuffer  == \E a \in Actions : a.op = "close_buffer" /\ Step(a)
DoWithBuffer   == \E a \in Actions : a.op = "with_buffer" /\ Step(a)
DoTick         == \E a \in Actions : a.op = "tick" /\ st.now < 1030 /\ Step(a)

Next == DoUpdate \/ DoUpdateFlag \/ DoSetUpdatable \/ DoInitBuffer \/ DoPushBuffer \/ DoSetBufAuth
          \/ DoCloseBuffer \/ DoWithBuffer \/ DoTick

Bound == Len(hist) <= MaxDepth

StepOK ==
  LET a == last'.a  roles == RolesOf(last'.a.s)  ok == last'.ok IN
  /\ MonAuth(st, a, roles, ok)
  /\ MonBuffer(st, a, ok)
  /\ MonRejectUnchanged(st, a, ok, st')
  /\ MonFrame(st, a, ok, st')
  /\ MonMay(st, a, roles, ok)
  /\ ~ok => st' = st
StepProps == [][StepOK]_vars

(* the flag values of the model are the real flags' values relative to the creation default:
   printed as-is; the driver maps FALSE to "as created" *)
EmitPath == PrintT("T|" \o ToJson([path |-> hist, st |-> [st EXCEPT !.upd = SetToSeq(@)]]))
=============================================================================
