INIT Init
NEXT Next
CONSTANTS
  Keys = {1, 2, 3, 4, 5}
  Vals = {1, 2}
  Cap = 3
  MaxDepth = 7
VIEW View
ACTION_CONSTRAINT PrintPath
INVARIANTS TypeOK SeqAgrees MonitorsHold FullRejects
PROPERTY StepsOK
CHECK_DEADLOCK FALSE
