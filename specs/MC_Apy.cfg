INIT Init
NEXT Next
CONSTANTS
  BBase = 1048576
  BW = 7
  Week = 3
  TMax = 165
  Vals = {0, 1, 3}
  RMax = 10
  AMax = 6
  VMax = 12
INVARIANTS LAvg LReward LUnstake
CHECK_DEADLOCK FALSE
