INIT Init
NEXT Next
CONSTANTS
  BBase = 4
  BW = 3
INVARIANTS LRoundTrip LCmp LAdd LMin
CHECK_DEADLOCK FALSE
