--------------------------- MODULE Trace_TimelockRt ---------------------------
(* C36, instruction-level binding: trace validation of the REAL timelock + store programs executed by
   the in-process runtime (harness/h-runtime/src/bin/c36rt.rs) with a recording probe program as the
   callee.  Same event schema and the same monitors / precise actions as Trace_Timelock
   (TimelockProps, Timelock are reused unchanged); monitor names carry the prefix "rt.".
   `delivered` is what the probe program received: program id, the account metas with the signer /
   writable flags the CALLEE sees after the runtime's CPI privilege check, and the data. *)
EXTENDS TimelockProps, TraceLib
VARIABLE i
FixS(st) == [st EXCEPT !.holds = {st.holds[k] : k \in DOMAIN st.holds}]
Fix(e)   == [e EXCEPT !.pre = FixS(e.pre), !.post = FixS(e.post)]
Init == i = 0
Next ==
  /\ i < NRec
  /\ i' = i + 1
  /\ LET e == Fix(Rec[i']) IN
       /\ Judge(i', << <<"rt.NoPanic", ~e.panic>>, <<"rt.Execute", MonExecute(e)>>, <<"rt.Approve", MonApprove(e)>>,
                       <<"rt.ApprovalStable", MonApprovalStable(e)>>, <<"rt.Delay", MonDelay(e)>>,
                       <<"rt.NoRerun", MonNoRerun(e)>>, <<"rt.Delivered", MonDelivered(e)>>,
                       <<"rt.Signer", MonSigner(e)>>, <<"rt.Failed", MonFailed(e)>> >>)
       /\ Drift(i', ~e.panic /\ Conforms(e), "rt." \o e.op)
       /\ Drift(i', e.reset \/ i' = 1 \/ Rec[i' - 1].post = Rec[i'].pre, "rt.chain")
Spec == Init /\ [][Next]_i
Done == Emit("DONE", [events |-> TLCGet("stats").diameter - 1])
=============================================================================
