SPECIFICATION Spec
CONSTANTS
  Unit = 10
  MaxU = 2147483647
  MaxS = 2147483647
  NDep = 2
  NWd = 1
  NSwap = 1
  Amounts = {1, 3, 10, 25}
  Pairs = 1
  WdAmounts = {10}
  CfgIds = {3, 4, 11, 13}
  ScenIds = {1, 2}
  FixIds = {0}
  VaryPrices = FALSE
  EmitOps = {"deposit", "withdraw"}
INVARIANT MonitorsHold
CHECK_DEADLOCK FALSE
