--------------------------- MODULE FeedBigProps ---------------------------
(* C25, type-limit tier: the same update and the same monitors as Feed / FeedProps, evaluated by TLC on
   the REAL i64 / u64 / u128 values.  Every number of an event is a record [s, neg, l]: the decimal
   string (equality only) and the canonical limb form of BigNum (BBase = 2^20, BW = 7, most
   significant limb first), so that ordering and `now + excess` are computed here, not by the harness. *)
EXTENDS FeedProps, BigNum

N(x) == Big(x.neg, x.l)
I64Max == Big(FALSE, <<0, 0, 0, 7, 1048575, 1048575, 1048575>>)            \* 2^63 - 1 for BBase = 2^20, BW = 7
BLt(a, b) == BigLt(N(a), N(b))
BLe(a, b) == BigLe(N(a), N(b))
(* ts > now.saturating_add_unsigned(excess) *)
BExceeds(ts, now, ex) == BigLt(BigMin(BigAdd(N(now), N(ex)), I64Max), N(ts))
BUpdate(f, u) == UpdateG(f, u, BLt, BExceeds)

BValidPrice(f) == BLe(f.min, f.price) /\ BLe(f.price, f.max)
BMonTsMonotone(e) == BLe(e.pre.ts, e.post.ts)
BMonStoredValid(e) == BValidPrice(e.pre) => BValidPrice(e.post)
BClockSane(e) == BLe(e.pre.slot, e.slot) /\ BLe(e.pre.pub, e.now)
BMonIdemOlder(e) ==
  (e.idem /\ BLt(e.ts, e.pre.ts)) =>
     /\ e.res # "ok" /\ e.post = e.pre
     /\ BClockSane(e) => e.res = "skip"
(* MonRejectedUnchanged, MonSkipUnchanged, MonStoresRequest, MonNoPanic of FeedProps only use equality
   and apply unchanged (equal values have equal canonical records) *)
BWellFormed(e) ==
  \A x \in {e.pre.slot, e.pre.pub, e.pre.ts, e.pre.price, e.pre.min, e.pre.max, e.post.ts, e.post.price, e.post.min,
            e.post.max, e.post.slot, e.post.pub, e.price, e.min, e.max, e.ts, e.slot, e.now, e.excess} : IsBig(x)
BConforms(e) ==
  LET r == BUpdate(e.pre, Req(e)) IN
  ~e.panic /\ e.res = r.res /\ e.err = r.err /\ e.post = r.st
=============================================================================
