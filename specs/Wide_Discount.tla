---------------------------- MODULE Wide_Discount ----------------------------
(* Wide tier (Apalache, unbounded integers) for C31: the laws of DiscountProps on calls of the real
   Store::order_fee_discount_factor (program) and of the SDK copy, recorded at the real unit 10^20
   with arbitrary / boundary factors.  Flat events:
   [a (rank discount = factors[rank]), b (referral discount), referred, rank_ok (rank <= max_rank), ok, v, uok, uv (same rank,
   unreferred), sdk_ok, sdk]. *)
EXTENDS Discount, WideData
VARIABLES
  \* @type: Set(Int);
  bad,
  \* @type: Set(Int);
  badSdk,
  \* @type: Set(Int);
  drift
CInit20 == Unit = 100000000000000000000
\* @type: ({a: Int, b: Int, referred: Bool, rank_ok: Bool, ok: Bool, v: Int, uok: Bool, uv: Int, sdk_ok: Bool, sdk: Int}) => Bool;
EvOK(e) ==
  /\ e.ok => InRange(e.v)
  /\ (e.referred /\ e.ok /\ e.uok) => e.v >= e.uv
  /\ e.ok => (IF e.referred THEN WithinUlp(e.v, e.a, e.b) ELSE e.v = e.a)
  /\ ~e.rank_ok => ~e.ok
\* @type: ({a: Int, b: Int, referred: Bool, rank_ok: Bool, ok: Bool, v: Int, uok: Bool, uv: Int, sdk_ok: Bool, sdk: Int}) => Bool;
EvSdk(e) == e.sdk_ok = e.ok /\ (e.ok => e.sdk = e.v)
\* @type: ({a: Int, b: Int, referred: Bool, rank_ok: Bool, ok: Bool, v: Int, uok: Bool, uv: Int, sdk_ok: Bool, sdk: Int}) => Bool;
EvConf(e) ==
  LET r == IF ~e.rank_ok THEN Fail ELSE IF e.referred THEN Combine(e.a, e.b) ELSE Ok(e.a) IN e.ok = r.ok /\ (e.ok => e.v = r.v)
Init ==
  /\ bad    = {i \in DOMAIN Events : ~EvOK(Events[i])}
  /\ badSdk = {i \in DOMAIN Events : ~EvSdk(Events[i])}
  /\ drift  = {i \in DOMAIN Events : ~EvConf(Events[i])}
Next == UNCHANGED <<bad, badSdk, drift>>
AllClean == bad = {} /\ badSdk = {} /\ drift = {}
=============================================================================
