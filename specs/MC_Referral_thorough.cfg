INIT Init
NEXT Next
CONSTANTS
  Users = {"u1", "u2", "u3"}
  Codes = {"c1", "c2"}
  MaxDepth = 12
VIEW View
CONSTRAINT Bound
INVARIANTS InvNotSelf InvOneOwner EmitPath
PROPERTY StepProps
CHECK_DEADLOCK FALSE
