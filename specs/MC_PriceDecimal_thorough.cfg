INIT Init
NEXT Next
CONSTANTS
  MaxDecimals = 3
  MaxValue = 255
  MaxPrice = 8191
  PriceDigits = 4
  MaxU64 = 8191
INVARIANTS LFromPrice LUnitBracket LMonitors LMonitorsSharp LWithUnit LToU128 LPyth
CHECK_DEADLOCK FALSE
