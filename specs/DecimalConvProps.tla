-------------------------- MODULE DecimalConvProps --------------------------
(* C43 monitors.  An event is one conversion of the real code (or of the specification, in the
   bounded model), big values as decimal digit strings so that TLC only compares and concatenates:

     dir   "to":   integer -> Decimal -> integer with the same decimals (the round trip)
           "from": an arbitrary Decimal -> integer
     op    ufixed sfixed uvalue svalue uamount samount | from_amount from_value from_signed
     x, neg, d      the integer (magnitude digits, sign) and the decimals        (dir = "to")
     st             "some" | "none" | "panic"   result of the conversion to Decimal
     m, s, dneg     the Decimal: mantissa digits, scale, sign bit
     bst            "ok" | "err" | "panic" | "skip"   result of the conversion back
     back, bneg     the integer that came back
     small, xi, mi, bi   integer copies when everything fits TLC's integers (conformance only) *)
EXTENDS DecimalConv, TLC

RECURSIVE Zeros(_)
Zeros(k) == IF k <= 0 THEN "" ELSE "0" \o Zeros(k - 1)

(* the integer (digits, sign) taken with d decimals IS the decimal m / 10^s, exactly *)
SameValue(int, ineg, d, m, dneg, s) ==
  IF int = "0" THEN m = "0"
  ELSE /\ ineg = dneg
       /\ IF s <= d THEN int = m \o Zeros(d - s) ELSE m = int \o Zeros(s - d)

(* conversions never panic *)
MonNoPanic(e) == e.st # "panic" /\ e.bst # "panic"
(* a Decimal that is returned represents the integer exactly: nothing silently scaled or truncated *)
MonToExact(e) == (e.dir = "to" /\ e.st = "some") => SameValue(e.x, e.neg, e.d, e.m, e.dneg, e.s)
(* to Decimal and back with the same, supported decimals returns the original integer *)
MonRoundTrip(e) ==
  (e.dir = "to" /\ e.st = "some" /\ e.d <= MaxScale) =>
     e.bst = "ok" /\ e.back = e.x /\ (e.x # "0" => e.bneg = e.neg)
(* an integer that is returned for a Decimal represents it exactly, otherwise an error is reported *)
MonFromExact(e) == (e.dir = "from" /\ e.bst = "ok") => SameValue(e.back, e.bneg, e.d, e.m, e.dneg, e.s)

(* ---- conformance with DecimalConv on events whose values fit TLC's integers ---- *)
Expect(r) == IF r.st = "none" THEN Panic ELSE r                    \* `.expect("must be `Some`")`
SpecTo(e) ==
  LET n == IF e.neg THEN -e.xi ELSE e.xi IN
  CASE e.op = "ufixed"  -> UnsignedFixedToDec(e.xi, e.d)
    [] e.op = "sfixed"  -> SignedFixedToDec(n, e.d)
    [] e.op = "uvalue"  -> Expect(UnsignedFixedToDec(e.xi, e.d))
    [] e.op = "svalue"  -> Expect(SignedFixedToDec(n, e.d))
    [] e.op = "uamount" -> UnsignedAmountToDec(e.xi, e.d)
    [] e.op = "samount" -> SignedAmountToDec(n, e.d)
SpecBack(e, dec) ==
  CASE e.op \in {"ufixed", "uvalue", "from_value"}  -> DecToValue(dec, e.d)
    [] e.op \in {"uamount", "from_amount"}          -> DecToAmount(dec, e.d)
    [] OTHER                                         -> DecToSigned(dec, e.d)
BackConforms(e) ==
  LET b == SpecBack(e, Dec(e.dneg, e.mi, e.s)) IN
  /\ e.bst = (IF b.ok THEN "ok" ELSE IF b.panic THEN "panic" ELSE "err")
  /\ b.ok => b.v = (IF e.bneg THEN -e.bi ELSE e.bi)
Conforms(e) ==
  e.small =>
    IF e.dir = "to"
    THEN LET r == SpecTo(e) IN
         /\ r.st = e.st
         /\ r.st = "some" => /\ r.dec = Dec(e.dneg, e.mi, e.s)
                             /\ BackConforms(e)
    ELSE BackConforms(e)
=============================================================================
