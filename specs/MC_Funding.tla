------------------------------ MODULE MC_Funding ------------------------------
(* C12, design level: the precise NextFundingFactorPerSecond satisfies the rate monitors on the
   whole bounded domain -- all open-interest pairs 1..MaxOI (both sides non-empty), durations,
   parameter sets (non-adaptive; adaptive increase / no change / decrease; thresholds; min <= max
   and min > max, which must fail) and stored rates of either sign.  Unit = 10 (DECIMALS = 1).
   A sample of the domain is printed (T|...) and replayed on the real code by the driver
   (`hist replay`, op probe_funding), the whole domain is also enumerated by `hist grid`. *)
EXTENDS MarketHistProps, TLC, Json
CONSTANT MaxOI
VARIABLES oiL, oiS, dt, ps, st, phase
vars == <<oiL, oiS, dt, ps, st, phase>>

P(e, f, mx, mn, inc, dec, stb, dth) ==
  [f_exp |-> e, f_factor |-> f, f_max |-> mx, f_min |-> mn, f_inc |-> inc, f_dec |-> dec,
   f_stable |-> stb, f_decthr |-> dth]
(* the driver's presets fp = 0, 1, 2, 3, 5, 6, 7 at DECIMALS = 1 (replayed with explicit values) *)
ParamSets == <<
  P(10,  5, 2, 1, 0, 0, 0, 0),      \* non-adaptive, min configured but not applied
  P(20, 10, 1, 0, 0, 0, 0, 0),      \* non-adaptive, exponent 2, low max
  P(10,  5, 3, 1, 2, 0, 0, 0),      \* adaptive, increase only
  P(10,  5, 4, 0, 2, 1, 5, 3),      \* adaptive, increase / no change / decrease
  P(10,  5, 1, 2, 1, 0, 0, 0),      \* adaptive, min > max: must fail
  P(10,  3, 2, 1, 1, 1, 2, 1),      \* adaptive, slow
  P(10, 20, 5, 2, 0, 0, 0, 0) >>    \* non-adaptive, strong
Stored(p) == IF p.f_inc = 0 THEN {0}
             ELSE {-p.f_max - 1, -p.f_max, -1, 0, 1, p.f_max, p.f_max + 1}
Durations == {0, 1, 7, 100}

(* phase 0 fixes the long open interest only, so that the workers share the enumeration *)
Init == /\ oiL \in 1..MaxOI /\ oiS = 1 /\ dt = 0 /\ ps = 1 /\ st = 0 /\ phase = 0
Pick == /\ phase = 0 /\ phase' = 1 /\ UNCHANGED oiL
        /\ oiS' \in 1..MaxOI /\ dt' \in Durations
        /\ ps' \in 1..Len(ParamSets) /\ st' \in Stored(ParamSets[ps'])
Next == Pick

C   == ParamSets[ps]
Res == NextFundingFactorPerSecond(C, st, dt, oiL, oiS)
F   == [has |-> TRUE, dt |-> dt, L |-> oiL, S |-> oiS, ok |-> Res.ok, rate |-> Res.rate,
        lp |-> Res.lp, next |-> Res.next, stored |-> st]

InvRateBounds     == phase = 1 => C12_RateBounds(F, C)
InvLargerSidePays == phase = 1 => C12_LargerSidePays(F, C)
(* min > max is rejected exactly in adaptive mode; nothing else fails on this domain *)
InvMinMax == phase = 1 => (Res.ok <=> ~(C.f_inc > 0 /\ C.f_min > C.f_max))
(* the stored rate stays within the maximum (so the next period starts from a bounded value) *)
InvStored == (phase = 1 /\ Res.ok) => Abs(Res.next) <= C.f_max
(* non-adaptive mode really ignores the configured minimum: witnessed, not assumed *)
Sample == oiL \in {1, 2, 7, 20, MaxOI - 1, MaxOI} /\ oiS \in {1, 3, 7, 19, MaxOI}
InvEmit ==
  (phase = 1 /\ Sample) => PrintT("T|" \o ToJson([op |-> "probe_funding", L |-> oiL, S |-> oiS, dt |-> dt, stored |-> st,
                                   f_exp |-> C.f_exp, f_factor |-> C.f_factor, f_max |-> C.f_max,
                                   f_min |-> C.f_min, f_inc |-> C.f_inc, f_dec |-> C.f_dec,
                                   f_stable |-> C.f_stable, f_decthr |-> C.f_decthr,
                                   ch |-> Res.ch, ok |-> Res.ok, rate |-> Res.rate, lp |-> Res.lp,
                                   next |-> Res.next]))
=============================================================================
