------------------------------ MODULE RolesProps ------------------------------
(* C18 Role membership behaves like a set of grants gated by enabled roles.
   The property speaks about a history of operations, so its monitors compare what the code
   ANSWERS (the logged observation o = Obs of the real store) with a ghost state that is nothing but
   the history folded up:
     g.en        roles whose last successful enable/disable was an enable
     g.gr        (address, role) pairs granted successfully and not revoked successfully since
     g.known     roles that were ever enabled successfully (a role is never removed from the map)
     g.restarted a cluster restart happened and no successful update_last_restarted_slot since
   e is the event [op, a, r, ok, err, ...]; o0 / o1 the observations before / after. *)
EXTENDS Roles

Ghost0 == [en |-> {}, gr |-> {}, known |-> {}, restarted |-> FALSE]
GhostNext(g, e) ==
  IF ~e.ok THEN g
  ELSE CASE e.op = "enable"  -> [g EXCEPT !.en = g.en \cup {e.r}, !.known = g.known \cup {e.r}]
         [] e.op = "disable" -> [g EXCEPT !.en = g.en \ {e.r}]
         [] e.op = "grant"   -> [g EXCEPT !.gr = g.gr \cup {<<e.a, e.r>>}]
         [] e.op = "revoke"  -> [g EXCEPT !.gr = g.gr \ {<<e.a, e.r>>}]
         [] e.op = "restart" -> [g EXCEPT !.restarted = TRUE]
         [] e.op = "update"  -> [g EXCEPT !.restarted = FALSE]
         [] OTHER            -> g

Holds(g, a, r) == r \in g.en /\ <<a, r>> \in g.gr
WatchedA(o) == DOMAIN o.member
WatchedR(o) == DOMAIN o.role

(* an address holds a role exactly when the role is enabled and it was granted and not revoked *)
MonHas(g, o) ==
  \A a \in WatchedA(o), r \in WatchedR(o) : (o.rh[a][r] = "true") <=> Holds(g, a, r)

(* an address is a member iff it has at least one grant (its last revoke ends membership) *)
MonMember(g, o) ==
  \A a \in WatchedA(o) : o.member[a] <=> (\E p \in g.gr : p[1] = a)

(* Store::has_role: without a pending restart it is the plain answer; after a cluster restart only
   restart admins are authorised, for every role, and everybody else gets an error *)
MonStoreHas(g, o) ==
  \A a \in WatchedA(o), r \in WatchedR(o) :
    IF g.restarted
    THEN /\ (o.sh[a][r] = "true") <=> Holds(g, a, RestartAdmin)
         /\ o.sh[a][r] \in {"true", "err"}
    ELSE (o.sh[a][r] = "true") <=> Holds(g, a, r)

(* the store authority always remains an admin; anybody else only as restart admin after a restart *)
MonAdmin(g, o, authority) ==
  \A a \in WatchedA(o) :
    IF a = authority THEN o.admin[a] = "true"
    ELSE (o.admin[a] = "true") <=> (g.restarted /\ Holds(g, a, RestartAdmin))

(* granting an already-held role, revoking an absent one, enabling an enabled role must fail *)
MonMustFail(g0, e) ==
  /\ (e.op = "grant"  /\ <<e.a, e.r>> \in g0.gr)    => ~e.ok
  /\ (e.op = "revoke" /\ <<e.a, e.r>> \notin g0.gr) => ~e.ok
  /\ (e.op = "enable" /\ e.r \in g0.en)             => ~e.ok

(* "up to the 32-role and 64-member capacities": like a set, the store accepts a new role while
   fewer than capRoles roles are known, and a grant of an enabled role the address does not hold
   while the address is a member already or fewer than capMembers members exist *)
GhostMembers(g) == {p[1] : p \in g.gr}
MonCapacity(g0, e, capRoles, capMembers) ==
  /\ (e.op = "enable" /\ e.r \notin g0.known /\ Cardinality(g0.known) < capRoles) => e.ok
  /\ (e.op = "grant" /\ e.r \in g0.en /\ <<e.a, e.r>> \notin g0.gr
        /\ (e.a \in GhostMembers(g0) \/ Cardinality(GhostMembers(g0)) < capMembers)) => e.ok

(* ... and a failing grant / revoke / enable has no side effects *)
MonFailNoEffect(e, o0, o1) ==
  (~e.ok /\ e.op \in {"grant", "revoke", "enable"}) => o1 = o0

StateMonitors(g, o, authority) ==
  << <<"Has", MonHas(g, o)>>, <<"Member", MonMember(g, o)>>, <<"StoreHas", MonStoreHas(g, o)>>,
     <<"Admin", MonAdmin(g, o, authority)>> >>
StepMonitors(g0, e, o0, o1, capRoles, capMembers) ==
  << <<"MustFail", MonMustFail(g0, e)>>, <<"FailNoEffect", MonFailNoEffect(e, o0, o1)>>,
     <<"Capacity", MonCapacity(g0, e, capRoles, capMembers)>> >>
AllHold(mons) == \A k \in DOMAIN mons : mons[k][2]

(* the abstraction function: what the implementation-shaped state means *)
Abs(s) ==
  [en |-> {r \in DOMAIN s.roles : s.roles[r].en},
   gr |-> {p \in (DOMAIN s.members) \X (DOMAIN s.roles) : s.roles[p[2]].idx \in s.members[p[1]]},
   known |-> DOMAIN s.roles,
   restarted |-> HasRestarted(s)]
=============================================================================
