INIT Init
NEXT Next
VIEW View
CONSTANTS
  Levels = {1, 2, 3}
  MaxTs = 4
  MaxSlot = 1
  MaxNow = 3
  Excesses = {0, 1}
INVARIANTS InvValid
PROPERTIES PTsMonotone PStoredValid PRejectedUnchanged PSkipUnchanged PIdemOlder PStoresRequest PConforms
CHECK_DEADLOCK FALSE
