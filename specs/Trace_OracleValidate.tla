------------------------ MODULE Trace_OracleValidate ------------------------
(* Trace validation for C24 / C29: one file holds events of one kind (op). *)
EXTENDS OracleValidateProps, TraceLib
VARIABLE i
Init == i = 0
JudgeEv(k, e) ==
  CASE e.op = "batch" ->
         /\ Judge(k, << <<"NoPanic", MonNoPanic(e)>>, <<"WellFormed", MonBWellFormed(e)>>, <<"Fresh", MonBFresh(e)>>,
                        <<"InBand", MonBInBand(e)>>, <<"Spread", MonBSpread(e)>> >>)
         /\ Drift(k, ConformsBatch(e), e.err)
         /\ (~BatchAccepted(e) \/ Emit("STAT", [i |-> k, what |-> "accepted"]))
    [] e.op = "adjust" ->
         /\ Judge(k, << <<"NoPanic", MonNoPanic(e)>>, <<"AdjInward", MonAInward(e)>>, <<"AdjBand", MonABand(e)>>, <<"AdjNoneKeeps", MonANoneKeeps(e)>>,
                        <<"AdjAccepted", MonAAccepted(e)>> >>)
         /\ Drift(k, ConformsAdjust(e), "adjust")
    [] e.op = "with_prices" ->
         /\ Judge(k, << <<"NoPanic", MonNoPanic(e)>>, <<"Cleared", MonWCleared(e)>>, <<"Count", MonWCount(e)>>, <<"Expected", MonWExpected(e)>>,
                        <<"WellFormed", MonWWellFormed(e)>>, <<"Fresh", MonWFresh(e)>>, <<"InBand", MonWInBand(e)>>,
                        <<"Spread", MonWSpread(e)>>, <<"TimeAfter", MonTAfter(e)>>, <<"TimeBefore", MonTBefore(e)>>,
                        <<"TimeSlot", MonTSlot(e)>>, <<"TimeMaxAge", MonTMaxAge(e)>>,
                        <<"Result", MonWResult(e)>> >>)
         /\ Drift(k, ConformsWith(e), e.err)
         /\ (~e.called \/ Emit("STAT", [i |-> k, what |-> "accepted"]))
Next ==
  /\ i < NRec
  /\ i' = i + 1
  /\ JudgeEv(i', Rec[i'])
Spec == Init /\ [][Next]_i
Done == Emit("DONE", [events |-> TLCGet("stats").diameter - 1])
=============================================================================
