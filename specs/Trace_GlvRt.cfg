SPECIFICATION Spec
CONSTANTS
  BBase = 1048576
  BW = 7
POSTCONDITION Done
CHECK_DEADLOCK FALSE
