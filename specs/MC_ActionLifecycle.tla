------------------------- MODULE MC_ActionLifecycle -------------------------
(* Bounded model of ActionLifecycle: two actions (each with its own owner), three actors, every
   operation of Ops (creation with / without an unreachable minimum output, execution by each actor in
   each mode, close by each actor, expiry), all interleavings with at most MaxDepth SUCCESSFUL
   operations.  The monitors of ActionLifecycleProps are checked on every step of the design
   (including rejected attempts); each distinct state is printed once with the (BFS-shortest) history
   that reaches it - the driver replays it through the real instructions and then attempts EVERY
   operation from there. *)
EXTENDS ActionLifecycleProps, Sequences, TLC, Json

CONSTANTS Acts, MaxDepth

VARIABLES st, last, ok, hist
vars == <<st, last, ok, hist>>
View == st

Amt == [a \in Acts |-> IF a = "a1" THEN 40 ELSE 70]
Par(o) == [amt |-> IF o.a \in Acts THEN Amt[o.a] ELSE 0, cost |-> 5, fee |-> 1]

NoOp == [op |-> "init", a |-> "none", by |-> "none", strict |-> FALSE, mode |-> "normal"]

Init == st = InitState(Acts) /\ last = NoOp /\ ok = TRUE /\ hist = <<>>

Step(o) ==
  LET r == Apply(st, o, Par(o)) IN
  /\ st' = r.st /\ last' = o /\ ok' = r.ok
  /\ hist' = IF r.ok THEN Append(hist, o) ELSE hist

DoCreate  == \E o \in Ops(Acts) : o.op = "create"  /\ Enabled(st, o) /\ Step(o)
DoExecute == \E o \in Ops(Acts) : o.op = "execute" /\ Step(o)
DoClose   == \E o \in Ops(Acts) : o.op = "close"   /\ Step(o)
DoTick    == \E o \in Ops(Acts) : o.op = "tick"    /\ Step(o)
Next == DoCreate \/ DoExecute \/ DoClose \/ DoTick

Bound == Len(hist) <= MaxDepth

(* tokens that left escrows and owners' wallets went into the market: the design's notion of
   "a market was touched" *)
Outside(s) == LET S[B \in SUBSET Acts] ==
                    IF B = {} THEN 0 ELSE LET a == CHOOSE x \in B : TRUE IN s.esc[a] + s.own[a] + S[B \ {a}]
              IN S[Acts]

StepOK ==
  LET same == Outside(st') = Outside(st) IN
  /\ MonLifecycle(st, st')
  /\ MonCloseAuth(st, last', ok', st')
  /\ MonPendingClose(st, last', st')
  /\ MonEscrowHome(st, st')
  /\ MonExecAuth(st, last', ok', st')
  /\ MonSoftFail(st, st', same, same)
  /\ MonExecOutcome(st, last', ok', st')
  /\ MonExecOnce(st, last', ok')
  /\ MonTerminalKept(st, st')
  /\ MonTerminalClosable(st, last', ok')
  /\ MonHardFail(ok', st, st', ~ok' => st' = st)
StepProps == [][StepOK]_vars

(* state invariants of the design *)
InvSane ==
  \A a \in Acts :
    /\ st.esc[a] >= 0 /\ st.lam[a] >= 0
    /\ (st.st[a] \in {"none", "closed"} => st.esc[a] = 0 /\ st.lam[a] = 0)
    /\ (st.st[a] = "pending" => st.esc[a] = Amt[a])
    /\ (st.st[a] = "cancelled" => st.esc[a] = Amt[a])     \* escrow restored
    /\ (st.st[a] = "completed" => st.esc[a] = 0)

EmitPath == PrintT("T|" \o ToJson([path |-> hist, st |-> [st |-> st.st, strict |-> st.strict, expired |-> st.expired]]))
=============================================================================
