SPECIFICATION SpecConv
CONSTANTS
  USize = 2147483647
POSTCONDITION Done
CHECK_DEADLOCK FALSE
