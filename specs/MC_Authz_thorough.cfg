INIT Init
NEXT Next
CONSTANTS
  MaxRoles = 3
VIEW View
PROPERTY StepProps
CHECK_DEADLOCK FALSE
