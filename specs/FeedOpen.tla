------------------------------ MODULE FeedOpen ------------------------------
(* Market openness of a stored feed price (crates/utils/src/price/feed_price.rs,
   market_status.rs), over unbounded integers.

   status : stored status byte. 0 Disabled, 1 Unknown, 2 PreMarket, 3 RegularHours, 4 PostMarket,
            5 Overnight, 6 Closed; any other byte reads as Disabled.
   flags  : per-feed policy as a bit set, bit k = k-th MarketStatusFlag in declaration order:
            0 AllowUnknown, 1 AllowPreMarket, 2 HaltRegularHours, 3 AllowPostMarket,
            4 AllowOvernight, 5 AllowClosed.
   openf / tracking / secs : the price's own flags Open, LastUpdateDiffEnabled, LastUpdateDiffSecs.
   diff   : last_update_diff (u32; seconds if secs, else nanoseconds), ts: report time (i64),
   now    : current time (i64), timeout : market close timeout (u32). *)
EXTENDS Integers

CONSTANTS
  \* @type: Int;
  MaxI64,        \* i64::MAX
  \* @type: Int;
  Nanos          \* nanoseconds per second (10^9)

MinI64 == -MaxI64 - 1

Bit(f, k) == (f \div (2^k)) % 2 = 1

(* MarketStatus::openness as "open" / "closed" / "skip" *)
Openness(status, flags) ==
  LET openIf(b) == IF b THEN "open" ELSE "closed" IN
  CASE status = 1 -> openIf(Bit(flags, 0))
    [] status = 2 -> openIf(Bit(flags, 1))
    [] status = 3 -> openIf(~Bit(flags, 2))
    [] status = 4 -> openIf(Bit(flags, 3))
    [] status = 5 -> openIf(Bit(flags, 4))
    [] status = 6 -> openIf(Bit(flags, 5))
    [] OTHER      -> "skip"

Closed(status, flags) == Openness(status, flags) = "closed"

CeilDiv(n, d) == IF n = 0 THEN 0 ELSE (n - 1) \div d + 1   \* n >= 0, d > 0 (no n + d intermediate)
DiffSecs(secs, diff) == IF secs THEN diff ELSE CeilDiv(diff, Nanos)

(* the meaning: not closed by policy, flagged open, and - when tracking - the last update
   (ts - diffSecs) is no older than the timeout.  Exact integer arithmetic. *)
Open(status, flags, openf, tracking, secs, diff, ts, now, timeout) ==
  /\ ~Closed(status, flags)
  /\ openf
  /\ (tracking => now - ts + DiffSecs(secs, diff) <= timeout)

(* the code: saturating i64 arithmetic *)
Clamp(x) == IF x < MinI64 THEN MinI64 ELSE IF x > MaxI64 THEN MaxI64 ELSE x
SatSub(a, b) == Clamp(a - b)
CodeOpen(status, flags, openf, tracking, secs, diff, ts, now, timeout) ==
  IF Closed(status, flags) THEN FALSE
  ELSE IF ~openf THEN FALSE
  ELSE IF ~tracking THEN TRUE
  ELSE LET cd == SatSub(now, ts) IN
       IF cd > timeout THEN FALSE
       ELSE DiffSecs(secs, diff) <= SatSub(timeout, cd)
=============================================================================
