SPECIFICATION Spec
CONSTANTS
  Unit = 10
  MaxU = 2147483647
  MaxS = 2147483647
  NDep = 2
  NWd = 1
  NSwap = 2
  Amounts = {1, 3, 10, 25}
  Pairs = 0
  WdAmounts = {}
  CfgIds = {1, 3, 13}
  ScenIds = {1, 2}
  FixIds = {0}
  VaryPrices = FALSE
  EmitOps = {"swap"}
INVARIANT MonitorsHold
CHECK_DEADLOCK FALSE
