------------------------------ MODULE Trace_Glv ------------------------------
EXTENDS GlvProps, TraceLib
VARIABLE i
Init == i = 0
Next ==
  /\ i < NRec
  /\ i' = i + 1
  /\ LET e == Rec[i'] IN
       /\ Judge(i', << <<"NoPanic", ~e.panic>>, <<"Insert", MonInsert(e)>>, <<"Limits", MonLimits(e)>>,
                       <<"DepositMaximised", MonDepositMaximised(e)>>,
                       <<"WithdrawMinimised", MonWithdrawMinimised(e)>>, <<"RoundTrip", MonRoundTrip(e)>> >>)
       /\ Drift(i', ~e.panic /\ Conforms(e) /\ (e.op # "insert" => ViewsOrdered(e.mk)), e.op)
Spec == Init /\ [][Next]_i
Done == Emit("DONE", [events |-> TLCGet("stats").diameter - 1])
=============================================================================
