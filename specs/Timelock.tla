------------------------------ MODULE Timelock ------------------------------
(* Timelocked instruction buffers, transcribed from
     programs/timelock/src/instructions/instruction_buffer.rs  create / approve / cancel / execute
     programs/timelock/src/states/instruction.rs               InstructionHeader::approve, is_executable,
                                                               load_and_init_instruction (signer rule)
     programs/timelock/src/states/config.rs                    TimelockConfig::increase_delay
   One executor role R; the approvers' role is TIMELOCKED_R in the store.  State:
     buf[b] = [st, approver, at, shape]   st in {"none","created","approved","executed","cancelled"}
                                          approver = 0 (nobody) or an approver id, at = approval time
                                          (executed / cancelled buffers are closed accounts: fields 0)
     delay, now, holds (the approvers currently holding TIMELOCKED_R)
   Keeper/admin gates of the instructions are C19's subject; here the keeper and the admin always hold
   their roles.  shape = id of the buffered instruction (see ValidShape). *)
EXTENDS Integers, FiniteSets

None == [st |-> "none", approver |-> 0, at |-> 0, shape |-> 0]

(* shape ids: 10 * variant + class; class 1: the executor wallet is flagged signer (in some variants
   read-only, several times, ..), class 2: nobody is (incl. no accounts / no data), class 3: some other
   account is flagged signer.  The concrete account lists live in the drivers. *)
ValidShape(sh) == sh % 10 \in {1, 2}

Live(b) == b.st \in {"created", "approved"}

(* every operation returns [ok, s] with s the next state (unchanged when the instruction fails) *)
Res(ok, s) == [ok |-> ok, s |-> s]
WithBuf(s, b, v) == [s EXCEPT !.buf[b] = v]

(* a closed buffer's address may be used again: that is a NEW buffer (created, not approved) *)
Create(s, b, sh) ==
  IF ~Live(s.buf[b]) /\ ValidShape(sh)
    THEN Res(TRUE, WithBuf(s, b, [st |-> "created", approver |-> 0, at |-> 0, shape |-> sh]))
    ELSE Res(FALSE, s)

(* approve: caller must hold TIMELOCKED_R (store check_role); InstructionHeader::approve: once *)
Approve(s, b, a) ==
  IF s.buf[b].st = "created" /\ a \in s.holds
    THEN Res(TRUE, WithBuf(s, b, [s.buf[b] EXCEPT !.st = "approved", !.approver = a, !.at = s.now]))
    ELSE Res(FALSE, s)

Cancel(s, b) ==
  IF Live(s.buf[b]) THEN Res(TRUE, WithBuf(s, b, [None EXCEPT !.st = "cancelled"])) ELSE Res(FALSE, s)

(* execute: approved, approver still holds the role, now >= approved_at + delay *)
Executable(s, b) ==
  /\ s.buf[b].st = "approved"
  /\ s.buf[b].approver \in s.holds
  /\ s.now >= s.buf[b].at + s.delay
Execute(s, b) ==
  IF Executable(s, b) THEN Res(TRUE, WithBuf(s, b, [None EXCEPT !.st = "executed"])) ELSE Res(FALSE, s)

IncreaseDelay(s, d) == IF d = 0 THEN Res(FALSE, s)                     \* a zero delta is rejected
                       ELSE Res(TRUE, [s EXCEPT !.delay = @ + d])      \* checked add: no overflow here
Revoke(s, a) == IF a \in s.holds THEN Res(TRUE, [s EXCEPT !.holds = @ \ {a}]) ELSE Res(FALSE, s)
Grant(s, a)  == IF a \notin s.holds THEN Res(TRUE, [s EXCEPT !.holds = @ \cup {a}]) ELSE Res(FALSE, s)
Tick(s, dt)  == Res(TRUE, [s EXCEPT !.now = @ + dt])

Apply(s, c) ==
  CASE c.op = "create"   -> Create(s, c.b, c.x)
    [] c.op = "approve"  -> Approve(s, c.b, c.x)
    [] c.op = "cancel"   -> Cancel(s, c.b)
    [] c.op = "execute"  -> Execute(s, c.b)
    [] c.op = "increase_delay" -> IncreaseDelay(s, c.x)
    [] c.op = "revoke"   -> Revoke(s, c.x)
    [] c.op = "grant"    -> Grant(s, c.x)
    [] c.op = "tick"     -> Tick(s, c.x)
=============================================================================
