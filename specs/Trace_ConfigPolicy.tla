------------------------- MODULE Trace_ConfigPolicy -------------------------
(* Trace validation for C20.  Every event is one REAL instruction executed by the in-process
   runtime: the operation (op, s, k, v, b, flag, es, n), the policy roles of the signer read from
   the store account (roles), the outcome (ok, err) and the abstract state projected from the
   account bytes before / after (pre, post: cfg, flg, upd, buf, now, rest). *)
EXTENDS ConfigPolicyProps, TraceLib
VARIABLE i

ToSet(seq) == {seq[j] : j \in DOMAIN seq}
St(j) == [cfg |-> j.cfg, flg |-> j.flg, upd |-> ToSet(j.upd), buf |-> j.buf, now |-> j.now, rest |-> j.rest]

Init == i = 0
Next ==
  /\ i < NRec
  /\ i' = i + 1
  /\ LET e == Rec[i']
         p == St(e.pre)
         q == St(e.post)
         roles == ToSet(e.roles)
         a == [op |-> e.op, s |-> e.s, k |-> e.k, v |-> e.v, b |-> e.b, flag |-> e.flag, es |-> e.es, n |-> e.n]
     IN
       /\ Judge(i', << <<"Auth",            MonAuth(p, a, roles, e.ok)>>,
                       <<"Buffer",          MonBuffer(p, a, e.ok)>>,
                       <<"RejectUnchanged", MonRejectUnchanged(p, a, e.ok, q)>>,
                       <<"Frame",           MonFrame(p, a, e.ok, q)>>,
                       <<"May",             MonMay(p, a, roles, e.ok)>> >>)
       /\ Drift(i', ConformsNoErr(p, a, roles, e.ok, q), e.op)
       /\ Drift(i', ConformsErr(p, a, roles, e.ok, e.err), "err:" \o e.op)
       /\ Drift(i', e.reset \/ i' = 1 \/ Rec[i' - 1].post = e.pre, "chain")
Spec == Init /\ [][Next]_i
Done == Emit("DONE", [events |-> TLCGet("stats").diameter - 1])
=============================================================================
