------------------------------ MODULE MC_TxPack ------------------------------
(* Bounded exhaustive model for C41: every input with at most MaxPGs parallel groups of 1..2 atomic
   groups (at most MaxAGs atomic groups in total), n in 1..MaxN, two payers, every mergeable flag of
   atomic and parallel groups, allow_payer_change, and two limit regimes (instruction count binds /
   abstract size binds).  The abstract size of a pack is Base + PerIx * n.  The monitors of
   TxPackProps are invariants of the *design* (Optimize of TxPack).  Inputs with at most PrintAGs
   atomic groups are printed ("T|{...}") and replayed by the driver on the real code with concrete
   instructions. *)
EXTENDS TxPackProps, TLC, Json
CONSTANTS MaxPGs, MaxAGs, MaxN, PrintAGs, Base, PerIx
VARIABLES stage, sh, inp
vars == <<stage, sh, inp>>

RECURSIVE Sum(_)
Sum(s) == IF s = <<>> THEN 0 ELSE Head(s) + Sum(Tail(s))
Shapes == {s \in UNION {[1..L -> 1..2] : L \in 1..MaxPGs} : Sum(s) <= MaxAGs}
AGC    == [n : 1..MaxN, payer : 1..2, m : BOOLEAN]
Lims   == {[ix |-> 3, sz |-> Base + 9 * PerIx], [ix |-> 9, sz |-> Base + 3 * PerIx]}

Offset(s, p) == Sum(SubSeq(s, 1, p - 1))
Assemble(s, flat, pm) ==
  [p \in 1..Len(s) |->
     [m |-> pm[p],
      ags |-> [k \in 1..s[p] |-> LET id == Offset(s, p) + k IN
                 [id |-> id, n |-> flat[id].n, payer |-> flat[id].payer, m |-> flat[id].m]]]]

Init == /\ stage = 0
        /\ sh \in [s : Shapes, allow : BOOLEAN, lim : Lims]
        /\ inp = [pgs |-> <<>>, allow |-> FALSE]
Gen  == /\ stage = 0
        /\ \E flat \in [1..Sum(sh.s) -> AGC], pm \in [1..Len(sh.s) -> BOOLEAN] :
              inp' = [pgs |-> Assemble(sh.s, flat, pm), allow |-> sh.allow]
        /\ stage' = 1
        /\ UNCHANGED sh
        /\ (Sum(sh.s) <= PrintAGs /\ sh.lim.ix = 3) => PrintT("T|" \o ToJson(inp'))
Next == Gen
Spec == Init /\ [][Next]_vars

(* abstract size oracle and the abstract event the design produces *)
N == Sum(sh.s)
CountOf(a, b) == Sum([k \in 1..(b - a + 1) |-> InAGs(inp)[a + k - 1].n])
Fit == [a \in 1..N |-> [b \in 1..N |->
          a < b /\ CountOf(a, b) <= sh.lim.ix /\ Base + PerIx * CountOf(a, b) <= sh.lim.sz]]
AbsTx(p) == [ixs |-> PackTags(inp, p), payer |-> p.payer, nix |-> p.n,
             est |-> Base + PerIx * p.n, real |-> Base + PerIx * p.n, built |-> TRUE]
Ev == LET o == Optimize(inp.pgs, inp.allow, Fit) IN
      [pgs |-> inp.pgs, allow |-> inp.allow, maxIx |-> sh.lim.ix, maxSize |-> sh.lim.sz, fit |-> Fit,
       out |-> [b \in 1..Len(o) |-> [t \in 1..Len(o[b].ags) |-> AbsTx(o[b].ags[t])]]]

Ready == stage = 1
IAll == Ready => LET e == Ev IN
  /\ MonFlatten(e) /\ MonNoSplit(e) /\ MonMergeAllowed(e) /\ MonPayer(e) /\ MonLimits(e)
  /\ MonEstimate(e) /\ Conforms(e)
  (* greedy packing is maximal for adjacent pairs inside a parallel group: two neighbours that remain
     separate could not have been merged (calibrates that the design does merge at all) *)
  /\ LET ags == Range(InAGs(e)) IN
     \A b \in DOMAIN e.out : \A t \in 1..(Len(e.out[b]) - 1) :
       LET x == e.out[b][t]  y == e.out[b][t + 1] IN
       ~(/\ \A g \in MembersIn(ags, x) \cup MembersIn(ags, y) : g.m
         /\ (inp.allow \/ x.payer = y.payer)
         /\ x.nix + y.nix <= sh.lim.ix /\ Base + PerIx * (x.nix + y.nix) <= sh.lim.sz)
=============================================================================
