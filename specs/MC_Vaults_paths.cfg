INIT Init
NEXT Next
CONSTANTS
  MaxDepth = 3
  MaxVault = 3
VIEW View
CONSTRAINT Bound
INVARIANTS InvPools EmitPath
CHECK_DEADLOCK FALSE
