------------------------------- MODULE MC_Pool -------------------------------
(* Bounded model of the pool: every stored state within the (scaled-down) type limit PMax is an
   initial state (pure: l in 0..PMax; impure: l, s in 0..PMax), and every operation with signed
   deltas from Deltas (single side) / BothDeltas (both sides) is applied to it once.  The state
   carries the event, so every (state, operation) pair of the bounded domain is one distinct TLC
   state judged by the monitors of PoolProps.  Because the domain is closed under the operations
   (TypeOK) and every state of it is initial, every step of every operation sequence inside
   0..PMax - including the overflow edge at PMax and the underflow edge at 0 - is one of the
   checked pairs; exploring sequences explicitly would only revisit them. *)
EXTENDS PoolProps, TLC
CONSTANTS DMax
VARIABLES p, ev
vars == <<p, ev>>

Deltas == -DMax..DMax
BothDeltas == {-DMax, -3, -2, -1, 0, 1, 2, 3, DMax}

Init ==
  /\ \E pure \in BOOLEAN, l \in 0..PMax, s \in 0..PMax :
       /\ (pure => s = 0)
       /\ p = MkPool(pure, l, s)
  /\ ev = SpecEvent(p, "load", 0, 0)

Step(e) == ev' = e /\ p' = MkPool(e.pure, e.l1, e.s1)

DoLong  == ev.op = "load" /\ \E d \in Deltas : Step(SpecEvent(p, "apply_long", d, 0))
DoShort == ev.op = "load" /\ \E d \in Deltas : Step(SpecEvent(p, "apply_short", d, 0))
DoBoth  == ev.op = "load" /\ \E dl \in BothDeltas, ds \in BothDeltas : Step(SpecEvent(p, "apply_both", dl, ds))
DoCancel == ev.op = "load" /\ Step(SpecEvent(p, "cancel", 0, 0))
Next == DoLong \/ DoShort \/ DoBoth \/ DoCancel
Spec == Init /\ [][Next]_vars

TypeOK == Fits(p.l) /\ Fits(p.s) /\ (p.pure => p.s = 0)
ISum    == MonSum(ev)
IDelta  == MonDelta(ev)
ICancel == MonCancel(ev)
IConf   == Conforms(ev)
(* extra laws of the design: a pure pool never uses the short field; views differ by at most one *)
IViews  == p.pure => (LongAmount(p) - ShortAmount(p) \in {0, 1} /\ LongAmount(p) - ShortAmount(p) = p.l % 2)
=============================================================================
