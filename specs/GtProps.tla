------------------------------- MODULE GtProps -------------------------------
(* C30: monitors over a state / a step of the GT state machine.
   A step e: [cfg, pre, post, op, u, n, ok, err, out (minted, value, cost for "mfv"), panic]. *)
EXTENDS Gt

RECURSIVE SumAmounts(_, _)
SumAmounts(users, i) == IF i > Len(users) THEN 0 ELSE users[i].amount + SumAmounts(users, i + 1)

(* the buyback-able supply equals the sum of user balances *)
MonSupplySum(s) == s.supply = SumAmounts(s.users, 1)
(* total minted never decreases *)
MonTotalMonotone(e) == e.post.total >= e.pre.total
(* the minting cost depends only on the total minted (and the configuration), not on how minting
   was split: cost = cost0 grown once per completed step of the total *)
CostAfter(c, total) == Grow(c.cost0, c.grow, total \div c.step)
MonCostFn(c, s) == s.cost = CostAfter(c, s.total)
(* a user's rank is the number of thresholds at or below the balance *)
NumAtOrBelow(ranks, amount) == Len(SelectSeq(ranks, LAMBDA t : t <= amount))
MonRank(c, s) == \A i \in DOMAIN s.users : s.users[i].rank = NumAtOrBelow(c.ranks, s.users[i].amount)
(* minting for a USD amount yields the whole units affordable at the current cost; the remainder
   stays unminted (accumulated paid value minus minted value) *)
MonMintForValue(e) ==
  (e.op = "mfv" /\ e.ok /\ e.n # 0) =>
     LET u0 == e.pre.users[e.u] u1 == e.post.users[e.u]
         value == u0.paid + e.n - u0.mintedv
         c == e.pre.cost
     IN /\ c > 0
        /\ e.out.minted * c <= value /\ value < (e.out.minted + 1) * c          \* floor(value / cost)
        /\ u1.amount = u0.amount + e.out.minted                                    \* exactly that is minted
        /\ u1.paid - u1.mintedv = value - e.out.minted * c                        \* remainder stays unminted
        /\ e.post.total = e.pre.total + e.out.minted
(* a mint / burn moves exactly the requested amount *)
MonMintBurnAmount(e) ==
  /\ (e.op = "mint" /\ e.ok) => (e.post.users[e.u].amount = e.pre.users[e.u].amount + e.n /\ e.post.total = e.pre.total + e.n)
  /\ (e.op = "burn" /\ e.ok) => (e.post.users[e.u].amount = e.pre.users[e.u].amount - e.n /\ e.post.total = e.pre.total)
MonNoPanic(e) == ~e.panic

StateMons(c, s) == MonSupplySum(s) /\ MonCostFn(c, s) /\ MonRank(c, s)

Act(e) == [op |-> e.op, u |-> e.u, n |-> e.n]
Conforms(e) ==
  LET r == Apply(e.cfg, e.pre, Act(e)) IN
  ~e.panic /\ e.ok = r.ok /\ e.err = r.err /\ e.post = r.s /\ e.out = r.out
=============================================================================
