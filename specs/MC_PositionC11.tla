--------------------------- MODULE MC_PositionC11 ---------------------------
(* C11 on the design: PnlValue over position sizes x index price pairs p1 <= p2 (6 levels incl.
   min # max) x pool states (trader cap active / inactive, other traders with better / worse entry
   prices) x partial sizes.  Every case is also printed (C|json) so that the driver replays exactly
   this domain into the real PositionExt::pnl_value.
   Established here: monotonicity in the index price holds for the uncapped pnl everywhere and for
   the credited pnl whenever the MaxForTrader cap is inactive; with the cap active a position whose
   entry price is better than the pool average gets a *smaller* share of the capped pool pnl as the
   price rises (witnesses are printed as W|json and counted by the glue).
   Two levels (seed -> case) only so that TLC's workers share the evaluation. *)
EXTENDS PositionFixtures, Sequences, TLC, Json
CONSTANTS Sizes,        \* (size, tokens) of the position under test
          Others,       \* (size, tokens) of the rest of its side of the market
          PoolAmounts, TraderCaps, LModes
VARIABLE cas
SizesFull   == { <<100, 10>>, <<90, 7>>, <<50, 3>>, <<200, 13>>, <<20, 1>> }
SizesQuick  == { <<100, 10>>, <<90, 7>>, <<50, 3>> }
OthersFull  == { <<0, 0>>, <<100, 5>>, <<150, 20>> }
Emit(tag, x) == PrintT(tag \o "|" \o ToJson(x))
Named(n, b) == b \/ (PrintT("INVFAIL|" \o n) /\ FALSE)

Levels == << Pr(8, 8), Pr(10, 10), Pr(10, 12), Pr(12, 15), Pr(20, 20), Pr(25, 26) >>
LeLevel(i, j) == Levels[i].min <= Levels[j].min /\ Levels[i].max <= Levels[j].max
Partials(size) == { 1, size \div 4, size \div 2, size - 1 }

MarketFor(long, sz, oth, amt, cap) ==
  LET c  == [Cfg0 EXCEPT !.maxPnlTrader = cap]
      m0 == [Market0(c) EXCEPT !.pool = P2(amt, amt * 10)]
      me == Pos(long, long, 10, sz[1], sz[2])
      ot == Pos(long, ~long, 10, oth[1], oth[2])
  IN WithPos(WithPos(m0, me), ot)

(* long token price: fixed, or equal to the index price (index token = long token) *)
PxFor(lv, lmode) == Px(lv, IF lmode = "index" THEN lv ELSE Pr(10, 10), Pr(10, 10))

Init == \E long \in BOOLEAN, sz \in Sizes, oth \in Others, amt \in PoolAmounts :
          cas = [stage |-> 0, long |-> long, sz |-> sz, oth |-> oth, amt |-> amt]
Next ==
  /\ cas.stage = 0
  /\ \E cap \in TraderCaps, i \in 1..6, j \in 1..6, lmode \in LModes, d \in Partials(cas.sz[1]) :
      /\ LeLevel(i, j)
      /\ cas' = [stage |-> 1, p |-> Pos(cas.long, cas.long, 10, cas.sz[1], cas.sz[2]),
                 m |-> MarketFor(cas.long, cas.sz, cas.oth, cas.amt, cap),
                 px1 |-> PxFor(Levels[i], lmode), px2 |-> PxFor(Levels[j], lmode), d |-> d]

Ev == [reset |-> FALSE, p |-> cas.p, m |-> cas.m, px1 |-> cas.px1, px2 |-> cas.px2, d |-> cas.d,
       f1 |-> PnlValue(cas.p, cas.m, cas.px1, cas.p.size), f2 |-> PnlValue(cas.p, cas.m, cas.px2, cas.p.size),
       q1 |-> PnlValue(cas.p, cas.m, cas.px1, cas.d),      q2 |-> PnlValue(cas.p, cas.m, cas.px2, cas.d),
       panic |-> FALSE]

(* all monitors in one invariant so that the event is evaluated once per state *)
Inv ==
  cas.stage = 1 =>
    LET e == Ev IN
    /\ Named("Defined", e.f1.ok /\ e.f2.ok /\ e.q1.ok /\ e.q2.ok)
    /\ Named("Capped", MonCapped(e))
    /\ Named("Partial", MonPartial(e))
    /\ Named("MonotoneUncapped", MonMonotoneUncapped(e))
    /\ Named("MonotoneNoCap", CapActive(e) \/ MonMonotone(e))
    /\ Emit("C", [p |-> cas.p, m |-> cas.m, px1 |-> cas.px1, px2 |-> cas.px2, d |-> cas.d])
    /\ (MonMonotone(e) \/ Emit("W", [p |-> cas.p, oi |-> cas.m.oi, oit |-> cas.m.oit, pool |-> cas.m.pool,
                                      cap |-> cas.m.c.maxPnlTrader, i1 |-> cas.px1.i, i2 |-> cas.px2.i,
                                      l1 |-> cas.px1.l, l2 |-> cas.px2.l, pnl1 |-> e.f1.pnl, pnl2 |-> e.f2.pnl,
                                      unc1 |-> e.f1.unc, unc2 |-> e.f2.unc]))
=============================================================================
