SPECIFICATION Spec
CONSTANTS
  Unit = 10
  MaxU = 2147483647
  MaxS = 2147483647
  MaxDepth = 7
  Sample = 499
VIEW View
INVARIANTS InvTotalBorrowing InvTotalExact InvPendingState InvPendingFees InvPositionFees InvEmit
PROPERTIES PropFactorMonotone
CHECK_DEADLOCK FALSE
