--------------------------- MODULE Trace_Referral ---------------------------
(* Trace validation for C33.  Every event is one REAL instruction executed by the in-process
   runtime: [op, u, c, v, ok, err, panic, reset, pend, pre, post]; pend[c] = the pending proposal
   of code c implied by the accepted Transfer / Cancel / Accept operations of the history so far (driver ghost); pre / post are the abstract state
   projected from the account bytes before / after the instruction.  Monitors = the property;
   Conforms = the precise specification (Referral.tla) predicts acceptance, error and post state;
   events of one history are chained (post of one = pre of the next). *)
EXTENDS ReferralProps, TraceLib
VARIABLE i
Init == i = 0
Next ==
  /\ i < NRec
  /\ i' = i + 1
  /\ LET e == Rec[i']
         a == [op |-> e.op, u |-> e.u, c |-> e.c, v |-> e.v]
     IN
       /\ Judge(i', << <<"WriteOnce",   MonWriteOnce(e.pre, e.post)>>,
                       <<"NotSelf",     MonNotSelf(e.post)>>,
                       <<"NotMutual",   MonNotMutual(e.pre, e.post)>>,
                       <<"OneOwner",    MonOneOwner(e.post)>>,
                       <<"OwnerChange", MonOwnerChange(e.pre, e.pend, a, e.ok, e.post)>> >>)
       /\ Drift(i', ConformsNoErr(e.pre, a, e.ok, e.post), e.op)
       /\ Drift(i', e.ok \/ Apply(e.pre, a).ok \/ Apply(e.pre, a).err = e.err, "err:" \o e.op)
       /\ Drift(i', e.reset \/ i' = 1 \/ Rec[i' - 1].post = e.pre, "chain")
       \* the account's next_owner field agrees with the proposal the history of accepted operations implies
       /\ Drift(i', e.pend = Pending(e.pre), "pending")
Spec == Init /\ [][Next]_i
Done == Emit("DONE", [events |-> TLCGet("stats").diameter - 1])
=============================================================================
