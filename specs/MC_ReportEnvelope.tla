-------------------------- MODULE MC_ReportEnvelope --------------------------
(* Envelope case analysis on a scaled world: USize = 1024 stands for 2^64, payload lengths below 512.
   TLC enumerates payload length x offset word x length word over the neighbourhoods of every
   threshold (head size, L - 32, L, usize overflow) and the "high limbs set" classes, checks the
   meaning against the monitors, locates where the transcribed code departs from the meaning, and
   prints every case ("E|" lines) for the driver to realise as a concrete payload. *)
EXTENDS ReportEnvelopeProps, TLC, Json
VARIABLES L, ow, nw
vars == <<L, ow, nw>>

Lens == {0, 31, 96, 127, 128, 129, 159, 160, 161, 191, 192, 200, 224, 256}
Near(x) == {y \in (x - 2)..(x + 2) : y >= 0 /\ y < USize}
OffsLo(l) == UNION {Near(0), Near(96), Near(HeadSize), Near(l - WordSize), Near(l), Near(USize - WordSize), Near(USize - 1)}
LensLo(l, o) ==
  UNION {Near(0), Near(WordSize), Near(l - o - WordSize), Near(l), Near(USize - o - WordSize), Near(USize - 1)}
Words(S) == {[hi |-> h, lo |-> x] : h \in {0, 1}, x \in S}

Init == /\ L \in Lens
        /\ ow \in Words(OffsLo(L))
        /\ nw \in Words(LensLo(L, ow.lo))
Next == UNCHANGED vars

Math == Decode(L, Abi(ow), Abi(nw))
Code == CodeDecode(L, ow, nw)

(* the meaning only ever yields a slice inside the payload, behind the head and the length word *)
MeaningSound ==
  Math.ok => /\ Math.start >= HeadSize + WordSize /\ Math.start + Math.len <= L
             /\ ow.hi = 0 /\ nw.hi = 0 /\ EnvClass(L, ow, nw) = "ok"
ClassesExact == Math.ok <=> EnvClass(L, ow, nw) = "ok"
(* the code never slices outside the payload (no panic), and departs from the meaning exactly by
   accepting words whose upper bytes are set *)
CodeInBounds == Code.ok => Code.start + Code.len <= L /\ Code.start >= HeadSize + WordSize
CodeDeparture == (Code # Math) <=> (Code.ok /\ (ow.hi = 1 \/ nw.hi = 1))

Ev(r) == [op |-> "envelope", L |-> L, oread |-> L >= HeadSize, ohi |-> ow.hi, osm |-> ow.lo < 512, olo |-> IF ow.lo < 512 THEN ow.lo ELSE 0,
          nread |-> (L >= HeadSize /\ ow.lo < 512 /\ ow.lo + WordSize <= L), nhi |-> nw.hi, nsm |-> nw.lo < 512,
          nlo |-> IF nw.lo < 512 THEN nw.lo ELSE 0, ok |-> r.ok, start |-> r.start, len |-> r.len, panic |-> FALSE]
MonitorsOnMeaning == MonAbiSlice(Ev(Math)) /\ MonNoPanic(Ev(Math))
MonitorSharp == (Math.ok => ~MonAbiSlice(Ev(Slice(Math.start + 1, Math.len)))) /\ (Code # Math => ~MonAbiSlice(Ev(Code)))

PrintCase ==
  PrintT("E|" \o ToJson([L |-> L, ohi |-> ow.hi, olo |-> ow.lo, nhi |-> nw.hi, nlo |-> nw.lo,
                         cls |-> EnvClass(L, ow, nw), ok |-> Math.ok]))
=============================================================================
