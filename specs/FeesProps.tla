----------------------------- MODULE FeesProps -----------------------------
(* C02: "For any fee configuration with factors of at most 100%, charging a swap, deposit,
   withdrawal or order fee splits the gross amount exactly into net amount, pool share and receiver
   share.  The fee never exceeds the gross amount, a discount never raises the fee, and invalid
   factors (above 100%) make the computation fail instead of producing a larger-than-input fee."

   One event = one fee computation of the real code.  Common fields:
     op      "apply_fees" (swap / deposit / withdrawal fee: FeeParams::apply_fees)
             "order_fees" (FeeParams::order_fees through PositionExt::position_fees)
             "liq_fees"   (the same with is_liquidation: LiquidationFeeParams::fee + order fees)
     amt     gross amount (apply_fees) or size_delta_usd (order / liquidation)
     pmin, pmax  collateral token price;  pf, nf, rf, disc (-1 = none), change  as in Fees.tla
     lf, lrf liquidation fee factor / receiver factor
     ok, net, pool, recv, value   result (value = fee value in usd for order fees)
     fee_ok, fee     FeeParams::fee(change, amt) with the discount
     fee0_ok, fee0   the same configuration WITHOUT a discount
     ok0, tot0       the same operation WITHOUT a discount: whether it succeeded and the fee it charged
                     (pool + receiver for apply_fees, fee value for order fees)
     lok, lvalue, lamount, lrecv, lpool_ok, lpool   liquidation fees
     agg_ok, for_pool, for_recv, total   PositionFees aggregates (excluding funding) *)
EXTENDS Fees, TLC

UsedFactor(e) == IF e.change = 1 THEN e.pf ELSE e.nf
IsOrder(e) == e.op = "order_fees" \/ e.op = "liq_fees"
(* what was charged: the two shares (apply_fees) or the fee value (order fees) *)
Charged(e) == IF IsOrder(e) THEN e.value ELSE e.pool + e.recv

MonNoPanic(e) == ~e.panic

(* exact split: net + pool share + receiver share = gross; the shares are the fee *)
MonSplit(e) ==
  /\ (e.op = "apply_fees" /\ e.ok) =>
        /\ e.net + e.pool + e.recv = e.amt
        /\ e.fee_ok => e.pool + e.recv = e.fee
  /\ (IsOrder(e) /\ e.ok) =>
        \* order fee amounts are converted from the fee value at the min price: never more than
        \* one rounding above the value
        (e.pool + e.recv) * e.pmin <= e.value + (e.pmin - 1)
  /\ (e.op = "liq_fees" /\ e.lok) =>
        /\ e.lamount * e.pmin <= e.lvalue + (e.pmin - 1)
        /\ e.lpool_ok => e.lpool + e.lrecv = e.lamount
  /\ (IsOrder(e) /\ e.agg_ok) => e.for_pool + e.for_recv = e.total

(* the fee never exceeds the gross amount; for a factor above 100% the computation must fail rather
   than return a fee larger than its input (so: whenever it succeeds, fee <= input) *)
MonFeeLeGross(e) == e.ok => Charged(e) <= e.amt
(* classification used by the known-findings matcher and by the bounded model *)
FeeLeGrossClass(e) ==
  IF IsOrder(e) /\ UsedFactor(e) > Unit THEN "order_fee_factor_above_unit" ELSE "other"

(* a discount never raises the fee *)
MonDiscount(e) ==
  /\ (e.fee_ok /\ e.fee0_ok) => e.fee <= e.fee0
  /\ (e.ok /\ e.ok0) => Charged(e) <= e.tot0

Monitors(e) ==
  << <<"NoPanic", MonNoPanic(e)>>, <<"Split", MonSplit(e)>>,
     <<"FeeLeGross", MonFeeLeGross(e)>>, <<"Discount", MonDiscount(e)>> >>

-----------------------------------------------------------------------------
(* The event the precise operators predict for given arguments (failure = all result fields zero).
   Used by the bounded model (monitors applied to the design) and for conformance (drift only). *)
PreciseEvent(op, amt, pmin, pmax, pf, nf, rf, disc, change, lf, lrf) ==
  LET p  == [pf |-> pf, nf |-> nf, rf |-> rf, disc |-> disc]
      p0 == [pf |-> pf, nf |-> nf, rf |-> rf, disc |-> -1]
      f  == Fee(p, change, amt)
      f0 == Fee(p0, change, amt)
      base == [op |-> op, amt |-> amt, pmin |-> pmin, pmax |-> pmax, pf |-> pf, nf |-> nf, rf |-> rf,
               disc |-> disc, change |-> change, lf |-> lf, lrf |-> lrf, panic |-> FALSE,
               fee_ok |-> f.ok, fee |-> f.v, fee0_ok |-> f0.ok, fee0 |-> f0.v]
  IN
  IF op = "apply_fees" THEN
    LET r == ApplyFees(p, change, amt)
        r0 == ApplyFees(p0, change, amt) IN
    base @@ [ok |-> r.ok, net |-> r.net, pool |-> r.pool, recv |-> r.recv, value |-> 0,
             ok0 |-> r0.ok, tot0 |-> r0.pool + r0.recv,
             lok |-> FALSE, lvalue |-> 0, lamount |-> 0, lrecv |-> 0, lpool_ok |-> FALSE, lpool |-> 0,
             agg_ok |-> FALSE, for_pool |-> 0, for_recv |-> 0, total |-> 0]
  ELSE
    LET r  == PositionFees(p, lf, lrf, pmin, pmax, amt, change, op = "liq_fees")
        r0 == PositionFees(p0, lf, lrf, pmin, pmax, amt, change, op = "liq_fees")
        Z(c, x) == IF c THEN x ELSE 0 IN
    base @@ [ok |-> r.ok, net |-> 0, pool |-> Z(r.ok, r.o.pool), recv |-> Z(r.ok, r.o.recv),
             value |-> Z(r.ok, r.o.value),
             ok0 |-> r0.ok, tot0 |-> Z(r0.ok, r0.o.value),
             lok |-> r.ok, lvalue |-> Z(r.ok, r.l.value), lamount |-> Z(r.ok, r.l.amount),
             lrecv |-> Z(r.ok, r.l.recv), lpool_ok |-> r.poolOk, lpool |-> Z(r.poolOk, r.l.amount - r.l.recv),
             agg_ok |-> r.poolOk, for_pool |-> Z(r.poolOk, r.forPool), for_recv |-> Z(r.poolOk, r.forRecv),
             total |-> Z(r.poolOk, r.total)]

Conforms(e) ==
  e = PreciseEvent(e.op, e.amt, e.pmin, e.pmax, e.pf, e.nf, e.rf, e.disc, e.change, e.lf, e.lrf)
=============================================================================
