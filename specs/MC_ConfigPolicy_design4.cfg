INIT Init
NEXT Next
CONSTANTS
  MaxDepth = 4
VIEW View
CONSTRAINT Bound

PROPERTY StepProps
CHECK_DEADLOCK FALSE
