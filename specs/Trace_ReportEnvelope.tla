------------------------ MODULE Trace_ReportEnvelope ------------------------
(* Two kinds of trace files: envelope/decode/compressed events (SpecEnv) and conversion events
   (SpecConv); each file has uniform keys. *)
EXTENDS ReportEnvelopeProps, TraceLib
VARIABLE i
Init == i = 0
NextEnv ==
  /\ i < NRec
  /\ i' = i + 1
  /\ LET e == Rec[i'] IN
       /\ Judge(i', << <<"NoPanic", MonNoPanic(e)>>, <<"AbiSlice", MonAbiSlice(e)>> >>)
       /\ Drift(i', EnvConforms(e), e.op)
NextConv ==
  /\ i < NRec
  /\ i' = i + 1
  /\ LET e == Rec[i'] IN
       /\ Judge(i', << <<"NoPanic", MonNoPanic(e)>>, <<"ConvRejects", MonConvRejects(e)>>,
                       <<"ConvOrder", MonConvOrder(e)>>, <<"ConvScale", MonConvScale(e)>> >>)
       /\ Drift(i', ConvConforms(e) /\ e.dmatch, e.op)
SpecEnv == Init /\ [][NextEnv]_i
SpecConv == Init /\ [][NextConv]_i
Done == Emit("DONE", [events |-> TLCGet("stats").diameter - 1])
=============================================================================
