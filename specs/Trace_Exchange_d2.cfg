SPECIFICATION Spec
CONSTANTS
  Unit = 100
  MaxU = 2147483647
  MaxS = 2147483647
POSTCONDITION Done
CHECK_DEADLOCK FALSE
