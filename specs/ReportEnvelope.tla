--------------------------- MODULE ReportEnvelope ---------------------------
(* Chainlink Data Streams full-report envelope and report -> feed price conversion
   (crates/chainlink-datastreams/src/report.rs decode_full_report, gmsol.rs from_chainlink_report).

   Envelope.  A full report is ABI  (bytes32[3] context, bytes blob, ...):  words 0..2 are the context,
   word 3 (bytes 96..128) is the offset o of the blob, at o sits the length word n, then n bytes.
   o and n are 256-bit ABI integers.  A word is modelled as [hi, lo]: lo = its low 64 bits as an
   integer below USize, hi = 1 iff any of the upper 24 bytes is non-zero; its ABI value is
   hi * USize + lo (all that matters about the upper bytes is that the value is >= USize).
   L is the payload length (L < USize: it is a real slice).

   Decode is the meaning (unbounded integers); CodeDecode transcribes the code (usize arithmetic with
   checked additions on the low 8 bytes only). *)
EXTENDS Integers, Sequences, FiniteSets

CONSTANTS
  \* @type: Int;
  USize            \* 2^64 (a small stand-in in the bounded model)

WordSize == 32
HeadSize == 128

Fail == [ok |-> FALSE, start |-> 0, len |-> 0]
Slice(s, l) == [ok |-> TRUE, start |-> s, len |-> l]
Abi(w) == w.hi * USize + w.lo

(* meaning: the blob is payload[o + 32 .. o + 32 + n) when that lies inside the payload *)
Decode(L, o, n) ==
  IF L < HeadSize \/ o < HeadSize \/ o + WordSize > L \/ o + WordSize + n > L THEN Fail
  ELSE Slice(o + WordSize, n)

(* the code: offset and length are read from the low 8 bytes of their words; since
   "fix: reject chainlink report envelopes whose 256-bit offset or length word has high bytes set"
   a word with any of its high 24 bytes set is rejected (before the repair they were ignored) *)
CodeDecode(L, ow, nw) ==
  IF L < HeadSize THEN Fail
  ELSE IF ow.hi # 0 THEN Fail
  ELSE LET o == ow.lo IN
    IF o < HeadSize THEN Fail
    ELSE IF o + WordSize >= USize THEN Fail                 \* checked_add
    ELSE IF o + WordSize > L THEN Fail
    ELSE IF nw.hi # 0 THEN Fail
    ELSE LET n == nw.lo IN
      IF o + WordSize + n >= USize THEN Fail                \* checked_add
      ELSE IF o + WordSize + n > L THEN Fail
      ELSE Slice(o + WordSize, n)

(* envelope classes *)
EnvClass(L, ow, nw) ==
  IF L < HeadSize THEN "short_payload"
  ELSE IF ow.hi = 1 THEN "offset_high_limbs"
  ELSE IF ow.lo < HeadSize THEN "offset_in_head"
  ELSE IF ow.lo + WordSize > L THEN "length_word_out_of_range"
  ELSE IF nw.hi = 1 THEN "length_high_limbs"
  ELSE IF ow.lo + WordSize + nw.lo > L THEN "blob_out_of_range"
  ELSE "ok"

-----------------------------------------------------------------------------
(* Conversion.  Numbers wider than TLC's integers are handled as decimal digit sequences
   (most significant first, no leading zeros, zero = <<0>>); dividing by 10^k is dropping k digits. *)
IsDigits(d) == Len(d) >= 1 /\ (\A i \in DOMAIN d : d[i] \in 0..9) /\ (Len(d) > 1 => d[1] # 0)
LeDigits(a, b) ==
  \/ Len(a) < Len(b)
  \/ /\ Len(a) = Len(b)
     /\ \/ a = b
        \/ \E i \in DOMAIN a : a[i] < b[i] /\ \A j \in 1..(i - 1) : a[j] = b[j]
DropDigitsOf(d, k) == IF Len(d) <= k THEN <<0>> ELSE SubSeq(d, 1, Len(d) - k)
ZerosD(k) == [i \in 1..k |-> 0]
ReportDecimals == 18
\* u128::MAX
MaxU128Digits == <<3,4,0,2,8,2,3,6,6,9,2,0,9,3,8,4,6,3,4,6,3,3,7,4,6,0,7,4,3,1,7,6,8,2,1,1,4,5,5>>

(* the code's divisor decimals: least k in 0..20 with ask <= u128::MAX * 10^k (20 if none) *)
DivisorDecimals(ask) ==
  LET K == {k \in 0..19 : LeDigits(ask, MaxU128Digits \o ZerosD(k))} IN
  IF K = {} THEN 20 ELSE CHOOSE k \in K : \A j \in K : k <= j
=============================================================================
