---------------------------- MODULE GtBankProps ----------------------------
(* C37 monitors.  Events:
   claim   [gt, ok, errclass, alldone, pre : [bal, rem], post : [bal, rem], paid : Seq, init : [bal, rem]]
           one complete_gt_exchange; paid = amounts of the token transfers the program issued,
           init = bank right after confirmation, dep = tokens deposited into the bank since then
   deposit [t, amount, pre, post, ...]
   set_gt_factor / set_buyback_factor [new : [q, r], ok, pre : [gt, bb], post : [gt, bb]] *)
EXTENDS GtBank

IsClaim(e) == e.op = "claim"
Tokens(e)  == DOMAIN e.pre.bal

(* each claim receives per token floor(current balance * gt / remaining) *)
MonPaidFormula(e) ==
  IsClaim(e) /\ e.ok /\ e.gt > 0 => \A t \in Tokens(e) : e.paid[t] = (e.pre.bal[t] * e.gt) \div e.pre.rem
(* never pays more than the bank holds; the books follow the payments *)
MonNoOverpay(e) ==
  IsClaim(e) /\ e.ok => \A t \in Tokens(e) :
    e.paid[t] <= e.pre.bal[t] /\ e.post.bal[t] = e.pre.bal[t] - e.paid[t] /\ e.post.bal[t] >= 0
(* a claim is only paid against remaining confirmed GT, which it consumes *)
MonRemaining(e) ==
  IsClaim(e) /\ e.ok => e.gt <= e.pre.rem /\ e.post.rem = e.pre.rem - e.gt
(* at least the floor share of the ORIGINAL balances *)
MonFloorShare(e) ==
  IsClaim(e) /\ e.ok /\ e.gt > 0 => \A t \in Tokens(e) : e.paid[t] >= (e.init.bal[t] * e.gt) \div e.init.rem
(* the last claim drains the bank *)
MonLastDrains(e) ==
  IsClaim(e) /\ e.ok /\ e.gt > 0 /\ e.post.rem = 0 => \A t \in Tokens(e) : e.post.bal[t] = 0
(* a failed claim pays nothing and changes nothing *)
MonFailedClaim(e) ==
  IsClaim(e) /\ ~e.ok => e.post = e.pre /\ \A t \in Tokens(e) : e.paid[t] = 0

(* a well-formed claim (GT amount within the remaining confirmed GT; the specification's Claim succeeds)
   must not be rejected by the bank's own bookkeeping (errclass = "bank": NotEnoughTokenAmount /
   TokenAmountOverflow of record_transferred_out / record_claimed); failures of unrelated account checks
   (errclass = "other") are not judged *)
MonClaimSucceeds(e) ==
  IsClaim(e) /\ e.gt <= e.pre.rem /\ Claim(e.pre, e.gt).ok => e.ok \/ e.errclass # "bank"
(* when every claimant of the history has claimed (alldone; histories without later deposits) the bank is empty *)
MonDrainedAtEnd(e) ==
  IsClaim(e) /\ e.alldone /\ e.init.rem > 0 => e.post.rem = 0 /\ \A t \in Tokens(e) : e.post.bal[t] = 0

IsFactor(e) == e.op \in {"set_gt_factor", "set_buyback_factor"}
(* stored factors never exceed 100% *)
MonFactors(e) == IsFactor(e) => LeqOne(e.post.gt) /\ LeqOne(e.post.bb)

ConformsClaim(e) ==
  LET r == Claim(e.pre, e.gt) IN
  e.ok = r.ok /\ e.paid = r.paid /\ e.post.bal = r.bal /\ e.post.rem = r.rem
ConformsFactor(e) ==
  LET cur == IF e.op = "set_gt_factor" THEN e.pre.gt ELSE e.pre.bb
      r   == SetFactor(cur, e.new) IN
  /\ e.ok = r.ok
  /\ e.post = IF e.op = "set_gt_factor" THEN [gt |-> r.f, bb |-> e.pre.bb] ELSE [gt |-> e.pre.gt, bb |-> r.f]
Conforms(e) ==
  CASE IsClaim(e)  -> ConformsClaim(e)
    [] e.op = "deposit" -> e.ok /\ e.post = Deposit(e.pre, e.t, e.amount)
    [] IsFactor(e) -> ConformsFactor(e)
    [] OTHER -> FALSE
=============================================================================
