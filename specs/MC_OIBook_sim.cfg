SPECIFICATION Spec
CONSTANTS
  Unit = 10
  MaxU = 2147483647
  MaxS = 2147483647
  Promote = TRUE
  MaxDepth = 40
  MinSize = 10
  Sample = 1499
VIEW View
INVARIANTS InvOIUsd InvOITokens InvCollateral InvRemoved InvEmit
CHECK_DEADLOCK FALSE
