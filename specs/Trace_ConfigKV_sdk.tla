------------------------- MODULE Trace_ConfigKV_sdk -------------------------
(* C16, SDK side: the writes of the store-side driver, observed through the SDK market model
   (gmsol_programs MarketModel on the same account bytes), judged by the SAME monitors of
   ConfigKVProps.  An event additionally carries target = "sdk", the swap pricing kind the model was
   read under, and zero_fees: under Shift pricing the SDK reports no swap fees by design, so the two
   swap fee factors are logged apart (and must read "0") instead of as parameters. *)
EXTENDS ConfigKVProps, TraceLib
VARIABLE i
ShiftZero == {"swap_fee_params.positive_impact_fee_factor", "swap_fee_params.negative_impact_fee_factor"}
ConformsSdk(e) ==
  /\ ~e.panic
  /\ e.ok = Writable(e.cfg0, e.key)
  /\ e.cfg = (IF e.ok THEN Write(e.cfg0, e.key, e.v) ELSE e.cfg0)
  /\ \A p \in DOMAIN e.params : Judgeable(e, p)
  /\ \A t \in ParamTable : t[1] \in DOMAIN e.cfg =>
        (t[2] \in DOMAIN e.params \/ (e.pricing = "shift" /\ t[2] \in ShiftZero))
  /\ e.pricing = "shift" =>
        (e.zero_fees.positive_impact_fee_factor = "0" /\ e.zero_fees.negative_impact_fee_factor = "0"
         /\ DOMAIN e.params \cap ShiftZero = {})
Init == i = 0
Next ==
  /\ i < NRec
  /\ i' = i + 1
  /\ LET e == Rec[i'] IN
       /\ Judge(i', << <<"NoPanic", MonNoPanic(e)>>, <<"ReadBack", MonReadBack(e)>>,
                       <<"Frame", MonFrame(e)>>, <<"Rejected", MonRejected(e)>>,
                       <<"Param", MonParam(e)>> >>)
       /\ Drift(i', ConformsSdk(e), e.key)
Spec == Init /\ [][Next]_i
Done == Emit("DONE", [events |-> TLCGet("stats").diameter - 1])
=============================================================================
