INIT Init
NEXT Next
CONSTANTS
  MaxRoles = 2
VIEW View
PROPERTY StepProps
CHECK_DEADLOCK FALSE
