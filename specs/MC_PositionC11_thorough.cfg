INIT Init
NEXT Next
CONSTANTS
  Unit = 10
  MaxU = 2147483647
  MaxS = 2147483647
  Sizes <- SizesFull
  Others <- OthersFull
  PoolAmounts = {4, 60}
  TraderCaps = {0, 3, 10}
  LModes = {"fixed", "index"}
INVARIANT Inv
CHECK_DEADLOCK FALSE
