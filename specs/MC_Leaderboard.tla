--------------------------- MODULE MC_Leaderboard ---------------------------
(* Bounded exhaustive model for C39: NTraders participants, every trade volume of Vols, every time
   step of Dts (incl. running past the end time), optional decreasing / failed / event-less calls,
   up to Depth calls.  The monitors of LeaderboardProps are invariants (state) and an action
   property (step).  hist is the path to the state (hidden by the VIEW): with PrintPaths the model
   prints one shortest path per distinct state; the driver replays them on the real program. *)
EXTENDS LeaderboardProps, TLC, Json
CONSTANTS NTraders, Vols, Dts, Depth, Start, End0, Thr, Ext, Cap, Win, Inc, Odd, PrintPaths
VARIABLES s, now, hist
vars == <<s, now, hist>>
View == <<s, now, Len(hist)>>

C == [start |-> Start, thr |-> Thr, ext |-> Ext, cap |-> Cap, win |-> Win, inc |-> Inc]
Zeros == [t \in 1..NTraders |-> 0]
S0 == [vol |-> Zeros, merged |-> Zeros, last |-> Zeros, board |-> << >>, end |-> End0]

Init == s = S0 /\ now = Start /\ hist = << >>

Step(t, b, a, dt, succ, hasev) ==
  /\ Len(hist) < Depth
  /\ now' = now + dt
  /\ s' = Trade(C, s, t, b, a, now', succ, hasev)
  /\ hist' = Append(hist, [t |-> t, before |-> b, after |-> a, now |-> now', success |-> succ, hasev |-> hasev])

Increase == \E t \in 1..NTraders, v \in Vols, dt \in Dts : Step(t, 0, v, dt, TRUE, TRUE)
(* the ignored / differently counted shapes: decrease, failed order, no trade event, zero volume *)
OddCall  == /\ Odd
            /\ \E t \in 1..NTraders, v \in {2}, dt \in Dts :
                 \/ Step(t, v, 0, dt, TRUE, TRUE)
                 \/ Step(t, 0, v, dt, FALSE, TRUE)
                 \/ Step(t, 0, v, dt, TRUE, FALSE)
                 \/ Step(t, v, v, dt, TRUE, TRUE)
Next == Increase \/ OddCall
Spec == Init /\ [][Next]_vars

StateMon == StateMons(s) /\ AllListedWhileNotFull(s)
StepMon  == [][LET h == hist'[Len(hist')]
                   e == [pre |-> s, post |-> s', now |-> h.now, c |-> C]
               IN MonEndNotEarlier(e) /\ MonEndCapped(e)]_vars
(* printed once per distinct state (TLC evaluates invariants on unseen states only) *)
PathOut == PrintPaths /\ hist # << >> => PrintT("T|" \o ToJson([c |-> C, n |-> NTraders, end0 |-> End0, path |-> hist]))
=============================================================================
