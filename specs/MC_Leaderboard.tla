--------------------------- MODULE MC_Leaderboard ---------------------------
(* Bounded exhaustive model for C39: NTraders participants, every trade volume of Vols, every time
   step of Dts (incl. running past the end time), optional decreasing / failed / event-less calls,
   up to Depth calls.  The monitors of LeaderboardProps are invariants (state) and an action
   property (step).  hist is the path to the state (hidden by the VIEW): with PrintPaths the model
   prints one shortest path per distinct state; the driver replays them on the real program. *)
EXTENDS LeaderboardProps, TLC, Json
CONSTANTS NTraders, Vols, Dts, Depth, Start, End0, Thr, Ext, Cap, Win, Inc, Odd, PrintPaths, NPre
VARIABLES s, now, hist
vars == <<s, now, hist>>
View == <<s, now, Len(hist)>>

C == [start |-> Start, thr |-> Thr, ext |-> Ext, cap |-> Cap, win |-> Win, inc |-> Inc]
Zeros == [t \in 1..NTraders |-> 0]
S0 == [vol |-> Zeros, merged |-> Zeros, last |-> Zeros, board |-> << >>, end |-> End0]

(* optional fixed prefix of NPre calls (traders 1..NPre, volumes 2,2,1,1,.. at time Start) so that a
   few further calls already fill the board; Depth counts the prefix *)
Call(t, b, a, n, succ, hasev) == [t |-> t, before |-> b, after |-> a, now |-> n, success |-> succ, hasev |-> hasev]
Prefix == [k \in 1..NPre |-> Call(k, 0, (NPre - k + 2) \div 2, Start, TRUE, TRUE)]
RECURSIVE Run(_, _)
Run(p, k) == IF k = 0 THEN S0
             ELSE Trade(C, Run(p, k - 1), p[k].t, p[k].before, p[k].after, p[k].now, p[k].success, p[k].hasev)
Init == s = Run(Prefix, NPre) /\ now = Start /\ hist = Prefix

Step(t, b, a, dt, succ, hasev) ==
  /\ Len(hist) < Depth
  /\ now' = now + dt
  /\ s' = Trade(C, s, t, b, a, now', succ, hasev)
  /\ hist' = Append(hist, Call(t, b, a, now', succ, hasev))

Increase == \E t \in 1..NTraders, v \in Vols, dt \in Dts : Step(t, 0, v, dt, TRUE, TRUE)
(* the ignored / differently counted shapes: decrease, failed order, no trade event, zero volume *)
OddCall  == /\ Odd
            /\ \E t \in 1..NTraders, v \in {2}, dt \in Dts :
                 \/ Step(t, v, 0, dt, TRUE, TRUE)
                 \/ Step(t, 0, v, dt, FALSE, TRUE)
                 \/ Step(t, 0, v, dt, TRUE, FALSE)
                 \/ Step(t, v, v, dt, TRUE, TRUE)
Next == Increase \/ OddCall
Spec == Init /\ [][Next]_vars

StateMon == StateMons(s)
StepMon  == [][LET h == hist'[Len(hist')]
                   e == [pre |-> s, post |-> s', now |-> h.now, c |-> C]
               IN MonEndNotEarlier(e) /\ MonEndCapped(e)]_vars
(* printed once per distinct state (TLC evaluates invariants on unseen states only) *)
PathOut == PrintPaths /\ Len(hist) > NPre => PrintT("T|" \o ToJson([c |-> C, n |-> NTraders, end0 |-> End0, path |-> hist]))
=============================================================================
