SPECIFICATION Spec
CONSTANTS
  Addr = {"A1", "A2", "A3"}
  Names = {"R1", "R2", "R3", "RESTART_ADMIN"}
  MaxRoles = 2
  MaxMembers = 2
  Authority = "A1"
  Depth = 4
VIEW view
INVARIANTS IAbstraction IMonitors IStructure
CHECK_DEADLOCK FALSE
