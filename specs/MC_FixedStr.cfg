INIT Init
NEXT Next
CONSTANTS
  N = 3
  MaxChars = 4
ACTION_CONSTRAINT PrintName
INVARIANTS DesignHolds DesignExact CodeDefectClasses
CHECK_DEADLOCK FALSE
