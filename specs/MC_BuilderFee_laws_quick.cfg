INIT Init
NEXT Next
CONSTANTS
  Unit = 10
  MaxU = 1000000
  MaxS = 1000000
  Max64 = 100000
  Kind = "laws"
  MaxSize = 12
  MaxF = 11
  MaxP = 4
  MaxX = 5
  MaxAmt = 0
  MaxDepth = 0
INVARIANTS LMons LNeverUnder
CHECK_DEADLOCK FALSE
