------------------------ MODULE Trace_ActionLifecycle ------------------------
(* Trace validation for C23.  Every event is ONE real instruction (or, for `create`, the owner's
   transaction: escrow accounts + the create instruction) executed by the in-process runtime:
   [op, a, by, strict, mode, kind, ok, err, reset, amt, cost, fee, pre, post, mktSame, vaultSame,
   worldSame]; pre / post are the abstract state projected from the accounts before / after.
   op "direct_completed" / "direct_cancelled" are direct calls of ActionState::completed / cancelled
   (pre.st[a] = the state called on, post.st[a] = the state returned, or the old one on Err). *)
EXTENDS ActionLifecycleProps, TraceLib
VARIABLE i
Init == i = 0
IsDirect(e) == e.op \in {"direct_completed", "direct_cancelled"}
DirectConforms(e) ==
  LET from == e.pre.st[e.a]
      to == IF e.op = "direct_completed" THEN "completed" ELSE "cancelled" IN
  /\ e.ok = DirectOk(from)
  /\ e.post.st[e.a] = (IF e.ok THEN to ELSE from)
Next ==
  /\ i < NRec
  /\ i' = i + 1
  /\ LET e == Rec[i']
         o == [op |-> e.op, a |-> e.a, by |-> e.by, strict |-> e.strict, mode |-> e.mode]
         P == [amt |-> e.amt, cost |-> e.cost, fee |-> e.fee]
     IN
       /\ Judge(i', << <<"Lifecycle",    MonLifecycle(e.pre, e.post)>>,
                       <<"CloseAuth",    IsDirect(e) \/ MonCloseAuth(e.pre, o, e.ok, e.post)>>,
                       <<"PendingClose", IsDirect(e) \/ MonPendingClose(e.pre, o, e.post)>>,
                       <<"EscrowHome",   IsDirect(e) \/ MonEscrowHome(e.pre, e.post)>>,
                       <<"ExecAuth",     IsDirect(e) \/ MonExecAuth(e.pre, o, e.ok, e.post)>>,
                       <<"SoftFail",     IsDirect(e) \/ MonSoftFail(e.pre, e.post, e.mktSame, e.vaultSame)>>,
                       <<"ExecOutcome",  IsDirect(e) \/ MonExecOutcome(e.pre, o, e.ok, e.post)>>,
                       <<"ExecOnce",     IsDirect(e) \/ MonExecOnce(e.pre, o, e.ok)>>,
                       <<"TerminalKept", IsDirect(e) \/ MonTerminalKept(e.pre, e.post)>>,
                       <<"TerminalClosable", IsDirect(e) \/ MonTerminalClosable(e.pre, o, e.ok)>>,
                       <<"DirectTerminal", ~IsDirect(e) \/ MonDirectTerminal(e.pre.st[e.a], e.ok)>>,
                       <<"HardFail",     IsDirect(e) \/ MonHardFail(e.ok, e.pre, e.post, e.worldSame)>> >>)
       /\ Drift(i', IF IsDirect(e) THEN DirectConforms(e) ELSE Conforms(e.pre, o, P, e.ok, e.post), e.op)
       /\ Drift(i', e.reset \/ i' = 1 \/ IsDirect(e) \/ Rec[i' - 1].post = e.pre, "chain")
Spec == Init /\ [][Next]_i
Done == Emit("DONE", [events |-> TLCGet("stats").diameter - 1])
=============================================================================
