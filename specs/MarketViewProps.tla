--------------------------- MODULE MarketViewProps ---------------------------
(* C40 monitor.  An event carries the two projections of the same input, side by side as records of
   strings: the account image read by the program and by the SDK (kind "view"), the declared sizes and
   offsets ("layout"), the report and resulting state of a model action ("action"), the order fee
   discount ("discount").  The property is their equality. *)
EXTENDS MarketView
MonAgree(e) == e.prog = e.sdk
=============================================================================
