------------------------------- MODULE Fees -------------------------------
(* Fee computations of crates/model/src/params/fee.rs, transcribed step by step.
   A fee configuration is a record p = [pf, nf, rf, disc]:
     pf / nf  positive_impact_fee_factor / negative_impact_fee_factor
     rf       fee_receiver_factor
     disc     discount_factor, -1 = None (defaults to 0)
   change: 1 = BalanceChange::Improved, 0 = Unchanged, -1 = Worsened.
   All results are records with ok = FALSE for the code's None / Err. *)
EXTENDS Num

(* FeeParams::factor *)
FeeFactor(p, change) == IF change = 1 THEN p.pf ELSE p.nf
DiscountOf(p) == IF p.disc < 0 THEN 0 ELSE p.disc

(* FeeParams::fee: f = floor(amt*factor/U); fee = f - floor(f*discount/U)  (checked_sub) *)
Fee(p, change, amt) ==
  LET f == ApplyFactor(amt, FeeFactor(p, change)) IN
  IF ~f.ok THEN Fail
  ELSE LET d == ApplyFactor(f.v, DiscountOf(p)) IN
       IF ~d.ok THEN Fail ELSE U(f.v - d.v)

(* FeeParams::receiver_fee *)
ReceiverFee(p, fee) == ApplyFactor(fee, p.rf)

FeesFail == [ok |-> FALSE, net |-> 0, pool |-> 0, recv |-> 0, value |-> 0]

(* FeeParams::apply_fees -> (amount - fee, Fees{pool = fee - receiver, receiver}) *)
ApplyFees(p, change, amt) ==
  LET fee == Fee(p, change, amt) IN
  IF ~fee.ok THEN FeesFail
  ELSE LET r == ReceiverFee(p, fee.v) IN
       IF ~r.ok \/ r.v > fee.v \/ fee.v > amt THEN FeesFail
       ELSE [ok |-> TRUE, net |-> amt - fee.v, pool |-> fee.v - r.v, recv |-> r.v, value |-> fee.v]

(* FeeParams::order_fees(price, size_delta_usd, change): fee value in usd, amounts in collateral
   tokens at the min price (floor) *)
OrderFees(p, pmin, pmax, size, change) ==
  IF pmin = 0 \/ pmax = 0 THEN FeesFail
  ELSE LET fv == Fee(p, change, size) IN
       IF ~fv.ok THEN FeesFail
       ELSE LET amount == fv.v \div pmin
                r == ReceiverFee(p, amount) IN
            IF ~r.ok \/ r.v > amount THEN FeesFail
            ELSE [ok |-> TRUE, net |-> 0, pool |-> amount - r.v, recv |-> r.v, value |-> fv.v]

LiqFail == [ok |-> FALSE, value |-> 0, amount |-> 0, recv |-> 0]
(* LiquidationFeeParams::fee(size_delta_usd, price): amount rounded UP at the min price *)
LiquidationFee(lf, lrf, size, pmin) ==
  IF lf = 0 THEN [ok |-> TRUE, value |-> 0, amount |-> 0, recv |-> 0]
  ELSE LET v == ApplyFactor(size, lf) IN
       IF ~v.ok THEN LiqFail
       ELSE LET a == RoundUpDiv(v.v, pmin) IN
            IF ~a.ok THEN LiqFail
            ELSE LET r == ApplyFactor(a.v, lrf) IN
                 IF ~r.ok THEN LiqFail
                 ELSE [ok |-> TRUE, value |-> v.v, amount |-> a.v, recv |-> r.v]
(* LiquidationFees::fee_amount_for_pool *)
LiquidationPool(l) == U(l.amount - l.recv)

(* PositionExt::position_fees with no pending borrowing / funding fees (fresh position):
   liquidation fee first (if requested), then order fees, borrowing amount = floor(0 / pmin).
   Aggregates: PositionFees::for_pool / for_receiver / total_cost_excluding_funding. *)
PositionFees(p, lf, lrf, pmin, pmax, size, change, isLiq) ==
  LET l == IF isLiq THEN LiquidationFee(lf, lrf, size, pmin)
                    ELSE [ok |-> TRUE, value |-> 0, amount |-> 0, recv |-> 0]
      o == OrderFees(p, pmin, pmax, size, change)
      lp == LiquidationPool(l)
  IN [ok |-> l.ok /\ o.ok, o |-> o, l |-> l,
      poolOk  |-> l.ok /\ o.ok /\ lp.ok,
      forPool |-> o.pool + lp.v,
      forRecv |-> o.recv + l.recv,
      total   |-> o.pool + o.recv + l.amount]
=============================================================================
