---------------------------- MODULE Trace_TxPack ----------------------------
(* C41 trace validation: every event is one complete run of the real packing code (see
   TxPackProps for the event).  A run whose optimize() panicked produced nothing and is only counted. *)
EXTENDS TxPackProps, TraceLib
VARIABLE i
Init == i = 0
Next ==
  /\ i < NRec
  /\ i' = i + 1
  /\ LET e == Rec[i'] IN
       /\ Judge(i', << <<"Flatten", ~e.panic => MonFlatten(e)>>,
                       <<"NoSplit", ~e.panic => MonNoSplit(e)>>,
                       <<"MergeAllowed", ~e.panic => MonMergeAllowed(e)>>,
                       <<"Payer", ~e.panic => MonPayer(e)>>,
                       <<"Limits", ~e.panic => MonLimits(e)>>,
                       <<"Estimate", ~e.panic => MonEstimate(e)>> >>)
       /\ Drift(i', ~e.panic /\ Conforms(e), IF e.panic THEN "panic" ELSE "optimize")
Spec == Init /\ [][Next]_i
Done == Emit("DONE", [events |-> TLCGet("stats").diameter - 1])
=============================================================================
