----------------------------- MODULE Wide_Pool -----------------------------
(* Wide tier (Apalache, unbounded integers): the monitors of PoolProps on operations recorded from
   the real u128 pool at and around the type limits (totals up to 2^128-1, deltas at +-2^127). *)
EXTENDS PoolProps, WideData
VARIABLES
  \* @type: Set(Int);
  bad,
  \* @type: Set(Int);
  drift
CInit128 == PMax = 340282366920938463463374607431768211455
Init ==
  /\ bad   = {i \in DOMAIN Events : ~(MonNoPanic(Events[i]) /\ MonSum(Events[i]) /\ MonDelta(Events[i]) /\ MonCancel(Events[i]))}
  /\ drift = {i \in DOMAIN Events : ~Conforms(Events[i])}
Next == UNCHANGED <<bad, drift>>
AllClean == bad = {} /\ drift = {}
=============================================================================
