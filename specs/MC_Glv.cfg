INIT Init
NEXT Next
CONSTANTS
  Unit = 10
  MaxU = 2147483647
  MaxS = 2147483647
  Div = 1
  Bals = {0, 1, 3}
  Sups = {0, 2, 5}
  PvsNonNeg = {0, 2, 3, 7}
  MSups = {1, 2, 4}
  Ms = {1, 2, 3}
  MaxAs = {0, 3}
  MaxVs = {0, 5}
  Small2 = FALSE
INVARIANTS Case
CHECK_DEADLOCK FALSE
