------------------------------ MODULE Trace_Apy ------------------------------
EXTENDS ApyProps, TraceLib
VARIABLE i
Init == i = 0
Next ==
  /\ i < NRec
  /\ i' = i + 1
  /\ LET e == Rec[i'] IN
       /\ Judge(i', << <<"NoPanic", ~e.panic>>, <<"Avg", MonAvg(e)>>, <<"RewardMono", MonRewardMono(e)>>, <<"RewardMonoWide", MonRewardMonoWide(e)>>,
                       <<"Partial", MonPartial(e)>>, <<"FullSweeps", MonFullSweeps(e)>>,
                       <<"AllIsFull", MonAllIsFull(e)>>, <<"ClaimDisabled", MonClaimDisabled(e)>> >>)
       /\ Drift(i', ~e.panic /\ Conforms(e), e.op)
Spec == Init /\ [][Next]_i
Done == Emit("DONE", [events |-> TLCGet("stats").diameter - 1])
=============================================================================
