----------------------------- MODULE MC_Timelock -----------------------------
(* Bounded model for C36: NB buffers, approvers 1..NA, initial delay in Delays, up to Depth
   operations.  The monitors are checked on every transition (action property) on the event the
   transition would log; hist (hidden by the VIEW) is the path, printed once per distinct state. *)
EXTENDS TimelockProps, TLC, Json
CONSTANTS NB, NA, Delays, Depth, PrintPaths
VARIABLES s, hist, ev
vars == <<s, hist, ev>>
View == <<s, Len(hist)>>

Bufs == 1..NB
Apps == 1..NA
Init ==
  /\ \E d \in Delays :
       /\ s = [buf |-> [b \in Bufs |-> None], delay |-> d, now |-> 10, holds |-> Apps]
       /\ hist = << [op |-> "init", b |-> 0, x |-> d] >>        \* the path starts with the initial delay
  /\ ev = [op |-> "none"]

Calls ==
  {[op |-> "create", b |-> b, x |-> sh] : b \in Bufs, sh \in {1, 2, 3}} \cup
  {[op |-> "approve", b |-> b, x |-> a] : b \in Bufs, a \in Apps} \cup
  {[op |-> o, b |-> b, x |-> 0] : o \in {"cancel", "execute"}, b \in Bufs} \cup
  {[op |-> "increase_delay", b |-> 0, x |-> d] : d \in {0, 1}} \cup
  {[op |-> o, b |-> 0, x |-> a] : o \in {"revoke", "grant"}, a \in Apps} \cup
  {[op |-> "tick", b |-> 0, x |-> 1]}

Next ==
  /\ Len(hist) <= Depth
  /\ \E c \in Calls :
       LET r == Apply(s, c) IN
       /\ s' = r.s
       /\ hist' = Append(hist, c)
       /\ ev' = [op |-> c.op, b |-> c.b, x |-> c.x, ok |-> r.ok, pre |-> s, post |-> r.s]
Spec == Init /\ [][Next]_vars

(* the monitors that do not need the recorded instructions *)
StepMon == [][LET e == ev' IN MonExecute(e) /\ MonApprove(e) /\ MonApprovalStable(e) /\ MonDelay(e)
                              /\ MonNoRerun(e) /\ MonFailed(e)]_vars
(* design facts behind the statement: a buffer with an invalid signer shape never exists *)
NoBadShape == \A b \in Bufs : Live(s.buf[b]) => ValidShape(s.buf[b].shape)
PathOut == PrintPaths /\ Len(hist) > 1 => PrintT("T|" \o ToJson([nb |-> NB, na |-> NA, path |-> hist]))
=============================================================================
