-------------------------- MODULE PositionFixtures --------------------------
(* Constructors for small markets / positions / prices shared by the MC_Position* models.
   Small world: Unit = 10 ("one dollar" = 10, factors in tenths), token amounts and prices of a few
   tens, so that every product stays far below 2^31. *)
EXTENDS PositionProps

Pr(a, b)  == [min |-> a, max |-> b]
Px(i, l, s) == [i |-> i, l |-> l, s |-> s]
P2(l, s)  == [L |-> l, S |-> s]
P4(ll, ls, sl, ss) == [L |-> P2(ll, ls), S |-> P2(sl, ss)]
Z4        == P4(0, 0, 0, 0)

Cfg0 == [pf |-> 1, nf |-> 2, iexp |-> 2 * Unit, feePos |-> 0, feeNeg |-> 1, feeRecv |-> 3,
         minSize |-> 10, minCollVal |-> 5, minCollF |-> 1, minCollFLiq |-> 1,
         maxPosImp |-> 2, maxNegImp |-> 3, maxImpLiq |-> 0, borRecv |-> 3, liqF |-> 1, liqRecv |-> 3,
         maxPnlTrader |-> 5, maxPnlAdl |-> 5, minPnlAdl |-> 0, resF |-> Unit, oiResF |-> Unit,
         maxOI |-> 1000000, mcfOI |-> 0, fadj |-> 1]

Market0(c) == [c |-> c, pool |-> P2(0, 0), fee |-> P2(0, 0), ip |-> 0, oi |-> Z4, oit |-> Z4,
               bf |-> P2(0, 0), fps |-> Z4, cfps |-> Z4, csum |-> Z4, tb |-> P2(0, 0),
               vi |-> [on |-> FALSE, L |-> 0, S |-> 0]]

Pos(long, clong, coll, size, tok) ==
  [long |-> long, clong |-> clong, coll |-> coll, size |-> size, tok |-> tok, bf |-> 0, fps |-> 0,
   cfl |-> 0, cfs |-> 0]
EmptyPos(long, clong) == Pos(long, clong, 0, 0, 0)

(* register an open position in the market aggregates (as if it had been opened in this market) *)
WithPos(m, p) ==
  [m EXCEPT !.oi[Sd(p.long)][Sd(p.clong)] = @ + p.size, !.oit[Sd(p.long)][Sd(p.clong)] = @ + p.tok,
            !.csum[Sd(p.long)][Sd(p.clong)] = @ + p.coll,
            !.tb[Sd(p.long)] = @ + (p.size * p.bf) \div Unit,
            !.vi = ViAfter(@, p.long, p.size)]
=============================================================================
