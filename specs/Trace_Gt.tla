------------------------------ MODULE Trace_Gt ------------------------------
EXTENDS GtProps, TraceLib
VARIABLE i
Init == i = 0
Next ==
  /\ i < NRec
  /\ i' = i + 1
  /\ LET e == Rec[i'] IN
       /\ Judge(i', << <<"NoPanic", MonNoPanic(e)>>,
                       (* state monitors: the pre-state satisfied them (initial state or previous step) *)
                       <<"SupplySum", MonSupplySum(e.pre) => MonSupplySum(e.post)>>,
                       <<"CostFn", MonCostFn(e.cfg, e.pre) => MonCostFn(e.cfg, e.post)>>,
                       <<"Rank", MonRank(e.cfg, e.pre) => MonRank(e.cfg, e.post)>>,
                       <<"TotalMonotone", MonTotalMonotone(e)>>,
                       <<"MintForValue", MonMintForValue(e)>>,
                       <<"MintBurnAmount", MonMintBurnAmount(e)>> >>)
       /\ Drift(i', Conforms(e), e.op)
Spec == Init /\ [][Next]_i
Done == Emit("DONE", [events |-> TLCGet("stats").diameter - 1])
=============================================================================
