------------------------------ MODULE SwapPath ------------------------------
(* Swap paths of user actions (store program): creation-time validation
   (states/common/swap.rs validate_and_init / validate_path), execution-time validation
   (crates/utils/src/swap.rs validated_primary / secondary_swap_path; revertible/swap_market.rs
   SwapMarkets::new, revertible_swap_for_one_side, swap_along_the_path) and the effect of the hops on
   the recorded balances of the Vaults state.

   A path is a sequence of market labels; M is the token meta of Vaults.  A step through market m
   converts the current token into m's other token; a market that does not trade the current token,
   and a single-token market (a no-op step), make the walk invalid. *)
EXTENDS Vaults, Sequences

Invalid == "invalid"
NoDup(p) == \A i, j \in DOMAIN p : i # j => p[i] # p[j]
HasNoOp(M, p) == \E i \in DOMAIN p : p[i] \in DOMAIN M /\ Pure(M, p[i])

StepTok(M, m, t) ==
  IF m \notin DOMAIN M \/ t = Invalid THEN Invalid
  ELSE IF Pure(M, m) THEN Invalid
  ELSE IF t = M[m].long THEN M[m].short
  ELSE IF t = M[m].short THEN M[m].long
  ELSE Invalid
(* tokens along the walk: Toks[0] = tin, Toks[i] = token after step i *)
Toks(M, p, tin) == LET W[i \in 0..Len(p)] == IF i = 0 THEN tin ELSE StepTok(M, p[i], W[i - 1]) IN W
EndTok(M, p, tin) == Toks(M, p, tin)[Len(p)]

(* validate_path: unique markets, no no-op step, consecutive tokens, ends in the expected token *)
ValidPath(M, p, tin, tout) == NoDup(p) /\ EndTok(M, p, tin) = tout

(* creation of a MarketSwap order: at least one step; the output token is a collateral token of
   the order's market *)
ValidCreateOrder(M, cur, p, tin, tout) ==
  /\ Len(p) >= 1 /\ ValidPath(M, p, tin, tout)
  /\ tout \in {M[cur].long, M[cur].short}
(* creation of a deposit / withdrawal: both side paths valid, at most 10 steps in total *)
ValidCreateSides(M, p, p2, tin, tin2, tout, tout2) ==
  ValidPath(M, p, tin, tout) /\ ValidPath(M, p2, tin2, tout2) /\ Len(p) + Len(p2) <= 10

(* execution: the current market's account is not among the swap markets, so it can only be the
   first and / or last step of a path *)
CurrentAtEndsOnly(p, cur) == \A i \in DOMAIN p : p[i] = cur => (i = 1 \/ i = Len(p))
Executable(M, cur, p, tin, tout) == ValidPath(M, p, tin, tout) /\ CurrentAtEndsOnly(p, cur)

(* ---- hops as reported by the program: [m, tin, tout, ain, aout] ---- *)
HopMarkets(hs) == [i \in DOMAIN hs |-> hs[i].m]
(* a chain follows path p from token tin to token tout, each step consuming the previous output *)
ChainOK(M, hs, p, tin, tout) ==
  /\ HopMarkets(hs) = p
  /\ \A i \in DOMAIN hs :
       /\ hs[i].tin = Toks(M, p, tin)[i - 1] /\ hs[i].tout = Toks(M, p, tin)[i]
       /\ i > 1 => hs[i].ain = hs[i - 1].aout
  /\ EndTok(M, p, tin) = tout

(* net effect of the hops on the recorded balance of (m, t): what came in minus what went out *)
HopDelta(hs, m, t) ==
  LET D[i \in 0..Len(hs)] ==
        IF i = 0 THEN 0
        ELSE D[i - 1] + (IF hs[i].m = m /\ hs[i].tin = t THEN hs[i].ain ELSE 0)
                      - (IF hs[i].m = m /\ hs[i].tout = t THEN hs[i].aout ELSE 0)
  IN D[Len(hs)]
BalDelta(p, q, M, m, t) == BalOf(q, M, m, t) - BalOf(p, M, m, t)

(* ---- design-level execution of one side on a Vaults state (rate 1:1, fee 1 when amount > 1) ---- *)
OutOf(x) == IF x > 1 THEN x - 1 ELSE x
SideOf(M, m, t) == IF t = M[m].long THEN "long" ELSE "short"
(* R[i] = [ok, st, amt, hops] after i steps; the input amount x of token tin is already recorded in
   the first market (or in the current market when the path is empty) *)
RunChain(s, M, p, tin, x) ==
  LET T == Toks(M, p, tin)
      R[i \in 0..Len(p)] ==
        IF i = 0 THEN [ok |-> TRUE, st |-> s, amt |-> x, hops |-> <<>>]
        ELSE LET r == R[i - 1]
                 m == p[i]
                 sd == SideOf(M, m, T[i - 1])
                 y == OutOf(r.amt)
             IN IF ~r.ok \/ T[i] = Invalid \/ ~CanHop(r.st, m, sd, y) THEN [r EXCEPT !.ok = FALSE]
                ELSE LET a == IF i = 1 THEN r.st
                              ELSE RecordIn(RecordOut(r.st, M, p[i - 1], SideOf(M, p[i - 1], T[i - 1]), r.amt), M, m, sd, r.amt)
                         b == Hop(a, m, sd, r.amt, r.amt - y, y)
                     IN [ok |-> TRUE, st |-> b, amt |-> y,
                         hops |-> Append(r.hops, [m |-> m, tin |-> T[i - 1], tout |-> T[i], ain |-> r.amt, aout |-> y])]
  IN R[Len(p)]

(* a MarketSwap order: vault -> first market, hops, last market -> vault *)
ExecOrder(s, M, p, tin, x) ==
  LET s1 == TransferIn(s, M, p[1], SideOf(M, p[1], tin), x)
      r == RunChain(s1, M, p, tin, x)
      last == p[Len(p)]
      tout == EndTok(M, p, tin)
  IN IF ~r.ok THEN [ok |-> FALSE, st |-> s, hops |-> <<>>]
     ELSE [ok |-> TRUE, st |-> TransferOut(r.st, M, last, SideOf(M, last, tout), r.amt), hops |-> r.hops]

(* one side of a deposit into `cur`: vault -> first market (or cur), hops, last market -> cur, pool *)
ExecDepositSide(s, M, cur, p, tin, x) ==
  LET first == IF Len(p) = 0 THEN cur ELSE p[1]
      s1 == TransferIn(s, M, first, SideOf(M, first, tin), x)
      r == RunChain(s1, M, p, tin, x)
      tout == EndTok(M, p, tin)
      sd == SideOf(M, cur, tout)
      last == IF Len(p) = 0 THEN cur ELSE p[Len(p)]
      s2 == IF last = cur THEN r.st ELSE RecordIn(RecordOut(r.st, M, last, SideOf(M, last, tout), r.amt), M, cur, sd, r.amt)
  IN IF ~r.ok THEN [ok |-> FALSE, st |-> s, hops |-> <<>>]
     ELSE [ok |-> TRUE, st |-> [s2 EXCEPT !.liq[cur][sd] = @ + r.amt], hops |-> r.hops]
=============================================================================
