----------------------------- MODULE MC_Borrowing -----------------------------
(* C13, design level: cumulative borrowing factors and the total-borrowing bookkeeping on a small
   abstract market with three positions (two long, one short): increases and decreases apply
   UpdateTotalBorrowing BEFORE the size changes and stamp the position with the current cumulative
   factor; UpdateBorrowing advances both factors by BorrowingFactorPerSecond (kink model and exponent
   model, with and without the skip-smaller-side rule) times the seconds passed.  Invariants = the
   C13 monitors, including TotalPendingBorrowingFees for hypothetical clock advances.
   Operation scripts of explored behaviours are printed (T|...) and replayed on the real code. *)
EXTENDS MarketHistProps, TLC, Json
CONSTANTS MaxDepth, Sample
VARIABLES ps, oi, oit, bf, tb, now, ckb, kind, depth, hist
vars == <<ps, oi, oit, bf, tb, now, ckb, kind, depth, hist>>
View == <<ps, oi, oit, bf, tb, now, ckb, kind, depth>>

Slots == <<[long |-> TRUE, cl |-> TRUE, slot |-> 1], [long |-> TRUE, cl |-> FALSE, slot |-> 2],
           [long |-> FALSE, cl |-> FALSE, slot |-> 4]>>
Z22 == <<<<0, 0>>, <<0, 0>>>>
Px  == [imin |-> 10, imax |-> 10, lmin |-> 10, lmax |-> 10, smin |-> 1, smax |-> 1]
(* the driver's borrowing presets bp = 0 (kink, skip smaller side), 1 (exponent model), 3 (kink, no skip,
   open interest ignored for usage) at DECIMALS = 1 *)
Kinds == <<
  [b_factor |-> <<0, 0>>, b_exp |-> <<10, 10>>, b_skip |-> TRUE,  k_opt |-> 7, k_base |-> 5, k_above |-> 20,
   oi_reserve |-> 10, max_oi |-> 4000, ignore_oi |-> FALSE, bp |-> 0],
  [b_factor |-> <<10, 15>>, b_exp |-> <<10, 10>>, b_skip |-> FALSE, k_opt |-> 0, k_base |-> 0, k_above |-> 0,
   oi_reserve |-> 10, max_oi |-> 4000, ignore_oi |-> FALSE, bp |-> 1],
  [b_factor |-> <<0, 0>>, b_exp |-> <<10, 10>>, b_skip |-> FALSE, k_opt |-> 5, k_base |-> 10, k_above |-> 5,
   oi_reserve |-> 10, max_oi |-> 4000, ignore_oi |-> TRUE, bp |-> 3] >>
C == Kinds[kind]
(* liquidity is tiny on purpose so that usage is high and the rates are non-zero *)
M == [oi |-> oi, oit |-> oit, bf |-> bf, tb |-> tb, liq |-> <<12, 130>>, now |-> now, ck_b |-> ckb]

Init ==
  /\ ps = [k \in 1..3 |-> [long |-> Slots[k].long, cl |-> Slots[k].cl, size |-> 0, tok |-> 0, bf |-> 0]]
  /\ oi = Z22 /\ oit = Z22 /\ bf = <<0, 0>> /\ tb = <<0, 0>> /\ now = 0 /\ ckb = -1
  /\ kind \in 1..Len(Kinds) /\ depth = 0 /\ hist = <<>>

Step(op) == depth < MaxDepth /\ depth' = depth + 1 /\ hist' = Append(hist, op)

Resize(k, dusd, dtok, op) ==
  LET p == ps[k]
      s == Ix(p.long)
      n == UpdateTotalBorrowing(tb[s], p.size, p.bf, p.size + dusd, bf[s])
      o == ApplyOIDelta(M, C, p.long, p.cl, dusd, dtok)
  IN /\ n.ok /\ o.ok
     /\ tb' = [x \in 1..2 |-> IF x = s THEN n.v ELSE tb[x]]
     /\ ps' = [ps EXCEPT ![k] = [p EXCEPT !.size = p.size + dusd, !.tok = p.tok + dtok, !.bf = bf[s]]]
     /\ oi' = o.oi /\ oit' = o.oit
     /\ UNCHANGED <<bf, now, ckb, kind>>
     /\ Step(op)

Increase(k, dusd) ==
  Resize(k, dusd, IF ps[k].long THEN dusd \div 10 ELSE CeilDiv(dusd, 10),
         [op |-> "increase", pos |-> Slots[k].slot, size |-> dusd,
          coll |-> IF ps[k].cl THEN dusd \div 20 ELSE dusd \div 2])
Decrease(k, dusd) ==
  /\ dusd > 0 /\ dusd <= ps[k].size
  /\ Resize(k, -dusd, -SizeDeltaInTokens(ps[k].long, ps[k].size, ps[k].tok, dusd).v,
            [op |-> "decrease", pos |-> Slots[k].slot, size |-> dusd, wd |-> 0, cap |-> FALSE,
             liq |-> FALSE, ins |-> TRUE])
Tick(d) == /\ now' = now + d /\ UNCHANGED <<ps, oi, oit, bf, tb, ckb, kind>>
           /\ Step([op |-> "tick", dt |-> d])
UpdateBorrowing ==
  LET d  == PassedBorrowing(M)
      nl == NextCumulativeBorrowingFactor(M, C, Px, TRUE, d)
      ns == NextCumulativeBorrowingFactor(M, C, Px, FALSE, d)
  IN /\ nl.ok /\ ns.ok
     /\ bf' = <<nl.v, ns.v>> /\ ckb' = now
     /\ UNCHANGED <<ps, oi, oit, tb, now, kind>>
     /\ Step([op |-> "update_borrowing"])

Next ==
  \/ \E k \in 1..3, d \in {30, 111} : Increase(k, d)
  \/ \E k \in 1..3 : \E d \in {7, ps[k].size} : Decrease(k, d)
  \/ \E d \in {1, 4} : Tick(d)
  \/ UpdateBorrowing
Spec == Init /\ [][Next]_vars

Pos == [k \in 1..3 |-> ps[k]]
InvTotalBorrowing == C13_TotalBorrowing(M, Pos)
(* here the bookkeeping is exact: total = sum of floor(size * factor / Unit) *)
InvTotalExact == \A long \in BOOLEAN : tb[Ix(long)] = SumBorrowing(Pos, long)
InvPendingState == C13_PendingState(M)
InvPendingFees ==
  \A long \in BOOLEAN, extra \in {0, 1, 7, 100} :
     LET d == IF ckb < 0 THEN 0 ELSE PassedBorrowing(M) + extra
         r == TotalPendingBorrowingFees(M, C, Px, long, d) IN r.ok /\ r.v >= 0
InvPositionFees == \A k \in 1..3 : PendingBorrowingFeeValue(M, ps[k]).ok
PropFactorMonotone == [][C13_FactorMonotone([bf |-> bf], [bf |-> bf'])]_vars
Digest == ps[1].size + 3 * ps[2].size + 7 * ps[3].size + 5 * bf[1] + 11 * bf[2] + now + kind
InvEmit == (depth = MaxDepth /\ bf[1] + bf[2] > 0 /\ Digest % Sample = 0) =>
             PrintT("T|" \o ToJson([bp |-> C.bp, ops |-> hist]))
=============================================================================
