---------------------------- MODULE ConfigKVProps ----------------------------
(* Monitors of C16 (every configuration key reads and writes its own setting) and C17 (a newly
   created market starts from the documented default configuration).

   C16 event (one write through a key, self-contained):
     [op |-> "write", scope, kind, key, v, ok, err, panic, closed,
      cfg0 : Key -> Val before, cfg : Key -> Val after   (full projection through the getters),
      params : accessor -> Val   (model-trait parameters after the write)]
   C17 event (observations right after Market::init):
     [op |-> "key",  pure, key, v, consts : constant name -> value]      one per config key / flag
     [op |-> "pool", pure, kind, ppure, l, s, rev]                       one per pool kind
     [op |-> "buffer", rev]                                              revertible buffer revision *)
EXTENDS ConfigKV

(* ---------------------------------------- C16 ---------------------------------------------- *)
MonNoPanic(e) == ~e.panic

(* writing v through key k is observed when reading k *)
MonReadBack(e) == e.ok => (e.key \in DOMAIN e.cfg /\ e.cfg[e.key] = e.v)

(* ... and changes no other key (frame condition over the whole projection) *)
MonFrame(e) ==
  /\ DOMAIN e.cfg = DOMAIN e.cfg0
  /\ \A k \in DOMAIN e.cfg : k # e.key => e.cfg[k] = e.cfg0[k]

(* a rejected write changes nothing *)
MonRejected(e) == ~e.ok => e.cfg = e.cfg0

(* every parameter of the market model returns the value of the key that names it - for the right
   side, and under the closed-market switch the closed-market key.  Because the driver keeps the
   values of all keys distinct, this also means NO OTHER parameter returns the written value. *)
Judgeable(e, p) ==
  KnownAccessor(p) /\ SourceKey(p, ClosedMode(e.cfg, e.closed)) \in DOMAIN e.cfg
  /\ (p = FallbackAccessor => "min_collateral_factor" \in DOMAIN e.cfg)
MonParam(e) ==
  \A p \in DOMAIN e.params :
    Judgeable(e, p) => e.params[p] = ParamValue(e.cfg, p, ClosedMode(e.cfg, e.closed))

(* the transcription: which writes are accepted, and that the driver and the tables agree on the
   set of accessors *)
Writable(cfg0, k) ==
  k \in DOMAIN cfg0 /\ cfg0[k] # "unimplemented" /\ k # "amount.claimable_time_window"
Conforms(e) ==
  /\ ~e.panic
  /\ e.ok = Writable(e.cfg0, e.key)
  /\ e.cfg = (IF e.ok THEN Write(e.cfg0, e.key, e.v) ELSE e.cfg0)
  /\ \A p \in DOMAIN e.params : Judgeable(e, p)
  /\ e.scope = "market" =>
       \A t \in ParamTable : t[1] \in DOMAIN e.cfg => t[2] \in DOMAIN e.params

(* the event the specification produces for a write (used by MC_ConfigKV) *)
MarketAccessors(cfg) == {p \in Accessors : \A m \in BOOLEAN : SourceKey(p, m) \in DOMAIN cfg}
ParamsOf(cfg, closed) ==
  [p \in MarketAccessors(cfg) |-> ParamValue(cfg, p, ClosedMode(cfg, closed))]
SpecWrite(cfg0, closed, k, v) ==
  LET ok == Writable(cfg0, k)
      c1 == IF ok THEN Write(cfg0, k, v) ELSE cfg0
  IN [op |-> "write", scope |-> "market", kind |-> "any", key |-> k, v |-> v, ok |-> ok, err |-> "",
      panic |-> FALSE, closed |-> closed, cfg0 |-> cfg0, cfg |-> c1, params |-> ParamsOf(c1, closed)]

(* ---------------------------------------- C17 ---------------------------------------------- *)
DefaultJudgeable(e) ==
  HasDefault(e.key) /\ (DefaultName(e.key) = "UNSET" \/ DefaultName(e.key) \in DOMAIN e.consts)
(* every config value and flag equals the documented default constant for that setting *)
MonDefault(e) ==
  (e.op = "key" /\ DefaultJudgeable(e)) => e.v = ConstValue(e.consts, DefaultName(e.key))
(* pools are pure exactly when the tokens coincide, three pools always impure *)
MonPoolPure(e) == e.op = "pool" => e.ppure = PoolPure(e.pure, e.kind)
(* all pool amounts start at zero *)
MonPoolZero(e) == e.op = "pool" => (e.l = "0" /\ e.s = "0")
ConformsInit(e) ==
  /\ e.op = "key" => DefaultJudgeable(e)
  /\ e.op = "pool" => e.rev = 0
  /\ e.op = "buffer" => e.rev = 1
=============================================================================
