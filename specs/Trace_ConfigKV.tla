--------------------------- MODULE Trace_ConfigKV ---------------------------
(* C16: judges every recorded write on the real Market / Store. *)
EXTENDS ConfigKVProps, TraceLib
VARIABLE i
Init == i = 0
Next ==
  /\ i < NRec
  /\ i' = i + 1
  /\ LET e == Rec[i'] IN
       /\ Judge(i', << <<"NoPanic", MonNoPanic(e)>>, <<"ReadBack", MonReadBack(e)>>,
                       <<"Frame", MonFrame(e)>>, <<"Rejected", MonRejected(e)>>,
                       <<"Param", MonParam(e)>> >>)
       /\ Drift(i', Conforms(e), e.key)
Spec == Init /\ [][Next]_i
Done == Emit("DONE", [events |-> TLCGet("stats").diameter - 1])
=============================================================================
