--------------------------- MODULE ReferralProps ---------------------------
(* C33: "A user's referrer can be set at most once, never to the user themselves and never to a
   user who is already referred by them.  A referral code belongs to exactly one user at a time, and
   ownership changes only when the proposed new owner accepts."

   Monitors over one step: p = state before, a = [op, u, c, v] the attempted operation signed by
   a.u, ok = whether the program accepted it, q = state after.  Nothing here is stronger than the
   statement; what the code additionally does (which error, that a rejection changes nothing)
   belongs to `Conforms`. *)
EXTENDS Referral

(* the referrer of a user is write-once *)
MonWriteOnce(p, q) ==
  \A u \in UsersOf(p) : p.referrer[u] # None => q.referrer[u] = p.referrer[u]

(* never the user themselves *)
MonNotSelf(q) == \A u \in UsersOf(q) : q.referrer[u] # u

(* never a user who is already referred by them: a referrer set in this step must not already have
   this user as referrer - so no two users ever refer to each other *)
MonNotMutual(p, q) ==
  /\ \A u \in UsersOf(q) :
       (p.referrer[u] = None /\ q.referrer[u] # None) => p.referrer[q.referrer[u]] # u
  /\ \A u, v \in UsersOf(q) : ~(q.referrer[u] = v /\ q.referrer[v] = u)

(* an existing code belongs to exactly one user: the recorded owner is a user, and the users whose
   account points at the code are exactly that owner *)
MonOneOwner(q) ==
  /\ \A c \in CodesOf(q) :
       Exists(q, c) => /\ q.codeOwner[c] \in UsersOf(q)
                       /\ {u \in UsersOf(q) : q.userCode[u] = c} = {q.codeOwner[c]}
  /\ \A u \in UsersOf(q) : q.userCode[u] # None => Exists(q, q.userCode[u])

(* the pending proposal of a code as the SPECIFICATION tracks it: set by an accepted Transfer, cleared
   by an accepted Cancel or Accept (in the specification's state: next owner different from owner) *)
Pending(s) ==
  [c \in CodesOf(s) |-> IF Exists(s, c) /\ s.codeNext[c] # s.codeOwner[c] THEN s.codeNext[c] ELSE None]

(* ownership of an existing code changes only when the proposed new owner accepts - `pend` is the
   proposal according to the history of accepted operations (not the account's own next_owner field);
   a code comes into existence owned by the signer who created it; codes never disappear *)
MonOwnerChange(p, pend, a, ok, q) ==
  \A c \in CodesOf(p) :
    q.codeOwner[c] # p.codeOwner[c] =>
      IF Exists(p, c)
      THEN /\ ok /\ a.op = "accept" /\ a.c = c
           /\ pend[c] # None /\ a.u = pend[c]   \* the signer is the proposed owner ...
           /\ a.u # p.codeOwner[c]              \* ... a genuine proposal, not the owner itself
           /\ q.codeOwner[c] = a.u
      ELSE /\ ok /\ a.op = "create" /\ a.c = c /\ q.codeOwner[c] = a.u

(* precise specification vs code *)
Conforms(p, a, ok, err, q) ==
  LET r == Apply(p, a) IN r.ok = ok /\ r.st = q /\ (~ok => r.err = err)
ConformsNoErr(p, a, ok, q) ==
  LET r == Apply(p, a) IN r.ok = ok /\ r.st = q
=============================================================================
