SPECIFICATION Spec
CONSTANTS
  GUnit = 10
POSTCONDITION Done
CHECK_DEADLOCK FALSE
