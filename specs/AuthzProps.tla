----------------------------- MODULE AuthzProps -----------------------------
(* C19: "Every state-changing instruction ... either needs no privilege by design or rejects any
   signer that lacks its documented role, authority or ownership.  Such a rejection leaves all
   accounts unchanged." *)
EXTENDS Authz

(* a successful invocation implies that the signer satisfies the documented requirement *)
MonRequires(req, ok, grants, isAdmin, isOwner) == ok => Satisfies(req, grants, isAdmin, isOwner)

(* measured events: e = [instr, class, ok, db_changed, ...], req = Req[e.instr] *)
MonRejectsUnprivileged(e, req, pool) == e.ok => ClassSatisfies(req, e.class, pool)
MonRejectionUnchanged(e) == ~e.ok => ~e.db_changed
=============================================================================
