------------------------------ MODULE ApyProps ------------------------------
(* C38 monitors.  Events (field `op` selects the shape):
   apy         [start, now, g, v]                       one call of compute_time_weighted_apy
   reward_pair [d, b, a1, c1, ok1, r1, a2, c2, ok2, r2] two calls of calculate_gt_reward_amount
   reward_pair_wide  as reward_pair at the type limits: b, a1, c1, a2, c2 (u128 arguments: apy per second,
               stake values, cost integrals) and r1, r2 (u64 results) are BigNum records [s, neg, l]
   unstake     [amount, value, claim, minv, vault, u, ok, full, transfer, amount2, value2]
               one unstake (position before, request, outcome) *)
EXTENDS Apy, BigNum

(* the time-weighted APY is the per-second average of the weekly buckets (elapsed time > 0) *)
MonAvg(e) == e.op = "apy" /\ e.now > e.start => e.v = AvgDef(e.now - e.start, e.g)

(* rewards never decrease with a larger stake value or a longer cost integral *)
MonRewardMono(e) ==
  e.op = "reward_pair" /\ e.ok1 /\ e.ok2 /\ e.a1 <= e.a2 /\ e.c1 <= e.c2 => e.r1 <= e.r2

(* the same at the type limits (raw rewards around and far above 2^64), judged on the real values *)
MonRewardMonoWide(e) ==
  e.op = "reward_pair_wide" /\ e.ok1 /\ e.ok2 /\ BigLe(e.a1, e.a2) /\ BigLe(e.c1, e.c2) => BigLe(e.r1, e.r2)

(* partial unstake: exactly the requested tokens, proportional rounded-down value *)
MonPartial(e) ==
  e.op = "unstake" /\ e.ok /\ ~e.full =>
    /\ e.transfer = e.u
    /\ e.amount2 = e.amount - e.u
    /\ e.value2 = (e.value * (e.amount - e.u)) \div e.amount
(* full exit sweeps the whole vault *)
MonFullSweeps(e) == e.op = "unstake" /\ e.ok /\ e.full => e.transfer = e.vault /\ e.amount2 = 0
(* an unstake that empties the position is a full exit *)
MonAllIsFull(e) == e.op = "unstake" /\ e.ok /\ e.u = e.amount => e.full
(* while claims are disabled only full exits are allowed *)
MonClaimDisabled(e) == e.op = "unstake" /\ e.ok /\ ~e.claim => e.full

Conforms(e) ==
  CASE e.op = "apy" -> e.v = AvgCode(e.start, e.now, e.g)
    [] e.op = "reward_pair" ->
         LET x == Reward(e.a1, e.d, e.b, e.c1)  y == Reward(e.a2, e.d, e.b, e.c2) IN
         e.ok1 = x.ok /\ e.ok2 = y.ok /\ (x.ok => e.r1 = x.v) /\ (y.ok => e.r2 = y.v)
    [] e.op = "unstake" ->
         LET x == Unstake([amount |-> e.amount, value |-> e.value], e.claim, e.minv, e.vault, e.u) IN
         e.ok = x.ok /\ (x.ok => e.full = x.full /\ e.transfer = x.transfer
                                   /\ e.amount2 = x.amount /\ e.value2 = x.value)
    [] e.op = "reward_pair_wide" ->           \* well-formed numbers; a saturated result is u64::MAX
         /\ IsBig(e.a1) /\ IsBig(e.a2) /\ IsBig(e.c1) /\ IsBig(e.c2) /\ IsBig(e.r1) /\ IsBig(e.r2)
         /\ (e.sat1 => e.r1.s = "18446744073709551615") /\ (e.sat2 => e.r2.s = "18446744073709551615")
    [] OTHER -> FALSE
=============================================================================
