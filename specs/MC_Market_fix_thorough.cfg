SPECIFICATION Spec
CONSTANTS
  Unit = 10
  MaxU = 2147483647
  MaxS = 2147483647
  NDep = 2
  NWd = 1
  NSwap = 1
  Amounts = {1, 3, 10, 25}
  Pairs = 1
  WdAmounts = {10}
  CfgIds = {2, 3, 8, 13}
  ScenIds = {1, 2, 6}
  FixIds = {1, 2, 3}
  VaryPrices = FALSE
  EmitOps = {"swap", "deposit", "withdraw"}
INVARIANT MonitorsHold
CHECK_DEADLOCK FALSE
