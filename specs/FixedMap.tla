------------------------------ MODULE FixedMap ------------------------------
(* Fixed-capacity map of gmsol-utils (crates/utils/src/fixed_map.rs, macro fixed_map!).

   Reference: an ordinary map m (a function on a finite set of keys) plus a capacity.  Keys are
   integers whose order is the byte order of the real 32-byte (or 2-byte) keys; values are integers.
   A result is [ok, some, val]: ok = FALSE is Err, some = FALSE is None.

   The same operations are also given on the *entries sequence* (<<key, value>> pairs sorted by key),
   which is what the real map exposes through entries() and what the trace records; MC_FixedMap
   proves both forms agree. *)
EXTENDS Integers, Sequences, FiniteSets

None      == [ok |-> TRUE, some |-> FALSE, val |-> 0]
Some(v)   == [ok |-> TRUE, some |-> TRUE, val |-> v]
Err       == [ok |-> FALSE, some |-> FALSE, val |-> 0]

(* ---- reference: ordinary map ---- *)
Empty == [k \in {} |-> 0]
Put(m, k, v) == [x \in (DOMAIN m) \cup {k} |-> IF x = k THEN v ELSE m[x]]
Del(m, k)    == [x \in (DOMAIN m) \ {k} |-> m[x]]
Size(m)      == Cardinality(DOMAIN m)

(* each operation: [res, m] *)
MInsert(m, cap, k, v, new) ==
  IF k \in DOMAIN m
  THEN IF new THEN [res |-> Err, m |-> m] ELSE [res |-> Some(m[k]), m |-> Put(m, k, v)]
  ELSE IF Size(m) >= cap THEN [res |-> Err, m |-> m]          \* full + new key: error, unchanged
       ELSE [res |-> None, m |-> Put(m, k, v)]
MGet(m, k)    == [res |-> IF k \in DOMAIN m THEN Some(m[k]) ELSE None, m |-> m]
MRemove(m, k) == IF k \in DOMAIN m THEN [res |-> Some(m[k]), m |-> Del(m, k)] ELSE [res |-> None, m |-> m]
MClear(m)     == [res |-> None, m |-> Empty]
MLen(m)       == [res |-> Some(Size(m)), m |-> m]

(* ---- the same on sorted entry sequences ---- *)
KeyAt(s, i) == s[i][1]
ValAt(s, i) == s[i][2]
StrictlySorted(s) == \A i \in 1..(Len(s) - 1) : KeyAt(s, i) < KeyAt(s, i + 1)
Find(s, k) == LET I == {i \in DOMAIN s : KeyAt(s, i) = k} IN IF I = {} THEN 0 ELSE CHOOSE i \in I : TRUE
Pos(s, k)  == Cardinality({i \in DOMAIN s : KeyAt(s, i) < k}) + 1

SInsert(s, cap, k, v, new) ==
  LET i == Find(s, k) IN
  IF i # 0
  THEN IF new THEN [res |-> Err, s |-> s] ELSE [res |-> Some(ValAt(s, i)), s |-> [s EXCEPT ![i] = <<k, v>>]]
  ELSE IF Len(s) >= cap THEN [res |-> Err, s |-> s]
       ELSE LET p == Pos(s, k) IN
            [res |-> None, s |-> SubSeq(s, 1, p - 1) \o << <<k, v>> >> \o SubSeq(s, p, Len(s))]
SGet(s, k) == LET i == Find(s, k) IN [res |-> IF i # 0 THEN Some(ValAt(s, i)) ELSE None, s |-> s]
SRemove(s, k) ==
  LET i == Find(s, k) IN
  IF i # 0 THEN [res |-> Some(ValAt(s, i)), s |-> SubSeq(s, 1, i - 1) \o SubSeq(s, i + 1, Len(s))]
  ELSE [res |-> None, s |-> s]
SClear(s) == [res |-> None, s |-> << >>]
SLen(s)   == [res |-> Some(Len(s)), s |-> s]
(* get_entry_by_index(i), 0-based: the i-th smallest key; res.val is the value, key returned apart *)
SEntryAt(s, i) == [res |-> IF i < Len(s) THEN Some(ValAt(s, i + 1)) ELSE None, s |-> s]
SEntryKey(s, i) == IF i < Len(s) THEN KeyAt(s, i + 1) ELSE 0

(* one operation, described by a record [op, k, v, new]; entry_at uses k as the index *)
SApply(s, cap, o) ==
  CASE o.op = "insert"   -> SInsert(s, cap, o.k, o.v, o.new)
    [] o.op = "get"      -> SGet(s, o.k)
    [] o.op = "remove"   -> SRemove(s, o.k)
    [] o.op = "clear"    -> SClear(s)
    [] o.op = "len"      -> SLen(s)
    [] o.op = "entry_at" -> SEntryAt(s, o.k)
    [] OTHER             -> [res |-> Err, s |-> s]
=============================================================================
