------------------------------- MODULE MC_Num -------------------------------
(* Bounded exhaustive check that the operators of Num mean "mathematically rounded in the
   documented direction, or Fail exactly when undefined / unrepresentable" (plus the documented
   extra failure of the round-up helpers on intermediate overflow).  All (a, b, c) in 0..MaxU^3,
   with n = b - MaxS - 1 ranging over the signed type. *)
EXTENDS NumProps, TLC
VARIABLES a, b, c
vars == <<a, b, c>>
n == b - MaxS - 1          \* signed view of b: -MaxS-1 .. MaxS  (MaxU = 2*MaxS + 1)

Init == a \in 0..MaxU /\ b \in 0..MaxU /\ c \in 0..MaxU
Next == UNCHANGED vars

LMulDivFloor ==
  LET r == MulDivFloor(a, b, c) IN
  IF c = 0 THEN ~r.ok
  ELSE IF r.ok THEN IsFloor(r.v, a * b, c) /\ InU(r.v) ELSE (a * b) \div c > MaxU
LMulDivCeil ==
  LET r == MulDivCeil(a, b, c) IN
  IF c = 0 THEN ~r.ok
  ELSE IF r.ok THEN IsCeil(r.v, a * b, c) /\ InU(r.v) ELSE CeilDiv(a * b, c) > MaxU
LMulDivSigned ==
  LET r == MulDivSigned(a, n, c) IN
  r.ok => /\ c # 0 /\ InS(r.v) /\ Sgn(r.v) \in {0, Sgn(n)}
          /\ IsFloor(Abs(r.v), a * Abs(n), c)
LRoundUpDiv ==
  LET r == RoundUpDiv(a, c) IN
  /\ r.ok => c # 0 /\ IsCeil(r.v, a, c)
  /\ ~r.ok => c = 0 \/ a + c > MaxU
LRoundUpMag ==
  LET r == RoundUpMagDiv(a, n) IN
  /\ r.ok => a # 0 /\ IsCeil(Abs(r.v), Abs(n), a) /\ Sgn(r.v) = Sgn(n) /\ InS(r.v)
  /\ r.ok => r = RoundUpMagDivMath(a, n)
LBound ==
  LET r == BoundMagnitude(n, a, c) IN
  /\ r.ok => a <= c /\ a <= Abs(r.v) /\ Abs(r.v) <= c
             /\ (n < 0 => r.v <= 0) /\ (n >= 0 => r.v >= 0)
             /\ (a <= Abs(n) /\ Abs(n) <= c => r.v = n)
  /\ ~r.ok => a > c \/ a > MaxS \/ c > MaxS
LSignedOps ==
  /\ AddSigned(a, n).ok <=> InU(a + n)
  /\ SubSigned(a, n).ok <=> InU(a - n)
  /\ MulSigned(a, n).ok => MulSigned(a, n).v = a * n /\ InS(a * n)
  /\ SignedSub(a, c).ok => SignedSub(a, c).v = a - c
LFactor ==
  /\ DivToFactor(a, 0, TRUE) = Ok(0) /\ DivToFactor(a, 0, FALSE) = Ok(0)
  /\ DivToFactorSigned(n, 0) = Ok(0)
  /\ LET r == DivToFactor(a, c, FALSE) IN c # 0 /\ r.ok => IsFloor(r.v, a * Unit, c)
  /\ LET r == DivToFactor(a, c, TRUE) IN c # 0 /\ r.ok => IsCeil(r.v, a * Unit, c)
  /\ LET r == ApplyFactor(a, b) IN r.ok => IsFloor(r.v, a * b, Unit)
LMarketToken ==
  /\ UsdToMarketToken(a, 0, 0, c).ok <=> c # 0
  /\ c # 0 => UsdToMarketToken(a, 0, 0, c).v = a \div c        \* first deposit: usd / divisor
  /\ LET r == UsdToMarketToken(a, b, c, 1) IN (c # 0 /\ r.ok) => b # 0 /\ IsFloor(r.v, c * a, b)
  /\ LET r == MarketTokenToUsd(a, b, c) IN r.ok => c # 0 /\ IsFloor(r.v, b * a, c)
LPow ==
  /\ ApplyExponentFactor(a, 0).ok
  /\ a >= Unit => ApplyExponentFactor(a, Unit) = Ok(a)
  /\ a < Unit => ApplyExponentFactor(a, 2 * Unit) = Ok(0)
  /\ LET r == PowFixed(a, 2 * Unit) IN r.ok => IsFloor(r.v, a * a, Unit)
=============================================================================
