INIT Init
NEXT Next
CONSTANTS
  Unit = 10
  MaxU = 2147483647
  MaxS = 2147483647
  Amts = {0,1,2,3,4,5,6,7,8,9,10,11,12,13,14,15,16,17,18,19,20,21,22,23,24,25,26,27,28,29,30,31,32,33,34,35,36,37,38,39,40}
  Fs = {0,1,2,3,4,5,6,7,8,9,10,11,12,13,14,15}
  Gs = {2,12}
  Rfs = {0,1,2,3,4,5,6,7,8,9,10,11,12,13,14,15}
  Discs <- DiscsThorough
  OFs = {0,1,3,5,9,10,11,13,15}
  ORfs = {0,1,4,9,10,11,15}
  ODiscs <- ODiscsThorough
  Prices <- PricesAll
  LFs = {0,1,2,3,4,5,6,7,8,9,10,11,12,13,14,15}
  LRfs = {0,1,2,3,4,5,6,7,8,9,10,11,12,13,14,15}
INVARIANTS InvMonitors
CHECK_DEADLOCK FALSE
