-------------------------- MODULE Trace_ConfigInit --------------------------
(* C17: judges the observations recorded right after the real Market::init. *)
EXTENDS ConfigKVProps, TraceLib
VARIABLE i
Init == i = 0
Next ==
  /\ i < NRec
  /\ i' = i + 1
  /\ LET e == Rec[i'] IN
       /\ Judge(i', << <<"Default", MonDefault(e)>>, <<"PoolPure", MonPoolPure(e)>>,
                       <<"PoolZero", MonPoolZero(e)>> >>)
       /\ Drift(i', ConformsInit(e), e.op)
Spec == Init /\ [][Next]_i
Done == Emit("DONE", [events |-> TLCGet("stats").diameter - 1])
=============================================================================
