------------------------------ MODULE Revertible ------------------------------
(* The copy-on-write buffer of a market (programs/store/src/states/market/revertible/buffer.rs,
   market.rs), written like the code.  The market account holds, per slot (each pool kind, the
   clocks, the other-state), a stored value `storage[s]` and a buffered copy `buffer[s]` stamped
   with a revision `slotRev[s]`; `rev` is the revision counter of the buffer (1 after init).
     Begin   = RevertibleMarket::new     : rev := rev + 1 (start_revertible_operation)
     Read(s) = cache_get_with            : dirty(s) ? buffer[s] : storage[s],   dirty(s) == slotRev[s] = rev
     Write   = cache_get_mut_with + write: if not dirty: buffer[s] := storage[s], slotRev[s] := rev;
                                           then the field is written in buffer[s]
     Commit  = commit_to_storage         : every dirty slot is copied to storage (one event is emitted)
     Abandon = the operation is dropped without commit: nothing happens (the stale stamps stay)
   A slot value is a tuple of fields (a pool: <<long, short>>, clocks: five clocks, other: four
   fields); the bounded model uses one-field tuples. *)
EXTENDS Integers, Sequences, FiniteSets, TLC

InitState(slots, zero) ==
  [storage |-> [s \in slots |-> zero[s]], buffer |-> [s \in slots |-> zero[s]],
   rev |-> 1, slotRev |-> [s \in slots |-> 0], open |-> FALSE, toMint |-> 0, toBurn |-> 0]

Dirty(st, s)   == st.slotRev[s] = st.rev
ReadVal(st, s) == IF Dirty(st, s) THEN st.buffer[s] ELSE st.storage[s]

Begin(st) == [st EXCEPT !.rev = st.rev + 1, !.open = TRUE, !.toMint = 0, !.toBurn = 0]

(* the buffered copy the write works on, then the field update *)
Write(st, s, f, x) ==
  LET base == IF Dirty(st, s) THEN st.buffer[s] ELSE st.storage[s]
  IN [st EXCEPT !.buffer[s] = [base EXCEPT ![f] = x], !.slotRev[s] = st.rev]

Commit(st) ==
  [st EXCEPT !.storage = [s \in DOMAIN st.storage |-> IF Dirty(st, s) THEN st.buffer[s] ELSE st.storage[s]],
             !.open = FALSE]

Abandon(st) == [st EXCEPT !.open = FALSE]

(* RevertibleMarket::next_trade_id reads the STORED trade count (field 1 of "other"), not the
   buffered one: idempotent inside one operation by design *)
NextTradeId(st, s) == st.storage[s][1] + 1

(* RevertibleLiquidityMarket (liquidity_market.rs): mint / burn of market tokens only accumulate;
   commit performs at most one mint_to and one burn_from (token-program CPIs), then commits the base *)
Mint(st, x) == [st EXCEPT !.toMint = st.toMint + x]
Burn(st, x) == [st EXCEPT !.toBurn = st.toBurn + x]
Tok(m, b) == (IF m # 0 THEN <<m>> ELSE <<>>) \o (IF b # 0 THEN <<-b>> ELSE <<>>)
CommitTok(st) == Tok(st.toMint, st.toBurn)

Step(st, op, s, f, x) ==
  CASE op = "begin"   -> Begin(st)
    [] op = "mint"    -> Mint(st, x)
    [] op = "burn"    -> Burn(st, x)
    [] op = "write"   -> Write(st, s, f, x)
    [] op = "commit"  -> Commit(st)
    [] op = "abandon" -> Abandon(st)
    [] OTHER          -> st                  \* "read", "init": observation only
=============================================================================
