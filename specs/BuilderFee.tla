----------------------------- MODULE BuilderFee -----------------------------
(* Builder fees of the store program, written like the code:
     ops/order.rs   compute_builder_fee_amount, clamp_builder_fee_amount,
                    charge_builder_fee_on_collateral_increment,
                    estimate_builder_fee_for_collateral_withdrawal, and the decrease-side charge
                    inside execute_decrease_position (compute; clamp to the output; record)
     states/order.rs Order::record_builder_fee
     instructions/builder_fee.rs SettleBuilderFee::invoke
   Unit is "100 %" of the fee factor (10^20 in the code), MaxU the maximum of u128, Max64 of u64.
   Results: [ok, err, ...]. *)
EXTENDS Num

CONSTANT
  \* @type: Int;
  Max64

(* fee = ceil(floor(size * f / Unit) / price.min); 0 without touching the price when f = 0 *)
Compute(size, f, pmin) ==
  IF f = 0 THEN Ok(0)
  ELSE LET fv == ApplyFactor(size, f) IN
    IF ~fv.ok THEN Fail ELSE RoundUpDiv(fv.v, pmin)

Clamp(fee, avail) == Min(fee, avail)

(* increase: [ok, err, after, fee] *)
ChargeOnIncrement(incr, size, f, pmin) ==
  LET c == Compute(size, f, pmin) IN
  IF ~c.ok THEN [ok |-> FALSE, err |-> "TokenAmountOverflow", after |-> 0, fee |-> 0]
  ELSE IF c.v > Max64 THEN [ok |-> FALSE, err |-> "TokenAmountOverflow", after |-> 0, fee |-> 0]
  ELSE IF incr < c.v THEN [ok |-> FALSE, err |-> "BuilderFeeExceedsCollateral", after |-> 0, fee |-> 0]
  ELSE [ok |-> TRUE, err |-> "", after |-> incr - c.v, fee |-> c.v]

(* decrease, sizing of the withdrawal: swap = 2 is CollateralToPnlToken *)
EstimateWithdrawal(w, size, f, pmin, swap) ==
  IF f = 0 THEN [ok |-> TRUE, err |-> "", v |-> w]
  ELSE IF swap = 2 THEN [ok |-> FALSE, err |-> "BuilderFeeSwapTypeNotAllowed", v |-> 0]
  ELSE LET c == Compute(size, f, pmin) IN
    IF ~c.ok \/ w + c.v > MaxU THEN [ok |-> FALSE, err |-> "TokenAmountOverflow", v |-> 0]
    ELSE [ok |-> TRUE, err |-> "", v |-> w + c.v]

(* Order::record_builder_fee on the recorded amount *)
Record(recorded, amount) ==
  IF recorded + amount > Max64 THEN [ok |-> FALSE, err |-> "TokenAmountOverflow", v |-> recorded]
  ELSE [ok |-> TRUE, err |-> "", v |-> recorded + amount]

(* decrease, actual charge: compute on the executed size at the output token's min price, clamp to
   the output amount, record.  [ok, err, payable, paid, recorded] *)
ChargeOnDecrease(recorded, size, f, pmin, output) ==
  IF f = 0 THEN [ok |-> TRUE, err |-> "", payable |-> 0, paid |-> 0, recorded |-> recorded]
  ELSE LET c == Compute(size, f, pmin) IN
    IF ~c.ok THEN [ok |-> FALSE, err |-> "TokenAmountOverflow", payable |-> 0, paid |-> 0, recorded |-> recorded]
    ELSE LET paid == Clamp(c.v, output) r == Record(recorded, paid) IN
      IF ~r.ok THEN [ok |-> FALSE, err |-> r.err, payable |-> c.v, paid |-> paid, recorded |-> recorded]
      ELSE [ok |-> TRUE, err |-> "", payable |-> c.v, paid |-> paid, recorded |-> r.v]

(* settlement on [recorded, escrow, vault]: transfers min(recorded, escrow), zeroes the record;
   recorded = 0 is an explicit no-op *)
\* @type: ({recorded: Int, escrow: Int, vault: Int}) => {s: {recorded: Int, escrow: Int, vault: Int}, moved: Int};
Settle(s) ==
  IF s.recorded = 0 THEN [s |-> s, moved |-> 0]
  ELSE LET m == Min(s.recorded, s.escrow) IN
    [s |-> [recorded |-> 0, escrow |-> s.escrow - m, vault |-> s.vault + m], moved |-> m]
=============================================================================
