--------------------------- MODULE MC_Distribution ---------------------------
(* Bounded exhaustive model for C14: every pool amount, minimum and rate of the configured sets as
   initial state, then any number of distributions with any elapsed time of Dts (the pool only
   shrinks, so the graph is finite).  Step monitors are checked on EVERY transition (action
   property StepMon; the label variable ev is hidden by the VIEW), history monitors as invariants. *)
EXTENDS DistributionProps, TLC
CONSTANTS Amts, Mins, Rates, Dts
VARIABLES amount, start, mn, rate, ev
vars == <<amount, start, mn, rate, ev>>
View == <<amount, start, mn, rate>>

Event(a, m, r, dt) ==
  LET x == Distribute(a, m, r, dt)
      p == Pending(a, m, r, dt) IN
  [amount |-> a, min |-> m, rate |-> r, dt |-> dt, reset |-> FALSE, panic |-> FALSE,
   pok |-> p.ok, pd |-> p.d, pnext |-> p.next,
   ok |-> x.ok, d |-> x.d, next |-> x.next, dur |-> dt, after |-> x.after]

Init == /\ amount \in Amts /\ start = amount /\ mn \in Mins /\ rate \in Rates
        /\ ev = Event(amount, mn, rate, 0)
DistributeStep ==
  \E dt \in Dts :
    /\ ev' = Event(amount, mn, rate, dt)
    /\ amount' = ev'.after
    /\ UNCHANGED <<start, mn, rate>>
Next == DistributeStep
Spec == Init /\ [][Next]_vars

StepMon  == [][AllMon(ev')]_vars
InitMon  == AllMon(ev)
HistMon  == HistNonIncreasing(start, amount) /\ HistFloor(start, mn, amount)
(* the operators never fail in the small world (so the monitors are not vacuous there) *)
NoFail   == ev.ok /\ ev.pok
=============================================================================
