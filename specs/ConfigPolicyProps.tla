------------------------- MODULE ConfigPolicyProps -------------------------
(* C20: "A market keeper may update any market config value or flag.  A market-config keeper may
   update only the keys and flags currently marked updatable, including through a config buffer,
   where one non-updatable entry rejects the whole buffer.  Anyone else is rejected, and an expired
   buffer is never applied."

   Monitors over one step: p state before, a the attempted operation signed by a.s holding `roles`,
   ok whether the program accepted it, q state after. *)
EXTENDS ConfigPolicy

IsUpdate(a) == a.op \in {"update", "update_flag", "with_buffer"}

(* the keys / flags an accepted update writes *)
Touched(p, a) ==
  IF a.op = "with_buffer" THEN {p.buf.entries[i].k : i \in DOMAIN p.buf.entries} ELSE {a.k}

(* an update is accepted only from a market keeper, or from a market-config keeper when every
   touched key is updatable ("anyone else is rejected"; "one non-updatable entry rejects the
   whole buffer") *)
MonAuth(p, a, roles, ok) ==
  (IsUpdate(a) /\ ok) => \/ MK \in roles
                         \/ (MCK \in roles /\ Touched(p, a) \subseteq p.upd)

(* an expired buffer is never applied, and only by its authority *)
MonBuffer(p, a, ok) ==
  (a.op = "with_buffer" /\ ok) => p.buf.exists /\ p.buf.expiry > p.now /\ p.buf.auth = a.s

(* a rejected update leaves the market config unchanged (as a whole) *)
MonRejectUnchanged(p, a, ok, q) ==
  (IsUpdate(a) /\ ~ok) => q.cfg = p.cfg /\ q.flg = p.flg /\ q.rest = p.rest

(* frame condition of an ACCEPTED update: "may update only the keys ..." - every key / flag that the
   request does not name keeps its value (inside the projected window key by key, outside it through
   the digest `rest` of all other config values, flags and permission bits) *)
MonFrame(p, a, ok, q) ==
  (IsUpdate(a) /\ ok) =>
    /\ \A k \in Keys(p) \ Touched(p, a) : q.cfg[k] = p.cfg[k]
    /\ \A f \in Flags(p) \ Touched(p, a) : q.flg[f] = p.flg[f]
    /\ q.rest = p.rest

(* positive half: what the two keepers MAY do (well-formed requests only) *)
Allowed(p, a, roles) ==
  \/ MK \in roles
  \/ (MCK \in roles /\ Touched(p, a) \subseteq p.upd)
MonMay(p, a, roles, ok) ==
  /\ (a.op = "update" /\ a.k \in Keys(p) /\ Allowed(p, a, roles)) => ok
  /\ (a.op = "update_flag" /\ a.k \in Flags(p) /\ Allowed(p, a, roles)) => ok
  /\ (a.op = "with_buffer" /\ p.buf.exists /\ p.buf.auth = a.s /\ p.buf.expiry > p.now
        /\ Allowed(p, a, roles)) => ok

(* precise specification vs code *)
ConformsNoErr(p, a, roles, ok, q) ==
  LET r == Apply(p, roles, a) IN r.ok = ok /\ r.st = q
ConformsErr(p, a, roles, ok, err) ==
  LET r == Apply(p, roles, a) IN (~ok /\ ~r.ok) => r.err = err
=============================================================================
