--------------------------- MODULE FixedMapProps ---------------------------
(* C34 monitors.  An event is one operation on a real instantiation of fixed_map!:
     tgt, cap        : instantiation name and its capacity
     op, k, v, new   : operation ("load" = state set up by the driver, "insert", "insert_plain",
                       "get", "get_mut" (read through get_mut, then write v), "remove", "clear", "len",
                       "entry_at" with k = index)
     pre, post       : entries() of the real map before / after, keys as ranks in byte order
     ok, some, val   : the returned Result<Option<V>> (ok = FALSE: Err), ekey = key returned by entry_at
     len             : len() after the operation;  panic *)
EXTENDS FixedMap

MonNoPanic(e) == ~e.panic

(* storage invariant: entries strictly sorted by key bytes, length consistent and within capacity *)
MonSorted(e) ==
  ~e.panic => /\ StrictlySorted(e.post) /\ Len(e.post) = e.len /\ e.len <= e.cap

(* the operation seen as one of the reference map's *)
RefOp(e) ==
  CASE e.op = "insert_plain" -> [op |-> "insert", k |-> e.k, v |-> e.v, new |-> FALSE]
    [] e.op = "get_mut"      -> [op |-> "get", k |-> e.k, v |-> 0, new |-> FALSE]
    [] OTHER                 -> [op |-> e.op, k |-> e.k, v |-> e.v, new |-> e.new]
Ref(e) ==
  LET r == SApply(e.pre, e.cap, RefOp(e)) IN
  IF e.op = "get_mut" /\ r.res.some
  THEN [res |-> r.res, s |-> [r.s EXCEPT ![Find(r.s, e.k)] = <<e.k, e.v>>]]   \* the write through get_mut
  ELSE r

(* every result and the resulting contents equal the ordinary map's *)
MonRef(e) ==
  (e.op # "load" /\ ~e.panic) =>
    LET r == Ref(e) IN
    /\ e.ok = r.res.ok
    /\ e.ok => (e.some = r.res.some /\ (e.some => e.val = r.res.val))
    /\ e.post = r.s
    /\ (e.op = "entry_at" /\ e.some) => e.ekey = SEntryKey(e.pre, e.k)
    /\ e.op = "len" => e.ekey = (IF Len(e.pre) = 0 THEN 1 ELSE 0)          \* is_empty()

(* full + new key => error and unchanged (a consequence of MonRef, kept as its own named monitor) *)
MonFull(e) ==
  (e.op = "insert" /\ ~e.panic /\ Len(e.pre) >= e.cap /\ Find(e.pre, e.k) = 0) => (~e.ok /\ e.post = e.pre)

Conforms(e) == MonNoPanic(e) /\ MonSorted(e) /\ MonRef(e)
=============================================================================
