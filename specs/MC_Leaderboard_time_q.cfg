SPECIFICATION Spec
CONSTANTS
  NTraders = 2
  Vols = {1, 2, 3}
  Dts = {0, 1, 2}
  Depth = 4
  Start = 10
  End0 = 12
  Thr = 3
  Ext = 2
  Cap = 3
  Win = 1
  Inc = FALSE
  Odd = TRUE
  PrintPaths = TRUE
  NPre = 0
VIEW View
INVARIANTS StateMon PathOut
PROPERTIES StepMon
CHECK_DEADLOCK FALSE
