SPECIFICATION Spec
CONSTANTS
  PMax = 2147483647
POSTCONDITION Done
CHECK_DEADLOCK FALSE
