-------------------------- MODULE PriceDecimalProps --------------------------
(* C26: monitors for the price decimal conversion.  An event e is one call of the real code:
     op = "from_price": Decimal::try_from_price(p, d, td, prec)      -> ok, value, dm, unit
          (unit = result.to_unit_price(), or -1 when it is not logged in the 32-bit tier)
     op = "to_unit"   : Decimal{value, dm}.to_unit_price()            -> unit
     op = "with_unit" : Decimal{_, dm}.with_unit_price(p, ru)         -> ok, value
     op = "to_u128"   : convert_to_u128_storage(p as U192, d)         -> ok, value, dm (decimals left)
     op = "pyth"      : pyth_price_value_to_decimal(p, exponent = d, token config td, prec)
                                                                      -> ok, value, dm
   Unused fields are 0. *)
EXTENDS PriceDecimal

CONSTANTS
  \* @type: Int;
  MaxU64          \* u64::MAX (pyth value type)

\* @typeAlias: pdEv = {op: Str, p: Int, d: Int, td: Int, prec: Int, ru: Bool, dm: Int, ok: Bool, value: Int, unit: Int, panic: Bool};
PriceDecimalProps_aliases == TRUE

(* ---- the code's behaviour (conformance only) ---- *)
PythPrecise(v, x, td, prec) ==
  IF x <= 0 THEN (IF -x > 255 THEN DFail ELSE TryFromPrice(v, -x, td, prec))
  ELSE IF ~MulFits(1, x, MaxU64) \/ ~MulFits(v, x, MaxU64) THEN DFail
  ELSE TryFromPrice(MulPow10(v, x), 0, td, prec)

\* @type: ($pdEv) => {ok: Bool, value: Int, dm: Int};
Precise(e) ==
  CASE e.op = "from_price" -> TryFromPrice(e.p, e.d, e.td, e.prec)
    [] e.op = "to_unit"    -> DOk(e.value, e.dm)
    [] e.op = "with_unit"  -> WithUnitPrice(e.dm, e.p, e.ru)
    [] e.op = "pyth"       -> PythPrecise(e.p, e.d, e.td, e.prec)
    [] OTHER               -> DFail

\* @type: ($pdEv) => Bool;
Conforms(e) ==
  /\ ~e.panic
  /\ IF e.op = "to_u128" THEN ToU128Rel(e.p, e.d, e.ok, e.value, e.dm)
     ELSE /\ e.ok = Precise(e).ok
          /\ e.ok => e.value = Precise(e).value /\ e.dm = Precise(e).dm
          /\ e.op = "to_unit" => e.unit = ToUnitPrice(e.value, e.dm)

(* ---- C26 monitors ---- *)
\* @type: ($pdEv) => Bool;
MonNoPanic(e) == ~e.panic

(* decimal settings beyond the supported maximum produce an error *)
\* @type: ($pdEv) => Bool;
MonRejects(e) ==
  e.op \in {"from_price", "pyth"} /\ ~Legal(IF e.op = "pyth" THEN 0 ELSE e.d, e.td, e.prec) => ~e.ok

(* a returned decimal is the exact price truncated to the configured precision (floor written by
   division, evaluable at 32 bits): never above the exact price, less than one step below *)
\* @type: ($pdEv) => Bool;
MonTruncates(e) ==
  e.op = "from_price" /\ e.ok =>
    /\ Legal(e.d, e.td, e.prec)
    /\ e.dm = DecMul(e.td, e.prec)
    /\ e.value <= MaxValue
    /\ ScaledFits(e.p, e.d, e.prec, MaxValue)
    /\ e.value = Scaled(e.p, e.d, e.prec)

(* a representable price with legal decimals is converted (not refused) *)
\* @type: ($pdEv) => Bool;
MonYields(e) ==
  e.op = "from_price" /\ Legal(e.d, e.td, e.prec) /\ ScaledFits(e.p, e.d, e.prec, MaxValue) => e.ok

(* the same statement in its literal form, on the unit price (needs wide integers):
   unit <= exact < unit + 10^dm with exact = p * 10^(MaxDecimals - d - td), cross-multiplied *)
\* @type: ($pdEv) => Bool;
MonBracket(e) ==
  e.op = "from_price" /\ e.ok /\ e.unit >= 0 =>
    /\ e.unit = e.value * Pow10(e.dm)
    /\ e.unit * Pow10(e.d + e.td) <= e.p * Pow10(MaxDecimals)
    /\ e.p * Pow10(MaxDecimals) < (e.unit + Pow10(e.dm)) * Pow10(e.d + e.td)

\* @type: ($pdEv) => Bool;
MonToUnit(e) == e.op = "to_unit" => e.unit = MulPow10(e.value, e.dm)

(* with_unit_price: floor, or ceiling when asked to round up; never a wrong value *)
\* @type: ($pdEv) => Bool;
MonWithUnit(e) ==
  e.op = "with_unit" /\ e.ok =>
    /\ e.value <= MaxValue
    /\ WithUnitPrice(e.dm, e.p, e.ru).ok
    /\ e.value = WithUnitPrice(e.dm, e.p, e.ru).value

(* U192 -> u128 storage: digits are only ever dropped (truncation), and consistently *)
\* @type: ($pdEv) => Bool;
MonToU128(e) ==
  e.op = "to_u128" /\ e.ok =>
    /\ e.dm <= e.d /\ e.dm >= 0
    /\ e.value <= MaxPrice
    /\ e.value = e.p \div Pow10(e.d - e.dm)

(* pyth: value * 10^exponent truncated to the precision *)
\* @type: ($pdEv) => Bool;
MonPyth(e) ==
  e.op = "pyth" /\ e.ok =>
    /\ e.dm = DecMul(e.td, e.prec)
    /\ IF e.d <= 0
       THEN /\ -e.d <= MaxDecimals
            /\ ScaledFits(e.p, -e.d, e.prec, MaxValue)
            /\ e.value = Scaled(e.p, -e.d, e.prec)
       ELSE /\ MulFits(e.p, e.d + e.prec, MaxValue)
            /\ e.value = MulPow10(e.p, e.d + e.prec)

\* @type: ($pdEv) => Bool;
MonAll(e) ==
  /\ MonNoPanic(e) /\ MonRejects(e) /\ MonTruncates(e) /\ MonYields(e) /\ MonBracket(e)
  /\ MonToUnit(e) /\ MonWithUnit(e) /\ MonToU128(e) /\ MonPyth(e)
=============================================================================
