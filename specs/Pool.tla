-------------------------------- MODULE Pool --------------------------------
(* A market pool of the store program (programs/store/src/states/market/pool.rs), written like the
   code.  A pool stores two unsigned amounts (l = long_token_amount, s = short_token_amount) and a
   `pure` flag.  A pure pool (market whose long and short tokens coincide) uses only `l` as the
   single stored total; its long view is ceil(l/2), its short view floor(l/2); deltas on either
   side are applied to `l`; netting keeps l & 1.  An impure pool keeps both amounts.
   PMax is the maximum of the unsigned storage type (u128 in the program, scaled down in MC_Pool).
   Shared by TLC (MC_Pool, Trace_Pool) and Apalache (Wide_Pool): no RECURSIVE, records only. *)
EXTENDS Integers

CONSTANTS
  \* @type: Int;
  PMax

\* @typeAlias: pool = {pure: Bool, l: Int, s: Int};
\* @typeAlias: pres = {ok: Bool, p: $pool};
Pool_aliases == TRUE

\* @type: (Bool, Int, Int) => $pool;
MkPool(pure, l, s) == [pure |-> pure, l |-> l, s |-> s]

(* Balance::long_amount / short_amount *)
\* @type: ($pool) => Int;
LongAmount(p)  == IF p.pure THEN (p.l + 1) \div 2 ELSE p.l       \* u128::div_ceil(2)
\* @type: ($pool) => Int;
ShortAmount(p) == IF p.pure THEN p.l \div 2 ELSE p.s

(* the stored total of the pool *)
\* @type: ($pool) => Int;
Total(p) == IF p.pure THEN p.l ELSE p.l + p.s

\* @type: (Int) => Bool;
Fits(x) == 0 <= x /\ x <= PMax

\* @type: ($pool) => $pres;
POk(p)   == [ok |-> TRUE, p |-> p]
\* @type: ($pool) => $pres;
PFail(p) == [ok |-> FALSE, p |-> p]         \* Err: the pool is left as it was

(* apply_delta_to_long_amount: long_token_amount.checked_add_signed(delta) *)
\* @type: ($pool, Int) => $pres;
ApplyLong(p, d) ==
  IF Fits(p.l + d) THEN POk([p EXCEPT !.l = p.l + d]) ELSE PFail(p)

(* apply_delta_to_short_amount: a pure pool writes the single stored amount *)
\* @type: ($pool, Int) => $pres;
ApplyShort(p, d) ==
  IF p.pure
  THEN (IF Fits(p.l + d) THEN POk([p EXCEPT !.l = p.l + d]) ELSE PFail(p))
  ELSE (IF Fits(p.s + d) THEN POk([p EXCEPT !.s = p.s + d]) ELSE PFail(p))

(* checked_apply_delta(Delta::new_both_sides(dl, ds)): on a copy, long first, then short *)
\* @type: ($pool, Int, Int) => $pres;
ApplyBoth(p, dl, ds) ==
  LET a == ApplyLong(p, dl) IN
  IF ~a.ok THEN PFail(p)
  ELSE LET b == ApplyShort(a.p, ds) IN IF b.ok THEN b ELSE PFail(p)

(* checked_cancel_amounts *)
\* @type: ($pool) => $pres;
Cancel(p) ==
  IF p.pure THEN POk([p EXCEPT !.l = p.l % 2])
  ELSE IF p.l >= p.s THEN POk([p EXCEPT !.l = p.l - p.s, !.s = 0])
  ELSE POk([p EXCEPT !.l = 0, !.s = p.s - p.l])

(* one operation by name; dl is the delta of the single-side operations *)
\* @type: ($pool, Str, Int, Int) => $pres;
Apply(p, op, dl, ds) ==
  CASE op = "apply_long"  -> ApplyLong(p, dl)
    [] op = "apply_short" -> ApplyShort(p, dl)
    [] op = "apply_both"  -> ApplyBoth(p, dl, ds)
    [] op = "cancel"      -> Cancel(p)
    [] OTHER              -> POk(p)           \* "load": observation only
=============================================================================
