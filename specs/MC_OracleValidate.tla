------------------------- MODULE MC_OracleValidate -------------------------
(* Bounded exhaustive check that the DESIGN (the precise operators of OracleValidate) satisfies the
   C24 / C29 monitors.  Validation is translation invariant in time, so `now` is fixed and the
   oracle timestamps range around it.  Three families of cases, selected by `kind`:
     "time"   two tokens, all timestamp/adjustment/age/excess/range combinations, valid prices
     "price"  one token, all prices (min, max over 0..PMaxV with both multipliers), references
              (explicit or mid), deviation percents; Adjust and Adjust;ValidateOne;FromPrice
     "tv"     oracle time validation (time.rs) of a loaded set of one or two feeds against lower / upper /
              slot bounds and the max-age validator
     "with"   with_prices over one or two custom feeds incl. provider / feed id / heartbeat /
              open / adjustment flag
   Known design gap (kept visible, see InvBandExceptZeroDev): when floor(ref * k / 100) = 0 the
   code skips the deviation check. *)
EXTENDS OracleValidateProps, TLC
CONSTANTS Now, PMaxV, Devs, Kind, Small
VARIABLES c
vars == <<c>>

Mults == {0, 1}
PriceSet == [minv : 0..PMaxV, minm : Mults, maxv : 0..PMaxV, maxm : Mults]
RefSet == {[some |-> FALSE, v |-> 0, m |-> 0]} \cup [some : {TRUE}, v : 1..PMaxV, m : Mults]
GoodP == [minv |-> 2, minm |-> 0, maxv |-> 3, maxm |-> 0]
NoRef == [some |-> FALSE, v |-> 0, m |-> 0]
VsSet == [now : {Now}, age : 0..3, range : 0..3, excess : 0..2]
Tok(adj, ots, slot) == [cfg |-> [feed |-> TRUE, adj |-> adj, dev |-> 0], ots |-> ots, slot |-> slot, p |-> GoodP, ref |-> NoRef]

InitTime ==
  \E vs \in VsSet, a1 \in 0..2, a2 \in 0..2, o1 \in (Now - 5)..(Now + 3), o2 \in (Now - 5)..(Now + 3), two \in BOOLEAN :
    c = [kind |-> "time", vs |-> vs,
         toks |-> IF two THEN <<Tok(a1, o1, 5), Tok(a2, o2, 4)>> ELSE <<Tok(a1, o1, 5)>>]
InitPrice ==
  \E p \in PriceSet, ref \in RefSet, k \in Devs :
    c = [kind |-> "price", p |-> p, ref |-> ref, k |-> k]
TcSet == [expected : {0, 1}, feedIdOf : {-1, 7, 8}, heartbeat : IF Small THEN {3} ELSE {1, 3}, adj : {0, 1}, dev : {0, 10, 50},
          adjust : BOOLEAN, mult : {0, 1}, enabled : {TRUE}]
FdSet == [provider : {0}, feedId : {7}, ts : {Now - 3, Now - 1, Now + 1}, slot : {4}, open : BOOLEAN,
          price : IF Small THEN {4} ELSE {2, 4}, min : IF Small THEN {1, 4, 5} ELSE {1, 2, 4, 5}, max : {2, 4, 5}]
GoodItem == [known |-> TRUE,
             tc |-> [expected |-> 0, feedIdOf |-> 7, heartbeat |-> 3, adj |-> 0, dev |-> 0, adjust |-> FALSE,
                     mult |-> 0, enabled |-> TRUE],
             fd |-> [provider |-> 0, feedId |-> 7, ts |-> Now, slot |-> 6, open |-> TRUE, price |-> 3, min |-> 3, max |-> 3]]
InitWith ==
  \E tc \in TcSet, fd \in FdSet, ac \in BOOLEAN, two \in (IF Small THEN {TRUE} ELSE BOOLEAN), age \in (IF Small THEN {3} ELSE {1, 3}), range \in {0, 2} :
    c = [kind |-> "with", vs |-> [now |-> Now, age |-> age, range |-> range, excess |-> 1], ac |-> ac,
         items |-> IF two THEN <<GoodItem, [known |-> TRUE, tc |-> tc, fd |-> fd]>> ELSE <<[known |-> TRUE, tc |-> tc, fd |-> fd]>>]

NoTgt == [after |-> NoBound, before |-> NoBound, slot |-> NoBound]
Bounds(S) == {NoBound} \cup [some : {TRUE}, v : S]
(* time validation of the loaded set: a good item at Now plus a second feed around it *)
InitTv ==
  \E ts \in (Now - 3)..(Now + 1), adj \in {0, 1}, range \in {0, 2, 3}, ma \in 0..3,
     af \in Bounds((Now - 3)..(Now + 1)), bf \in Bounds({Now - 1, Now}), sl \in Bounds({5, 7}), two \in BOOLEAN :
    c = [kind |-> "tv", vs |-> [now |-> Now, age |-> 3, range |-> range, excess |-> 1], ac |-> FALSE,
         tgt |-> [after |-> af, before |-> bf, slot |-> sl], ma |-> ma,
         items |-> LET it == [GoodItem EXCEPT !.fd.ts = ts, !.tc.adj = adj, !.fd.slot = 4] IN
                   IF two THEN <<GoodItem, it>> ELSE <<it>>]
Init == CASE Kind = "time" -> InitTime [] Kind = "price" -> InitPrice [] Kind = "with" -> InitWith [] Kind = "tv" -> InitTv
Next == UNCHANGED vars

(* events as the real code would produce them if it equals the design *)
BatchEv == LET b == Batch(c.vs, c.toks) IN
  [vs |-> c.vs, toks |-> c.toks, n |-> b.n, err |-> b.err, fin |-> b.fin, rs |-> b.rs, panic |-> FALSE]
PriceBatchEv(k) ==
  LET t == [cfg |-> [feed |-> TRUE, adj |-> 0, dev |-> k], ots |-> Now, slot |-> 1, p |-> c.p, ref |-> c.ref]
      vs == [now |-> Now, age |-> 0, range |-> 0, excess |-> 0]
      b == Batch(vs, <<t>>) IN
  [vs |-> vs, toks |-> <<t>>, n |-> b.n, err |-> b.err, fin |-> b.fin, rs |-> b.rs, panic |-> FALSE]
AdjustEv ==
  LET a == Adjust(c.k, c.p, c.ref)
      q == IF a.some THEN a.p ELSE c.p
      t == [cfg |-> [feed |-> TRUE, adj |-> 0, dev |-> c.k], ots |-> 0, slot |-> 0, p |-> q, ref |-> c.ref]
      v == ValidateOne([now |-> 0, age |-> 0, range |-> 0, excess |-> 0], EmptyRange, t) IN
  [k |-> c.k, p |-> c.p, ref |-> c.ref, res |-> "ok", err |-> "", some |-> a.some, q |-> q, vok |-> v.ok,
   sok |-> (SmallPricesFromPrice(q) = ""), dsome |-> a.some, dq |-> q, panic |-> FALSE]
WithEv ==
  LET l == Load(c.vs, c.items, c.ac) IN
  [vs |-> c.vs, allow_closed |-> c.ac, f_ok |-> TRUE, pre |-> [cleared |-> TRUE, n |-> 0], items |-> c.items,
   res |-> IF l.err = "" THEN "ok" ELSE "err", err |-> l.err, called |-> (l.err = ""),
   seen |-> IF l.err = "" THEN [i \in DOMAIN c.items |->
               LET pr == ParseFeed(c.vs.now, c.items[i].tc, c.items[i].fd, c.ac) IN [min |-> PMin(pr.t.p), max |-> PMax(pr.t.p)]]
            ELSE <<>>,
   srs |-> l.rs, post |-> [cleared |-> TRUE, n |-> 0], panic |-> FALSE,
   tgt |-> IF c.kind = "tv" THEN c.tgt ELSE NoTgt, max_age |-> IF c.kind = "tv" THEN c.ma ELSE 0,
   vt |-> IF l.err = "" THEN ValidateTime(l.rs, IF c.kind = "tv" THEN c.tgt ELSE NoTgt) ELSE "-",
   vma |-> IF l.err = "" THEN ValidateTime(l.rs, MaxAgeTarget(c.vs.now, IF c.kind = "tv" THEN c.ma ELSE 0)) ELSE "-"]

(* the deviation check is vacuous when the floored deviation is zero: the only admitted exception *)
ZeroDev(p, ref, k) == k # 0 /\ Dev(RefOf(p, ref), k) = 0

InvTime == c.kind = "time" =>
  LET e == BatchEv IN MonBWellFormed(e) /\ MonBFresh(e) /\ MonBInBand(e) /\ MonBSpread(e) /\ ConformsBatch(e)
InvPriceBatch == c.kind = "price" =>
  LET e == PriceBatchEv(c.k) IN
    MonBWellFormed(e) /\ MonBFresh(e) /\ MonBSpread(e) /\ (ZeroDev(c.p, c.ref, c.k) \/ MonBInBand(e))
InvAdjust == (c.kind = "price" /\ c.k # 0) =>
  LET e == AdjustEv IN
    MonAInward(e) /\ MonABand(e) /\ MonANoneKeeps(e) /\ ConformsAdjust(e) /\ (ZeroDev(e.q, e.ref, e.k) \/ MonAAccepted(e))
(* with equal multipliers and a reference on the price grid, a clamped price is never inverted *)
InvAdjustOrdered == (c.kind = "price" /\ c.k # 0 /\ c.p.minm = c.p.maxm /\ c.ref.some /\ c.ref.m >= c.p.minm
                     /\ PMin(c.p) <= PMax(c.p)) =>
  LET e == AdjustEv IN e.some => PMin(e.q) <= PMax(e.q)
InvWith == c.kind \in {"with", "tv"} =>
  LET e == WithEv IN
    /\ MonWCleared(e) /\ MonWResult(e) /\ ConformsWith(e)
    /\ MonTAfter(e) /\ MonTBefore(e) /\ MonTSlot(e) /\ MonTMaxAge(e)
    /\ (\E i \in DOMAIN e.items : e.items[i].tc.dev # 0 /\ Dev(U(e.items[i].fd.price, e.items[i].tc.mult), e.items[i].tc.dev) = 0)
         \/ MonWAccepted(e)
=============================================================================
