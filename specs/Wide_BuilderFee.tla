--------------------------- MODULE Wide_BuilderFee ---------------------------
(* Wide tier (Apalache) for C32: the helper laws at the real widths (u128 values, u64 amounts,
   factor unit 10^20) on boundary-biased calls recorded from the real code. *)
EXTENDS BuilderFee, WideData
VARIABLES
  \* @type: Set(Int);
  bad,
  \* @type: Set(Int);
  drift
CInit128 == /\ Unit = 100000000000000000000
            /\ MaxU = 340282366920938463463374607431768211455
            /\ MaxS = 170141183460469231731687303715884105727
            /\ Max64 = 18446744073709551615
\* @type: (Int, Int, Int, Int) => Bool;
FeeIsW(fee, size, f, pmin) ==
  IF f = 0 THEN fee = 0 ELSE pmin > 0 /\ IsCeil(fee, (size * f) \div Unit, pmin)
\* @type: ({op: Str, size: Int, f: Int, pmin: Int, x: Int, pre: Int, ok: Bool, r1: Int, r2: Int, post: Int, panic: Bool}) => Bool;
EvOK(e) ==
  /\ ~e.panic
  /\ (e.op = "compute" /\ e.ok) => (FeeIsW(e.r1, e.size, e.f, e.pmin) /\ InU(e.r1))
  /\ (e.op = "charge" /\ e.ok) => (FeeIsW(e.r2, e.size, e.f, e.pmin) /\ e.r1 + e.r2 = e.x /\ e.r1 >= 0)
  /\ (e.op = "decrease" /\ e.ok) => (FeeIsW(e.r1, e.size, e.f, e.pmin) /\ e.post - e.pre <= e.x /\ e.post - e.pre = e.r2 /\ e.post <= Max64)
  /\ e.op = "record" => (IF e.ok THEN e.post = e.pre + e.x /\ e.post <= Max64 ELSE e.post = e.pre)
\* @type: ({op: Str, size: Int, f: Int, pmin: Int, x: Int, pre: Int, ok: Bool, r1: Int, r2: Int, post: Int, panic: Bool}) => Bool;
EvConf(e) ==
  IF e.op = "compute" THEN (LET r == Compute(e.size, e.f, e.pmin) IN e.ok = r.ok /\ (e.ok => e.r1 = r.v))
  ELSE IF e.op = "charge" THEN (LET r == ChargeOnIncrement(e.x, e.size, e.f, e.pmin) IN e.ok = r.ok /\ (e.ok => (e.r1 = r.after /\ e.r2 = r.fee)))
  ELSE IF e.op = "record" THEN (LET r == Record(e.pre, e.x) IN e.ok = r.ok /\ e.post = r.v)
  ELSE (LET r == ChargeOnDecrease(e.pre, e.size, e.f, e.pmin, e.x) IN e.ok = r.ok /\ e.post = r.recorded)
Init ==
  /\ bad   = {i \in DOMAIN Events : ~EvOK(Events[i])}
  /\ drift = {i \in DOMAIN Events : ~EvConf(Events[i])}
Next == UNCHANGED <<bad, drift>>
AllClean == bad = {} /\ drift = {}
=============================================================================
