SPECIFICATION Spec
CONSTANTS
  NTraders = 6
  Vols = {1, 2, 3}
  Dts = {0}
  Depth = 6
  Start = 10
  End0 = 20
  Thr = 1000
  Ext = 2
  Cap = 3
  Win = 2
  Inc = FALSE
  Odd = FALSE
  PrintPaths = FALSE
  NPre = 0
VIEW View
INVARIANTS StateMon
PROPERTIES StepMon
CHECK_DEADLOCK FALSE
