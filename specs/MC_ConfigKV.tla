----------------------------- MODULE MC_ConfigKV -----------------------------
(* Bounded model of the market configuration: starts from the documented defaults (the value of a
   constant is its NAME, so the initial configuration is symbolic), then every write of every key
   (three values per factor key, both values per flag, plus an unknown key), sequences of Depth
   writes, market open and closed.  The state carries the write event, judged by the same monitors
   that judge the code, plus the design-level isolation law: a write changes exactly the
   parameters the tables name for that key. *)
EXTENDS ConfigKVProps, TLC
CONSTANTS Depth
VARIABLES cfg, closed, ev, n, params0
vars == <<cfg, closed, ev, n, params0>>

ConstNames == {t[2] : t \in DefaultTable} \ {"UNSET"}
IdConsts == [c \in ConstNames |-> c]
IsFlag(k) == k \in {"flag.skip_borrowing_fee_for_smaller_side", "flag.market_closed_skip_borrowing_fee_for_smaller_side",
                    "flag.ignore_open_interest_for_usage_factor", "flag.enable_market_closed_params"}
(* the flag constants are booleans in the code; the symbolic initial value is replaced by "true" *)
Init0 == [k \in DefaultKeys |-> IF IsFlag(k) /\ DefaultName(k) # "UNSET" THEN "true" ELSE InitCfg(IdConsts)[k]]
Vals(k) == IF IsFlag(k) THEN {"true", "false"} ELSE {"v1", "v2", "0"}

Init ==
  /\ cfg = Init0
  /\ closed \in BOOLEAN
  /\ n = 0
  /\ params0 = ParamsOf(cfg, closed)
  /\ ev = SpecWrite(cfg, closed, "no_such_key", "v1")

DoWrite ==
  /\ n < Depth
  /\ \E k \in DOMAIN cfg \cup {"no_such_key"} : \E v \in Vals(k) :
       /\ ev' = SpecWrite(cfg, closed, k, v)
       /\ cfg' = ev'.cfg
  /\ params0' = ParamsOf(cfg, closed)
  /\ n' = n + 1
  /\ UNCHANGED closed
Next == DoWrite
Spec == Init /\ [][Next]_vars

IReadBack == MonReadBack(ev)
IFrame    == MonFrame(ev)
IRejected == MonRejected(ev)
IParam    == MonParam(ev)
IConf     == Conforms(ev)
ITables   == TablesOK
(* C17 on the design: the initial configuration satisfies the default monitor for every key *)
IDefault  == n = 0 => \A k \in DOMAIN cfg :
               IsFlag(k) \/ MonDefault([op |-> "key", key |-> k, v |-> cfg[k], consts |-> IdConsts])
(* isolation: only the parameters named for the written key may change *)
MayChange(k, p, cfg1) ==
  \/ p \in ParamOf(k) \/ p \in ClosedParamOf(k)
  \/ k = EnableClosedFlag
  \/ (p = FallbackAccessor /\ k = "min_collateral_factor")
IIsolation ==
  \A p \in DOMAIN ev.params : ev.params[p] # params0[p] => MayChange(ev.key, p, ev.cfg)
(* the long and the short variant of a setting never feed the same parameter *)
ISides ==
  \A t1 \in ParamTable, t2 \in ParamTable : (t1[2] = t2[2]) => (t1[1] = t2[1])
=============================================================================
