-------------------------- MODULE DistributionProps --------------------------
(* C14: "Distributing the position impact pool over elapsed time never increases it and never
   takes it below the configured minimum amount if it started above it.  The distributed amount is
   the rate times elapsed seconds, capped at the excess over the minimum."

   An event e is one distribution on a market whose pool amount, minimum and rate were injected:
     amount  pool amount before            min, rate  configuration      dt  seconds elapsed since
     the previous distribution (what the harness clock was advanced by)
     pok, pd, pnext   result of pending_position_impact_pool_distribution_amount(dt) (read only)
     ok, d, next, dur report of distribute_position_impact().execute()
     after   pool amount read back from the market afterwards (also on the error path)
     reset   TRUE when the market was freshly built for this event (FALSE: continues the previous) *)
EXTENDS Distribution

(* rate * dt, capped at the excess over the minimum; nothing is distributed at or below the minimum *)
Expected(e) ==
  IF e.amount > e.min /\ e.rate > 0 THEN Min((e.rate * e.dt) \div Unit, e.amount - e.min) ELSE 0

MonNoPanic(e) == ~e.panic

(* never increases the pool: the stored amount, and every reported next amount *)
MonNonIncreasing(e) ==
  /\ e.after <= e.amount
  /\ e.ok  => e.next  <= e.amount
  /\ e.pok => e.pnext <= e.amount

(* never below the minimum if it started above it *)
MonFloor(e) ==
  e.amount > e.min =>
    /\ e.after >= e.min
    /\ e.ok  => e.next  >= e.min
    /\ e.pok => e.pnext >= e.min

(* the distributed amount is rate * elapsed, capped; and it is what leaves the pool *)
MonAmount(e) ==
  /\ e.ok  => e.d = Expected(e) /\ e.after = e.amount - e.d /\ e.next = e.after
  /\ e.pok => e.pd = Expected(e) /\ e.pnext = e.amount - e.pd

Monitors(e) ==
  << <<"NoPanic", MonNoPanic(e)>>, <<"NonIncreasing", MonNonIncreasing(e)>>,
     <<"Floor", MonFloor(e)>>, <<"Amount", MonAmount(e)>> >>
AllMon(e) == MonNoPanic(e) /\ MonNonIncreasing(e) /\ MonFloor(e) /\ MonAmount(e)

(* over a whole history that started at `start`: *)
HistNonIncreasing(start, amount)  == amount <= start
HistFloor(start, mn, amount)      == start > mn => amount >= mn

(* conformance with the precise operators (drift only) *)
Conforms(e) ==
  LET r == Distribute(e.amount, e.min, e.rate, e.dt)
      p == Pending(e.amount, e.min, e.rate, e.dt) IN
  /\ ~e.panic
  /\ e.pok = p.ok /\ (p.ok => e.pd = p.d /\ e.pnext = p.next)
  /\ e.ok = r.ok /\ (r.ok => e.d = r.d /\ e.next = r.next /\ e.dur = e.dt)
  /\ e.after = r.after
(* a continued history starts where the previous event left the pool *)
Continues(prev, e) == e.amount = prev.after /\ e.min = prev.min /\ e.rate = prev.rate
=============================================================================
