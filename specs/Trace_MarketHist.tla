-------------------------- MODULE Trace_MarketHist --------------------------
(* Judges histories recorded by harness/h-model/src/bin/hist.rs (real gmsol-model code on the
   deterministic market).  One walk over the trace evaluates the monitors of C07, C08, C12 and C13
   (names are prefixed by the property; each check keeps its own) and the conformance predicate.
   `led` is the C08 token ledger (history variable maintained from the action reports). *)
EXTENDS MarketHistProps, TraceLib
VARIABLES i, led

Init == i = 0 /\ led = Led0
Next ==
  /\ i < NRec
  /\ i' = i + 1
  /\ LET e    == Rec[i']
         step == i' > 1 /\ ~e.reset
         pre  == IF i' > 1 THEN Rec[i' - 1] ELSE Rec[i']
         nl   == NextLedger(led, e)
     IN /\ led' = nl
        /\ Judge(i', <<
             <<"C07.OIUsd",          C07_OIUsd(e.m, e.ps)>>,
             <<"C07.OITokens",       C07_OITokens(e.m, e.ps)>>,
             <<"C07.CollateralSum",  C07_CollateralSum(e.m, e.ps)>>,
             <<"C07.Removed",        C07_Removed(e)>>,
             <<"C08.Conserved",      IF step THEN C08_Conserved(led, pre.m, nl, e) ELSE C08_ConservedAtReset(nl, e)>>,
             <<"C08.ResidualBacked", C08_ResidualBacked(nl, e.m, e.c, e.ps)>>,
             <<"C08.ResidualLiteral", C08_ResidualLiteral(nl, e.m)>>,
             <<"C12.RateBounds",     C12_RateBounds(e.f, e.c)>>,
             <<"C12.LargerSidePays", C12_LargerSidePays(e.f, e.c)>>,
             <<"C12.LargerSidePaysEffect", step => C12_LargerSidePaysEffect(pre.m, e)>>,
             <<"C12.IndicesMonotone", step => C12_IndicesMonotone(pre.m, e.m)>>,
             <<"C12.PendingNonNeg",  C12_PendingNonNeg(e.m, e.c, e.ps) /\ C12_PendingNonNegReal(e.ps)>>,
             <<"C12.PendingNonNegPartial", C12_PendingNonNegPartial(e.pp)>>,
             <<"C13.FactorMonotone", step => C13_FactorMonotone(pre.m, e.m)>>,
             <<"C13.TotalBorrowing", C13_TotalBorrowing(e.m, e.ps)>>,
             <<"C13.PendingFees",    C13_PendingState(e.m) /\ C13_PendingReal(e.b)>> >>)
        /\ Drift(i', e.unit = Unit /\ Conforms(pre, e), e.op)
Spec == Init /\ [][Next]_<<i, led>>
Done == Emit("DONE", [events |-> TLCGet("stats").diameter - 1])
=============================================================================
