--------------------------- MODULE MC_PositionC10 ---------------------------
(* C10 on the design: open (Increase) then immediately fully close (Decrease) at unchanged prices and
   zero elapsed time, over side x collateral token x sizes x collaterals x market fixtures (open
   interest balanced / long-heavy / short-heavy / cross-over / empty, impact pool empty / small /
   large, virtual inventory, accrued funding / claimable-funding / borrowing indices that differ between
   collateral tokens and sides) x fee and impact settings x ALL orderings of the positive / negative
   position impact caps x price sets (incl. min # max and a non-stable short token).
   Established here (Inv): with max_positive_position_impact_factor <= max_negative_position_impact_factor
   (the governance convention, not checked by the code) the round trip never returns more than the
   deposit + one collateral base unit per operation.  Cases outside the convention that DO return more
   are printed as W|json (candidate finding); every case is printed as C|json for replay. *)
EXTENDS PositionFixtures, Sequences, TLC, Json
CONSTANTS SizesC, CollsC, PriceIds, SettingIds, FixtureIds
VARIABLE cas
Emit(tag, x) == PrintT(tag \o "|" \o ToJson(x))
Named(n, b) == b \/ (PrintT("INVFAIL|" \o n) /\ FALSE)

PriceSet(k) ==
  CASE k = 1 -> Px(Pr(10, 10), Pr(10, 10), Pr(10, 10))
    [] k = 2 -> Px(Pr(10, 12), Pr(10, 12), Pr(10, 10))
    [] k = 3 -> Px(Pr(20, 20), Pr(20, 20), Pr(5, 6))

(* fee / impact settings: pf, nf, exponent (units), feePos, feeNeg, feeRecv *)
Setting(k) ==
  CASE k = 1 -> [Cfg0 EXCEPT !.pf = 1, !.nf = 2, !.iexp = 2 * Unit, !.feePos = 0, !.feeNeg = 1]
    [] k = 2 -> [Cfg0 EXCEPT !.pf = 2, !.nf = 2, !.iexp = Unit,     !.feePos = 0, !.feeNeg = 0]
    [] k = 3 -> [Cfg0 EXCEPT !.pf = 3, !.nf = 1, !.iexp = 2 * Unit, !.feePos = 1, !.feeNeg = 1]
    [] k = 4 -> [Cfg0 EXCEPT !.pf = 0, !.nf = 0, !.iexp = 2 * Unit, !.feePos = 1, !.feeNeg = 2]
    [] k = 5 -> [Cfg0 EXCEPT !.pf = 1, !.nf = 1, !.iexp = 2 * Unit, !.feePos = 0, !.feeNeg = 0, !.feeRecv = 10]
    [] k = 6 -> [Cfg0 EXCEPT !.pf = 1, !.nf = 3, !.iexp = Unit, !.feePos = 0, !.feeNeg = 0]

(* all orderings of (max positive, max negative) position impact factor *)
CapPairs == { <<0, 0>>, <<1, 3>>, <<3, 3>>, <<3, 1>>, <<5, 0>>, <<10, 10>> }

(* market fixtures: open interest (long, short) in usd at entry price 10, impact pool, vi *)
Fixture(k, c) ==
  LET base == [Market0(c) EXCEPT !.pool = P2(500, 5000)]
      oi(l, s) == [base EXCEPT !.oi = P4(l, 0, 0, s), !.oit = P4(l \div 10, 0, 0, s \div 10)]
  IN CASE k = 1 -> [oi(100, 100) EXCEPT !.ip = 0]
       \* 2: impact pool worth less than the raw positive impact of an improving open but more than
       \*    max-positive-factor * size (and max-negative-factor * size) for the small cap pairs
       \* 2, 3, 6: funding / borrowing have accrued before the round trip -- cumulative per-size indices that
       \* differ between the long-token and short-token entries and between the sides (either order)
       [] k = 2 -> [oi(200, 50)  EXCEPT !.ip = 5, !.fps = P4(3, 1, 2, 5), !.cfps = P4(1, 4, 6, 2), !.bf = P2(3, 2)]
       [] k = 3 -> [oi(50, 200)  EXCEPT !.ip = 30, !.fps = P4(0, 4, 3, 0), !.cfps = P4(5, 2, 0, 3), !.bf = P2(0, 4)]
       [] k = 4 -> [oi(80, 100)  EXCEPT !.ip = 1]
       [] k = 5 -> [oi(0, 0)     EXCEPT !.ip = 5]
       [] k = 6 -> [oi(50, 200)  EXCEPT !.ip = 30, !.vi = [on |-> TRUE, L |-> 0, S |-> 400],
                                        !.fps = P4(2, 2, 1, 7), !.cfps = P4(0, 3, 3, 8), !.bf = P2(1, 1)]

Init == \E fx \in FixtureIds, st \in SettingIds, cp \in CapPairs :
          cas = [stage |-> 0, fx |-> fx, st |-> st, cp |-> cp]
Next ==
  /\ cas.stage = 0
  /\ \E long \in BOOLEAN, clong \in BOOLEAN, sz \in SizesC, co \in CollsC, pk \in PriceIds :
       cas' = [stage |-> 1,
               m |-> Fixture(cas.fx, [Setting(cas.st) EXCEPT !.maxPosImp = cas.cp[1], !.maxNegImp = cas.cp[2]]),
               p |-> EmptyPos(long, clong), px |-> PriceSet(pk), dcoll |-> co, dsize |-> sz]

NoArgs == [dcoll |-> 0, dsize |-> 0, acc |-> -1, wd |-> 0, insolvent |-> FALSE, cap |-> FALSE]
NoAdl  == [ex |-> FALSE, f0 |-> 0, f1 |-> 0]
Event(op, pre, px, a, r, rt) ==
  [reset |-> FALSE, op |-> op, tag |-> "", px |-> px, a |-> a, pre |-> pre, ok |-> r.ok,
   post |-> [m |-> r.m, p |-> r.p], rep |-> r.rep, adl |-> NoAdl, rt |-> rt, panic |-> FALSE]

Inv ==
  cas.stage = 1 =>
    LET r1 == Increase(cas.p, cas.m, cas.px, cas.dcoll, cas.dsize, -1)
        r2 == DecreaseOrder(r1.p, r1.m, cas.px, cas.dsize, -1, 0, FALSE)
        e1 == Event("increase", [m |-> cas.m, p |-> cas.p], cas.px,
                    [NoArgs EXCEPT !.dcoll = cas.dcoll, !.dsize = cas.dsize], r1, FALSE)
        e2 == Event("decrease", [m |-> r1.m, p |-> r1.p], cas.px, [NoArgs EXCEPT !.dsize = cas.dsize], r2, TRUE)
    IN /\ Named("RoundTripWithinConvention", CapConvention(cas.m.c) => MonRoundTrip(e1, e2))
       /\ Named("IncreaseHealthy", MonIncreaseHealthy(e1))
       /\ Emit("C", [m |-> cas.m, p |-> cas.p, px |-> cas.px, dcoll |-> cas.dcoll, dsize |-> cas.dsize])
       /\ (MonRoundTrip(e1, e2) \/
             Emit("W", [maxPosImp |-> cas.m.c.maxPosImp, maxNegImp |-> cas.m.c.maxNegImp,
                        profit |-> RoundTripProfit(e1, e2), long |-> cas.p.long, clong |-> cas.p.clong,
                        dcoll |-> cas.dcoll, dsize |-> cas.dsize, px |-> cas.px, oi |-> cas.m.oi, ip |-> cas.m.ip,
                        pf |-> cas.m.c.pf, nf |-> cas.m.c.nf, iexp |-> cas.m.c.iexp,
                        imp1 |-> r1.rep.imp, imp2 |-> r2.rep.imp, diff2 |-> r2.rep.diff, out |-> r2.rep.out,
                        sec |-> r2.rep.sec, uo |-> r2.rep.uo, us |-> r2.rep.us]))
       /\ (~(r1.ok /\ r2.ok) \/ Emit("N", [profit |-> RoundTripProfit(e1, e2), tol |-> RoundTripTol(e1), conv |-> CapConvention(cas.m.c)]))
=============================================================================
