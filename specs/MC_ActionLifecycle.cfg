INIT Init
NEXT Next
CONSTANTS
  Acts = {"a1", "a2"}
  MaxDepth = 6
VIEW View
CONSTRAINT Bound
INVARIANTS InvSane EmitPath
PROPERTY StepProps
CHECK_DEADLOCK FALSE
