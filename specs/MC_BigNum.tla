------------------------------ MODULE MC_BigNum ------------------------------
(* BigNum against integer arithmetic, exhaustively for a small base: every pair of values in
   -(BBase^BW - 1) .. BBase^BW - 1. *)
EXTENDS BigNum, TLC
VARIABLES a, b
vars == <<a, b>>
RECURSIVE Pow(_, _)
Pow(x, n) == IF n = 0 THEN 1 ELSE x * Pow(x, n - 1)
Lim == Pow(BBase, BW) - 1
Abs(x) == IF x < 0 THEN -x ELSE x
ToBig(n) == Big(n < 0, [i \in 1..BW |-> (Abs(n) \div Pow(BBase, BW - i)) % BBase])
RECURSIVE MagVal(_, _)
MagVal(l, i) == IF i > BW THEN 0 ELSE l[i] * Pow(BBase, BW - i) + MagVal(l, i + 1)
Val(x) == IF x.neg THEN -MagVal(x.l, 1) ELSE MagVal(x.l, 1)
Init == a \in -Lim..Lim /\ b \in -Lim..Lim
Next == UNCHANGED vars
LRoundTrip == Val(ToBig(a)) = a /\ IsBig(ToBig(a))
LCmp == /\ BigLe(ToBig(a), ToBig(b)) <=> a <= b
        /\ BigLt(ToBig(a), ToBig(b)) <=> a < b
        /\ BigEq(ToBig(a), ToBig(b)) <=> a = b
LAdd == Abs(a + b) <= Lim => (BigAdd(ToBig(a), ToBig(b)) = ToBig(a + b))
LMin == BigMin(ToBig(a), ToBig(b)) = ToBig(IF a <= b THEN a ELSE b)
=============================================================================
