----------------------------- MODULE Trace_Graph -----------------------------
(* C42 trace validation: one event per (graph, max_steps) with the results of the real search for
   every ordered pair of tokens.  A failing monitor is reported as "<Monitor>#<index into res>". *)
EXTENDS GraphProps, TraceLib
VARIABLE i
Init == i = 0
Mons(e) ==
  LET neg == NegCycle(e.g) IN
  [j \in 1..(3 * Len(e.res)) |->
     LET r == e.res[((j - 1) \div 3) + 1]
         w == (j - 1) % 3
         n == ToString(((j - 1) \div 3) + 1) IN
     IF w = 0 THEN <<"Valid#" \o n, MonValid(e.g, e.k, r)>>
     ELSE IF w = 1 THEN <<"Rate#" \o n, MonRate(e.g, e.k, r)>>
     ELSE <<"Best#" \o n, MonBest(e.g, e.k, r, neg)>>]
Next ==
  /\ i < NRec
  /\ i' = i + 1
  /\ LET e == Rec[i'] IN Judge(i', Mons(e)) /\ Drift(i', Conforms(e), "search")
Spec == Init /\ [][Next]_i
Done == Emit("DONE", [events |-> TLCGet("stats").diameter - 1])
=============================================================================
