------------------------------ MODULE FixedStr ------------------------------
(* Fixed-size stored names (crates/utils/src/fixed_str.rs and its users).  A name is its UTF-8 byte
   sequence (integers 0..255); a field holds n bytes.

   ToBytes / FromBytes transcribe the code.  The *design* the property asks for is
   "Store accepts a name iff it can be read back", stated relative to a read function: either the
   code's (a NUL terminator is required) or the variant that also reads a name filling the field. *)
EXTENDS Integers, Sequences

Zeros(k) == [i \in 1..k |-> 0]
Pad(b, n) == b \o Zeros(n - Len(b))                       \* Len(b) <= n
HasNul(b) == \E i \in DOMAIN b : b[i] = 0
FirstNul(b) == CHOOSE i \in DOMAIN b : b[i] = 0 /\ \A j \in 1..(i - 1) : b[j] # 0

Rejected == [ok |-> FALSE, bytes |-> << >>]
NoStr    == [ok |-> FALSE, s |-> << >>]

(* fixed_str_to_bytes::<n> as repaired by "fix: fixed-size names must read back as accepted":
   the length is checked and an interior NUL is rejected.  (Before the repair only the length was
   checked: ToBytesOld.) *)
ToBytesOld(name, n) == IF Len(name) > n THEN Rejected ELSE [ok |-> TRUE, bytes |-> Pad(name, n)]
ToBytes(name, n) ==
  IF Len(name) > n \/ HasNul(name) THEN Rejected ELSE [ok |-> TRUE, bytes |-> Pad(name, n)]

(* bytes_to_fixed_str as repaired: the first NUL ends the name, a buffer without NUL is a name that
   fills the field.  (Before the repair: no NUL -> InvalidFormat, FromBytesOld.)  The UTF-8 check
   cannot fail on the prefix of a valid string cut at a NUL. *)
FromBytesOld(bytes) ==
  IF ~HasNul(bytes) THEN NoStr ELSE [ok |-> TRUE, s |-> SubSeq(bytes, 1, FirstNul(bytes) - 1)]
FromBytes(bytes) ==
  IF ~HasNul(bytes) THEN [ok |-> TRUE, s |-> bytes]
  ELSE [ok |-> TRUE, s |-> SubSeq(bytes, 1, FirstNul(bytes) - 1)]

(* read function that also accepts a name filling the whole field *)
FromBytesFull(bytes) == FromBytes(bytes)

(* the two read functions the design is stated against: the pre-repair one (terminator required)
   and the one that also reads a name filling the field (the code after the repair) *)
Read(bytes, full) == IF full THEN FromBytesFull(bytes) ELSE FromBytesOld(bytes)

(* design: accept exactly the names that read back unchanged *)
Readable(name, n, full) ==
  /\ Len(name) <= n
  /\ LET r == Read(Pad(name, n), full) IN r.ok /\ r.s = name
Store(name, n, full) == IF Readable(name, n, full) THEN [ok |-> TRUE, bytes |-> Pad(name, n)] ELSE Rejected

(* classes of names, relative to a field of n bytes *)
Class(name, n) ==
  IF Len(name) > n THEN "too_long"
  ELSE IF HasNul(name) THEN "contains_nul"
  ELSE IF Len(name) = n THEN "exactly_fills_field"
  ELSE "fits"
=============================================================================
