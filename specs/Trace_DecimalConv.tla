-------------------------- MODULE Trace_DecimalConv --------------------------
(* C43 trace validation: every event is one conversion chain of the real SDK code.  The monitors
   work on the logged digit strings (full u64/u128/i128 range); conformance with DecimalConv is
   evaluated on the events whose values fit TLC's integers (e.small). *)
EXTENDS DecimalConvProps, TraceLib
VARIABLE i
Init == i = 0
Next ==
  /\ i < NRec
  /\ i' = i + 1
  /\ LET e == Rec[i'] IN
       /\ Judge(i', << <<"NoPanic", MonNoPanic(e)>>, <<"ToExact", MonToExact(e)>>,
                       <<"RoundTrip", MonRoundTrip(e)>>, <<"FromExact", MonFromExact(e)>> >>)
       /\ Drift(i', Conforms(e), e.op)
Spec == Init /\ [][Next]_i
Done == Emit("DONE", [events |-> TLCGet("stats").diameter - 1])
=============================================================================
