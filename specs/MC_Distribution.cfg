SPECIFICATION Spec
CONSTANTS
  Unit = 10
  MaxU = 2147483647
  MaxS = 2147483647
  Amts = {0,1,2,3,4,5,6,7,8,9,10,11,12,13,14,15,16,17,18,19,20,21,22,23,24,25,26,27,28,29,30,31,32,33,34,35,36,37,38,39,40}
  Mins = {0,1,2,3,4,5,6,7,8,9,10,11,12,13,14,15,16,17,18,19,20,21,22,23,24,25,26,27,28,29,30,31,32,33,34,35,36,37,38,39,40,41}
  Rates = {0,1,4,9,10,15,23,30}
  Dts = {0,1,2,3,7,10}
VIEW View
INVARIANTS HistMon NoFail
PROPERTIES StepMon
CHECK_DEADLOCK FALSE
