SPECIFICATION Spec
CONSTANTS
  Week = 604800
POSTCONDITION Done
CHECK_DEADLOCK FALSE
