------------------------------ MODULE PoolProps ------------------------------
(* C15 Single-token pools account for every token exactly once.
   An event e is one operation on a real pool, self-contained:
     op in {"load","apply_long","apply_short","apply_both","cancel"}, pure,
     dl, ds        signed deltas (dl is the delta of the single-side operations),
     ok, panic     result (ok = FALSE is the code's Err; the pool must then be unchanged),
     l0, s0        stored amounts before;   l1, s1  stored amounts after,
     vl0, vs0      long/short *views* (Balance::long_amount/short_amount) before; vl1, vs1 after.
   The monitors are the property statement; Conforms is the transcription of the code (drift). *)
EXTENDS Pool

\* @typeAlias: poolEv = {op: Str, pure: Bool, dl: Int, ds: Int, ok: Bool, panic: Bool, l0: Int, s0: Int, l1: Int, s1: Int, vl0: Int, vs0: Int, vl1: Int, vs1: Int};
PoolProps_aliases == TRUE

\* @type: ($poolEv) => Int;
Total0(e) == IF e.pure THEN e.l0 ELSE e.l0 + e.s0
\* @type: ($poolEv) => Int;
Total1(e) == IF e.pure THEN e.l1 ELSE e.l1 + e.s1
\* @type: ($poolEv) => Int;
DeltaOf(e) == IF e.op = "apply_both" THEN e.dl + e.ds ELSE e.dl
\* @type: ($poolEv) => Bool;
IsDelta(e) == e.op \in {"apply_long", "apply_short", "apply_both"}

\* @type: ($poolEv) => Bool;
MonNoPanic(e) == ~e.panic

(* the long-side and short-side views always add up to the stored total *)
\* @type: ($poolEv) => Bool;
MonSum(e) == ~e.panic => (e.vl0 + e.vs0 = Total0(e) /\ e.vl1 + e.vs1 = Total1(e))

(* adding or removing an amount on either side changes the total by exactly that amount,
   or the call fails and nothing changes *)
\* @type: ($poolEv) => Bool;
MonDelta(e) ==
  (IsDelta(e) /\ ~e.panic) =>
    IF e.ok THEN Total1(e) = Total0(e) + DeltaOf(e) /\ 0 <= e.l1 /\ 0 <= e.s1
    ELSE e.l1 = e.l0 /\ e.s1 = e.s0

(* netting the two sides leaves only the parity remainder (single-token pool); for a two-token
   pool the difference stays on the larger side *)
\* @type: ($poolEv) => Bool;
MonCancel(e) ==
  (e.op = "cancel" /\ ~e.panic) =>
    IF ~e.ok THEN e.l1 = e.l0 /\ e.s1 = e.s0
    ELSE IF e.pure THEN Total1(e) = Total0(e) % 2 /\ e.vl1 + e.vs1 = Total0(e) % 2
    ELSE IF e.l0 >= e.s0 THEN e.l1 = e.l0 - e.s0 /\ e.s1 = 0
    ELSE e.l1 = 0 /\ e.s1 = e.s0 - e.l0

(* spec-vs-code: the transcription predicts result, stored amounts and views *)
\* @type: ($poolEv) => Bool;
Conforms(e) ==
  LET p0 == MkPool(e.pure, e.l0, e.s0)
      r  == Apply(p0, e.op, e.dl, e.ds)
  IN /\ ~e.panic
     /\ e.ok = r.ok
     /\ e.l1 = r.p.l /\ e.s1 = r.p.s
     /\ e.vl0 = LongAmount(p0) /\ e.vs0 = ShortAmount(p0)
     /\ e.vl1 = LongAmount(r.p) /\ e.vs1 = ShortAmount(r.p)

(* the event the specification itself produces for (p, op, dl, ds): used by MC_Pool so that the
   design is judged by exactly the monitors that judge the code *)
\* @type: ($pool, Str, Int, Int) => $poolEv;
SpecEvent(p, op, dl, ds) ==
  LET r == Apply(p, op, dl, ds) IN
  [op |-> op, pure |-> p.pure, dl |-> dl, ds |-> ds, ok |-> r.ok, panic |-> FALSE,
   l0 |-> p.l, s0 |-> p.s, l1 |-> r.p.l, s1 |-> r.p.s,
   vl0 |-> LongAmount(p), vs0 |-> ShortAmount(p), vl1 |-> LongAmount(r.p), vs1 |-> ShortAmount(r.p)]
=============================================================================
