------------------------------ MODULE Position ------------------------------
(* Positions of gmsol-model, transcribed operator by operator from
     crates/model/src/position.rs                       (pnl_value, size_delta_in_tokens, position_price_impact,
                                                         position_fees, will_collateral_be_sufficient,
                                                         check_liquidatable, validate, update_open_interest)
     crates/model/src/market/{base,perp,utils}.rs       (pnl, pnl_factor, cap_pnl, reserves, impact caps)
     crates/model/src/pool/delta.rs                     (price impact of a balance change)
     crates/model/src/params/fee.rs                     (order / borrowing / funding / liquidation fees)
     crates/model/src/action/increase_position.rs       (Increase, NOT atomic in the crate)
     crates/model/src/action/decrease_position/*.rs     (Decrease with the collateral processor)
     programs/store/src/ops/order.rs                    (execute_decrease_position: liquidation / ADL guards)
   Same order of sub-steps, same rounding at every division, ok = FALSE where the code returns Err.
   Overflow of the machine type is not modelled (small world: every value < 2^31, TLC would stop).
   Swaps inside a decrease (DecreasePositionSwapType # NoSwap) and the virtual inventory for swaps
   are outside this module (DecreaseWith takes the swap of the profit as a parameter; the composed
   specification Exchange.tla supplies it).

   Non-atomicity: the crate mutates position and market in place and validates afterwards.  Results
   carry, besides p / m (unchanged inputs when ok = FALSE: what the caller sees once the programs'
   revertible market has discarded the attempt), the state the code really leaves behind:
   pp / pm = position / market at the failing step (= p / m when ok = TRUE); ncb = number of
   on_insufficient_funding_fee_payment callbacks fired.

   Shapes (identical to the JSON the drivers log):
     price   [min, max]                        px  [i, l, s]   index / long token / short token price
     pool2   [L, S]                            pool4 [L |-> pool2, S |-> pool2]  (position side, collateral token)
     p       [long, clong, coll, size, tok, bf, fps, cfl, cfs]
     m       [c, pool, fee, ip, oi, oit, bf, fps, cfps, csum, tb, vi]  with vi = [on, L, S]
     m.c     [pf, nf, iexp, feePos, feeNeg, feeRecv, minSize, minCollVal, minCollF, minCollFLiq,
              maxPosImp, maxNegImp, maxImpLiq, borRecv, liqF, liqRecv, maxPnlTrader, maxPnlAdl,
              minPnlAdl, resF, oiResF, maxOI, mcfOI, fadj]                                        *)
EXTENDS Num

Sd(b) == IF b THEN "L" ELSE "S"
Sum4(q, side) == q[Sd(side)].L + q[Sd(side)].S
TruncDiv(n, d) == IF n >= 0 THEN n \div d ELSE -((-n) \div d)        \* Rust signed `/`, d > 0

-----------------------------------------------------------------------------
(* price.rs *)
Pick(pr, maximize) == IF maximize THEN pr.max ELSE pr.min
PickForPnl(pr, long, maximize) == IF long # maximize THEN pr.min ELSE pr.max   \* is_long ^ maximize
TokPrice(px, longTok) == IF longTok THEN px.l ELSE px.s
PriceOk(pr) == pr.min # 0 /\ pr.max # 0
PricesValid(px) == PriceOk(px.i) /\ PriceOk(px.l) /\ PriceOk(px.s)

-----------------------------------------------------------------------------
(* market/base.rs, market/utils.rs *)
PoolValueOneSide(m, px, long, maximize) ==
  IF long THEN m.pool.L * Pick(px.l, maximize) ELSE m.pool.S * Pick(px.s, maximize)

MarketPnl(m, ipx, long, maximize) ==
  LET oi  == Sum4(m.oi, long)
      oit == Sum4(m.oit, long)
      v   == oit * PickForPnl(ipx, long, maximize)
  IN IF oi = 0 /\ oit = 0 THEN 0 ELSE IF long THEN v - oi ELSE oi - v

CapPnl(pnl, poolValue, factor) ==
  IF pnl > 0 THEN Min(pnl, (poolValue * factor) \div Unit) ELSE pnl

(* pnl_factor_with_pool_value(prices, is_long, maximize): pool value at the opposite pick *)
PnlFactor(m, px, long, maximize) ==
  DivToFactorSigned(MarketPnl(m, px.i, long, maximize), PoolValueOneSide(m, px, long, ~maximize))

(* pnl_factor_exceeded(prices, kind, is_long): [ok, ex, f] *)
PnlFactorExceeded(m, px, long, maxFactor) ==
  LET f == PnlFactor(m, px, long, TRUE)
  IN [ok |-> f.ok, ex |-> f.ok /\ f.v > 0 /\ f.v > maxFactor, f |-> f.v]

ReservedValue(m, ipx, long) == IF long THEN Sum4(m.oit, TRUE) * ipx.max ELSE Sum4(m.oi, FALSE)
ReserveOk(m, px, long, factor) ==
  ReservedValue(m, px.i, long) <= (PoolValueOneSide(m, px, long, FALSE) * factor) \div Unit

-----------------------------------------------------------------------------
(* position.rs: size_delta_in_tokens, pnl_value *)
SizeDeltaInTokens(p, d) ==
  IF p.size = d THEN Ok(p.tok)
  ELSE IF p.long THEN MulDivCeil(p.tok, d, p.size) ELSE MulDivFloor(p.tok, d, p.size)

(* total pnl of the whole position before / after the MaxForTrader cap: [unc, capped, active] *)
TotalPnl(p, m, px) ==
  LET value  == p.tok * PickForPnl(px.i, p.long, FALSE)
      total0 == IF p.long THEN value - p.size ELSE p.size - value
      pv     == PoolValueOneSide(m, px, p.long, FALSE)
      ppnl   == MarketPnl(m, px.i, p.long, TRUE)
      capped == CapPnl(ppnl, pv, m.c.maxPnlTrader)
      active == total0 > 0 /\ capped # ppnl /\ capped >= 0 /\ ppnl > 0
      scaled == MulDivSigned(capped, total0, ppnl)
  IN [ok |-> ~active \/ scaled.ok, unc |-> total0, capped |-> IF active THEN scaled.v ELSE total0,
      active |-> active]

(* pnl_value(prices, size_delta_usd) = (pnl, uncapped pnl, size delta in tokens) *)
PnlValue(p, m, px, d) ==
  LET t    == TotalPnl(p, m, px)
      dtok == SizeDeltaInTokens(p, d)
      pnl  == MulDivSigned(dtok.v, t.capped, p.tok)
      unc  == MulDivSigned(dtok.v, t.unc, p.tok)
  IN IF ~t.ok \/ ~dtok.ok THEN [ok |-> FALSE, pnl |-> 0, unc |-> 0, dtok |-> 0]
     ELSE IF ~pnl.ok \/ ~unc.ok THEN [ok |-> FALSE, pnl |-> 0, unc |-> 0, dtok |-> 0]
     ELSE [ok |-> TRUE, pnl |-> pnl.v, unc |-> unc.v, dtok |-> dtok.v]

-----------------------------------------------------------------------------
(* pool/delta.rs: price impact of moving the (long, short) balance from (cl, cs) to (nl, ns) *)
ImpactOf(cl, cs, nl, ns, c) ==
  LET initial == Abs(cl - cs)
      nxt     == Abs(nl - ns)
      change  == IF nxt = initial THEN "Unchanged" ELSE IF nxt > initial THEN "Worsened" ELSE "Improved"
      same    == (cl <= cs) = (nl <= ns)
      pf      == IF c.pf > c.nf THEN c.nf ELSE c.pf                    \* adjusted_factors
      hasPosS == nxt < initial
      fS      == IF hasPosS THEN pf ELSE c.nf
      iS      == ApplyFactors(initial, fS, c.iexp)
      nS      == ApplyFactors(nxt, fS, c.iexp)
      pX      == ApplyFactors(initial, pf, c.iexp)
      nX      == ApplyFactors(nxt, c.nf, c.iexp)
  IN IF same
     THEN IF ~iS.ok \/ ~nS.ok THEN [ok |-> FALSE, v |-> 0, change |-> change]
          ELSE [ok |-> TRUE, v |-> IF hasPosS THEN Abs(iS.v - nS.v) ELSE -Abs(iS.v - nS.v), change |-> change]
     ELSE IF ~pX.ok \/ ~nX.ok THEN [ok |-> FALSE, v |-> 0, change |-> change]
          ELSE [ok |-> TRUE, v |-> IF pX.v > nX.v THEN pX.v - nX.v ELSE -(nX.v - pX.v), change |-> change]

(* position_price_impact(size_delta_usd, include_virtual_inventory_impact) *)
PosImpact(p, m, d, inclVI) ==
  LET oL   == Sum4(m.oi, TRUE)
      oS   == Sum4(m.oi, FALSE)
      dL   == IF p.long THEN d ELSE 0
      dS   == IF p.long THEN 0 ELSE d
      base == ImpactOf(oL, oS, oL + dL, oS + dS, m.c)
      mn   == Min(m.vi.L, m.vi.S)
      off  == IF d < 0 THEN -d ELSE 0
      vL   == m.vi.L - mn + off
      vS   == m.vi.S - mn + off
      virt == ImpactOf(vL, vS, vL + dL, vS + dS, m.c)
      bad  == [ok |-> FALSE, v |-> 0, change |-> "Unchanged"]
  IN IF oL + dL < 0 \/ oS + dS < 0 THEN bad
     ELSE IF ~base.ok THEN bad
     ELSE IF base.v >= 0 \/ ~inclVI \/ ~m.vi.on THEN base
     ELSE IF ~virt.ok THEN bad
     ELSE IF virt.v < base.v THEN virt ELSE base

(* market/perp.rs: cap_positive_position_price_impact / cap_negative_position_price_impact *)
CapPositive(m, ipx, d, imp) ==
  IF imp >= 0 THEN Min(Min(imp, m.ip * ipx.min), (Abs(d) * m.c.maxPosImp) \div Unit) ELSE imp
CapNegative(c, d, forLiq, imp) ==
  LET f  == IF forLiq THEN c.maxImpLiq ELSE c.maxNegImp
      mn == -((Abs(d) * f) \div Unit)
  IN IF imp < 0 /\ imp < mn THEN [v |-> mn, diff |-> mn - imp] ELSE [v |-> imp, diff |-> 0]

-----------------------------------------------------------------------------
(* params/fee.rs + position.rs::position_fees (no discount): amounts in collateral tokens *)
PositionFees(p, m, cpx, d, change, isLiq) ==
  LET c       == m.c
      side    == Sd(p.long)
      ofactor == IF change = "Improved" THEN c.feePos ELSE c.feeNeg
      oval    == (d * ofactor) \div Unit
      oamt    == oval \div cpx.min
      orecv   == (oamt * c.feeRecv) \div Unit
      bdiff   == m.bf[side] - p.bf
      bval    == (p.size * bdiff) \div Unit
      bamt    == bval \div cpx.min
      brecv   == (bamt * c.borRecv) \div Unit
      fdiff   == m.fps[side][Sd(p.clong)] - p.fps
      fund    == MulDivCeil(p.size, fdiff, c.fadj * Unit)
      clL     == MulDivFloor(p.size, m.cfps[side].L - p.cfl, c.fadj * Unit)
      clS     == MulDivFloor(p.size, m.cfps[side].S - p.cfs, c.fadj * Unit)
      lval    == (d * c.liqF) \div Unit
      lamt    == IF isLiq /\ c.liqF # 0 THEN CeilDiv(lval, cpx.min) ELSE 0
      lrecv   == (lamt * c.liqRecv) \div Unit
      bad     == [ok |-> FALSE, forPool |-> 0, forRecv |-> 0, cost |-> 0, fund |-> 0, clL |-> 0, clS |-> 0]
  IN IF cpx.min = 0 \/ cpx.max = 0 THEN bad
     ELSE IF bdiff < 0 \/ fdiff < 0 \/ m.cfps[side].L - p.cfl < 0 \/ m.cfps[side].S - p.cfs < 0 THEN bad
     ELSE IF ~fund.ok \/ ~clL.ok \/ ~clS.ok THEN bad
     ELSE [ok |-> TRUE,
           forPool |-> (oamt - orecv) + (bamt - brecv) + (lamt - lrecv),
           forRecv |-> orecv + brecv + lrecv,
           cost    |-> oamt + bamt + lamt,                         \* total_cost_excluding_funding
           fund    |-> fund.v, clL |-> clL.v, clS |-> clS.v]
FeesTotal(f) == f.cost + f.fund                                    \* total_cost_amount

-----------------------------------------------------------------------------
(* position.rs: check_collateral / will_collateral_be_sufficient / check_liquidatable / validate *)
CheckCollateral(size, factor, minVal, allowZero, cv) ==             \* minVal = -1: not validated
  IF cv < 0 THEN (IF minVal # -1 THEN "MinCollateral" ELSE "Negative")
  ELSE IF minVal # -1 /\ cv < minVal THEN "MinCollateral"
  ELSE IF ~allowZero /\ cv = 0 THEN "Zero"
  ELSE IF cv < (size * factor) \div Unit THEN "MinCollateralForLeverage"
  ELSE "Sufficient"

WillCollateralBeSufficient(p, m, px, nSize, nColl, rpnl, oiDelta) ==
  LET cpx  == TokPrice(px, p.clong)
      rem0 == nColl * cpx.min
      rem  == IF rpnl < 0 THEN rem0 + rpnl ELSE rem0
      noi  == Sum4(m.oi, p.long) + oiDelta
      mcf  == Max((noi * m.c.mcfOI) \div Unit, m.c.minCollF)
  IN IF rem < 0 THEN [ok |-> TRUE, suff |-> FALSE, rem |-> rem]
     ELSE IF noi < 0 THEN [ok |-> FALSE, suff |-> FALSE, rem |-> rem]
     ELSE [ok |-> TRUE, suff |-> CheckCollateral(nSize, mcf, -1, TRUE, rem) = "Sufficient", rem |-> rem]

(* remaining collateral value of a hypothetical full close, as check_liquidatable computes it *)
RemainingCollateralValue(p, m, px) ==
  LET pv   == PnlValue(p, m, px, p.size)
      cpx  == TokPrice(px, p.clong)
      raw  == PosImpact(p, m, -p.size, TRUE)
      impV == IF raw.v < 0 THEN CapNegative(m.c, -p.size, TRUE, raw.v).v ELSE 0
      fees == PositionFees(p, m, cpx, p.size, raw.change, FALSE)
  IN IF ~pv.ok \/ ~raw.ok \/ ~fees.ok THEN [ok |-> FALSE, v |-> 0]
     ELSE [ok |-> TRUE, v |-> p.coll * cpx.min + pv.pnl + impV - FeesTotal(fees) * cpx.min]

(* check_liquidatable(prices, should_validate_min_collateral_usd, for_liquidation):
   reason = "None" when not liquidatable *)
CheckLiquidatable(p, m, px, validateMinCollateral, forLiquidation) ==
  LET rem == RemainingCollateralValue(p, m, px)
      f   == IF forLiquidation THEN m.c.minCollFLiq ELSE m.c.minCollF
      res == CheckCollateral(p.size, f, IF validateMinCollateral THEN m.c.minCollVal ELSE -1, FALSE, rem.v)
  IN IF ~rem.ok THEN [ok |-> FALSE, reason |-> "Error"]
     ELSE [ok |-> TRUE, reason |-> IF res = "Sufficient" THEN "None"
                                   ELSE IF res \in {"Zero", "Negative"} THEN "NotPositive" ELSE res]

Validate(p, m, px, checkMinSize, checkMinColl) ==
  /\ p.size # 0 /\ p.tok # 0
  /\ ~(checkMinSize /\ p.size < m.c.minSize)
  /\ LET r == CheckLiquidatable(p, m, px, checkMinColl, FALSE) IN r.ok /\ r.reason = "None"

-----------------------------------------------------------------------------
(* update_open_interest incl. the virtual inventory for positions (users' net open interest) *)
ViAfter(vi, long, d) ==
  LET toLong == (long /\ d >= 0) \/ (~long /\ d < 0)
      l  == IF toLong THEN vi.L + Abs(d) ELSE vi.L
      s  == IF toLong THEN vi.S ELSE vi.S + Abs(d)
      mn == Min(l, s)
  IN IF vi.on THEN [on |-> TRUE, L |-> l - mn, S |-> s - mn] ELSE vi

ZeroRep == [imp |-> 0, impAmt |-> 0, diff |-> 0, xprice |-> 0, dtok |-> 0, dcoll |-> 0, wd |-> 0, dsize |-> 0,
            pnl |-> 0, unc |-> 0, step |-> "", remove |-> FALSE, out |-> 0, sec |-> 0, clL |-> 0, clS |-> 0,
            hold |-> 0, uo |-> 0, us |-> 0, feeCost |-> 0, fund |-> 0]
(* pp / pm: the partial state left behind by the failing step (the crate's actions are not atomic) *)
FailedAt(p, m, pp, pm) == [ok |-> FALSE, p |-> p, m |-> m, rep |-> ZeroRep, pp |-> pp, pm |-> pm, ncb |-> 0]
Failed(p, m) == FailedAt(p, m, p, m)

-----------------------------------------------------------------------------
(* action/increase_position.rs.  acc = -1: no acceptable price *)
Increase(p0, m, px, dColl, dSize, acc) ==
  LET side   == Sd(p0.long)
      cs     == Sd(p0.clong)
      cpx    == TokPrice(px, p0.clong)
      p1     == IF p0.size = 0
                THEN [p0 EXCEPT !.tok = 0, !.fps = m.fps[side][cs], !.cfl = m.cfps[side].L, !.cfs = m.cfps[side].S]
                ELSE p0
      raw    == PosImpact(p1, m, dSize, TRUE)
      impV   == IF dSize = 0 THEN 0 ELSE CapPositive(m, px.i, dSize, raw.v)
      change == IF dSize = 0 THEN "Unchanged" ELSE raw.change
      impAmt == IF impV > 0 THEN impV \div px.i.max ELSE -CeilDiv(-impV, px.i.min)
      base   == IF p1.long THEN dSize \div px.i.max ELSE CeilDiv(dSize, px.i.min)
      dtok   == IF dSize = 0 THEN 0 ELSE IF p1.long THEN base + impAmt ELSE base - impAmt
      xprice == IF dSize = 0 THEN Pick(px.i, p1.long) ELSE dSize \div dtok
      accOk  == acc = -1 \/ dSize = 0 \/ (IF p1.long THEN xprice <= acc ELSE xprice >= acc)
      fees   == PositionFees(p1, m, cpx, dSize, change, FALSE)
      dcoll  == dColl - FeesTotal(fees)
      coll1  == p1.coll + dcoll
      csum1  == m.csum[side][cs] + dcoll
      ip1    == m.ip - impAmt
      nsize  == p1.size + dSize
      nbf    == m.bf[side]
      tb1    == m.tb[side] + (nsize * nbf) \div Unit - (p1.size * p1.bf) \div Unit
      p2     == [p1 EXCEPT !.coll = coll1, !.size = nsize, !.tok = @ + dtok, !.bf = nbf,
                           !.fps = m.fps[side][cs], !.cfl = m.cfps[side].L, !.cfs = m.cfps[side].S]
      m2     == [m EXCEPT !.fee[cs] = @ + fees.forRecv, !.pool[cs] = @ + fees.forPool,
                          !.csum[side][cs] = csum1, !.ip = ip1, !.tb[side] = tb1,
                          !.oi[side][cs] = @ + dSize, !.oit[side][cs] = @ + dtok,
                          !.vi = IF dSize = 0 THEN @ ELSE ViAfter(@, p1.long, dSize)]
      will   == WillCollateralBeSufficient(p2, m2, px, p2.size, p2.coll, 0, 0)
      rep    == [ZeroRep EXCEPT !.imp = impV, !.impAmt = impAmt, !.dtok = dtok, !.xprice = xprice,
                                !.dcoll = dcoll, !.dsize = dSize, !.feeCost = fees.cost, !.fund = fees.fund,
                                !.clL = fees.clL, !.clS = fees.clS]
      \* partial states, in the order the code mutates: process_collateral (claimable fees, pool, then the
      \* collateral sum), position collateral, impact pool, total borrowing, sizes + snapshots, open interest
      \* (usd, max check, positions VI, tokens)
      mA     == [m EXCEPT !.fee[cs] = @ + fees.forRecv, !.pool[cs] = @ + fees.forPool]
      mB     == [mA EXCEPT !.csum[side][cs] = csum1]
      pC     == [p1 EXCEPT !.coll = coll1]
      mC     == [mB EXCEPT !.ip = ip1]
      mD     == [mC EXCEPT !.tb[side] = tb1]
      mE     == [mD EXCEPT !.oi[side][cs] = @ + dSize]
  IN IF ~PricesValid(px) THEN Failed(p0, m)
     ELSE IF dSize # 0 /\ (~raw.ok \/ dtok <= 0 \/ ~accOk) THEN FailedAt(p0, m, p1, m)
     ELSE IF ~fees.ok THEN FailedAt(p0, m, p1, m)
     ELSE IF csum1 < 0 THEN FailedAt(p0, m, p1, mA)
     ELSE IF coll1 < 0 THEN FailedAt(p0, m, p1, mB)
     ELSE IF ip1 < 0 THEN FailedAt(p0, m, pC, mB)
     ELSE IF tb1 < 0 THEN FailedAt(p0, m, pC, mC)
     ELSE IF dSize > 0 /\ Sum4(m2.oi, p1.long) > m.c.maxOI THEN FailedAt(p0, m, p2, mE)
     ELSE IF dSize # 0 /\ (~ReserveOk(m2, px, p1.long, m.c.resF) \/ ~ReserveOk(m2, px, p1.long, m.c.oiResF)
                           \/ ~will.ok \/ ~will.suff) THEN FailedAt(p0, m, p2, m2)
     ELSE IF ~Validate(p2, m2, px, TRUE, TRUE) THEN FailedAt(p0, m, p2, m2)
     ELSE [ok |-> TRUE, p |-> p2, m |-> m2, rep |-> rep, pp |-> p2, pm |-> m2, ncb |-> 0]

-----------------------------------------------------------------------------
(* decrease_position/utils.rs: get_execution_price_for_decrease *)
ExecPriceDecrease(p, px, d, imp, acc) ==
  LET base  == Pick(px.i, ~p.long)
      adjI  == IF p.long THEN imp ELSE -imp
      md    == MulDivSigned(p.size, adjI, d)
      price == IF d # 0 /\ p.tok # 0 THEN base + TruncDiv(md.v, p.tok) ELSE base
  IN IF d # 0 /\ p.tok # 0 /\ ((adjI < 0 /\ -adjI > d) \/ ~md.ok) THEN Fail
     ELSE IF price < 0 THEN Fail
     ELSE IF acc = -1 \/ (IF p.long THEN price >= acc ELSE price <= acc) THEN Ok(price) ELSE Fail

(* decrease_position/collateral_processor.rs.
   st = [ok, stop, out, sec, rem, m, hold, uo, us, cleared, cb]; stop = the insolvent-close step at which
   processing ended ("" = none); ok = FALSE: the whole action fails.
   ctx = [op, pp, ip, ol, pl, same, ins]: output (collateral) token price, pnl token price, index price,
   is_output_token_long, is_pnl_token_long, same tokens, insolvent close allowed *)
Live(st) == st.ok /\ st.stop = ""
StopAt(st, step, ctx) == IF ctx.ins THEN [st EXCEPT !.stop = step] ELSE [st EXCEPT !.ok = FALSE]

(* do_pay_for_cost: output amount, then remaining collateral, then secondary output *)
DoPay(st, cost, ctx) ==
  LET need0 == CeilDiv(cost, ctx.op.min)
      a     == Min(st.out, need0)
      need1 == need0 - a
      b     == Min(st.rem, need1)
      need2 == need1 - b
      n2    == (need2 * ctx.op.min) \div ctx.pp.min
      c     == Min(st.sec, n2)
  IN IF cost = 0 THEN [pc |-> 0, ps |-> 0, left |-> 0, out |-> st.out, rem |-> st.rem, sec |-> st.sec]
     ELSE IF need1 = 0 THEN [pc |-> a, ps |-> 0, left |-> 0, out |-> st.out - a, rem |-> st.rem, sec |-> st.sec]
     ELSE IF need2 = 0 THEN [pc |-> a + b, ps |-> 0, left |-> 0, out |-> st.out - a, rem |-> st.rem - b, sec |-> st.sec]
     ELSE [pc |-> a + b, ps |-> c, left |-> (n2 - c) * ctx.pp.min, out |-> st.out - a, rem |-> st.rem - b,
           sec |-> st.sec - c]
Paid(st, r) == [st EXCEPT !.out = r.out, !.rem = r.rem, !.sec = r.sec]
ToPrimary(m, ctx, pc, ps) == [m EXCEPT !.pool[Sd(ctx.ol)] = @ + pc, !.pool[Sd(ctx.pl)] = @ + ps]
Credit(st, ctx, amt) == IF ctx.same THEN [st EXCEPT !.out = @ + amt] ELSE [st EXCEPT !.sec = @ + amt]

AddPnl(st, pnl, ctx) ==
  LET ded == pnl \div ctx.pp.max IN
  IF ~Live(st) \/ pnl <= 0 THEN st
  ELSE IF st.m.pool[Sd(ctx.pl)] < ded THEN [st EXCEPT !.ok = FALSE]
  ELSE Credit([st EXCEPT !.m.pool[Sd(ctx.pl)] = @ - ded], ctx, ded)

AddImpact(st, imp, ctx) ==
  LET amt == CeilDiv(imp, ctx.ip.min)
      ded == imp \div ctx.pp.max IN
  IF ~Live(st) \/ imp <= 0 THEN st
  ELSE IF st.m.ip < amt THEN [st EXCEPT !.ok = FALSE]
  ELSE IF st.m.pool[Sd(ctx.pl)] < ded THEN [st EXCEPT !.ok = FALSE, !.m.ip = @ - amt]   \* impact pool already debited
  ELSE Credit([st EXCEPT !.m.ip = @ - amt, !.m.pool[Sd(ctx.pl)] = @ - ded], ctx, ded)

PayFunding(st, amount, ctx) ==
  LET r  == DoPay(st, amount * ctx.op.min, ctx)
      s1 == [Paid(st, r) EXCEPT !.hold = @ + r.ps, !.cb = r.pc < amount] IN   \* cb: on_insufficient_funding_fee_payment
  IF ~Live(st) \/ amount = 0 THEN st
  ELSE IF r.left # 0 THEN StopAt(s1, "Funding", ctx) ELSE s1

PayPnl(st, pnl, ctx) ==
  LET r  == DoPay(st, -pnl, ctx)
      s1 == [Paid(st, r) EXCEPT !.m = ToPrimary(@, ctx, r.pc, r.ps)] IN
  IF ~Live(st) \/ pnl >= 0 THEN st
  ELSE IF r.left # 0 THEN StopAt(s1, "Pnl", ctx) ELSE s1

PayFees(st, fees, ctx) ==
  LET r    == DoPay(st, fees.cost * ctx.op.min, ctx)
      full == r.left = 0 /\ r.ps = 0
      s1   == IF full
              THEN [Paid(st, r) EXCEPT !.m.pool[Sd(ctx.ol)] = @ + fees.forPool, !.m.fee[Sd(ctx.ol)] = @ + fees.forRecv]
              ELSE [Paid(st, r) EXCEPT !.m = ToPrimary(@, ctx, r.pc, r.ps), !.cleared = TRUE] IN
  IF ~Live(st) \/ fees.cost = 0 THEN st
  ELSE IF r.left # 0 THEN StopAt(s1, "Fees", ctx) ELSE s1

PayImpact(st, imp, ctx) ==
  LET r  == DoPay(st, -imp, ctx)
      s1 == [Paid(st, r) EXCEPT !.m = ToPrimary(@, ctx, r.pc, r.ps),
                                !.m.ip = @ + (r.pc * ctx.op.min) \div ctx.ip.max + (r.ps * ctx.pp.min) \div ctx.ip.max] IN
  IF ~Live(st) \/ imp >= 0 THEN st
  ELSE IF r.left # 0 THEN StopAt(s1, "Impact", ctx) ELSE s1

PayDiff(st, diff, ctx) ==
  LET r  == DoPay(st, diff, ctx)
      s1 == [Paid(st, r) EXCEPT !.uo = @ + r.pc, !.us = @ + r.ps] IN
  IF ~Live(st) \/ diff = 0 THEN st
  ELSE IF r.left # 0 THEN StopAt(s1, "Diff", ctx) ELSE s1

(* action/decrease_position/mod.rs.  fl = [insolvent, liq, cap] (DecreasePositionFlags).
   Mid(st, ctx) is what happens between add_price_impact_if_positive and pay_for_funding_fees:
   swap_profit_to_collateral_tokens (the identity for DecreasePositionSwapType::NoSwap). *)
NoMid(st, ctx) == st
DecreaseWith(p, m, px, dSize0, acc, wd0, fl, Mid(_, _)) ==
  LET side    == Sd(p.long)
      cs      == Sd(p.clong)
      cpx     == TokPrice(px, p.clong)
      ppx     == TokPrice(px, p.long)
      empty   == p.size = 0 /\ p.tok = 0 /\ p.coll = 0
      \* try_new / flags.init
      d1      == IF dSize0 > p.size /\ fl.cap THEN p.size ELSE dSize0
      ins     == fl.insolvent /\ d1 = p.size
      w1      == Min(wd0, p.coll)
      \* check_partial_close
      partial == d1 < p.size
      est     == PnlValue(p, m, px, p.size)
      estReal == MulDivSigned(d1, est.pnl, p.size)
      estRem  == est.pnl - estReal.v
      will    == WillCollateralBeSufficient(p, m, px, p.size - d1, p.coll - w1, estReal.v, -d1)
      remv    == IF ~will.suff THEN will.rem + w1 * cpx.min ELSE will.rem
      w2      == IF partial /\ ~will.suff THEN 0 ELSE w1
      d2      == IF partial /\ remv + estRem < m.c.minCollVal THEN p.size ELSE d1
      sdt     == SizeDeltaInTokens(p, d2)
      chkTok  == partial /\ p.size > d2 /\ p.size - d2 >= m.c.minSize      \* the token test is evaluated
      d3      == IF partial /\ p.size > d2 /\ (p.size - d2 < m.c.minSize \/ p.tok <= sdt.v) THEN p.size ELSE d2
      partErr == partial /\ (~est.ok \/ ~estReal.ok \/ ~will.ok \/ (~will.suff /\ d1 = 0) \/ (chkTok /\ ~sdt.ok))
      \* check_close
      w3      == IF d3 = p.size /\ w2 # 0 THEN 0 ELSE w2
      \* check_liquidation
      liq     == CheckLiquidatable(p, m, px, TRUE, TRUE)
      liqErr  == fl.liq /\ (~liq.ok \/ liq.reason = "None")
      \* get_execution_params
      raw     == PosImpact(p, m, -d3, TRUE)
      capN    == CapNegative(m.c, d3, FALSE, CapPositive(m, px.i, d3, raw.v))
      impV    == IF d3 = 0 THEN 0 ELSE capN.v
      diff    == IF d3 = 0 THEN 0 ELSE capN.diff
      change  == IF d3 = 0 THEN "Unchanged" ELSE raw.change
      xp      == IF d3 = 0 THEN Ok(Pick(px.i, ~p.long)) ELSE ExecPriceDecrease(p, px, d3, impV, acc)
      \* process_collateral
      pv      == PnlValue(p, m, px, d3)
      fees    == PositionFees(p, m, cpx, d3, change, fl.liq)
      ctx     == [op |-> cpx, pp |-> ppx, ip |-> px.i, ol |-> p.clong, pl |-> p.long, same |-> p.long = p.clong,
                  ins |-> ins]
      s0      == [ok |-> TRUE, stop |-> "", out |-> 0, sec |-> 0, rem |-> p.coll, m |-> m, hold |-> 0,
                  uo |-> 0, us |-> 0, cleared |-> FALSE, cb |-> FALSE]
      s2      == AddImpact(AddPnl(s0, pv.pnl, ctx), impV, ctx)
      s7      == PayDiff(PayImpact(PayFees(PayPnl(PayFunding(IF Live(s2) THEN Mid(s2, ctx) ELSE s2,
                         fees.fund, ctx), pv.pnl, ctx), fees, ctx), impV, ctx), diff, ctx)
      diffAmt == diff \div cpx.min
      w4      == IF w3 # 0 /\ diff # 0 THEN (IF w3 > diffAmt THEN w3 - diffAmt ELSE 0) ELSE w3
      w5      == Min(w4, s7.rem)
      rem8    == s7.rem - w5
      out8    == s7.out + w5
      \* state update
      nsize   == p.size - d3
      nbf     == m.bf[side]
      tb1     == s7.m.tb[side] + (nsize * nbf) \div Unit - (p.size * p.bf) \div Unit
      ntok    == p.tok - pv.dtok
      remove  == nsize = 0 \/ ntok = 0
      coll9   == IF remove THEN 0 ELSE rem8
      out9    == IF remove THEN out8 + rem8 ELSE out8
      csum1   == s7.m.csum[side][cs] - (p.coll - coll9)
      p9      == [p EXCEPT !.size = IF remove THEN 0 ELSE nsize, !.tok = IF remove THEN 0 ELSE ntok,
                           !.coll = coll9, !.bf = nbf, !.fps = m.fps[side][cs],
                           !.cfl = m.cfps[side].L, !.cfs = m.cfps[side].S]
      oi1     == s7.m.oi[side][cs] - d3
      oit1    == s7.m.oit[side][cs] - pv.dtok
      m9      == [s7.m EXCEPT !.tb[side] = tb1, !.csum[side][cs] = csum1,
                              !.oi[side][cs] = IF d3 = 0 THEN @ ELSE oi1,
                              !.oit[side][cs] = IF d3 = 0 THEN @ ELSE oit1,
                              !.vi = IF d3 = 0 THEN @ ELSE ViAfter(@, p.long, -d3)]
      outF    == IF ctx.same THEN out9 + s7.sec ELSE out9
      secF    == IF ctx.same THEN 0 ELSE s7.sec
      rep     == [ZeroRep EXCEPT !.imp = impV, !.diff = diff, !.xprice = xp.v, !.dtok = pv.dtok, !.wd = w5,
                                 !.dsize = d3, !.pnl = pv.pnl, !.unc = pv.unc, !.step = s7.stop, !.remove = remove,
                                 !.out = outF, !.sec = secF, !.clL = fees.clL, !.clS = fees.clS, !.hold = s7.hold,
                                 !.uo = s7.uo, !.us = s7.us, !.feeCost = IF s7.cleared THEN 0 ELSE fees.cost,
                                 !.fund = fees.fund]
      \* partial states after process_collateral, in the order the code mutates: total borrowing, position
      \* sizes + collateral, collateral sum, position snapshots, open interest usd, positions VI, tokens
      mT      == [s7.m EXCEPT !.tb[side] = tb1]
      pS      == [p EXCEPT !.size = IF remove THEN 0 ELSE nsize, !.tok = IF remove THEN 0 ELSE ntok, !.coll = coll9]
      mU      == [mT EXCEPT !.csum[side][cs] = csum1]
      mV      == [mU EXCEPT !.oi[side][cs] = oi1, !.vi = ViAfter(@, p.long, -d3)]
  IN IF ~PricesValid(px) \/ empty THEN Failed(p, m)
     ELSE IF dSize0 > p.size /\ ~fl.cap THEN Failed(p, m)
     ELSE IF partErr \/ liqErr THEN Failed(p, m)
     ELSE IF d3 # 0 /\ (~raw.ok \/ ~xp.ok) THEN Failed(p, m)
     ELSE IF ~pv.ok \/ ~fees.ok THEN Failed(p, m)
     ELSE IF ~s7.ok THEN FailedAt(p, m, p, s7.m)
     ELSE IF tb1 < 0 THEN FailedAt(p, m, p, s7.m)
     ELSE IF ntok < 0 THEN FailedAt(p, m, p, mT)
     ELSE IF csum1 < 0 THEN FailedAt(p, m, pS, mT)
     ELSE IF d3 # 0 /\ oi1 < 0 THEN FailedAt(p, m, p9, mU)
     ELSE IF d3 # 0 /\ oit1 < 0 THEN FailedAt(p, m, p9, mV)
     ELSE IF ~remove /\ ~Validate(p9, m9, px, FALSE, FALSE) THEN FailedAt(p, m, p9, m9)
     ELSE [ok |-> TRUE, p |-> p9, m |-> m9, rep |-> rep, pp |-> p9, pm |-> m9, ncb |-> IF s7.cb THEN 1 ELSE 0]

Decrease(p, m, px, dSize0, acc, wd0, fl) == DecreaseWith(p, m, px, dSize0, acc, wd0, fl, NoMid)

-----------------------------------------------------------------------------
(* programs/store/src/ops/order.rs::execute_decrease_position: what the program adds around
   `position.decrease(..)` for the three kinds of decrease orders (builder fee, output swaps and
   transfers are outside this module).
     Liquidation        size_delta_usd >= position.size_in_usd, insolvent close allowed, no capping
     AutoDeleveraging   pnl factor must exceed ForAdl before; after: strictly lower and >= MinAfterAdl
     Market/Limit/Stop  capping only for LimitDecrease / StopLossDecrease, no insolvent close           *)
LiquidationOrder(p, m, px, dSize, acc, wd) ==
  IF dSize < p.size THEN Failed(p, m)
  ELSE Decrease(p, m, px, dSize, acc, wd, [insolvent |-> TRUE, liq |-> TRUE, cap |-> FALSE])

AdlOrder(p, m, px, dSize, acc, wd) ==
  LET pre  == PnlFactorExceeded(m, px, p.long, m.c.maxPnlAdl)
      r    == Decrease(p, m, px, dSize, acc, wd, [insolvent |-> TRUE, liq |-> FALSE, cap |-> FALSE])
      post == PnlFactor(r.m, px, p.long, TRUE)
  IN IF ~pre.ok \/ ~pre.ex THEN Failed(p, m)                         \* AdlNotRequired
     ELSE IF ~r.ok \/ ~post.ok THEN Failed(p, m)
     ELSE IF ~(pre.f > post.v) \/ ~(post.v >= m.c.minPnlAdl) THEN Failed(p, m)   \* InvalidAdl
     ELSE r

DecreaseOrder(p, m, px, dSize, acc, wd, capAllowed) ==
  Decrease(p, m, px, dSize, acc, wd, [insolvent |-> FALSE, liq |-> FALSE, cap |-> capAllowed])
=============================================================================
