------------------------------ MODULE ConfigKV ------------------------------
(* Key/value configuration of the store program:
     market config factors + flags  (programs/store/src/states/market/config.rs, model.rs)
     store amounts / factors / addresses (programs/store/src/states/store.rs).
   A configuration is a function cfg : Key -> Val.  Keys are the snake_case names of the code's
   enums (MarketConfigKey, and "flag.<MarketConfigFlag>"; store keys are "amount.<k>", "factor.<k>",
   "address.<k>"); the key SETS are not fixed here - they are whatever the enums of the code under
   test contain at run time (DOMAIN of the logged projection).  Values are opaque (decimal strings).

   ParamTable   : which model-trait parameter (accessor of gmsol_model::{BaseMarket, SwapMarket,
                  PositionImpactMarket, BorrowingFeeMarket, PerpMarket} implemented for Market, and
                  Market::max_pool_value_for_deposit) each key feeds, from the documented meaning of
                  the key; "<x>.long" / "<x>.short" is the accessor called with is_long(_token) =
                  true / false.
   ClosedTable  : the closed-market switch: while the market is closed AND the flag
                  enable_market_closed_params is set, these keys feed the listed parameters instead.
   DefaultTable : C17 - the documented constant (programs/store/src/constants/market.rs) each key
                  starts from after Market::init.  Rule: key k starts from DEFAULT_<K>, except
                  (a) the four *_receiver_factor keys share DEFAULT_RECEIVER_FACTOR,
                  (b) the constants of min_collateral_factor_for_open_interest_multiplier_for_* and
                      max_pool_value_for_deposit_for_*_token drop "MULTIPLIER" / the second "FOR",
                  (c) the market_closed_* keys start from the open-market (long side) constants,
                      both skip-borrowing flags from DEFAULT_SKIP_BORROWING_FEE_FOR_SMALLER_SIDE,
                      and enable_market_closed_params starts unset. *)
EXTENDS Integers, Sequences, FiniteSets

(* ---- the state machine -------------------------------------------------------------------- *)
Write(cfg, k, v) == IF k \in DOMAIN cfg THEN [cfg EXCEPT ![k] = v] ELSE cfg
Read(cfg, k) == cfg[k]

(* ---- which parameter each key feeds (open market) ------------------------------------------ *)
ParamTable == {
    <<"swap_impact_exponent", "swap_impact_params.exponent">>,
    <<"swap_impact_positive_factor", "swap_impact_params.positive_factor">>,
    <<"swap_impact_negative_factor", "swap_impact_params.negative_factor">>,
    <<"swap_fee_receiver_factor", "swap_fee_params.receiver_factor">>,
    <<"swap_fee_factor_for_positive_impact", "swap_fee_params.positive_impact_fee_factor">>,
    <<"swap_fee_factor_for_negative_impact", "swap_fee_params.negative_impact_fee_factor">>,
    <<"min_position_size_usd", "position_params.min_position_size_usd">>,
    <<"min_collateral_value", "position_params.min_collateral_value">>,
    <<"min_collateral_factor", "position_params.min_collateral_factor">>,
    <<"min_collateral_factor_for_open_interest_multiplier_for_long", "min_collateral_factor_for_open_interest_multiplier.long">>,
    <<"min_collateral_factor_for_open_interest_multiplier_for_short", "min_collateral_factor_for_open_interest_multiplier.short">>,
    <<"max_positive_position_impact_factor", "position_params.max_positive_position_impact_factor">>,
    <<"max_negative_position_impact_factor", "position_params.max_negative_position_impact_factor">>,
    <<"max_position_impact_factor_for_liquidations", "position_params.max_position_impact_factor_for_liquidations">>,
    <<"position_impact_exponent", "position_impact_params.exponent">>,
    <<"position_impact_positive_factor", "position_impact_params.positive_factor">>,
    <<"position_impact_negative_factor", "position_impact_params.negative_factor">>,
    <<"order_fee_receiver_factor", "order_fee_params.receiver_factor">>,
    <<"order_fee_factor_for_positive_impact", "order_fee_params.positive_impact_fee_factor">>,
    <<"order_fee_factor_for_negative_impact", "order_fee_params.negative_impact_fee_factor">>,
    <<"liquidation_fee_receiver_factor", "liquidation_fee_params.receiver_factor">>,
    <<"liquidation_fee_factor", "liquidation_fee_params.factor">>,
    <<"position_impact_distribute_factor", "position_impact_distribution_params.distribute_factor">>,
    <<"min_position_impact_pool_amount", "position_impact_distribution_params.min_position_impact_pool_amount">>,
    <<"borrowing_fee_receiver_factor", "borrowing_fee_params.receiver_factor">>,
    <<"borrowing_fee_factor_for_long", "borrowing_fee_params.factor.long">>,
    <<"borrowing_fee_factor_for_short", "borrowing_fee_params.factor.short">>,
    <<"borrowing_fee_exponent_for_long", "borrowing_fee_params.exponent.long">>,
    <<"borrowing_fee_exponent_for_short", "borrowing_fee_params.exponent.short">>,
    <<"borrowing_fee_optimal_usage_factor_for_long", "borrowing_fee_kink_model_params.optimal_usage_factor.long">>,
    <<"borrowing_fee_optimal_usage_factor_for_short", "borrowing_fee_kink_model_params.optimal_usage_factor.short">>,
    <<"borrowing_fee_base_factor_for_long", "borrowing_fee_kink_model_params.base_borrowing_factor.long">>,
    <<"borrowing_fee_base_factor_for_short", "borrowing_fee_kink_model_params.base_borrowing_factor.short">>,
    <<"borrowing_fee_above_optimal_usage_factor_for_long", "borrowing_fee_kink_model_params.above_optimal_usage_borrowing_factor.long">>,
    <<"borrowing_fee_above_optimal_usage_factor_for_short", "borrowing_fee_kink_model_params.above_optimal_usage_borrowing_factor.short">>,
    <<"funding_fee_exponent", "funding_fee_params.exponent">>,
    <<"funding_fee_factor", "funding_fee_params.factor">>,
    <<"funding_fee_max_factor_per_second", "funding_fee_params.max_factor_per_second">>,
    <<"funding_fee_min_factor_per_second", "funding_fee_params.min_factor_per_second">>,
    <<"funding_fee_increase_factor_per_second", "funding_fee_params.increase_factor_per_second">>,
    <<"funding_fee_decrease_factor_per_second", "funding_fee_params.decrease_factor_per_second">>,
    <<"funding_fee_threshold_for_stable_funding", "funding_fee_params.threshold_for_stable_funding">>,
    <<"funding_fee_threshold_for_decrease_funding", "funding_fee_params.threshold_for_decrease_funding">>,
    <<"reserve_factor", "reserve_factor">>,
    <<"open_interest_reserve_factor", "open_interest_reserve_factor">>,
    <<"max_pnl_factor_for_long_deposit", "pnl_factor_config.max_after_deposit.long">>,
    <<"max_pnl_factor_for_short_deposit", "pnl_factor_config.max_after_deposit.short">>,
    <<"max_pnl_factor_for_long_withdrawal", "pnl_factor_config.max_after_withdrawal.long">>,
    <<"max_pnl_factor_for_short_withdrawal", "pnl_factor_config.max_after_withdrawal.short">>,
    <<"max_pnl_factor_for_long_trader", "pnl_factor_config.max_for_trader.long">>,
    <<"max_pnl_factor_for_short_trader", "pnl_factor_config.max_for_trader.short">>,
    <<"max_pnl_factor_for_long_adl", "pnl_factor_config.for_adl.long">>,
    <<"max_pnl_factor_for_short_adl", "pnl_factor_config.for_adl.short">>,
    <<"min_pnl_factor_after_long_adl", "pnl_factor_config.min_after_adl.long">>,
    <<"min_pnl_factor_after_short_adl", "pnl_factor_config.min_after_adl.short">>,
    <<"max_pool_amount_for_long_token", "max_pool_amount.long">>,
    <<"max_pool_amount_for_short_token", "max_pool_amount.short">>,
    <<"max_pool_value_for_deposit_for_long_token", "max_pool_value_for_deposit.long">>,
    <<"max_pool_value_for_deposit_for_short_token", "max_pool_value_for_deposit.short">>,
    <<"max_open_interest_for_long", "max_open_interest.long">>,
    <<"max_open_interest_for_short", "max_open_interest.short">>,
    <<"min_collateral_factor_for_liquidation", "position_params.min_collateral_factor_for_liquidation">>,
    <<"flag.skip_borrowing_fee_for_smaller_side", "borrowing_fee_params.skip_borrowing_fee_for_smaller_side">>,
    <<"flag.ignore_open_interest_for_usage_factor", "ignore_open_interest_for_usage_factor">>,
    (* store *)
    <<"amount.request_expiration", "request_expiration_at">>,
    <<"amount.claimable_time_window", "claimable_time_window">>,
    <<"address.holding", "holding">>
  }

(* ---- the closed-market switch ------------------------------------------------------------- *)
ClosedTable == {
    <<"market_closed_min_collateral_factor_for_liquidation", "position_params.min_collateral_factor_for_liquidation">>,
    <<"market_closed_borrowing_fee_base_factor", "borrowing_fee_kink_model_params.base_borrowing_factor.long">>,
    <<"market_closed_borrowing_fee_base_factor", "borrowing_fee_kink_model_params.base_borrowing_factor.short">>,
    <<"market_closed_borrowing_fee_above_optimal_usage_factor", "borrowing_fee_kink_model_params.above_optimal_usage_borrowing_factor.long">>,
    <<"market_closed_borrowing_fee_above_optimal_usage_factor", "borrowing_fee_kink_model_params.above_optimal_usage_borrowing_factor.short">>,
    <<"flag.market_closed_skip_borrowing_fee_for_smaller_side", "borrowing_fee_params.skip_borrowing_fee_for_smaller_side">>
  }
EnableClosedFlag == "flag.enable_market_closed_params"

ParamOf(k)       == {t[2] : t \in {x \in ParamTable : x[1] = k}}
ClosedParamOf(k) == {t[2] : t \in {x \in ClosedTable : x[1] = k}}
Accessors        == {t[2] : t \in ParamTable}
ClosedAccessors  == {t[2] : t \in ClosedTable}

(* closed-market parameters are in force *)
ClosedMode(cfg, closed) ==
  closed /\ EnableClosedFlag \in DOMAIN cfg /\ cfg[EnableClosedFlag] = "true"

(* the key that feeds accessor p *)
SourceKey(p, closedMode) ==
  IF closedMode /\ p \in ClosedAccessors
  THEN (CHOOSE t \in ClosedTable : t[2] = p)[1]
  ELSE (CHOOSE t \in ParamTable : t[2] = p)[1]

(* documented: a zero liquidation collateral factor means "not set" and the position parameters
   fall back to min_collateral_factor *)
FallbackAccessor == "position_params.min_collateral_factor_for_liquidation"
ParamValue(cfg, p, closedMode) ==
  LET v == cfg[SourceKey(p, closedMode)] IN
  IF p = FallbackAccessor /\ v = "0" THEN cfg["min_collateral_factor"] ELSE v

KnownAccessor(p) == p \in Accessors

(* ---- C17: documented defaults ---------------------------------------------------------------- *)
DefaultTable == {
    <<"swap_impact_exponent", "DEFAULT_SWAP_IMPACT_EXPONENT">>,
    <<"swap_impact_positive_factor", "DEFAULT_SWAP_IMPACT_POSITIVE_FACTOR">>,
    <<"swap_impact_negative_factor", "DEFAULT_SWAP_IMPACT_NEGATIVE_FACTOR">>,
    <<"swap_fee_receiver_factor", "DEFAULT_RECEIVER_FACTOR">>,
    <<"swap_fee_factor_for_positive_impact", "DEFAULT_SWAP_FEE_FACTOR_FOR_POSITIVE_IMPACT">>,
    <<"swap_fee_factor_for_negative_impact", "DEFAULT_SWAP_FEE_FACTOR_FOR_NEGATIVE_IMPACT">>,
    <<"min_position_size_usd", "DEFAULT_MIN_POSITION_SIZE_USD">>,
    <<"min_collateral_value", "DEFAULT_MIN_COLLATERAL_VALUE">>,
    <<"min_collateral_factor", "DEFAULT_MIN_COLLATERAL_FACTOR">>,
    <<"min_collateral_factor_for_open_interest_multiplier_for_long", "DEFAULT_MIN_COLLATERAL_FACTOR_FOR_OPEN_INTEREST_FOR_LONG">>,
    <<"min_collateral_factor_for_open_interest_multiplier_for_short", "DEFAULT_MIN_COLLATERAL_FACTOR_FOR_OPEN_INTEREST_FOR_SHORT">>,
    <<"max_positive_position_impact_factor", "DEFAULT_MAX_POSITIVE_POSITION_IMPACT_FACTOR">>,
    <<"max_negative_position_impact_factor", "DEFAULT_MAX_NEGATIVE_POSITION_IMPACT_FACTOR">>,
    <<"max_position_impact_factor_for_liquidations", "DEFAULT_MAX_POSITION_IMPACT_FACTOR_FOR_LIQUIDATIONS">>,
    <<"position_impact_exponent", "DEFAULT_POSITION_IMPACT_EXPONENT">>,
    <<"position_impact_positive_factor", "DEFAULT_POSITION_IMPACT_POSITIVE_FACTOR">>,
    <<"position_impact_negative_factor", "DEFAULT_POSITION_IMPACT_NEGATIVE_FACTOR">>,
    <<"order_fee_receiver_factor", "DEFAULT_RECEIVER_FACTOR">>,
    <<"order_fee_factor_for_positive_impact", "DEFAULT_ORDER_FEE_FACTOR_FOR_POSITIVE_IMPACT">>,
    <<"order_fee_factor_for_negative_impact", "DEFAULT_ORDER_FEE_FACTOR_FOR_NEGATIVE_IMPACT">>,
    <<"liquidation_fee_receiver_factor", "DEFAULT_RECEIVER_FACTOR">>,
    <<"liquidation_fee_factor", "DEFAULT_LIQUIDATION_FEE_FACTOR">>,
    <<"position_impact_distribute_factor", "DEFAULT_POSITION_IMPACT_DISTRIBUTE_FACTOR">>,
    <<"min_position_impact_pool_amount", "DEFAULT_MIN_POSITION_IMPACT_POOL_AMOUNT">>,
    <<"borrowing_fee_receiver_factor", "DEFAULT_RECEIVER_FACTOR">>,
    <<"borrowing_fee_factor_for_long", "DEFAULT_BORROWING_FEE_FACTOR_FOR_LONG">>,
    <<"borrowing_fee_factor_for_short", "DEFAULT_BORROWING_FEE_FACTOR_FOR_SHORT">>,
    <<"borrowing_fee_exponent_for_long", "DEFAULT_BORROWING_FEE_EXPONENT_FOR_LONG">>,
    <<"borrowing_fee_exponent_for_short", "DEFAULT_BORROWING_FEE_EXPONENT_FOR_SHORT">>,
    <<"borrowing_fee_optimal_usage_factor_for_long", "DEFAULT_BORROWING_FEE_OPTIMAL_USAGE_FACTOR_FOR_LONG">>,
    <<"borrowing_fee_optimal_usage_factor_for_short", "DEFAULT_BORROWING_FEE_OPTIMAL_USAGE_FACTOR_FOR_SHORT">>,
    <<"borrowing_fee_base_factor_for_long", "DEFAULT_BORROWING_FEE_BASE_FACTOR_FOR_LONG">>,
    <<"borrowing_fee_base_factor_for_short", "DEFAULT_BORROWING_FEE_BASE_FACTOR_FOR_SHORT">>,
    <<"borrowing_fee_above_optimal_usage_factor_for_long", "DEFAULT_BORROWING_FEE_ABOVE_OPTIMAL_USAGE_FACTOR_FOR_LONG">>,
    <<"borrowing_fee_above_optimal_usage_factor_for_short", "DEFAULT_BORROWING_FEE_ABOVE_OPTIMAL_USAGE_FACTOR_FOR_SHORT">>,
    <<"funding_fee_exponent", "DEFAULT_FUNDING_FEE_EXPONENT">>,
    <<"funding_fee_factor", "DEFAULT_FUNDING_FEE_FACTOR">>,
    <<"funding_fee_max_factor_per_second", "DEFAULT_FUNDING_FEE_MAX_FACTOR_PER_SECOND">>,
    <<"funding_fee_min_factor_per_second", "DEFAULT_FUNDING_FEE_MIN_FACTOR_PER_SECOND">>,
    <<"funding_fee_increase_factor_per_second", "DEFAULT_FUNDING_FEE_INCREASE_FACTOR_PER_SECOND">>,
    <<"funding_fee_decrease_factor_per_second", "DEFAULT_FUNDING_FEE_DECREASE_FACTOR_PER_SECOND">>,
    <<"funding_fee_threshold_for_stable_funding", "DEFAULT_FUNDING_FEE_THRESHOLD_FOR_STABLE_FUNDING">>,
    <<"funding_fee_threshold_for_decrease_funding", "DEFAULT_FUNDING_FEE_THRESHOLD_FOR_DECREASE_FUNDING">>,
    <<"reserve_factor", "DEFAULT_RESERVE_FACTOR">>,
    <<"open_interest_reserve_factor", "DEFAULT_OPEN_INTEREST_RESERVE_FACTOR">>,
    <<"max_pnl_factor_for_long_deposit", "DEFAULT_MAX_PNL_FACTOR_FOR_LONG_DEPOSIT">>,
    <<"max_pnl_factor_for_short_deposit", "DEFAULT_MAX_PNL_FACTOR_FOR_SHORT_DEPOSIT">>,
    <<"max_pnl_factor_for_long_withdrawal", "DEFAULT_MAX_PNL_FACTOR_FOR_LONG_WITHDRAWAL">>,
    <<"max_pnl_factor_for_short_withdrawal", "DEFAULT_MAX_PNL_FACTOR_FOR_SHORT_WITHDRAWAL">>,
    <<"max_pnl_factor_for_long_trader", "DEFAULT_MAX_PNL_FACTOR_FOR_LONG_TRADER">>,
    <<"max_pnl_factor_for_short_trader", "DEFAULT_MAX_PNL_FACTOR_FOR_SHORT_TRADER">>,
    <<"max_pnl_factor_for_long_adl", "DEFAULT_MAX_PNL_FACTOR_FOR_LONG_ADL">>,
    <<"max_pnl_factor_for_short_adl", "DEFAULT_MAX_PNL_FACTOR_FOR_SHORT_ADL">>,
    <<"min_pnl_factor_after_long_adl", "DEFAULT_MIN_PNL_FACTOR_AFTER_LONG_ADL">>,
    <<"min_pnl_factor_after_short_adl", "DEFAULT_MIN_PNL_FACTOR_AFTER_SHORT_ADL">>,
    <<"max_pool_amount_for_long_token", "DEFAULT_MAX_POOL_AMOUNT_FOR_LONG_TOKEN">>,
    <<"max_pool_amount_for_short_token", "DEFAULT_MAX_POOL_AMOUNT_FOR_SHORT_TOKEN">>,
    <<"max_pool_value_for_deposit_for_long_token", "DEFAULT_MAX_POOL_VALUE_FOR_DEPOSIT_LONG_TOKEN">>,
    <<"max_pool_value_for_deposit_for_short_token", "DEFAULT_MAX_POOL_VALUE_FOR_DEPOSIT_SHORT_TOKEN">>,
    <<"max_open_interest_for_long", "DEFAULT_MAX_OPEN_INTEREST_FOR_LONG">>,
    <<"max_open_interest_for_short", "DEFAULT_MAX_OPEN_INTEREST_FOR_SHORT">>,
    <<"min_tokens_for_first_deposit", "DEFAULT_MIN_TOKENS_FOR_FIRST_DEPOSIT">>,
    <<"min_collateral_factor_for_liquidation", "DEFAULT_MIN_COLLATERAL_FACTOR_FOR_LIQUIDATION">>,
    <<"market_closed_min_collateral_factor_for_liquidation", "DEFAULT_MIN_COLLATERAL_FACTOR_FOR_LIQUIDATION">>,
    <<"market_closed_borrowing_fee_base_factor", "DEFAULT_BORROWING_FEE_BASE_FACTOR_FOR_LONG">>,
    <<"market_closed_borrowing_fee_above_optimal_usage_factor", "DEFAULT_BORROWING_FEE_ABOVE_OPTIMAL_USAGE_FACTOR_FOR_LONG">>,
    <<"flag.skip_borrowing_fee_for_smaller_side", "DEFAULT_SKIP_BORROWING_FEE_FOR_SMALLER_SIDE">>,
    <<"flag.market_closed_skip_borrowing_fee_for_smaller_side", "DEFAULT_SKIP_BORROWING_FEE_FOR_SMALLER_SIDE">>,
    <<"flag.ignore_open_interest_for_usage_factor", "DEFAULT_IGNORE_OPEN_INTEREST_FOR_USAGE_FACTOR">>,
    <<"flag.enable_market_closed_params", "UNSET">>
  }
HasDefault(k)  == \E t \in DefaultTable : t[1] = k
DefaultName(k) == (CHOOSE t \in DefaultTable : t[1] = k)[2]
(* value of the constant named n, given the constants of the code under test (name -> value) *)
ConstValue(consts, n) == IF n = "UNSET" THEN "false" ELSE consts[n]
DefaultKeys == {t[1] : t \in DefaultTable}
InitCfg(consts) == [k \in DefaultKeys |-> ConstValue(consts, DefaultName(k))]

(* pools that are never pure, whatever the tokens of the market *)
AlwaysImpure == {"position_impact", "borrowing_factor", "total_borrowing"}
PoolPure(marketPure, kind) == marketPure /\ kind \notin AlwaysImpure

StoreParamKeys == {"amount.request_expiration", "amount.claimable_time_window", "address.holding"}

(* ---- well-formedness of the tables (checked by MC_ConfigKV) ----------------------------------- *)
TablesOK ==
  /\ \A p \in Accessors : Cardinality({t \in ParamTable : t[2] = p}) = 1
  /\ \A p \in ClosedAccessors : Cardinality({t \in ClosedTable : t[2] = p}) = 1 /\ p \in Accessors
  /\ \A k \in DefaultKeys : Cardinality({t \in DefaultTable : t[1] = k}) = 1
  /\ \A t \in ParamTable \cup ClosedTable : t[1] \in DefaultKeys \cup StoreParamKeys
=============================================================================
