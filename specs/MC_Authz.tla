------------------------------ MODULE MC_Authz ------------------------------
(* Bounded model: the role store (an administrator granting / revoking roles of the pool to one
   other signer, at most MaxRoles at a time), who owns the target account, and Invoke(signer,
   instruction) with the MEASURED table Impl plugged in.  The tables come from the JSON file named
   by the environment variable AUTHZ (written by tools/props/c19.py):
     {"pool": [roles], "instr": {"<program>.<name>": {"req": {..}, "impl": {"accepts": [..]}}}}
   A counterexample is a behaviour "signer holding only X executes instruction i". *)
EXTENDS AuthzProps, TLC, Json, IOUtils

CONSTANTS MaxRoles

Data   == JsonDeserialize(IOEnv.AUTHZ)
Pool   == ToSet(Data.pool)
Instrs == DOMAIN Data.instr
Req(i)  == Data.instr[i].req
Impl(i) == Data.instr[i].impl

Signers == {"adm", "x"}

VARIABLES grants,   \* roles held by signer "x" (the administrator "adm" holds none)
          owner,    \* who is named as owner / authority by the target accounts
          last      \* the last invocation [s, i, ok]
vars == <<grants, owner, last>>

Init ==
  /\ grants = {}
  /\ owner \in Signers \cup {"other"}
  /\ last = [s |-> "adm", i |-> "none", ok |-> FALSE]

Grant  == \E r \in Pool \ grants : Cardinality(grants) < MaxRoles /\ grants' = grants \cup {r}
            /\ UNCHANGED owner /\ last' = [last EXCEPT !.ok = FALSE]
Revoke == \E r \in grants : grants' = grants \ {r}
            /\ UNCHANGED owner /\ last' = [last EXCEPT !.ok = FALSE]
Invoke ==
  \E s \in Signers, i \in Instrs :
    LET g == IF s = "x" THEN grants ELSE {} IN
    /\ last' = [s |-> s, i |-> i, ok |-> Accepts(Impl(i), g, s = "adm", s = owner)]
    /\ UNCHANGED <<grants, owner>>

Next == Grant \/ Revoke \/ Invoke

View == <<grants, owner>>

InvokeOK ==
  LET s == last'.s  i == last'.i
      g == IF s = "x" THEN grants ELSE {}
  IN (last'.i # "none" /\ last'.ok) => MonRequires(Req(i), TRUE, g, s = "adm", s = owner)
StepProps == [][InvokeOK]_vars
=============================================================================
