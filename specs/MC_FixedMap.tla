----------------------------- MODULE MC_FixedMap -----------------------------
(* Bounded model: reference map over Keys (5) with capacity Cap (3), values Vals (2).  TLC explores
   every reachable (map, operation) pair; a history variable hidden by the VIEW gives one op
   sequence per transition, printed for replay on the real macro instantiations ("P|" lines).
   Invariants: the sequence form (what the trace judges) agrees with the ordinary-map reference,
   and the monitors accept the reference's own steps. *)
EXTENDS FixedMapProps, TLC, Json, SequencesExt
CONSTANTS Keys, Vals, Cap, MaxDepth
VARIABLES m, hist, last
vars == <<m, hist, last>>
View == m

EntriesOf(mm) ==
  LET ks == SetToSortSeq(DOMAIN mm, LAMBDA a, b : a < b) IN [i \in 1..Len(ks) |-> <<ks[i], mm[ks[i]]>>]

Ops ==
  {[op |-> "insert", k |-> k, v |-> v, new |-> n] : k \in Keys, v \in Vals, n \in BOOLEAN}
  \cup {[op |-> o, k |-> k, v |-> 0, new |-> FALSE] : o \in {"get", "remove"}, k \in Keys}
  \cup {[op |-> "entry_at", k |-> i, v |-> 0, new |-> FALSE] : i \in 0..Cap}
  \cup {[op |-> o, k |-> 0, v |-> 0, new |-> FALSE] : o \in {"clear", "len"}}

MApply(mm, o) ==
  CASE o.op = "insert"   -> MInsert(mm, Cap, o.k, o.v, o.new)
    [] o.op = "get"      -> MGet(mm, o.k)
    [] o.op = "remove"   -> MRemove(mm, o.k)
    [] o.op = "clear"    -> MClear(mm)
    [] o.op = "len"      -> MLen(mm)
    [] o.op = "entry_at" -> LET s == EntriesOf(mm) IN [res |-> SEntryAt(s, o.k).res, m |-> mm]

NoOp == [op |-> "none", k |-> 0, v |-> 0, new |-> FALSE]
Init == m = Empty /\ hist = << >> /\ last = [o |-> NoOp, res |-> None, pre |-> Empty]
Next ==
  /\ Len(hist) < MaxDepth
  /\ \E o \in Ops :
       LET r == MApply(m, o) IN
       /\ m' = r.m
       /\ hist' = Append(hist, o)
       /\ last' = [o |-> o, res |-> r.res, pre |-> m]

PrintPath == PrintT("P|" \o ToJson([path |-> hist']))

(* ---- invariants ---- *)
TypeOK == Size(m) <= Cap /\ DOMAIN m \subseteq Keys
(* sequence form == ordinary map form, on the step just taken *)
SeqAgrees ==
  last.o.op # "none" =>
    LET r == SApply(EntriesOf(last.pre), Cap, last.o) IN
    /\ r.res = last.res
    /\ r.s = EntriesOf(m)
    /\ StrictlySorted(EntriesOf(m))
(* monitors accept the reference's own steps, and reject a dropped / reordered / wrong-result step *)
Ev == [tgt |-> "model", cap |-> Cap, op |-> last.o.op, k |-> last.o.k, v |-> last.o.v, new |-> last.o.new,
       pre |-> EntriesOf(last.pre), post |-> EntriesOf(m), ok |-> last.res.ok, some |-> last.res.some,
       val |-> last.res.val,
       ekey |-> IF last.o.op = "entry_at" THEN SEntryKey(EntriesOf(last.pre), last.o.k)
                ELSE IF last.o.op = "len" /\ Size(last.pre) = 0 THEN 1 ELSE 0,
       len |-> Size(m), panic |-> FALSE]
MonitorsHold ==
  last.o.op # "none" =>
    /\ MonNoPanic(Ev) /\ MonSorted(Ev) /\ MonRef(Ev) /\ MonFull(Ev)
    /\ ~MonRef([Ev EXCEPT !.ok = ~Ev.ok])
    /\ (Len(Ev.post) >= 2 => ~MonSorted([Ev EXCEPT !.post = Reverse(Ev.post)]))
    /\ (Len(Ev.post) >= 1 => ~MonRef([Ev EXCEPT !.post = Tail(Ev.post)]))
FullRejects ==
  (last.o.op = "insert" /\ Size(last.pre) >= Cap /\ last.o.k \notin DOMAIN last.pre) => (~last.res.ok /\ m = last.pre)
(* checked on EVERY transition (TLC checks an action property for each generated successor, whereas
   invariants are only evaluated on states that are new under the VIEW) *)
StepsOK == [][SeqAgrees' /\ MonitorsHold' /\ FullRejects']_vars
=============================================================================
