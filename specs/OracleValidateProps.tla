------------------------ MODULE OracleValidateProps ------------------------
(* C24 (only fresh, well-formed, in-band oracle prices are used) and C29 (an adjusted price stays
   inside the allowed band): monitors over events recorded from the real code.

   batch event        [vs, toks, n, err, fin, rs, panic]         validator pieces via hooks
   adjust event       [k, p, ref, res, err, some, q, vok, sok, dsome, dq, panic]   try_adjust_price ; validate_one ; from_price
   with_prices event  [vs, allow_closed, f_ok, pre, items, res, err, called, seen, srs, post, panic]
                      Oracle::with_prices_opts end to end on in-memory accounts *)
EXTENDS OracleValidate

SeqAll(s, P(_)) == \A i \in DOMAIN s : P(s[i])
Ts(t) == t.ots - t.cfg.adj
SeqMax(s, f(_)) == CHOOSE x \in {f(s[i]) : i \in DOMAIN s} : \A j \in DOMAIN s : f(s[j]) <= x
SeqMin(s, f(_)) == CHOOSE x \in {f(s[i]) : i \in DOMAIN s} : \A j \in DOMAIN s : f(s[j]) >= x

(* the configured deviation, rounded up to an integer and to the granularity (multiplier) of the
   price: the tolerance "within the configured deviation" is made exact with *)
TolDev(r, k, m) == CeilDivP(CeilDivP(r * k, FUnit), Pow10(m)) * Pow10(m)
InBand(p, ref, k) ==
  LET r == RefOf(p, ref) IN
  k # 0 => (AbsDiff(PMax(p), r) <= TolDev(r, k, p.maxm) /\ AbsDiff(PMin(p), r) <= TolDev(r, k, p.maxm))
WellFormed(p) == p.minv > 0 /\ PMin(p) <= PMax(p) /\ p.minm = p.maxm
Fresh(vs, t) == Ts(t) + vs.age >= vs.now /\ t.ots <= vs.now + vs.excess

(* ---- batch ---- *)
BatchAccepted(e) == e.n = Len(e.toks) /\ e.fin /\ Len(e.toks) > 0
MonBWellFormed(e) == BatchAccepted(e) => SeqAll(e.toks, LAMBDA t : WellFormed(t.p))
MonBFresh(e)      == BatchAccepted(e) => SeqAll(e.toks, LAMBDA t : Fresh(e.vs, t))
MonBInBand(e)     == BatchAccepted(e) => SeqAll(e.toks, LAMBDA t : InBand(t.p, t.ref, t.cfg.dev))
MonBSpread(e)     == BatchAccepted(e) => SeqMax(e.toks, Ts) - SeqMin(e.toks, Ts) <= e.vs.range
MonNoPanic(e)     == ~e.panic
ConformsBatch(e) ==
  LET b == Batch(e.vs, e.toks) IN
  ~e.panic /\ e.n = b.n /\ e.err = b.err /\ e.fin = b.fin /\ (e.fin => e.rs = b.rs)

(* ---- adjust ---- *)
(* An adjust event records try_adjust_price (res "ok" with [some, q], or res "err" = the price is rejected
   outright: some = FALSE, q = p, nothing is judged afterwards) and the inner function
   try_adjust_price_with_max_deviation_factor on the same input ([dsome, dq]). *)
(* a clamped bound is on the inner side of its limit: ref - dev <= min', max' <= ref + dev *)
AInward(k, p, ref, some, q) ==
  LET r == RefOf(p, ref) d == Dev(r, k) IN
  some => (PMax(q) <= r + d /\ PMin(q) >= r - d)
MonAInward(e) == AInward(e.k, e.p, e.ref, e.some, e.q) /\ AInward(e.k, e.p, e.ref, e.dsome, e.dq)
(* the statement about the adjuster itself: any price produced by clamping lies within ref +- dev, with
   min <= max.  Made exact: the clamped bounds are rounded INWARD to the granularity of the price, so the
   claim presupposes that the band contains a representable value of each bound (otherwise the inward
   roundings cross and the result is rejected, at once or later, see MonAAccepted); min <= max presupposes
   one common multiplier (different multipliers are rejected by SmallPrices::from_price). *)
BandHasGrid(p, r, d) ==
  /\ r - d >= 0
  /\ CeilDivP(r - d, Pow10(p.minm)) * Pow10(p.minm) <= r + d
  /\ ((r + d) \div Pow10(p.maxm)) * Pow10(p.maxm) >= r - d
ABand(k, p, ref, some, q) ==
  LET r == RefOf(p, ref) d == Dev(r, k) IN
  (some /\ BandHasGrid(p, r, d)) =>
     /\ r - d <= PMin(q) /\ PMin(q) <= r + d
     /\ r - d <= PMax(q) /\ PMax(q) <= r + d
     /\ q.minm = q.maxm => PMin(q) <= PMax(q)
MonABand(e) == ABand(e.k, e.p, e.ref, e.some, e.q) /\ ABand(e.k, e.p, e.ref, e.dsome, e.dq)
(* nothing adjusted => the original price is what is judged next *)
MonANoneKeeps(e) == (e.res = "ok" /\ ~e.some) => e.q = e.p
(* never accepted out of band or inverted *)
MonAAccepted(e) == (e.res = "ok" /\ e.vok /\ e.sok) => (WellFormed(e.q) /\ InBand(e.q, e.ref, e.k))
ConformsAdjust(e) ==
  LET a == Adjust(e.k, e.p, e.ref)
      q == IF a.some THEN a.p ELSE e.p
      t == [cfg |-> [feed |-> TRUE, adj |-> 0, dev |-> e.k], ots |-> 0, slot |-> 0, p |-> q, ref |-> e.ref]
      v == ValidateOne([now |-> 0, age |-> 0, range |-> 0, excess |-> 0], EmptyRange, t)
  IN /\ ~e.panic /\ e.res = "ok" /\ e.some = a.some /\ e.q = q /\ e.vok = v.ok /\ e.sok = (SmallPricesFromPrice(q) = "")
     (* the wrapper and the inner function agree *)
     /\ e.dsome = a.some /\ e.dq = q

(* ---- with_prices ---- *)
(* the oracle is cleared after use whether or not the wrapped operation (or loading) succeeded *)
MonWCleared(e) == e.post.cleared /\ e.post.n = 0
(* what the wrapped operation saw = the prices accepted for execution *)
ItemT(it) == [cfg |-> [feed |-> TRUE, adj |-> it.tc.adj, dev |-> it.tc.dev], ots |-> it.fd.ts,
              slot |-> it.fd.slot, p |-> [minv |-> 0, minm |-> 0, maxv |-> 0, maxm |-> 0],
              ref |-> [some |-> TRUE, v |-> it.fd.price, m |-> it.tc.mult]]
SeenP(s) == [minv |-> s.min, minm |-> 0, maxv |-> s.max, maxm |-> 0]       \* unit prices
WTol(it) == TolDev(U(it.fd.price, it.tc.mult), it.tc.dev, it.tc.mult)
WAll(e, P(_, _)) == e.called => \A i \in DOMAIN e.items : i <= Len(e.seen) => P(e.items[i], e.seen[i])
MonWCount(e)      == e.called => Len(e.seen) = Len(e.items)
MonWExpected(e)   == WAll(e, LAMBDA it, s : it.known /\ it.tc.enabled /\ it.fd.provider = it.tc.expected
                                             /\ it.fd.feedId = it.tc.feedIdOf)
MonWWellFormed(e) == WAll(e, LAMBDA it, s : s.min > 0 /\ s.min <= s.max)
MonWFresh(e)      == WAll(e, LAMBDA it, s : Fresh(e.vs, ItemT(it)))
MonWInBand(e)     == WAll(e, LAMBDA it, s : it.tc.dev # 0 =>
                       (AbsDiff(s.max, U(it.fd.price, it.tc.mult)) <= WTol(it) /\ AbsDiff(s.min, U(it.fd.price, it.tc.mult)) <= WTol(it)))
MonWSpread(e)     == (e.called /\ Len(e.items) > 0) =>
  SeqMax(e.items, LAMBDA it : it.fd.ts - it.tc.adj) - SeqMin(e.items, LAMBDA it : it.fd.ts - it.tc.adj) <= e.vs.range
MonWAccepted(e) == MonWCount(e) /\ MonWExpected(e) /\ MonWWellFormed(e) /\ MonWFresh(e) /\ MonWInBand(e) /\ MonWSpread(e)
(* oracle time validation (time.rs): a price set accepted by validate_time against a target contains no
   price older than the required lower bound, newer than the upper bound, or from an earlier slot; judged
   on the feeds' own (adjusted) timestamps, not on the oracle's summary fields.
   e.tgt = [after, before, slot]; e.vt = result of Oracle::validate_time(tgt) inside the wrapped operation
   ("" = accepted, "-" = not evaluated); e.max_age / e.vma the same for the real MaxAgeValidator. *)
ItTs(it) == it.fd.ts - it.tc.adj
MonTAfter(e)  == (e.called /\ e.vt = "" /\ e.tgt.after.some)  => \A i \in DOMAIN e.items : ItTs(e.items[i]) >= e.tgt.after.v
MonTBefore(e) == (e.called /\ e.vt = "" /\ e.tgt.before.some) => \A i \in DOMAIN e.items : ItTs(e.items[i]) <= e.tgt.before.v
MonTSlot(e)   == (e.called /\ e.vt = "" /\ e.tgt.slot.some)   => \A i \in DOMAIN e.items : e.items[i].fd.slot >= e.tgt.slot.v
MonTMaxAge(e) == (e.called /\ e.vma = "") => \A i \in DOMAIN e.items : ItTs(e.items[i]) + e.max_age >= e.vs.now
ConformsTime(e) ==
  e.called => (e.vt = ValidateTime(e.srs, e.tgt) /\ e.vma = ValidateTime(e.srs, MaxAgeTarget(e.vs.now, e.max_age)))

(* the wrapped operation's result is passed through *)
MonWResult(e) == e.called => (e.res = "ok") = e.f_ok
ConformsWith(e) ==
  LET l == IF e.pre.cleared /\ e.pre.n = 0 THEN Load(e.vs, e.items, e.allow_closed)
           ELSE [err |-> "PricesAreAlreadySet", n |-> 0, rs |-> EmptyRange]
  IN /\ ~e.panic
     /\ e.called = (l.err = "")
     /\ ~e.called => (e.res = "err" /\ e.err = l.err)
     /\ e.called => (e.srs = l.rs /\ Len(e.seen) = l.n)
     /\ ConformsTime(e)
     /\ e.called => \A i \in DOMAIN e.items :
          LET pr == ParseFeed(e.vs.now, e.items[i].tc, e.items[i].fd, e.allow_closed) IN
            e.seen[i].min = PMin(pr.t.p) /\ e.seen[i].max = PMax(pr.t.p)
=============================================================================
