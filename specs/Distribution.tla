---------------------------- MODULE Distribution ----------------------------
(* Position impact pool distribution, transcribed from
     crates/model/src/market/position_impact.rs
         PositionImpactMarketExt::pending_position_impact_pool_distribution_amount
     crates/model/src/action/distribute_position_impact.rs
         DistributePositionImpact::execute
   amount = position impact pool amount (long side of the pool), mn = configured
   min_position_impact_pool_amount, rate = distribute_factor (fixed point, Unit = one token per
   second), dt = seconds since the last distribution. *)
EXTENDS Num

(* pending_position_impact_pool_distribution_amount(dt) -> (distribution_amount, next_amount) *)
Pending(amount, mn, rate, dt) ==
  IF rate = 0 \/ amount <= mn THEN [ok |-> TRUE, d |-> 0, next |-> amount]
  ELSE LET cap == amount - mn                       \* checked_sub, cannot fail here
           r   == ApplyFactor(dt, rate)             \* floor(dt * rate / Unit), overflow = Err
       IN IF ~r.ok THEN [ok |-> FALSE, d |-> 0, next |-> amount]
          ELSE LET d == Min(r.v, cap) IN [ok |-> TRUE, d |-> d, next |-> amount - d]

(* DistributePositionImpact::execute with dt = just_passed_in_seconds: report (d, next) and the
   pool amount afterwards; the pool is only touched when d # 0 (delta = to_opposite_signed(d)). *)
Distribute(amount, mn, rate, dt) ==
  LET p == Pending(amount, mn, rate, dt) IN
  IF ~p.ok THEN [ok |-> FALSE, d |-> 0, next |-> amount, after |-> amount]
  ELSE IF p.d = 0 THEN [ok |-> TRUE, d |-> 0, next |-> p.next, after |-> amount]
  ELSE IF p.d > MaxS THEN [ok |-> FALSE, d |-> 0, next |-> amount, after |-> amount]
  ELSE [ok |-> TRUE, d |-> p.d, next |-> p.next, after |-> amount - p.d]
=============================================================================
