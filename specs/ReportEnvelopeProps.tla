------------------------ MODULE ReportEnvelopeProps ------------------------
(* C28 monitors.
   Envelope events (decode_full_report / decode / decode_compressed_full_report on crafted bytes):
     op        : "envelope" | "decode" | "compressed"
     L         : payload length
     oread     : the offset word exists (L >= 128);  ohi, osm, olo : its upper 24 bytes are non-zero,
                 its low 8 bytes are below 2^31, and that low value (0 when not osm)
     nread     : a length word exists where the low 8 bytes of the offset point (olo small and
                 olo + 32 <= L); nhi, nsm, nlo likewise
     ok, start, len : result and, on success, where the returned blob lies inside the payload
                 (pointer offset and length of the returned sub-slice)
     panic
   Conversion events (from_chainlink_report on a decoded crafted report):
     pneg/bneg/aneg, price/bid/ask : sign and decimal digits of the report's price, bid, ask
     ok, dec, oprice/omin/omax     : result, stored decimals and digits of price / min / max
     panic *)
EXTENDS ReportEnvelope

MonNoPanic(e) == ~e.panic

(* success => the blob is exactly the ABI-described slice: offset and length words taken as the
   256-bit integers they are.  A payload is shorter than 2^31 bytes, so the described slice can only
   lie inside it when both words are small. *)
MonAbiSlice(e) ==
  (e.op = "envelope" /\ e.ok /\ ~e.panic) =>
    /\ e.oread /\ e.ohi = 0 /\ e.osm
    /\ e.nread /\ e.nhi = 0 /\ e.nsm
    /\ e.start = e.olo + WordSize
    /\ e.len = e.nlo
    /\ e.start + e.len <= e.L

(* the code's case analysis (conformance only): high 24 bytes must be zero, low 8 bytes, usize
   overflow checks *)
EnvConforms(e) ==
  /\ ~e.panic
  /\ e.op = "envelope" =>
       LET big == 2147483647        \* stand-in for "a low-8-byte value of 2^31 or more" (> any payload length)
           ow == [hi |-> e.ohi, lo |-> IF e.osm THEN e.olo ELSE big]
           nw == [hi |-> e.nhi, lo |-> IF e.nsm THEN e.nlo ELSE big]
           r == IF ~e.oread \/ ow.hi # 0 THEN Fail            \* high bytes rejected since the repair
                ELSE IF ow.lo < HeadSize \/ ow.lo = big \/ ow.lo + WordSize > e.L THEN Fail
                ELSE IF ~e.nread \/ nw.hi # 0 \/ nw.lo = big \/ ow.lo + WordSize + nw.lo > e.L THEN Fail
                ELSE Slice(ow.lo + WordSize, nw.lo)
       IN e.ok = r.ok /\ (e.ok => e.start = r.start /\ e.len = r.len)

(* ---- conversion ---- *)
Misordered(e) == ~LeDigits(e.bid, e.price) \/ ~LeDigits(e.price, e.ask)
MonConvRejects(e) == (~e.panic /\ (e.pneg \/ e.bneg \/ e.aneg \/ Misordered(e))) => ~e.ok
MonConvOrder(e)   == (~e.panic /\ e.ok) => LeDigits(e.omin, e.oprice) /\ LeDigits(e.oprice, e.omax)
(* one common power of ten: all three lose the same number k = 18 - dec of trailing digits *)
MonConvScale(e) ==
  (~e.panic /\ e.ok) =>
    LET k == ReportDecimals - e.dec IN
    /\ k >= 0 /\ k <= ReportDecimals
    /\ e.oprice = DropDigitsOf(e.price, k)
    /\ e.omin = DropDigitsOf(e.bid, k)
    /\ e.omax = DropDigitsOf(e.ask, k)
ConvConforms(e) ==
  /\ ~e.panic
  /\ LET bad == e.pneg \/ e.bneg \/ e.aneg \/ Misordered(e)
         k == DivisorDecimals(e.ask) IN
     IF bad \/ e.tsbad THEN ~e.ok
     ELSE IF k > ReportDecimals THEN ~e.ok
     ELSE e.ok /\ e.dec = ReportDecimals - k
=============================================================================
