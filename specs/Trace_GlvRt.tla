----------------------------- MODULE Trace_GlvRt -----------------------------
(* Trace validation of the runtime binding of C45 (driver h-runtime c45rt). *)
EXTENDS GlvRt, TraceLib
VARIABLE i
Init == i = 0
Next ==
  /\ i < NRec
  /\ i' = i + 1
  /\ LET e == Rec[i'] IN
       /\ Judge(i', << <<"rt.Insert",        MonInsert(e)>>,
                       <<"rt.Limits",        MonLimits(e)>>,
                       <<"rt.RoundTrip",     MonRoundTrip(e)>>,
                       <<"rt.NotExecuted",   MonNotExecuted(e)>>,
                       <<"rt.FailUnchanged", MonFailUnchanged(e)>> >>)
       /\ Drift(i', Conforms(e), e.op)
Spec == Init /\ [][Next]_i
Done == Emit("DONE", [events |-> TLCGet("stats").diameter - 1])
=============================================================================
