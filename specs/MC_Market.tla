------------------------------ MODULE MC_Market ------------------------------
(* Bounded model of the M1 market stage for C04 / C05 / C06.
   From each initial state (the empty market, or fixture states with open interest, pnl, pending
   borrowing fees, a position impact pool, a virtual inventory) TLC explores every sequence of at
   most NDep deposits, NWd withdrawals and NSwap swaps with amounts from Amounts, under every
   listed configuration and price scenario.  The monitors of MarketProps are evaluated on the
   event of every explored operation (and on the immediate full withdrawal after every successful
   deposit); the name of a failing monitor is kept in `bad`, and the invariant is bad = "" — so
   the *design* is shown to satisfy the monitors and tolerances are calibrated here first.
   Every explored (state, operation) pair whose operation is in EmitOps is printed as a "T|" line;
   the driver injects `from` into the real market, applies the operation with the real code and
   records the event that Trace_Market then judges.
   Configurations: MC_Market.cfg (swaps, C04/C05), MC_Market_lp.cfg (deposits / withdrawals, C06),
   MC_Market_fix.cfg (fixture states), *_thorough.cfg (larger), MC_Market_sim.cfg (simulation of
   deeper histories with prices moving at every step; design level only). *)
EXTENDS MarketProps, TLC, Json, Sequences

CONSTANTS NDep, NWd, NSwap,     \* operation budget of a behaviour
          Amounts,              \* token amounts for deposits and swaps
          Pairs,                \* 0: one-sided deposits; 1: plus (x, x) and (25, 3), (3, 25); 2: all pairs
          WdAmounts,            \* market token amounts for withdrawals (besides "everything")
          CfgIds, ScenIds,      \* which configurations / price scenarios (indices below)
          FixIds,               \* which initial states (0 = empty market)
          VaryPrices,           \* TRUE: any scenario at every step; FALSE: one per behaviour
          EmitOps               \* operations whose transitions are printed for replay

VARIABLES m, ci, sc, nd, nw, ns,
          bad                   \* name of a monitor the last operation violated ("" = none)
vars == <<m, ci, sc, nd, nw, ns, bad>>

-----------------------------------------------------------------------------
BaseCfg == [feePos |-> 0, feeNeg |-> 0, feeRecv |-> 5, feeDisc |-> -1, impPos |-> 0, impNeg |-> 0, impExp |-> 1,
            div |-> 1, maxPool |-> 70, maxPoolValue |-> 1400, reserveFactor |-> 10,
            pnlDeposit |-> 6, pnlWithdrawal |-> 3, borrowRecv |-> 4, skipSmaller |-> TRUE]
MkCfg(fp, fn, ip, in, ie) ==
  [BaseCfg EXCEPT !.feePos = fp, !.feeNeg = fn, !.impPos = ip, !.impNeg = in, !.impExp = ie]
Cfgs == << MkCfg(0, 0, 0, 0, 1), MkCfg(1, 2, 1, 2, 1), MkCfg(0, 0, 1, 2, 2), MkCfg(1, 2, 2, 2, 2),
           MkCfg(0, 0, 2, 2, 1), MkCfg(1, 2, 0, 0, 1), MkCfg(0, 0, 1, 2, 1), MkCfg(1, 2, 1, 2, 2),
           MkCfg(1, 2, 2, 2, 1), MkCfg(0, 0, 2, 2, 2),
           [MkCfg(1, 2, 1, 2, 2) EXCEPT !.div = 2], [MkCfg(0, 0, 3, 2, 1) EXCEPT !.div = 3],
           (* swap fee discount factor: 30 %, 100 % (13, 14) *)
           [MkCfg(1, 2, 1, 2, 1) EXCEPT !.feeDisc = 3], [MkCfg(2, 2, 2, 2, 1) EXCEPT !.feeDisc = 10] >>

P(a, b) == [min |-> a, max |-> b]
Pr(i, l, s) == [idx |-> i, long |-> l, short |-> s]
Scens == << Pr(P(9, 11), P(9, 11), P(9, 11)),    Pr(P(20, 22), P(20, 22), P(9, 11)),
            Pr(P(10, 10), P(10, 10), P(10, 10)), Pr(P(9, 11), P(9, 11), P(20, 22)),
            Pr(P(20, 22), P(20, 22), P(10, 10)), Pr(P(9, 11), P(10, 10), P(9, 11)) >>

Z2 == Pool2(0, 0)
Empty == [liq |-> Z2, imp |-> Z2, fee |-> Z2, supply |-> 0, oi |-> Z2, oit |-> Z2, pimp |-> 0,
          bcum |-> Z2, tbor |-> Z2, vi |-> [on |-> FALSE, long |-> 0, short |-> 0], rest |-> ""]
(* fixture states: liquidity with positions open against it (pnl depends on the index spread),
   pending borrowing fees (oi * bcum - tbor), a position impact pool, a stocked swap impact pool;
   the last one has a virtual inventory for swaps *)
Fixtures == <<
  [Empty EXCEPT !.liq = Pool2(30, 40), !.supply = 600, !.imp = Pool2(2, 1), !.oi = Pool2(100, 60),
                !.oit = Pool2(10, 5), !.pimp = 3, !.bcum = Pool2(12, 10), !.tbor = Pool2(100, 50)],
  [Empty EXCEPT !.liq = Pool2(20, 25), !.supply = 300, !.imp = Pool2(0, 3), !.oi = Pool2(90, 120),
                !.oit = Pool2(6, 14), !.pimp = 0, !.bcum = Pool2(10, 15), !.tbor = Pool2(80, 170)],
  [Empty EXCEPT !.liq = Pool2(25, 10), !.supply = 350, !.imp = Pool2(1, 1),
                !.vi = [on |-> TRUE, long |-> 60, short |-> 20]] >>
InitState(f) == IF f = 0 THEN Empty ELSE Fixtures[f]

ASSUME PrintT("CFGS|" \o ToJson(Cfgs))

-----------------------------------------------------------------------------
C == Cfgs[ci]
PriceChoices == IF VaryPrices THEN {Scens[k] : k \in ScenIds} ELSE {Scens[sc]}
DepAmounts ==
  LET A0 == Amounts \cup {0}
  IN {la \in A0 \X A0 :
        /\ la[1] + la[2] > 0
        /\ \/ Pairs = 2
           \/ la[1] = 0 \/ la[2] = 0
           \/ Pairs = 1 /\ (la[1] = la[2] \/ la \in {<<25, 3>>, <<3, 25>>})}
WdChoices == WdAmounts \cup (IF m.supply > 0 THEN {m.supply} ELSE {})

Tline(op, side, a, b, pr) ==
  IF op \in EmitOps
  THEN PrintT("T|" \o ToJson([from |-> m, ci |-> ci, pr |-> pr, op |-> op, side |-> side, a |-> a, b |-> b]))
  ELSE TRUE

-----------------------------------------------------------------------------
(* the event each operation produces, in the format of MarketProps *)
NoPv == [ok |-> TRUE, v |-> 0]
Ev(op, side, a, b, pr, ok, out, out2, impact, impactAmt, fl, fs, pre, post, rt) ==
  [reset |-> FALSE, rt |-> rt, op |-> op, side |-> side, a |-> a, b |-> b, pr |-> pr, c |-> C,
   ok |-> ok, panic |-> FALSE, out |-> out, out2 |-> out2, impact |-> impact, impactAmt |-> impactAmt,
   fpl |-> fl.pool, frl |-> fl.recv, fps |-> fs.pool, frs |-> fs.recv, pre |-> pre, post |-> post,
   pvPre |-> NoPv, pvPost |-> NoPv]
SwapEv(side, a, pr) ==
  LET r == Swap(m, C, side, a, pr)
  IN Ev("swap", side, a, 0, pr, r.ok, r.out, 0, r.impact, r.impactAmt,
        [pool |-> r.feePool, recv |-> r.feeRecv], NoFees, m, r.m, FALSE)
DepositEv(l, s, pr) ==
  LET r == Deposit(m, C, l, s, pr)
  IN Ev("deposit", FALSE, l, s, pr, r.ok, r.minted, 0, r.impact, 0, r.feesL, r.feesS, m, r.m, FALSE)
WithdrawEvOn(st, a, pr, rt) ==
  LET r == Withdraw(st, C, a, pr)
  IN Ev("withdraw", FALSE, a, 0, pr, r.ok, r.longOut, r.shortOut, 0, 0, r.feesL, r.feesS, st, r.m, rt)

(* the monitors, evaluated once per explored operation; the round trip is explored for every
   successful deposit that mints something (immediate withdrawal of exactly the minted amount at
   the same prices).  C06RoundTrip itself (no allowance) does not hold on the design — see
   known_findings.json; the model is held to C06RoundTripFunded. *)
FirstBad(mons) == IF \A k \in DOMAIN mons : mons[k][2] THEN ""
                  ELSE mons[CHOOSE k \in DOMAIN mons : ~mons[k][2] /\ \A j \in 1..(k-1) : mons[j][2]][1]
SwapBad(e) == FirstBad(<< <<"C04In", C04In(e)>>, <<"C04Out", C04Out(e)>>, <<"C04Atomic", C04Atomic(e)>>,
                          <<"C05Value", C05Value(e)>>, <<"C05Exact", C05Exact(e)>>,
                          <<"C05Funded", C05Funded(e)>> >>)
WithdrawBad(e) == FirstBad(<< <<"C06WithdrawShare", C06WithdrawShare(e)>> >>)
DepositBad(e, pr) ==
  LET b1 == FirstBad(<< <<"C06DepositShare", C06DepositShare(e)>>, <<"C06First", C06First(e)>> >>)
  IN IF b1 # "" \/ ~e.ok \/ e.out = 0 THEN b1
     ELSE LET w == WithdrawEvOn(e.post, e.out, pr, TRUE)
          IN FirstBad(<< <<"C06RoundTripFunded", C06RoundTripFunded(e, w)>>,
                         <<"C06WithdrawShare(rt)", C06WithdrawShare(w)>> >>)

(* Exploration continues from the state before a failed operation: on chain the revertible wrapper
   discards the partial updates of a failed deposit / withdrawal (the partial state itself is part of
   the precise action and is compared with the code's by the conformance check of the replay). *)
After(e) == IF e.ok THEN e.post ELSE e.pre

Init ==
  /\ m \in {InitState(f) : f \in FixIds}
  /\ ci \in CfgIds /\ sc \in ScenIds
  /\ nd = 0 /\ nw = 0 /\ ns = 0 /\ bad = ""

DoDeposit ==
  /\ bad = "" /\ nd < NDep
  /\ \E la \in DepAmounts, pr \in PriceChoices :
       LET e == DepositEv(la[1], la[2], pr)
       IN /\ Tline("deposit", FALSE, la[1], la[2], pr)
          /\ m' = After(e) /\ bad' = DepositBad(e, pr)
  /\ nd' = nd + 1 /\ UNCHANGED <<ci, sc, nw, ns>>
DoWithdraw ==
  /\ bad = "" /\ nw < NWd
  /\ \E a \in WdChoices, pr \in PriceChoices :
       LET e == WithdrawEvOn(m, a, pr, FALSE)
       IN /\ Tline("withdraw", FALSE, a, 0, pr)
          /\ m' = After(e) /\ bad' = WithdrawBad(e)
  /\ nw' = nw + 1 /\ UNCHANGED <<ci, sc, nd, ns>>
DoSwap ==
  /\ bad = "" /\ ns < NSwap
  /\ \E side \in BOOLEAN, a \in Amounts, pr \in PriceChoices :
       LET e == SwapEv(side, a, pr)
       IN /\ Tline("swap", side, a, 0, pr)
          /\ m' = After(e) /\ bad' = SwapBad(e)
  /\ ns' = ns + 1 /\ UNCHANGED <<ci, sc, nd, nw>>
Next == DoDeposit \/ DoWithdraw \/ DoSwap
Spec == Init /\ [][Next]_vars

MonitorsHold == bad = ""
=============================================================================
