----------------------------- MODULE TxPackProps -----------------------------
(* C41 monitors.  An event e is one run  add(group)* ; optimize(allow) ; to_transactions :
     pgs      the accepted input (see TxPack), ids 1..N in flattening order
     allow    allow_payer_change
     maxIx, maxSize   the limits of the TransactionGroupOptions
     fit      the size oracle as answered by the real estimator (conformance only)
     out      the result: a sequence of batches, each a sequence of transactions
              [ixs, payer, nix, est, real, built]   where ixs are the tags (id * 10 + k) of the
              non-budget, non-memo instructions read back from the SERIALIZED transaction, payer its
              fee payer (account key 0), nix their number, real the serialized length, est what the
              estimator says for the same instructions and options.  built = FALSE when the SDK
              refused to build the transaction (then ixs/payer come from the group, real = 0). *)
EXTENDS TxPack, FiniteSets

RECURSIVE Concat(_)
Concat(ss) == IF ss = <<>> THEN <<>> ELSE Head(ss) \o Concat(Tail(ss))
Range(s) == {s[k] : k \in DOMAIN s}

IxTags(ag)  == [k \in 1..ag.n |-> ag.id * 10 + (k - 1)]
InAGs(e)    == Concat([k \in 1..Len(e.pgs) |-> e.pgs[k].ags])
InFlat(e)   == Concat([k \in 1..Len(InAGs(e)) |-> IxTags(InAGs(e)[k])])
OutTxs(e)   == Concat(e.out)
OutFlat(e)  == Concat([k \in 1..Len(OutTxs(e)) |-> OutTxs(e)[k].ixs])
PgOfIn(pgs, id) == CHOOSE p \in 1..Len(pgs) : \E k \in DOMAIN pgs[p].ags : pgs[p].ags[k].id = id
(* the input atomic groups (out of the set ags) a transaction carries instructions of *)
MembersIn(ags, tx) == {g \in ags : \E k \in DOMAIN tx.ixs : tx.ixs[k] \div 10 = g.id}
Members(e, tx) == MembersIn(Range(InAGs(e)), tx)

IsSubSeq(s, t) == \E off \in 0..(Len(t) - Len(s)) : \A j \in 1..Len(s) : t[off + j] = s[j]

(* never drops, duplicates or reorders instructions *)
MonFlatten(e) == OutFlat(e) = InFlat(e)

(* never splits an atomic group: its instructions are one contiguous run of one transaction *)
MonNoSplit(e) ==
  LET txs == OutTxs(e) IN
  \A g \in Range(InAGs(e)) :
    g.n > 0 => \E t \in DOMAIN txs : IsSubSeq(IxTags(g), txs[t].ixs)

(* groups are merged only if both allow it (atomic groups, and the parallel groups they came from) *)
MonMergeAllowed(e) ==
  LET txs == OutTxs(e)
      ags == Range(InAGs(e)) IN
  \A t \in DOMAIN txs :
    LET G == MembersIn(ags, txs[t]) IN
    Cardinality(G) >= 2 =>
      /\ \A g \in G : g.m
      /\ \A g, h \in G : LET pg == PgOfIn(e.pgs, g.id)  ph == PgOfIn(e.pgs, h.id) IN
                          pg # ph => e.pgs[pg].m /\ e.pgs[ph].m

(* the payer changes only if that was allowed; the fee payer is always the payer of some input
   group (possibly of an empty one, which contributes no instruction) *)
MonPayer(e) ==
  LET txs == OutTxs(e)
      ags == Range(InAGs(e)) IN
  \A t \in DOMAIN txs :
    LET G == MembersIn(ags, txs[t]) IN
    /\ \E g \in ags : g.payer = txs[t].payer
    /\ ~e.allow => \A g \in G : g.payer = txs[t].payer

(* every produced transaction stays within the instruction-count and size limits *)
MonLimits(e) ==
  LET txs == OutTxs(e) IN
  \A t \in DOMAIN txs :
    /\ txs[t].nix <= e.maxIx
    /\ txs[t].built => txs[t].real <= e.maxSize

(* the size estimate is never below the real serialized size *)
MonEstimate(e) ==
  LET txs == OutTxs(e) IN
  \A t \in DOMAIN txs : txs[t].built => txs[t].est >= txs[t].real

(* ---- conformance with the precise specification (drift only) ---- *)
AgById(e, id) == CHOOSE g \in Range(InAGs(e)) : g.id = id
PackTags(e, p) == Concat([k \in 1..Len(p.ids) |-> IxTags(AgById(e, p.ids[k]))])
Shape(e, ps) == [b \in 1..Len(ps) |-> [t \in 1..Len(ps[b].ags) |->
                   [ixs |-> PackTags(e, ps[b].ags[t]), payer |-> ps[b].ags[t].payer]]]
OutShape(e) == [b \in 1..Len(e.out) |-> [t \in 1..Len(e.out[b]) |->
                   [ixs |-> e.out[b][t].ixs, payer |-> e.out[b][t].payer]]]
Conforms(e) == OutShape(e) = Shape(e, Optimize(e.pgs, e.allow, e.fit))
=============================================================================
