----------------------------- MODULE MC_Discount -----------------------------
(* Exhaustive laws of the discount formula at Unit = 10: every rank table with up to MaxRanks + 1
   entries over 0..Unit, every referral discount 0..Unit + 1, every rank (including one above the
   maximum), both referral states. *)
EXTENDS DiscountProps, TLC
CONSTANTS MaxRank
VARIABLES factors, b, rank, referred
vars == <<factors, b, rank, referred>>

Tables == UNION {[1..(m + 1) -> 0..Unit] : m \in 0..MaxRank}
Init == factors \in Tables /\ b \in 0..(Unit + 1) /\ rank \in 0..(MaxRank + 1) /\ referred \in BOOLEAN
Next == UNCHANGED vars

Q == LET r == D(factors, b, rank, referred) u == D(factors, b, rank, FALSE) IN
  [factors |-> factors, b |-> b, rank |-> rank, referred |-> referred, ok |-> r.ok, v |-> r.v, uok |-> u.ok, uv |-> u.v,
   sdk_ok |-> r.ok, sdk_s |-> "", v_s |-> "", panic |-> FALSE]
LRange == MonRange(Q)
LReferred == MonReferred(Q)
LFormula == MonFormula(Q)
LRankLimit == MonRankLimit(Q)
(* exactly the floor of the exact value, and errors only for rank > max or b > Unit *)
LFloor == (Q.ok /\ referred) => LET x == Unit * b + factors[rank + 1] * (Unit - b) IN Q.v * Unit <= x /\ x < (Q.v + 1) * Unit
LErrors == ~Q.ok <=> (rank + 1 > Len(factors) \/ (referred /\ b > Unit))
(* monotone in both discounts *)
LMonotone == (Q.ok /\ referred /\ b < Unit) => Combine(factors[rank + 1], b + 1).v >= Q.v
=============================================================================
