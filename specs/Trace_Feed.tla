----------------------------- MODULE Trace_Feed -----------------------------
EXTENDS FeedProps, TraceLib
VARIABLE i
Init == i = 0
Next ==
  /\ i < NRec
  /\ i' = i + 1
  /\ LET e == Rec[i'] IN
       /\ Judge(i', << <<"NoPanic", MonNoPanic(e)>>,
                       <<"TsMonotone", MonTsMonotone(e)>>,
                       <<"StoredValid", MonStoredValid(e)>>,
                       <<"RejectedUnchanged", MonRejectedUnchanged(e)>>,
                       <<"SkipUnchanged", MonSkipUnchanged(e)>>,
                       <<"IdemOlder", MonIdemOlder(e)>>,
                       <<"StoresRequest", MonStoresRequest(e)>>,
                       (* within a run the next step starts where the previous one ended *)
                       <<"Chain", (i' > 1 /\ ~e.reset) => e.pre = Rec[i' - 1].post>> >>)
       /\ Drift(i', Conforms(e), e.res)
Spec == Init /\ [][Next]_i
Done == Emit("DONE", [events |-> TLCGet("stats").diameter - 1])
=============================================================================
